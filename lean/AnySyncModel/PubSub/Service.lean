import AnySyncModel.PubSub.Trie
/-!
Serving side of `commonspace/pubsub/service.go` (relay role) together with the part of
`net/streampool` it relies on (per-stream tags, `SendById`, `Broadcast`), and the client receive path.

Identities are tokens: an account name (`A0`…) is a parsable public key whose account id is the
token itself; `-` is "no identity" (absent from the context / empty in the message); any token
starting with `!` is a byte string that does not unmarshal as a key.

The model describes the code WITH the repair of F-pubsub-empty-sub (a subscribe that accepts
nothing prunes the records it created).
-/
namespace AnySync.PubSub
open Generated.PubSub

/-! ### small association-list helpers (a Go map as a list of key/value pairs) -/

def alookup {κ β : Type} [DecidableEq κ] (k : κ) : List (κ × β) → Option β
  | [] => none
  | (k', v) :: rest => if k' = k then some v else alookup k rest

/-- `m[k] = v`: replace in place, else append -/
def aset {κ β : Type} [DecidableEq κ] (k : κ) (v : β) : List (κ × β) → List (κ × β)
  | [] => [(k, v)]
  | (k', v') :: rest => if k' = k then (k, v) :: rest else (k', v') :: aset k v rest

/-- `delete(m, k)` -/
def aerase {κ β : Type} [DecidableEq κ] (k : κ) : List (κ × β) → List (κ × β)
  | [] => []
  | (k', v') :: rest => if k' = k then aerase k rest else (k', v') :: aerase k rest

/-! ### identities -/

def isAccount (ident : String) : Bool := ident ≠ "-" && !(ident.toList.head? == some '!')

/-- `peer.CtxPubKey`: the account id, if the context identity unmarshals -/
def ctxAccount (ident : String) : Option String := if isAccount ident then some ident else none

/-! ### state -/

/-- `streamInterest` -/
structure StreamRec where
  account : String
  total : Nat
  bySpace : List (String × List String)

/-- `strm.bySpace[space]` (nil map entry = no patterns) -/
def StreamRec.pats (r : StreamRec) (space : String) : List String := (alookup space r.bySpace).getD []

/-- a stream registered in the pool -/
structure PoolStream where
  sid : Nat
  peer : String
  ident : String
  tags : List String

structure NodeSt where
  capSpace : Nat := 0
  capStream : Nat := 0
  burst : Nat := 0
  remote : List (String × Trie) := []
  streams : List (Nat × StreamRec) := []
  pool : List PoolStream := []
  members : List (String × String) := []
  notResp : List String := []
  nodePeers : List String := []
  rateUsed : List (String × Nat) := []

/-- `interestTag` -/
def interestTag (space pattern : String) : String := space ++ "/" ++ pattern

inductive Code where
  | notAMember | notResponsible | rateLimited | tooManyTopics | invalidMessage | topicNotOwned | invalidTopic
  deriving DecidableEq, Repr

/-- a Status frame as observed: receiving stream, code, space, topics, whether a msgId is echoed -/
structure StatusObs where
  sid : Nat
  code : Code
  space : String
  topics : List String
  hasMsgId : Bool

structure Obs where
  delivered : List Nat := []       -- one entry per copy written to a stream
  forwards : List Bool := []       -- Relayed flag of each copy sent to the other responsible nodes
  statuses : List StatusObs := []

namespace NodeSt

def isMember (s : NodeSt) (space acct : String) : Bool := s.members.contains (space, acct)

def poolStream (s : NodeSt) (sid : Nat) : Option PoolStream := s.pool.find? (·.sid = sid)

/-- `pool.SendById(peerId)`: the first stream of the peer (pool order) takes the frame -/
def statusTarget (s : NodeSt) (peer : String) : Option Nat := (s.pool.find? (·.peer = peer)).map (·.sid)

def sendStatus (s : NodeSt) (peer : String) (code : Code) (space : String) (topics : List String)
    (hasMsgId : Bool) : List StatusObs :=
  match s.statusTarget peer with
  | some sid => [⟨sid, code, space, topics, hasMsgId⟩]
  | none => []

/-- `AddTagsCtx`: `none` when the stream is not in the pool -/
def addTags (s : NodeSt) (sid : Nat) (tags : List String) : Option NodeSt :=
  match s.poolStream sid with
  | none => none
  | some _ =>
    some { s with pool := s.pool.map (fun st =>
      if st.sid = sid then { st with tags := tags.foldl (fun acc t => if acc.contains t then acc else acc ++ [t]) st.tags } else st) }

/-- `RemoveTagsCtx` / `RemoveTagsById` (missing stream: nothing happens) -/
def removeTags (s : NodeSt) (sid : Nat) (tags : List String) : NodeSt :=
  { s with pool := s.pool.map (fun st =>
      if st.sid = sid then { st with tags := st.tags.filter (fun t => !tags.contains t) } else st) }

def getTrie (s : NodeSt) (space : String) : Option Trie := alookup space s.remote

/-- `pruneSpace` -/
def pruneSpace (remote : List (String × Trie)) (space : String) : List (String × Trie) :=
  match alookup space remote with
  | some t => if t.size = 0 then aerase space remote else remote
  | none => remote

/-- `pruneStream` -/
def pruneStream (streams : List (Nat × StreamRec)) (sid : Nat) : List (Nat × StreamRec) :=
  match alookup sid streams with
  | some r => if r.total = 0 then aerase sid streams else streams
  | none => streams

end NodeSt

/-- `removeStreamPattern` on a stream record and a space trie -/
def removeStreamPattern (r : StreamRec) (t : Trie) (space pattern : String) : StreamRec × Trie × Bool :=
  match alookup space r.bySpace with
  | none => (r, t, false)
  | some pats =>
    if pats.contains pattern then
      let pats' := pats.erase pattern
      let by' := if pats'.isEmpty then aerase space r.bySpace else aset space pats' r.bySpace
      ({ r with total := r.total - 1, bySpace := by' }, (t.remove pattern).1, true)
    else (r, t, false)

/-- the accept loop of `handleSubscribe`: returns patterns of the space, total, trie, accepted, rejected -/
def acceptLoop (capSpace capStream : Nat) :
    List String → List String → Nat → Trie → List String → List String × Nat × Trie × List String × List String
  | [], pats, total, t, acc => (pats, total, t, acc, [])
  | p :: rest, pats, total, t, acc =>
    if pats.contains p then acceptLoop capSpace capStream rest pats total t acc
    else if pats.length ≥ capSpace ∨ total ≥ capStream then (pats, total, t, acc, p :: rest)
    else acceptLoop capSpace capStream rest (pats ++ [p]) (total + 1) (t.add p).1 (acc ++ [p])

namespace NodeSt

/-- undo of one accepted pattern when the stream vanished before tagging (`removeStreamPattern`) -/
def rollbackStep (space : String) (acc : StreamRec × Trie) (p : String) : StreamRec × Trie :=
  ((removeStreamPattern acc.1 acc.2 space p).1, (removeStreamPattern acc.1 acc.2 space p).2.1)

/-- the part of `handleSubscribe` that runs under `remoteMu` once all checks passed: records are
created, the accept loop runs, tags are registered (or the interest rolled back when the stream is
gone), and — repaired code — empty records are dropped when nothing was accepted.
Returns the new state and the rejected patterns. -/
def subscribeCore (s : NodeSt) (sid : Nat) (space : String) (topics : List String) (acct : String) :
    NodeSt × List String :=
  let t := (s.getTrie space).getD Trie.empty
  let rec0 := (alookup sid s.streams).getD ⟨acct, 0, []⟩
  let res := acceptLoop s.capSpace s.capStream topics (rec0.pats space) rec0.total t []
  let pats := res.1
  let t' := res.2.2.1
  let accepted := res.2.2.2.1
  let rec1 : StreamRec := { rec0 with total := res.2.1, bySpace := aset space pats rec0.bySpace }
  let s1 : NodeSt := { s with remote := aset space t' s.remote, streams := aset sid rec1 s.streams }
  let s2 : NodeSt :=
    if accepted.isEmpty then
      -- repaired code: drop the empty records created above
      let rec2 : StreamRec := if pats.isEmpty then { rec1 with bySpace := aerase space rec1.bySpace } else rec1
      { s1 with streams := pruneStream (aset sid rec2 s1.streams) sid, remote := pruneSpace s1.remote space }
    else
      match s1.addTags sid (accepted.map (interestTag space)) with
      | some s' => s'
      | none =>
        -- the stream vanished: undo the interest
        let rb := accepted.foldl (rollbackStep space) (rec1, t')
        { s1 with streams := pruneStream (aset sid rb.1 s1.streams) sid,
                  remote := pruneSpace (aset space rb.2 s1.remote) space }
  (s2, res.2.2.2.2)

/-- `handleSubscribe` for a frame read from stream `sid` (peer / identity are the stream's). -/
def handleSubscribe (s : NodeSt) (sid : Nat) (peer ident : String) (space : String) (topics : List String) :
    NodeSt × Obs :=
  match ctxAccount ident with
  | none => (s, { statuses := s.sendStatus peer .invalidMessage space topics false })
  | some acct =>
    if !validSpaceId space then (s, { statuses := s.sendStatus peer .invalidTopic space topics false })
    else if s.notResp.contains space then (s, { statuses := s.sendStatus peer .notResponsible space topics false })
    else if !(topics.all validatePattern) then (s, { statuses := s.sendStatus peer .invalidTopic space topics false })
    else if !s.isMember space acct then (s, { statuses := s.sendStatus peer .notAMember space topics false })
    else
      let r := s.subscribeCore sid space topics acct
      (r.1, { statuses := if r.2.isEmpty then [] else s.sendStatus peer .tooManyTopics space r.2 false })

/-- `handleUnsubscribe` -/
def handleUnsubscribe (s : NodeSt) (sid : Nat) (space : String) (topics : List String) : NodeSt :=
  match alookup sid s.streams, s.getTrie space with
  | some rec0, some t =>
    let patterns := if topics.isEmpty then rec0.pats space else topics
    let (rec1, t1, removed) := patterns.foldl (fun (acc : StreamRec × Trie × List String) p =>
        let r := removeStreamPattern acc.1 acc.2.1 space p
        (r.1, r.2.1, if r.2.2 then acc.2.2 ++ [p] else acc.2.2)) (rec0, t, [])
    let s1 : NodeSt := { s with streams := pruneStream (aset sid rec1 s.streams) sid,
                                remote := pruneSpace (aset space t1 s.remote) space }
    if removed.isEmpty then s1 else s1.removeTags sid (removed.map (interestTag space))
  | _, _ => s

/-- the `seen` map of `Broadcast`: keep the first occurrence of every stream id -/
def dedupNat : List Nat → List Nat → List Nat
  | [], _ => []
  | x :: xs, seen => if seen.contains x then dedupNat xs seen else x :: dedupNat xs (x :: seen)

/-- `pool.Broadcast(tags…)`: streams carrying one of the tags; with more than one tag a stream is
taken once (`seen`), with a single tag the tag's stream list is taken as it is. -/
def broadcast (s : NodeSt) (tags : List String) : List Nat :=
  let all := tags.flatMap (fun tag => (s.pool.filter (fun st => st.tags.contains tag)).map (·.sid))
  if tags.length > 1 then dedupNat all [] else all

/-- `fanout` -/
def fanout (s : NodeSt) (space topic : String) : List Nat :=
  match s.getTrie space with
  | none => []
  | some t =>
    let pats := t.matchTopic topic
    if pats.isEmpty then [] else s.broadcast (pats.map (interestTag space))

/-- `rate.allow(peerId)` with a negligible refill: `burst` tokens per peer -/
def rateAllow (s : NodeSt) (peer : String) : NodeSt × Bool :=
  let used := (alookup peer s.rateUsed).getD 0
  if used < s.burst then ({ s with rateUsed := aset peer (used + 1) s.rateUsed }, true) else (s, false)

/-- `handlePublish` + `relayPublish`. `msgIdent` is the identity field of the message, `idLenOk` /
`big` the frame-level conditions (`len(MsgId) == msgIdLen`, payload over `MaxPayloadSize`). -/
def handlePublish (s : NodeSt) (peer ident : String) (space topic msgIdent : String)
    (relayed idLenOk big : Bool) : NodeSt × Obs :=
  let reject (code : Code) : NodeSt × Obs := (s, { statuses := s.sendStatus peer code space [topic] true })
  if !idLenOk || big then reject .invalidMessage
  else if !validateTopic topic then reject .invalidTopic
  else if s.notResp.contains space then reject .notResponsible
  else if relayed then
    if !s.nodePeers.contains peer then (s, {})
    else (s, { delivered := s.fanout space topic })
  else if ident = "-" || msgIdent = "-" || ident ≠ msgIdent then reject .invalidMessage
  else
    match ctxAccount ident with
    | none => reject .notAMember
    | some acct =>
      if !s.isMember space acct then reject .notAMember
      else if topicOwner topic ≠ "" && acct ≠ topicOwner topic then reject .topicNotOwned
      else
        match s.rateAllow peer with
        | (s', false) => (s', { statuses := s.sendStatus peer .rateLimited space [topic] true })
        | (s', true) => (s', { delivered := s'.fanout space topic, forwards := [true] })

/-- `streamPool.removeStream` up to the point where the hook is called: the pool forgets the stream
(its tags go with it). This happens under the pool's own lock only, so it can fall between any two
critical sections of the service — and inside `handleSubscribe` / `evictSpaceStreams` / `CloseSpace`,
which hold `remoteMu` while they call into the pool. -/
def poolRemove (s : NodeSt) (sid : Nat) : NodeSt := { s with pool := s.pool.filter (·.sid ≠ sid) }

/-- `onStreamClose` (runs under `remoteMu`, after the pool removal) -/
def onStreamClose (s : NodeSt) (sid : Nat) : NodeSt :=
  match alookup sid s.streams with
  | none => s
  | some r =>
    let remote := r.bySpace.foldl (fun (rem : List (String × Trie)) (sp : String × List String) =>
      match alookup sp.1 rem with
      | none => rem
      | some t =>
        let t' := t.removeAll sp.2
        pruneSpace (aset sp.1 t' rem) sp.1) s.remote
    { s with remote := remote, streams := aerase sid s.streams }

/-- a stream close with nothing in between: pool removal, then the hook -/
def closeStream (s : NodeSt) (sid : Nat) : NodeSt := (s.poolRemove sid).onStreamClose sid

/-- body of the `for streamId, strm := range s.streams` loops of `evictSpaceStreams` / `CloseSpace`
for one stream that is hit: the space entry goes, `total` drops by its size -/
def dropSpaceRec (space : String) (r : StreamRec) : StreamRec :=
  { r with total := r.total - (r.pats space).length, bySpace := aerase space r.bySpace }

/-- `evictSpaceStreams`: every stream that has patterns in the space and satisfies `evict` loses them
(record entry, trie references if the space has a trie, routing tags); a record whose `total` reaches
zero is deleted; finally the space trie is pruned. The iterations of the Go loop are independent
(each touches only its own stream), so the loop is rendered as one pass over the stream list. -/
def evictSpaceStreams (s : NodeSt) (space : String) (evict : StreamRec → Bool) : NodeSt :=
  let hit := fun (e : Nat × StreamRec) => !(e.2.pats space).isEmpty && evict e.2
  let victims := s.streams.filter hit
  let streams' := s.streams.filterMap (fun e =>
    if hit e then (if (dropSpaceRec space e.2).total = 0 then none else some (e.1, dropSpaceRec space e.2))
    else some e)
  let remote' := match alookup space s.remote with
    | some t => aset space (victims.foldl (fun (t : Trie) e => t.removeAll (e.2.pats space)) t) s.remote
    | none => s.remote
  let pool' := s.pool.map (fun st =>
    match alookup st.sid victims with
    | some r => { st with tags := st.tags.filter (fun tg => !((r.pats space).map (interestTag space)).contains tg) }
    | none => st)
  { s with streams := streams', remote := pruneSpace remote' space, pool := pool' }

def evictMember (s : NodeSt) (space acct : String) : NodeSt :=
  s.evictSpaceStreams space (fun r => r.account = acct)

def revalidate (s : NodeSt) (space : String) : NodeSt :=
  s.evictSpaceStreams space (fun r => !s.isMember space r.account)

/-- serving-side part of `CloseSpace`: `delete(s.remote, spaceId)`, then the same per-stream loop body
as `evictSpaceStreams` for every stream with patterns in the space (no trie is left to touch) -/
def closeSpace (s : NodeSt) (space : String) : NodeSt :=
  ({ s with remote := aerase space s.remote } : NodeSt).evictSpaceStreams space (fun _ => true)

def openStream (s : NodeSt) (sid : Nat) (peer ident : String) : NodeSt :=
  { s with pool := s.pool ++ [⟨sid, peer, ident, []⟩] }

def setMember (s : NodeSt) (space acct : String) (v : Bool) : NodeSt :=
  let m := s.members.filter (· ≠ (space, acct))
  { s with members := if v then m ++ [(space, acct)] else m }

end NodeSt

/-! ### client side -/

structure ClientSt where
  dedupSize : Nat := 0
  cap : Nat := 0
  self : String := ""
  subs : List (String × List (String × List Nat)) := []   -- space → pattern → handler ids
  tries : List (String × Trie) := []
  topics : List (String × Nat) := []
  ring : List Nat := []                                   -- recorded ids, oldest first
  members : List (String × String) := []
  fresh : Nat := 1000000000                               -- ids of own publishes (never collide)

inductive TsClass where | fresh | past | future | zero
  deriving DecidableEq

namespace ClientSt

/-- `msgIdDedup.seen` as a FIFO of at most `dedupSize` ids -/
def seen (s : ClientSt) (id : Nat) : ClientSt × Bool :=
  if s.ring.contains id then (s, true)
  else
    let r := s.ring ++ [id]
    ({ s with ring := if r.length > s.dedupSize then r.drop 1 else r }, false)

def isMember (s : ClientSt) (space acct : String) : Bool := s.members.contains (space, acct)

/-- `Subscribe` -/
def subscribe (s : ClientSt) (h : Nat) (space pattern : String) : ClientSt × String :=
  if !validatePattern pattern then (s, "InvalidTopic")
  else if (alookup space s.topics).getD 0 ≥ s.cap then (s, "TooManyTopics")
  else
    let t := (alookup space s.tries).getD Trie.empty
    let m := (alookup space s.subs).getD []
    let hs := (alookup pattern m).getD []
    let first := hs.isEmpty
    let m' := aset pattern (hs ++ [h]) m
    let t' := if first then (t.add pattern).1 else t
    let n := (alookup space s.topics).getD 0
    ({ s with subs := aset space m' s.subs, tries := aset space t' s.tries,
              topics := if first then aset space (n + 1) s.topics else s.topics }, "ok")

/-- `unsubscribe(spaceId, pattern, id)` for a live subscription -/
def unsubscribe (s : ClientSt) (h : Nat) (space pattern : String) : ClientSt :=
  let m := (alookup space s.subs).getD []
  let hs := ((alookup pattern m).getD []).erase h
  if hs.isEmpty then
    let m' := aerase pattern m
    match alookup space s.tries with
    | some t =>
      let t' := (t.remove pattern).1
      let n := (alookup space s.topics).getD 0
      if t'.size = 0 then
        { s with subs := aerase space s.subs, tries := aerase space s.tries, topics := aerase space s.topics }
      else
        { s with subs := aset space m' s.subs, tries := aset space t' s.tries, topics := aset space (n - 1) s.topics }
    | none => { s with subs := if (alookup space s.subs).isSome then aset space m' s.subs else s.subs }
  else { s with subs := aset space (aset pattern hs m) s.subs }

/-- client part of `CloseSpace` -/
def closeSpace (s : ClientSt) (space : String) : ClientSt :=
  { s with subs := aerase space s.subs, tries := aerase space s.tries, topics := aerase space s.topics }

/-- handlers run by the dispatch loop for an item with the matched patterns -/
def handlersFor (s : ClientSt) (space : String) (patterns : List String) : List Nat :=
  let m := (alookup space s.subs).getD []
  patterns.flatMap (fun p => (alookup p m).getD [])

def localMatch (s : ClientSt) (space topic : String) : List String :=
  match alookup space s.tries with
  | some t => t.matchTopic topic
  | none => []

/-- `isStale` with the harness' timestamp classes (an hour off is outside the five-minute skew) -/
def stale : TsClass → Bool
  | .past => true | .future => true | .fresh => false | .zero => false

/-- `handlePublish` (client role) + `receivePublish`. `claimed` is the identity field; `sigOk` says
whether the signature verifies under the claimed key (symbolic crypto). Returns the handlers run. -/
def receive (s : ClientSt) (space topic claimed : String) (sigOk : Bool) (ts : TsClass) (id : Nat)
    (keyId : Bool) : ClientSt × List Nat :=
  if !validateTopic topic then (s, [])
  else
    let pats := s.localMatch space topic
    if pats.isEmpty then (s, [])
    else match ctxAccount claimed with
      | none => (s, [])
      | some acct =>
        if !s.isMember space acct then (s, [])
        else if topicOwner topic ≠ "" && acct ≠ topicOwner topic then (s, [])
        else if stale ts then (s, [])
        else if !sigOk then (s, [])
        else
          match s.seen id with
          | (s', true) => (s', [])
          | (s', false) => if keyId then (s', []) else (s', s'.handlersFor space pats)

/-- `Publish` (no peers): result string and local handlers run -/
def publish (s : ClientSt) (space topic : String) (big : Bool) : ClientSt × String × List Nat :=
  if !validateTopic topic then (s, "InvalidTopic", [])
  else if big then (s, "InvalidMessage", [])
  else if topicOwner topic ≠ "" && topicOwner topic ≠ s.self then (s, "TopicNotOwned", [])
  else
    let s' := (s.seen s.fresh).1
    let s'' := { s' with fresh := s'.fresh + 1 }
    (s'', "ok", s''.handlersFor space (s''.localMatch space topic))

/-- the harness' barrier: one own publish in a private space -/
def flush (s : ClientSt) : ClientSt :=
  let s' := (s.seen s.fresh).1
  { s' with fresh := s'.fresh + 1 }

def setMember (s : ClientSt) (space acct : String) (v : Bool) : ClientSt :=
  let m := s.members.filter (· ≠ (space, acct))
  { s with members := if v then m ++ [(space, acct)] else m }

end ClientSt

end AnySync.PubSub
