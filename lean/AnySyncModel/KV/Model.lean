/-
Model of the space key-value store (C12):
  commonspace/object/keyvalue/keyvaluestorage/storage.go            (`Set`, `SetRaw`)
  commonspace/object/keyvalue/keyvaluestorage/innerstorage/*.go     (`KeyValueFromProto`, `Set`, `updateValues`)
  commonspace/object/keyvalue/keyvalue.go                           (`syncWithPeer`, `HandleStoreElementsRequest`)

The model mirrors the Go control flow as it is AFTER the three `fix:` patches of this area
(F-kv-relabel, F-kv-noperm, F-kv-tsrange):

* `fromProto`      = `KeyValueFromProto(proto, verify = true)`: unmarshal, timestamp range, envelope id
                     equals the slot named in the signed bytes, identity signature, peer signature.
                     All results of real cryptography / protobuf decoding are DATA (flags on `Val`)
                     supplied by the harness; the model never computes a signature.
* `setRaw`         = `storage.SetRaw`: invalid elements are skipped (not an abort); an element is dropped
                     when the in-memory index already holds a head ≥ the element's timestamp (compared as
                     big-endian `uint64`), when the cited ACL record is unknown, or when the signing
                     account had no write permission at that record; nothing left ⇒ no transaction.
* `innerSet`       = `innerstorage.Set`: one write transaction; `updateValues` upserts the values that win
                     the (int64) timestamp comparison against the *pending* collection state, the index is
                     updated afterwards, the heads entry is written inside the tx; when the tx fails after the
                     index was touched the index mutations are undone (prior heads restored in reverse, inserted
                     ids removed).
* `exchange`       = one `syncWithPeer`: diff of the two indexes (the ldiff recursion itself is C07's
                     subject; here its *result* is taken to be the exact classification of ids), push of
                     ours-only / ours-newer values, pull of theirs-only / theirs-newer values in batches.

Storage faults are a parameter (`Fault`): the place where the wrapped any-store fails.
No Mathlib; everything is computable (the driver links this file).
-/
import AnySyncModel.Generated.KVShape

namespace AnySync.KV

/-- One wire value. `slot` is the interned envelope `KeyPeerId`, `innerSlot` the interned
`inner.Key + "-" + peerId(inner.Peer)`; the five flags are the outcomes of decoding, of the two
Ed25519 verifications over exactly `proto.Value`, of `ReadKeyForAclId(inner.AclHeadId)` and of
`PermissionsAtRecord(inner.AclHeadId, identity).CanWrite()`. -/
structure Val where
  vid       : Nat
  slot      : Nat
  innerSlot : Nat
  ts        : Int
  decodes   : Bool
  idSigOk   : Bool
  peerSigOk : Bool
  aclKnown  : Bool
  canWrite  : Bool
deriving DecidableEq, Repr, Inhabited

/-- anyenc numbers are float64: timestamps are exact only below 2^53 -/
def tsLimit : Int := 9007199254740992

/-- `uint64(ts)` for an `int64` -/
def headOf (ts : Int) : Nat := (ts % 18446744073709551616).toNat

/-! ### association lists (doc id ↦ doc; element id ↦ head) -/

def lookup {α : Type} : List (Nat × α) → Nat → Option α
  | [], _ => none
  | (k', v) :: m, k => if k' = k then some v else lookup m k

/-- replace in place, or append -/
def upsert {α : Type} : List (Nat × α) → Nat → α → List (Nat × α)
  | [], k, v => [(k, v)]
  | (k', v') :: m, k, v => if k' = k then (k, v) :: m else (k', v') :: upsert m k v

def erase {α : Type} : List (Nat × α) → Nat → List (Nat × α)
  | [], _ => []
  | (k', v') :: m, k => if k' = k then erase m k else (k', v') :: erase m k

abbrev Store := List (Nat × Val)
abbrev Index := List (Nat × Nat)

structure State where
  store : Store := []
  index : Index := []
  /-- the index whose hash the heads entry holds (written inside the transaction) -/
  adv   : Index := []
deriving Repr, Inhabited

def State.init : State := {}

inductive Fault where
  | none
  | begin            -- `collection.WriteTx` fails
  | find (k : Nat)   -- the k-th `FindIdWithParser` of the call fails
  | upsert (k : Nat) -- the k-th `UpsertOne` of the call fails
  | head             -- `headStorage.UpdateEntry` fails
  | commit           -- `tx.Commit` fails
deriving DecidableEq, Repr

/-- `KeyValueFromProto(proto, true)` returns no error -/
def fromProto (v : Val) : Bool :=
  v.decodes && decide (0 ≤ v.ts) && decide (v.ts < tsLimit) && decide (v.slot = v.innerSlot)
    && v.idSigOk && v.peerSigOk

/-- `el, err := Diff().Element(id); err == nil && el.Head >= bigEndian(uint64(ts))` -/
def indexBlocks (idx : Index) (v : Val) : Bool :=
  match lookup idx v.slot with
  | some h => decide (h ≥ headOf v.ts)
  | none => false

/-- the second loop of `SetRaw` (after the fix: the permission check sits next to `ReadKeyForAclId`) -/
def passes (idx : Index) (v : Val) : Bool :=
  !indexBlocks idx v && v.aclKnown && v.canWrite

/-- what `updateValues` hands back: the pending collection state, the new diff elements, and what is
needed to undo them (prior heads of replaced elements, ids that were not present) -/
structure Upd where
  pend     : Store
  elements : List (Nat × Nat) := []
  prior    : List (Nat × Nat) := []
  added    : List Nat := []
deriving Repr

/-- `updateValues`; `none` = the injected fault fired (the caller rolls back). `nf` / `nu` count the
`FindIdWithParser` / `UpsertOne` calls made so far in this transaction. -/
def updateValues (f : Fault) : List Val → Store → Nat → Nat → Option Upd
  | [], pend, _, _ => some { pend := pend }
  | v :: rest, pend, nf, nu =>
    if f = .find nf then none else
    match lookup pend v.slot with
    | some e =>
      if e.ts ≥ v.ts then updateValues f rest pend (nf + 1) nu
      else if f = .upsert nu then none
      else (updateValues f rest (upsert pend v.slot v) (nf + 1) (nu + 1)).map fun o =>
        { o with elements := (v.slot, headOf v.ts) :: o.elements, prior := (v.slot, headOf e.ts) :: o.prior }
    | none =>
      if f = .upsert nu then none
      else (updateValues f rest (upsert pend v.slot v) (nf + 1) (nu + 1)).map fun o =>
        { o with elements := (v.slot, headOf v.ts) :: o.elements, added := v.slot :: o.added }

/-- `diff.Set(elements...)` on the id ↦ head view -/
def applyEls (idx : Index) (els : List (Nat × Nat)) : Index :=
  els.foldl (fun m e => upsert m e.1 e.2) idx

/-- the deferred undo of `innerstorage.Set`: prior heads in reverse, then drop the inserted ids -/
def undo (idx : Index) (prior : List (Nat × Nat)) (added : List Nat) : Index :=
  added.foldl erase (prior.reverse.foldl (fun m e => upsert m e.1 e.2) idx)

/-- `innerstorage.Set`; the Bool says whether it returned nil -/
def innerSet (f : Fault) (vals : List Val) (s : State) : State × Bool :=
  if f = .begin then (s, false) else
  match updateValues f vals s.store 0 0 with
  | none => (s, false)
  | some u =>
    let idx := applyEls s.index u.elements
    if f = .head ∨ f = .commit then
      ({ s with index := if u.elements.isEmpty then idx else undo idx u.prior u.added }, false)
    else ({ store := u.pend, index := idx, adv := idx }, true)

inductive Res where
  | ok (forwarded : List Nat)   -- nil error; the vids handed to inner.Set / broadcast
  | err                          -- storage error
  | perm                         -- local Set without write permission
deriving DecidableEq, Repr

/-- `storage.SetRaw(batch...)` -/
def setRaw (f : Fault) (batch : List Val) (s : State) : State × Res :=
  let kvs := (batch.filter fromProto).filter (passes s.index)
  if kvs.isEmpty then (s, .ok []) else
  let r := innerSet f kvs s
  if r.2 then (r.1, .ok (kvs.map (·.vid))) else (r.1, .err)

/-- `storage.Set(key, value)`: `own` = `Permissions(state.Identity()).CanWrite()`; `v` is the value the
store signed itself (timestamp chosen by the implementation and passed in as data) -/
def localSet (f : Fault) (own : Bool) (v : Val) (s : State) : State × Res :=
  if !own then (s, .perm) else
  let r := innerSet f [v] s
  if r.2 then (r.1, .ok [v.vid]) else (r.1, .err)

/-! ### one sync exchange -/

def keys {α : Type} (m : List (Nat × α)) : List Nat := m.map (·.1)

/-- ids only we have, or where our head is the greater one: we push their values.
(`removedIds ++ changedIds` of `CompareDiff`; the ldiff recursion that computes it is C07's subject) -/
def pushIds (mine theirs : Index) : List Nat :=
  (keys mine).filter fun k =>
    match lookup mine k, lookup theirs k with
    | some hm, some ht => decide (ht < hm)
    | some _, none => true
    | none, _ => false

/-- ids only they have, or where their head is the greater one: we ask for their values
(`theirChangedIds ++ newIds`) -/
def pullIds (mine theirs : Index) : List Nat := pushIds theirs mine

def valuesAt (st : Store) (ids : List Nat) : List Val := ids.filterMap (lookup st)

/-- split into batches of `n` (fuel = length) -/
def chunks {α : Type} (n : Nat) : Nat → List α → List (List α)
  | 0, _ => []
  | fuel + 1, l => if l.isEmpty then [] else l.take (n + 1) :: chunks n fuel (l.drop (n + 1))

/-- `const applyBatchSize`, regenerated from keyvalue.go on every run -/
def applyBatchSize : Nat := Generated.KV.applyBatchSize

/-- client `a` runs `syncWithPeer` against server `b`, given the two id lists the diff returned:
`push` = `removedIds ++ changedIds` (values we send), `pull` = `theirChangedIds ++ newIds` (values we
ask for). `fb` is a storage fault hitting the server's single `SetRaw` of the pushed values (the
client side runs without faults). -/
def exchangeIds (fb : Fault) (push pull : List Nat) (a b : State) : State × State :=
  let pushed := valuesAt a.store push
  let pulled := valuesAt b.store pull
  let b' := (setRaw fb pushed b).1
  let a' := (chunks (applyBatchSize - 1) pulled.length pulled).foldl (fun s batch => (setRaw .none batch s).1) a
  (a', b')

/-- … with the id lists taken from the abstract classification (`KV/LdiffBridge.lean` discharges
this against the real diff recursion of the `Ldiff` model) -/
def exchangeF (fb : Fault) (a b : State) : State × State :=
  exchangeIds fb (pushIds a.index b.index) (pullIds a.index b.index) a b

/-- one fault-free exchange -/
def exchange (a b : State) : State × State := exchangeF .none a b

end AnySync.KV
