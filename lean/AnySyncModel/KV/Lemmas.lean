import AnySyncModel.KV.Spec

namespace AnySync.KV

/-! ### the entry order is a total order, `maxE` its maximum -/

theorem maxE_comm (a b : Entry) : maxE a b = maxE b a := by
  obtain ⟨a1, a2⟩ := a; obtain ⟨b1, b2⟩ := b
  unfold maxE; simp only
  split <;> split <;> first | rfl | (simp only [Prod.mk.injEq]; omega) | (exfalso; omega)

theorem maxE_idem (a : Entry) : maxE a a = a := by
  unfold maxE; split <;> rfl

theorem maxE_assoc (a b c : Entry) : maxE (maxE a b) c = maxE a (maxE b c) := by
  obtain ⟨a1, a2⟩ := a; obtain ⟨b1, b2⟩ := b; obtain ⟨c1, c2⟩ := c
  unfold maxE; simp only
  repeat' split
  all_goals first | rfl | (simp only [Prod.mk.injEq]; omega) | (exfalso; omega)

theorem maxO_comm (a b : Option Entry) : maxO a b = maxO b a := by
  cases a <;> cases b <;> simp [maxO, maxE_comm]

theorem maxO_idem (a : Option Entry) : maxO a a = a := by
  cases a <;> simp [maxO, maxE_idem]

theorem maxO_assoc (a b c : Option Entry) : maxO (maxO a b) c = maxO a (maxO b c) := by
  cases a <;> cases b <;> cases c <;> simp [maxO, maxE_assoc]

theorem maxO_none_left (a : Option Entry) : maxO none a = a := by cases a <;> rfl
theorem maxO_none_right (a : Option Entry) : maxO a none = a := by cases a <;> rfl

end AnySync.KV
