/-
Helper lemmas for C12 (no property theorems here): association lists, the `updateValues` loop
(index update / undo / rows / contents as merge), `innerSet` / `setRaw` / `localSet` invariants, the
LWW semilattice, histories, one exchange.
-/
import AnySyncModel.KV.Spec

namespace AnySync.KV

/-! ### the entry order is a total order, `maxE` its maximum -/

theorem maxE_comm (a b : Entry) : maxE a b = maxE b a := by
  obtain ⟨a1, a2⟩ := a; obtain ⟨b1, b2⟩ := b
  unfold maxE; simp only
  split <;> split <;> first | rfl | (simp only [Prod.mk.injEq]; omega) | (exfalso; omega)

theorem maxE_idem (a : Entry) : maxE a a = a := by
  unfold maxE; split <;> rfl

theorem maxE_assoc (a b c : Entry) : maxE (maxE a b) c = maxE a (maxE b c) := by
  obtain ⟨a1, a2⟩ := a; obtain ⟨b1, b2⟩ := b; obtain ⟨c1, c2⟩ := c
  unfold maxE; simp only
  repeat' split
  all_goals first | rfl | (simp only [Prod.mk.injEq]; omega) | (exfalso; omega)

theorem maxO_comm (a b : Option Entry) : maxO a b = maxO b a := by
  cases a <;> cases b <;> simp [maxO, maxE_comm]

theorem maxO_idem (a : Option Entry) : maxO a a = a := by
  cases a <;> simp [maxO, maxE_idem]

theorem maxO_assoc (a b c : Option Entry) : maxO (maxO a b) c = maxO a (maxO b c) := by
  cases a <;> cases b <;> cases c <;> simp [maxO, maxE_assoc]

theorem maxO_none_left (a : Option Entry) : maxO none a = a := by cases a <;> rfl
theorem maxO_none_right (a : Option Entry) : maxO a none = a := by cases a <;> rfl

theorem lookup_upsert {α : Type} (m : List (Nat × α)) (k k' : Nat) (v : α) :
    lookup (upsert m k v) k' = if k = k' then some v else lookup m k' := by
  induction m with
  | nil => simp [upsert, lookup]
  | cons p m ih =>
    obtain ⟨a, b⟩ := p
    simp only [upsert]
    by_cases h : a = k
    · subst h; simp only [if_true, lookup]; split <;> simp_all
    · simp only [h, if_false, lookup]
      by_cases h2 : a = k'
      · subst h2; simp [Ne.symm h]
      · simp [h2, ih]

theorem lookup_erase {α : Type} (m : List (Nat × α)) (k k' : Nat) :
    lookup (erase m k) k' = if k = k' then none else lookup m k' := by
  induction m with
  | nil => simp [erase, lookup]
  | cons p m ih =>
    obtain ⟨a, b⟩ := p
    simp only [erase]
    by_cases h : a = k
    · subst h; simp only [if_true, ih, lookup]; split <;> simp_all
    · simp only [h, if_false, lookup]
      by_cases h2 : a = k'
      · subst h2; simp [Ne.symm h]
      · simp [h2, ih]

/-- first binding of `k` in a list of pairs (what "restore in reverse" leaves behind) -/
theorem lookup_foldl_upsert_rev (l : List (Nat × Nat)) (m : Index) (k : Nat) :
    lookup (l.reverse.foldl (fun m e => upsert m e.1 e.2) m) k =
      match lookup l k with
      | some h => some h
      | none => lookup m k := by
  induction l with
  | nil => simp [lookup]
  | cons p l ih =>
    obtain ⟨a, b⟩ := p
    simp only [List.reverse_cons, List.foldl_append, List.foldl_cons, List.foldl_nil, lookup_upsert, lookup]
    by_cases h : a = k
    · simp [h]
    · simp only [h, if_false]; exact ih

/-- last binding wins for `diff.Set(elements...)` -/
theorem lookup_applyEls_snoc (idx : Index) (els : List (Nat × Nat)) (e : Nat × Nat) (k : Nat) :
    lookup (applyEls idx (els ++ [e])) k = if e.1 = k then some e.2 else lookup (applyEls idx els) k := by
  simp [applyEls, List.foldl_append, lookup_upsert]

theorem lookup_foldl_erase (ks : List Nat) (m : Index) (k : Nat) :
    lookup (ks.foldl erase m) k = if k ∈ ks then none else lookup m k := by
  induction ks generalizing m with
  | nil => simp
  | cons a ks ih =>
    simp only [List.foldl_cons, ih, lookup_erase, List.mem_cons]
    by_cases h : k ∈ ks
    · simp [h]
    · by_cases h2 : a = k
      · simp [h2]
      · simp [h, h2, Ne.symm h2]

theorem lookup_undo (idx : Index) (prior : List (Nat × Nat)) (added : List Nat) (k : Nat) :
    lookup (undo idx prior added) k =
      if k ∈ added then none else
      match lookup prior k with
      | some h => some h
      | none => lookup idx k := by
  unfold undo
  rw [lookup_foldl_erase, lookup_foldl_upsert_rev]

theorem applyEls_cons (idx : Index) (e : Nat × Nat) (els : List (Nat × Nat)) :
    applyEls idx (e :: els) = applyEls (upsert idx e.1 e.2) els := rfl

theorem indexOf_upsert (st : Store) (v : Val) (k : Nat) :
    indexOf (upsert st v.slot v) k = if v.slot = k then some (headOf v.ts) else indexOf st k := by
  unfold indexOf; rw [lookup_upsert]; split <;> simp

/-- ids reported as "added" were absent from the collection when the transaction started -/
theorem updateValues_added_absent (f : Fault) (vals : List Val) :
    ∀ (pend : Store) (nf nu : Nat) (o : Upd), updateValues f vals pend nf nu = some o →
      ∀ a ∈ o.added, lookup pend a = none := by
  induction vals with
  | nil => intro pend nf nu o h; simp [updateValues] at h; subst h; simp
  | cons v rest ih =>
    intro pend nf nu o h a ha
    unfold updateValues at h
    split at h
    · simp at h
    · split at h
      · rename_i e he
        split at h
        · exact ih _ _ _ _ h a ha
        · split at h
          · simp at h
          · simp only [Option.map_eq_some_iff] at h
            obtain ⟨o', ho', rfl⟩ := h
            have := ih _ _ _ _ ho' a ha
            rw [lookup_upsert] at this
            split at this
            · simp at this
            · exact this
      · rename_i hn
        split at h
        · simp at h
        · simp only [Option.map_eq_some_iff] at h
          obtain ⟨o', ho', rfl⟩ := h
          simp only [List.mem_cons] at ha
          rcases ha with rfl | ha
          · exact hn
          · have := ih _ _ _ _ ho' a ha
            rw [lookup_upsert] at this
            split at this
            · simp at this
            · exact this

/-- success path: the updated index is the index of the pending collection;
    failure path: the undo restores exactly the index one started from -/
theorem updateValues_index (f : Fault) (vals : List Val) :
    ∀ (pend : Store) (nf nu : Nat) (o : Upd), updateValues f vals pend nf nu = some o →
      ∀ idx : Index, (∀ k, lookup idx k = indexOf pend k) →
        (∀ k, lookup (applyEls idx o.elements) k = indexOf o.pend k) ∧
        (∀ k, lookup (undo (applyEls idx o.elements) o.prior o.added) k = lookup idx k) := by
  induction vals with
  | nil =>
    intro pend nf nu o h idx hidx
    simp [updateValues] at h; subst h
    refine ⟨fun k => by simpa [applyEls] using hidx k, fun k => by simp [applyEls, undo]⟩
  | cons v rest ih =>
    intro pend nf nu o h idx hidx
    have hall := updateValues_added_absent f (v :: rest) pend nf nu o h
    unfold updateValues at h
    split at h
    · simp at h
    · split at h
      · rename_i e he
        split at h
        · exact ih _ _ _ _ h idx hidx
        · split at h
          · simp at h
          · simp only [Option.map_eq_some_iff] at h
            obtain ⟨o', ho', rfl⟩ := h
            have hidx1 : ∀ k, lookup (upsert idx v.slot (headOf v.ts)) k = indexOf (upsert pend v.slot v) k := by
              intro k; rw [lookup_upsert, indexOf_upsert, hidx k]
            obtain ⟨h1, h2⟩ := ih _ _ _ _ ho' _ hidx1
            refine ⟨fun k => by simpa [applyEls_cons] using h1 k, fun k => ?_⟩
            have h2k := h2 k
            simp only [applyEls_cons]
            rw [lookup_undo] at h2k ⊢
            simp only [lookup]
            by_cases hk : v.slot = k
            · subst hk
              have hna : v.slot ∉ o'.added := by
                intro hin
                have := hall v.slot hin
                rw [he] at this; simp at this
              simp only [hna, if_false, if_true]
              rw [hidx v.slot]; simp [indexOf, he]
            · simp only [hk, if_false]
              rw [h2k, lookup_upsert]; simp [hk]
      · rename_i hn
        split at h
        · simp at h
        · simp only [Option.map_eq_some_iff] at h
          obtain ⟨o', ho', rfl⟩ := h
          have hidx1 : ∀ k, lookup (upsert idx v.slot (headOf v.ts)) k = indexOf (upsert pend v.slot v) k := by
            intro k; rw [lookup_upsert, indexOf_upsert, hidx k]
          obtain ⟨h1, h2⟩ := ih _ _ _ _ ho' _ hidx1
          refine ⟨fun k => by simpa [applyEls_cons] using h1 k, fun k => ?_⟩
          have h2k := h2 k
          simp only [applyEls_cons]
          rw [lookup_undo] at h2k ⊢
          simp only [List.mem_cons]
          by_cases hk : k = v.slot
          · subst hk
            simp only [true_or, if_true]
            rw [hidx]; simp [indexOf, hn]
          · simp only [hk, false_or]
            rw [h2k, lookup_upsert]; simp [Ne.symm hk]

/-- every row of the pending collection is an old row or one of the written values, filed under its envelope slot -/
theorem updateValues_rows (f : Fault) (vals : List Val) :
    ∀ (pend : Store) (nf nu : Nat) (o : Upd), updateValues f vals pend nf nu = some o →
      ∀ k w, lookup o.pend k = some w → lookup pend k = some w ∨ (w ∈ vals ∧ w.slot = k) := by
  induction vals with
  | nil => intro pend nf nu o h k w hw; simp [updateValues] at h; subst h; exact Or.inl hw
  | cons v rest ih =>
    intro pend nf nu o h k w hw
    have step : ∀ o', updateValues f rest (upsert pend v.slot v) (nf + 1) (nu + 1) = some o' → o'.pend = o.pend →
        lookup pend k = some w ∨ (w ∈ v :: rest ∧ w.slot = k) := by
      intro o' ho' hp
      rcases ih _ _ _ _ ho' k w (hp ▸ hw) with h1 | ⟨h1, h2⟩
      · rw [lookup_upsert] at h1
        split at h1
        · rename_i hk; simp at h1; subst h1; exact Or.inr ⟨by simp, hk⟩
        · exact Or.inl h1
      · exact Or.inr ⟨by simp [h1], h2⟩
    unfold updateValues at h
    split at h
    · simp at h
    · split at h
      · split at h
        · rcases ih _ _ _ _ h k w hw with h1 | ⟨h1, h2⟩
          · exact Or.inl h1
          · exact Or.inr ⟨by simp [h1], h2⟩
        · split at h
          · simp at h
          · simp only [Option.map_eq_some_iff] at h
            obtain ⟨o', ho', rfl⟩ := h
            exact step o' ho' rfl
      · split at h
        · simp at h
        · simp only [Option.map_eq_some_iff] at h
          obtain ⟨o', ho', rfl⟩ := h
          exact step o' ho' rfl

/-- without an injected fault the loop always completes -/
theorem updateValues_none_isSome (vals : List Val) :
    ∀ (pend : Store) (nf nu : Nat), ∃ o, updateValues .none vals pend nf nu = some o := by
  induction vals with
  | nil => intro pend nf nu; exact ⟨_, rfl⟩
  | cons v rest ih =>
    intro pend nf nu
    unfold updateValues
    simp only [reduceCtorEq, if_false]
    split
    · split
      · exact ih _ _ _
      · obtain ⟨o, ho⟩ := ih (upsert pend v.slot v) (nf + 1) (nu + 1)
        simp [ho]
    · obtain ⟨o, ho⟩ := ih (upsert pend v.slot v) (nf + 1) (nu + 1)
      simp [ho]

/-! ### contents as LWW merge -/

theorem merge_comm (a b : SMap) : merge a b = merge b a := by funext k; exact maxO_comm _ _
theorem merge_assoc (a b c : SMap) : merge (merge a b) c = merge a (merge b c) := by
  funext k; exact maxO_assoc _ _ _
theorem merge_idem (a : SMap) : merge a a = a := by funext k; exact maxO_idem _
theorem merge_empty_right (a : SMap) : merge a emptyMap = a := by funext k; exact maxO_none_right _
theorem merge_empty_left (a : SMap) : merge emptyMap a = a := by funext k; exact maxO_none_left _

theorem ofList_append (l1 l2 : List Val) : ofList (l1 ++ l2) = merge (ofList l1) (ofList l2) := by
  induction l1 with
  | nil => simp [ofList, merge_empty_left]
  | cons v l ih => simp [ofList, ih, merge_assoc]

/-- rows are filed under their envelope slot -/
def Filed (st : Store) : Prop := ∀ k v, lookup st k = some v → v.slot = k

/-- all rows of `st` come from the universe `U` -/
def RowsIn (st : Store) (U : List Val) : Prop := ∀ k v, lookup st k = some v → v ∈ U

theorem view_upsert (st : Store) (v : Val) (k : Nat) :
    view (upsert st v.slot v) k = if v.slot = k then some (entryOf v) else view st k := by
  unfold view; rw [lookup_upsert]; split <;> simp

/-- a value that loses (or ties with itself) against the stored row changes nothing -/
theorem merge_single_dominated (st : Store) (v e : Val) (U : List Val)
    (hf : Filed st) (hin : RowsIn st U) (hv : v ∈ U) (hd : TsDistinct U)
    (he : lookup st v.slot = some e) (hge : e.ts ≥ v.ts) :
    merge (view st) (single v) = view st := by
  funext k
  unfold merge single
  by_cases hk : k = v.slot
  · subst hk
    simp only [if_true, view, he, Option.map_some, maxO]
    congr 1
    unfold maxE entryOf; simp only
    split
    · rename_i h
      rcases h with h | ⟨h1, h2⟩
      · omega
      · have := hd e (hin _ _ he) v hv (hf _ _ he) h1
        simp [h1, this]
    · rfl
  · simp [hk, maxO_none_right]

theorem merge_single_wins (st : Store) (v : Val)
    (h : ∀ e, lookup st v.slot = some e → e.ts < v.ts) :
    merge (view st) (single v) = view (upsert st v.slot v) := by
  funext k
  rw [view_upsert]
  unfold merge single
  by_cases hk : k = v.slot
  · subst hk
    simp only [if_true, view]
    cases he : lookup st v.slot with
    | none => simp [maxO]
    | some e =>
      have := h e he
      simp only [Option.map_some, maxO]; congr 1
      unfold maxE entryOf; simp only
      split
      · rfl
      · rename_i hn; exfalso; apply hn; left; exact this
  · simp [hk, Ne.symm hk, maxO_none_right]

theorem updateValues_view (U : List Val) (hd : TsDistinct U) (f : Fault) (vals : List Val) :
    ∀ (pend : Store) (nf nu : Nat) (o : Upd), updateValues f vals pend nf nu = some o →
      Filed pend → RowsIn pend U → (∀ v ∈ vals, v ∈ U) →
      view o.pend = merge (view pend) (ofList vals) := by
  induction vals with
  | nil => intro pend nf nu o h _ _ _; simp [updateValues] at h; subst h; simp [ofList, merge_empty_right]
  | cons v rest ih =>
    intro pend nf nu o h hf hin hU
    have hvU : v ∈ U := hU v (by simp)
    have hrest : ∀ w ∈ rest, w ∈ U := fun w hw => hU w (by simp [hw])
    have hf1 : Filed (upsert pend v.slot v) := by
      intro k w hw; rw [lookup_upsert] at hw
      split at hw
      · rename_i hk; simp at hw; subst hw; exact hk
      · exact hf k w hw
    have hin1 : RowsIn (upsert pend v.slot v) U := by
      intro k w hw; rw [lookup_upsert] at hw
      split at hw
      · simp at hw; subst hw; exact hvU
      · exact hin k w hw
    simp only [ofList]
    rw [← merge_assoc]
    unfold updateValues at h
    split at h
    · simp at h
    · split at h
      · rename_i e he
        split at h
        · rename_i hge
          rw [merge_single_dominated pend v e U hf hin hvU hd he hge]
          exact ih _ _ _ _ h hf hin hrest
        · rename_i hlt
          split at h
          · simp at h
          · simp only [Option.map_eq_some_iff] at h
            obtain ⟨o', ho', rfl⟩ := h
            rw [merge_single_wins pend v (by intro e' he'; rw [he] at he'; simp at he'; subst he'; omega)]
            exact ih _ _ _ o' ho' hf1 hin1 hrest
      · rename_i hn
        split at h
        · simp at h
        · simp only [Option.map_eq_some_iff] at h
          obtain ⟨o', ho', rfl⟩ := h
          rw [merge_single_wins pend v (by intro e' he'; rw [hn] at he'; simp at he')]
          exact ih _ _ _ o' ho' hf1 hin1 hrest

theorem headOf_inRange (t : Int) (h0 : 0 ≤ t) (h1 : t < tsLimit) : headOf t = t.toNat := by
  unfold headOf; unfold tsLimit at h1
  rw [Int.emod_eq_of_lt h0 (by omega)]

theorem headOf_ge_iff (a b : Int) (a0 : 0 ≤ a) (a1 : a < tsLimit) (b0 : 0 ≤ b) (b1 : b < tsLimit) :
    headOf a ≥ headOf b ↔ a ≥ b := by
  rw [headOf_inRange a a0 a1, headOf_inRange b b0 b1]; omega

theorem headOf_lt_iff (a b : Int) (a0 : 0 ≤ a) (a1 : a < tsLimit) (b0 : 0 ≤ b) (b1 : b < tsLimit) :
    headOf a < headOf b ↔ a < b := by
  rw [headOf_inRange a a0 a1, headOf_inRange b b0 b1]; omega

/-- timestamps of all rows are in the exact range -/
def InRange (st : Store) : Prop := ∀ k v, lookup st k = some v → 0 ≤ v.ts ∧ v.ts < tsLimit

/-- the three outcomes of `innerstorage.Set` -/
theorem innerSet_cases (f : Fault) (vals : List Val) (s : State) :
    ((innerSet f vals s).2 = false ∧ (innerSet f vals s).1.store = s.store ∧ (innerSet f vals s).1.adv = s.adv ∧
      ((innerSet f vals s).1.index = s.index ∨
        ∃ o, updateValues f vals s.store 0 0 = some o ∧
          (innerSet f vals s).1.index = undo (applyEls s.index o.elements) o.prior o.added)) ∨
    (∃ o, updateValues f vals s.store 0 0 = some o ∧ (innerSet f vals s).2 = true ∧
      (innerSet f vals s).1 = { store := o.pend, index := applyEls s.index o.elements, adv := applyEls s.index o.elements }) := by
  unfold innerSet
  by_cases hb : f = .begin
  · simp [hb]
  · simp only [hb, if_false]
    cases hu : updateValues f vals s.store 0 0 with
    | none => simp
    | some o =>
      simp only
      by_cases hh : f = .head ∨ f = .commit
      · simp only [hh, if_true]
        left
        refine ⟨by simp, by simp, by simp, ?_⟩
        by_cases he : o.elements.isEmpty = true
        · left
          simp only [he, if_true]
          have : o.elements = [] := by simpa using he
          simp [this, applyEls]
        · right; exact ⟨o, rfl, by simp [he]⟩
      · simp only [hh, if_false]
        right; exact ⟨o, rfl, by simp, by simp⟩

theorem innerSet_consistent (f : Fault) (vals : List Val) (s : State) (h : Consistent s) :
    Consistent (innerSet f vals s).1 := by
  rcases innerSet_cases f vals s with ⟨_, hs, ha, hi⟩ | ⟨o, ho, _, hs⟩
  · rcases hi with hi | ⟨o, ho, hi⟩
    · exact ⟨fun k => by rw [hi, hs]; exact h.1 k, fun k => by rw [ha, hs]; exact h.2 k⟩
    · have := (updateValues_index f vals s.store 0 0 o ho s.index h.1).2
      exact ⟨fun k => by rw [hi, hs, this k]; exact h.1 k, fun k => by rw [ha, hs]; exact h.2 k⟩
  · have := (updateValues_index f vals s.store 0 0 o ho s.index h.1).1
    rw [hs]; exact ⟨this, this⟩

theorem innerSet_none_ok (vals : List Val) (s : State) :
    ∃ o, updateValues .none vals s.store 0 0 = some o ∧ (innerSet .none vals s).2 = true ∧
      (innerSet .none vals s).1.store = o.pend := by
  rcases innerSet_cases .none vals s with ⟨hf, _⟩ | ⟨o, ho, ht, hs⟩
  · exfalso
    obtain ⟨o, ho⟩ := updateValues_none_isSome vals s.store 0 0
    unfold innerSet at hf
    simp [ho] at hf
  · exact ⟨o, ho, ht, by rw [hs]⟩

/-- rows after `innerSet`: old rows or written values under their own slot -/
theorem innerSet_rows (f : Fault) (vals : List Val) (s : State) :
    ∀ k w, lookup (innerSet f vals s).1.store k = some w →
      lookup s.store k = some w ∨ (w ∈ vals ∧ w.slot = k) := by
  intro k w hw
  rcases innerSet_cases f vals s with ⟨_, hs, _, _⟩ | ⟨o, ho, _, hs⟩
  · rw [hs] at hw; exact Or.inl hw
  · rw [hs] at hw; exact updateValues_rows f vals s.store 0 0 o ho k w hw

/-! ### `SetRaw` -/

def kvsOf (idx : Index) (batch : List Val) : List Val := (batch.filter fromProto).filter (passes idx)

theorem setRaw_eq (f : Fault) (batch : List Val) (s : State) :
    setRaw f batch s =
      if (kvsOf s.index batch).isEmpty then (s, .ok [])
      else if (innerSet f (kvsOf s.index batch) s).2 then ((innerSet f (kvsOf s.index batch) s).1, .ok ((kvsOf s.index batch).map (·.vid)))
      else ((innerSet f (kvsOf s.index batch) s).1, .err) := rfl

theorem setRaw_state (f : Fault) (batch : List Val) (s : State) :
    (setRaw f batch s).1 = s ∨ (setRaw f batch s).1 = (innerSet f (kvsOf s.index batch) s).1 := by
  rw [setRaw_eq]; split
  · left; rfl
  · split <;> (right; rfl)

theorem mem_kvsOf (idx : Index) (batch : List Val) (v : Val) :
    v ∈ kvsOf idx batch ↔ v ∈ batch ∧ fromProto v = true ∧ passes idx v = true := by
  simp only [kvsOf, List.mem_filter, and_assoc]

theorem setRaw_consistent (f : Fault) (batch : List Val) (s : State) (h : Consistent s) :
    Consistent (setRaw f batch s).1 := by
  rcases setRaw_state f batch s with h1 | h1 <;> rw [h1]
  · exact h
  · exact innerSet_consistent _ _ _ h

theorem localSet_consistent (f : Fault) (own : Bool) (v : Val) (s : State) (h : Consistent s) :
    Consistent (localSet f own v s).1 := by
  unfold localSet
  cases own
  · simpa using h
  · simp only [Bool.not_true, Bool.false_eq_true, if_false]
    split <;> exact innerSet_consistent _ _ _ h

theorem acceptable_iff (v : Val) : acceptable v = true ↔ Acceptable v := by
  unfold acceptable fromProto Acceptable
  simp only [Bool.and_eq_true, decide_eq_true_eq]
  constructor
  · intro h; obtain ⟨⟨⟨⟨⟨⟨⟨a, b⟩, c⟩, d⟩, e⟩, g⟩, h⟩, i⟩ := h; exact ⟨a, e, g, d, h, i, b, c⟩
  · intro h; obtain ⟨a, e, g, d, h, i, b, c⟩ := h; exact ⟨⟨⟨⟨⟨⟨⟨a, b⟩, c⟩, d⟩, e⟩, g⟩, h⟩, i⟩

/-! ### `ofList` depends only on the set of values -/

def leE (a b : Entry) : Prop := a.1 < b.1 ∨ (a.1 = b.1 ∧ a.2 ≤ b.2)

theorem leE_antisymm (a b : Entry) (h1 : leE a b) (h2 : leE b a) : a = b := by
  obtain ⟨a1, a2⟩ := a; obtain ⟨b1, b2⟩ := b
  unfold leE at h1 h2; simp only at h1 h2
  simp only [Prod.mk.injEq]; omega

theorem leE_refl (a : Entry) : leE a a := by unfold leE; right; exact ⟨rfl, Nat.le_refl _⟩

theorem leE_trans (a b c : Entry) (h1 : leE a b) (h2 : leE b c) : leE a c := by
  unfold leE at *; omega

theorem leE_maxE_left (a b : Entry) : leE a (maxE a b) := by
  unfold maxE; split
  · assumption
  · exact leE_refl a

theorem leE_maxE_right (a b : Entry) : leE b (maxE a b) := by
  unfold maxE; split
  · exact leE_refl b
  · rename_i h; unfold leE at *; omega

theorem maxE_cases (a b : Entry) : maxE a b = a ∨ maxE a b = b := by
  unfold maxE; split <;> simp

theorem ofList_spec (l : List Val) (k : Nat) :
    match ofList l k with
    | none => ∀ v ∈ l, v.slot ≠ k
    | some e => (∃ v ∈ l, v.slot = k ∧ entryOf v = e) ∧ ∀ v ∈ l, v.slot = k → leE (entryOf v) e := by
  induction l with
  | nil => simp [ofList, emptyMap]
  | cons v l ih =>
    simp only [ofList, merge, single]
    by_cases hk : k = v.slot
    · subst hk
      simp only [if_true]
      cases ho : ofList l v.slot with
      | none =>
        rw [ho] at ih
        simp only [maxO]
        refine ⟨⟨v, by simp, rfl, rfl⟩, ?_⟩
        intro w hw hws
        simp only [List.mem_cons] at hw
        rcases hw with rfl | hw
        · exact leE_refl _
        · exact absurd hws (ih w hw)
      | some e =>
        rw [ho] at ih
        simp only [maxO]
        obtain ⟨⟨w, hw, hws, hwe⟩, hub⟩ := ih
        refine ⟨?_, ?_⟩
        · rcases maxE_cases (entryOf v) e with h | h
          · exact ⟨v, by simp, rfl, h.symm⟩
          · exact ⟨w, by simp [hw], hws, by rw [h]; exact hwe⟩
        · intro x hx hxs
          simp only [List.mem_cons] at hx
          rcases hx with rfl | hx
          · exact leE_maxE_left _ _
          · exact leE_trans _ _ _ (hub x hx hxs) (leE_maxE_right _ _)
    · simp only [hk, if_false, maxO_none_left]
      cases ho : ofList l k with
      | none =>
        rw [ho] at ih
        intro w hw
        simp only [List.mem_cons] at hw
        rcases hw with rfl | hw
        · exact fun h => hk h.symm
        · exact ih w hw
      | some e =>
        rw [ho] at ih
        obtain ⟨⟨w, hw, hws, hwe⟩, hub⟩ := ih
        refine ⟨⟨w, by simp [hw], hws, hwe⟩, ?_⟩
        intro x hx hxs
        simp only [List.mem_cons] at hx
        rcases hx with rfl | hx
        · exact absurd hxs.symm hk
        · exact hub x hx hxs

/-- order, grouping and repetition are irrelevant for the LWW merge -/
theorem ofList_congr (l1 l2 : List Val) (h : ∀ v, v ∈ l1 ↔ v ∈ l2) : ofList l1 = ofList l2 := by
  funext k
  have s1 := ofList_spec l1 k
  have s2 := ofList_spec l2 k
  cases h1 : ofList l1 k with
  | none =>
    rw [h1] at s1
    cases h2 : ofList l2 k with
    | none => rfl
    | some e =>
      rw [h2] at s2
      obtain ⟨⟨w, hw, hws, _⟩, _⟩ := s2
      exact absurd hws (s1 w ((h w).2 hw))
  | some e1 =>
    rw [h1] at s1
    cases h2 : ofList l2 k with
    | none =>
      rw [h2] at s2
      obtain ⟨⟨w, hw, hws, _⟩, _⟩ := s1
      exact absurd hws (s2 w ((h w).1 hw))
    | some e2 =>
      rw [h2] at s2
      obtain ⟨⟨w1, hw1, hws1, hwe1⟩, hub1⟩ := s1
      obtain ⟨⟨w2, hw2, hws2, hwe2⟩, hub2⟩ := s2
      congr 1
      apply leE_antisymm
      · rw [← hwe1]; exact hub2 w1 ((h w1).1 hw1) hws1
      · rw [← hwe2]; exact hub1 w2 ((h w2).2 hw2) hws2

/-- values that are already dominated by `A` can be dropped from a merge into `A` -/
theorem merge_ofList_filter (A : SMap) (p : Val → Bool) (l : List Val)
    (h : ∀ v ∈ l, p v = false → merge A (single v) = A) :
    merge A (ofList l) = merge A (ofList (l.filter p)) := by
  induction l with
  | nil => rfl
  | cons v l ih =>
    have ih' := ih (fun w hw => h w (by simp [hw]))
    simp only [ofList, List.filter_cons]
    cases hp : p v with
    | false =>
      simp only [Bool.false_eq_true, if_false]
      rw [← merge_assoc, h v (by simp) hp]; exact ih'
    | true =>
      simp only [if_true, ofList]
      rw [← merge_assoc, merge_comm A (single v), merge_assoc, ih', ← merge_assoc, merge_comm (single v) A, merge_assoc]

/-! ### the invariant bundle and `SetRaw` as a merge -/

structure Good (U : List Val) (s : State) : Prop where
  cons  : Consistent s
  filed : Filed s.store
  rows  : RowsIn s.store U
  range : InRange s.store

theorem good_init (U : List Val) : Good U State.init :=
  ⟨⟨fun k => by simp [State.init, lookup, indexOf], fun k => by simp [State.init, lookup, indexOf]⟩,
   fun k v h => by simp [State.init, lookup] at h, fun k v h => by simp [State.init, lookup] at h,
   fun k v h => by simp [State.init, lookup] at h⟩

theorem fromProto_range (v : Val) (h : fromProto v = true) : 0 ≤ v.ts ∧ v.ts < tsLimit := by
  unfold fromProto at h; simp only [Bool.and_eq_true, decide_eq_true_eq] at h
  exact ⟨h.1.1.1.1.2, h.1.1.1.2⟩

theorem innerSet_good (U : List Val) (f : Fault) (vals : List Val) (s : State) (h : Good U s)
    (hU : ∀ v ∈ vals, v ∈ U) (hr : ∀ v ∈ vals, 0 ≤ v.ts ∧ v.ts < tsLimit) :
    Good U (innerSet f vals s).1 := by
  refine ⟨innerSet_consistent _ _ _ h.cons, ?_, ?_, ?_⟩
  · intro k w hw
    rcases innerSet_rows f vals s k w hw with h1 | ⟨_, h2⟩
    · exact h.filed k w h1
    · exact h2
  · intro k w hw
    rcases innerSet_rows f vals s k w hw with h1 | ⟨h1, _⟩
    · exact h.rows k w h1
    · exact hU w h1
  · intro k w hw
    rcases innerSet_rows f vals s k w hw with h1 | ⟨h1, _⟩
    · exact h.range k w h1
    · exact hr w h1

theorem setRaw_good (U : List Val) (f : Fault) (batch : List Val) (s : State) (h : Good U s)
    (hU : ∀ v ∈ batch, v ∈ U) : Good U (setRaw f batch s).1 := by
  rcases setRaw_state f batch s with h1 | h1 <;> rw [h1]
  · exact h
  · apply innerSet_good U f _ s h
    · intro v hv; exact hU v ((mem_kvsOf _ _ _).1 hv).1
    · intro v hv; exact fromProto_range v ((mem_kvsOf _ _ _).1 hv).2.1

theorem localSet_good (U : List Val) (f : Fault) (own : Bool) (v : Val) (s : State) (h : Good U s)
    (hU : v ∈ U) (hr : 0 ≤ v.ts ∧ v.ts < tsLimit) : Good U (localSet f own v s).1 := by
  unfold localSet
  cases own
  · simpa using h
  · simp only [Bool.not_true, Bool.false_eq_true, if_false]
    have := innerSet_good U f [v] s h (by simpa using hU) (by simpa using hr)
    split <;> exact this

theorem kvsOf_eq (idx : Index) (batch : List Val) :
    kvsOf idx batch = (batch.filter acceptable).filter (fun v => !indexBlocks idx v) := by
  unfold kvsOf
  rw [List.filter_filter, List.filter_filter]
  congr 1
  funext v
  unfold passes acceptable
  cases fromProto v <;> cases indexBlocks idx v <;> cases v.aclKnown <;> cases v.canWrite <;> rfl

/-- a value the index filter of `SetRaw` drops is dominated by the stored row -/
theorem blocked_dominated (U : List Val) (s : State) (h : Good U s) (hd : TsDistinct U) (v : Val)
    (hv : v ∈ U) (hp : fromProto v = true) (hb : indexBlocks s.index v = true) :
    merge (view s.store) (single v) = view s.store := by
  unfold indexBlocks at hb
  rw [h.cons.1 v.slot] at hb
  unfold indexOf at hb
  cases he : lookup s.store v.slot with
  | none => simp [he] at hb
  | some e =>
    simp only [he, Option.map_some, decide_eq_true_eq] at hb
    have re := h.range _ _ he
    have rv := fromProto_range v hp
    have := (headOf_ge_iff e.ts v.ts re.1 re.2 rv.1 rv.2).1 hb
    exact merge_single_dominated s.store v e U h.filed h.rows hv hd he this

theorem setRaw_view (U : List Val) (hd : TsDistinct U) (f : Fault) (batch : List Val) (s : State)
    (h : Good U s) (hU : ∀ v ∈ batch, v ∈ U) :
    ((setRaw f batch s).2 = .err ∧ (setRaw f batch s).1.store = s.store) ∨
    ((setRaw f batch s).2 ≠ .err ∧
      view (setRaw f batch s).1.store = merge (view s.store) (ofList (batch.filter acceptable))) := by
  have habs : merge (view s.store) (ofList (batch.filter acceptable)) =
      merge (view s.store) (ofList (kvsOf s.index batch)) := by
    rw [kvsOf_eq]
    apply merge_ofList_filter
    intro v hv hb
    simp only [List.mem_filter] at hv
    have hp : fromProto v = true := by
      have := hv.2; unfold acceptable at this; simp only [Bool.and_eq_true] at this; exact this.1.1
    exact blocked_dominated U s h hd v (hU v hv.1) hp (by simpa using hb)
  rw [setRaw_eq]
  split
  · rename_i hemp
    right
    refine ⟨by simp, ?_⟩
    have : kvsOf s.index batch = [] := by simpa using hemp
    rw [habs, this]; simp [ofList, merge_empty_right]
  · rcases innerSet_cases f (kvsOf s.index batch) s with ⟨hf, hs, _, _⟩ | ⟨o, ho, ht, hs⟩
    · left; simp [hf, hs]
    · right
      simp only [ht, if_true]
      refine ⟨by simp, ?_⟩
      rw [hs, habs]
      exact updateValues_view U hd f _ s.store 0 0 o ho h.filed h.rows
        (fun v hv => hU v ((mem_kvsOf _ _ _).1 hv).1)

theorem localSet_view (U : List Val) (hd : TsDistinct U) (f : Fault) (own : Bool) (v : Val) (s : State)
    (h : Good U s) (hU : v ∈ U) :
    ((∀ l, (localSet f own v s).2 ≠ .ok l) ∧ (localSet f own v s).1.store = s.store) ∨
    ((∃ l, (localSet f own v s).2 = .ok l) ∧
      view (localSet f own v s).1.store = merge (view s.store) (ofList [v])) := by
  unfold localSet
  cases own
  · left; simp
  · simp only [Bool.not_true, Bool.false_eq_true, if_false]
    rcases innerSet_cases f [v] s with ⟨hf, hs, _, _⟩ | ⟨o, ho, ht, hs⟩
    · left; simp [hf, hs]
    · right
      simp only [ht, if_true]
      refine ⟨⟨_, rfl⟩, ?_⟩
      rw [hs]
      exact updateValues_view U hd f _ s.store 0 0 o ho h.filed h.rows (by simpa using hU)

theorem stepOp_good (U : List Val) (s : State) (o : Op) (h : Good U s)
    (hU : ∀ v ∈ opVals o, v ∈ U) (hr : ∀ f own v, o = Op.set f own v → 0 ≤ v.ts ∧ v.ts < tsLimit) :
    Good U (stepOp s o).1 := by
  cases o with
  | raw f b => exact setRaw_good U f b s h hU
  | set f own v => exact localSet_good U f own v s h (hU v (by simp [opVals])) (hr f own v rfl)

theorem stepOp_view (U : List Val) (hd : TsDistinct U) (s : State) (o : Op) (h : Good U s)
    (hU : ∀ v ∈ opVals o, v ∈ U) :
    view (stepOp s o).1.store = merge (view s.store) (ofList (contrib o (stepOp s o).2)) := by
  cases o with
  | raw f b =>
    simp only [stepOp]
    rcases setRaw_view U hd f b s h hU with ⟨h1, h2⟩ | ⟨h1, h2⟩
    · rw [h1, h2]; simp [contrib, ofList, merge_empty_right]
    · rw [h2]
      cases hres : (setRaw f b s).2 with
      | ok l => simp [contrib]
      | err => exact absurd hres h1
      | perm =>
        exfalso
        rw [setRaw_eq] at hres
        split at hres
        · simp at hres
        · split at hres <;> simp at hres
  | set f own v =>
    simp only [stepOp]
    rcases localSet_view U hd f own v s h (hU v (by simp [opVals])) with ⟨h1, h2⟩ | ⟨⟨l, h1⟩, h2⟩
    · rw [h2]
      cases hres : (localSet f own v s).2 with
      | ok l => exact absurd hres (h1 l)
      | err => simp [contrib, ofList, merge_empty_right]
      | perm => simp [contrib, ofList, merge_empty_right]
    · rw [h2, h1]; simp [contrib]

/-- contents after any history = LWW merge of the values received -/
theorem run_view (U : List Val) (hd : TsDistinct U) (ops : List Op) :
    ∀ s, Good U s → (∀ o ∈ ops, ∀ v ∈ opVals o, v ∈ U) → LocalRange ops →
      view (run s ops).store = merge (view s.store) (ofList (received s ops)) ∧ Good U (run s ops) := by
  induction ops with
  | nil => intro s h _ _; simp [run, received, ofList, merge_empty_right, h]
  | cons o ops ih =>
    intro s h hU hr
    have hg := stepOp_good U s o h (hU o (by simp)) (fun f own v ho => hr f own v (by simp [ho]))
    have := ih (stepOp s o).1 hg (fun o' ho' => hU o' (by simp [ho'])) (fun f own v hm => hr f own v (by simp [hm]))
    simp only [run, received]
    rw [this.1, stepOp_view U hd s o h (hU o (by simp)), ofList_append, merge_assoc]
    exact ⟨rfl, this.2⟩

theorem view_init : view State.init.store = emptyMap := by
  funext k; simp [view, State.init, lookup, emptyMap]

/-! ### authenticity -/

theorem stepOp_authentic (s : State) (o : Op) (h : Authentic s.store)
    (hl : ∀ f v, o = Op.set f true v → Acceptable v) : Authentic (stepOp s o).1.store := by
  cases o with
  | raw f b =>
    simp only [stepOp]
    rcases setRaw_state f b s with h1 | h1 <;> rw [h1]
    · exact h
    · intro k w hw
      rcases innerSet_rows f _ s k w hw with h2 | ⟨h2, h3⟩
      · exact h k w h2
      · have := (mem_kvsOf _ _ _).1 h2
        refine ⟨(acceptable_iff w).1 ?_, h3⟩
        have hp := this.2.2
        unfold passes at hp; simp only [Bool.and_eq_true] at hp
        unfold acceptable; simp [this.2.1, hp.1.2, hp.2]
  | set f own v =>
    simp only [stepOp, localSet]
    cases own
    · simpa using h
    · simp only [Bool.not_true, Bool.false_eq_true, if_false]
      have : Authentic (innerSet f [v] s).1.store := by
        intro k w hw
        rcases innerSet_rows f _ s k w hw with h2 | ⟨h2, h3⟩
        · exact h k w h2
        · simp only [List.mem_singleton] at h2; subst h2
          exact ⟨hl f w rfl, h3⟩
      split <;> exact this

theorem run_authentic (ops : List Op) : ∀ s, Authentic s.store → LocalAuthentic ops → Authentic (run s ops).store := by
  induction ops with
  | nil => intro s h _; exact h
  | cons o ops ih =>
    intro s h hl
    exact ih _ (stepOp_authentic s o h (fun f v ho => hl f v (by simp [ho]))) (fun f v hm => hl f v (by simp [hm]))

theorem run_consistent (ops : List Op) : ∀ s, Consistent s → Consistent (run s ops) := by
  induction ops with
  | nil => intro s h; exact h
  | cons o ops ih =>
    intro s h
    apply ih
    cases o with
    | raw f b => exact setRaw_consistent f b s h
    | set f own v => exact localSet_consistent f own v s h

/-! ### one exchange -/

theorem mem_keys_iff {α : Type} (m : List (Nat × α)) (k : Nat) : k ∈ keys m ↔ (lookup m k).isSome = true := by
  induction m with
  | nil => simp [keys, lookup]
  | cons p m ih =>
    obtain ⟨a, b⟩ := p
    simp only [keys, List.map_cons, List.mem_cons, lookup]
    by_cases h : a = k
    · simp [h]
    · simp only [h, if_false]
      constructor
      · rintro (h1 | h1)
        · exact absurd h1.symm h
        · exact ih.1 (by simpa [keys] using h1)
      · intro h1; right; simpa [keys] using ih.2 h1

theorem mem_pushIds (mine theirs : Index) (k : Nat) :
    k ∈ pushIds mine theirs ↔
      ∃ hm, lookup mine k = some hm ∧ (lookup theirs k = none ∨ ∃ ht, lookup theirs k = some ht ∧ ht < hm) := by
  unfold pushIds
  simp only [List.mem_filter, mem_keys_iff]
  cases hm : lookup mine k with
  | none => simp
  | some a =>
    cases ht : lookup theirs k with
    | none => simp
    | some b => simp

/-- the values read back for a list of ids: pointwise, the store restricted to those ids -/
theorem ofList_valuesAt (st : Store) (hf : Filed st) (ids : List Nat) (k : Nat) :
    ofList (valuesAt st ids) k = if k ∈ ids then view st k else none := by
  induction ids with
  | nil => simp [valuesAt, ofList, emptyMap]
  | cons i ids ih =>
    unfold valuesAt at ih ⊢
    simp only [List.filterMap_cons, List.mem_cons]
    cases hl : lookup st i with
    | none =>
      simp only
      rw [ih]
      by_cases hk : k = i
      · subst hk; simp [view, hl]
      · simp [hk]
    | some v =>
      simp only [ofList, merge, single]
      rw [ih]
      have hs : v.slot = i := hf i v hl
      by_cases hk : k = i
      · subst hk
        simp only [hs, if_true, true_or, view, hl, Option.map_some]
        split <;> simp [maxO, maxE_idem]
      · simp [hk, hs, maxO_none_left]

theorem valuesAt_mem (st : Store) (ids : List Nat) (v : Val) (h : v ∈ valuesAt st ids) :
    ∃ k, lookup st k = some v := by
  unfold valuesAt at h
  simp only [List.mem_filterMap] at h
  obtain ⟨k, _, hk⟩ := h
  exact ⟨k, hk⟩

/-- pushing to `b` everything `a` has alone or newer makes `b` the merge of both (`ids` = any list with
exactly the ids of the classification) -/
theorem merge_pushed_ids (U : List Val) (hd : TsDistinct U) (a b : State) (ha : Good U a) (hb : Good U b)
    (ids : List Nat) (hids : ∀ k, k ∈ ids ↔ k ∈ pushIds a.index b.index) :
    merge (view b.store) (ofList (valuesAt a.store ids)) =
      merge (view b.store) (view a.store) := by
  funext k
  unfold merge
  rw [ofList_valuesAt a.store ha.filed]
  by_cases hk : k ∈ ids
  · simp [hk]
  · simp only [hk, if_false, maxO_none_right]
    rw [hids, mem_pushIds] at hk
    rw [ha.cons.1 k, hb.cons.1 k] at hk
    unfold indexOf at hk
    unfold view
    cases hla : lookup a.store k with
    | none => simp [maxO_none_right]
    | some ea =>
      cases hlb : lookup b.store k with
      | none => exfalso; apply hk; simp [hla, hlb]
      | some eb =>
        have hnl : ¬ headOf eb.ts < headOf ea.ts := by
          intro hlt; apply hk
          exact ⟨headOf ea.ts, by simp [hla], Or.inr ⟨headOf eb.ts, by simp [hlb], hlt⟩⟩
        have ra := ha.range _ _ hla
        have rb := hb.range _ _ hlb
        have hle : ea.ts ≤ eb.ts := by
          have h1 := headOf_lt_iff eb.ts ea.ts rb.1 rb.2 ra.1 ra.2
          have : ¬ eb.ts < ea.ts := fun h => hnl (h1.2 h)
          omega
        simp only [Option.map_some, maxO]
        congr 1
        unfold maxE entryOf; simp only
        split
        · rename_i h
          rcases h with h | ⟨h1, _⟩
          · omega
          · have hv := hd eb (hb.rows _ _ hlb) ea (ha.rows _ _ hla)
              (by rw [hb.filed _ _ hlb, ha.filed _ _ hla]) h1
            simp [h1, hv]
        · rfl

theorem merge_pushed (U : List Val) (hd : TsDistinct U) (a b : State) (ha : Good U a) (hb : Good U b) :
    merge (view b.store) (ofList (valuesAt a.store (pushIds a.index b.index))) =
      merge (view b.store) (view a.store) :=
  merge_pushed_ids U hd a b ha hb _ (fun _ => Iff.rfl)

theorem filter_acceptable_of_authentic (st : Store) (h : Authentic st) (ids : List Nat) :
    (valuesAt st ids).filter acceptable = valuesAt st ids := by
  apply List.filter_eq_self.2
  intro v hv
  obtain ⟨k, hk⟩ := valuesAt_mem st ids v hv
  exact (acceptable_iff v).2 (h k v hk).1

theorem setRaw_none_ne_err (batch : List Val) (s : State) : (setRaw .none batch s).2 ≠ .err := by
  rw [setRaw_eq]
  split
  · simp
  · obtain ⟨o, _, ht, _⟩ := innerSet_none_ok (kvsOf s.index batch) s
    simp [ht]

/-- fault-free application of a list of batches = merge of all their acceptable values -/
theorem foldl_setRaw_view (U : List Val) (hd : TsDistinct U) (bs : List (List Val)) :
    ∀ s, Good U s → (∀ b ∈ bs, ∀ v ∈ b, v ∈ U) →
      view (bs.foldl (fun s b => (setRaw .none b s).1) s).store =
        merge (view s.store) (ofList (bs.flatten.filter acceptable)) ∧
      Good U (bs.foldl (fun s b => (setRaw .none b s).1) s) := by
  induction bs with
  | nil => intro s h _; simp [ofList, merge_empty_right, h]
  | cons b bs ih =>
    intro s h hU
    have hg := setRaw_good U .none b s h (hU b (by simp))
    have := ih _ hg (fun b' hb' => hU b' (by simp [hb']))
    simp only [List.foldl_cons, List.flatten_cons, List.filter_append]
    rw [this.1, ofList_append, ← merge_assoc]
    refine ⟨?_, this.2⟩
    rcases setRaw_view U hd .none b s h (hU b (by simp)) with ⟨h1, _⟩ | ⟨_, h2⟩
    · exact absurd h1 (setRaw_none_ne_err b s)
    · rw [h2]

theorem chunks_flatten {α : Type} (n : Nat) : ∀ (fuel : Nat) (l : List α), l.length ≤ fuel →
    (chunks n fuel l).flatten = l := by
  intro fuel
  induction fuel with
  | zero => intro l h; have : l = [] := by simpa using h
            subst this; simp [chunks]
  | succ fuel ih =>
    intro l h
    unfold chunks
    split
    · rename_i he; have : l = [] := by simpa using he
      subst this; simp
    · simp only [List.flatten_cons]
      rw [ih (l.drop (n + 1)) (by simp only [List.length_drop]; omega), List.take_append_drop]

theorem chunks_mem {α : Type} (n : Nat) (fuel : Nat) (l : List α) (h : l.length ≤ fuel) (b : List α)
    (hb : b ∈ chunks n fuel l) (x : α) (hx : x ∈ b) : x ∈ l := by
  rw [← chunks_flatten n fuel l h]
  exact List.mem_flatten.2 ⟨b, hb, hx⟩

/-- the index is a function of the contents -/
theorem index_of_view_eq (s t : State) (hs : Consistent s) (ht : Consistent t)
    (h : view s.store = view t.store) : ∀ k, lookup s.index k = lookup t.index k := by
  intro k
  rw [hs.1 k, ht.1 k]
  have := congrFun h k
  unfold view at this; unfold indexOf
  cases h1 : lookup s.store k <;> cases h2 : lookup t.store k <;> simp [h1, h2, entryOf] at this ⊢
  exact congrArg headOf this.1

/-- one fault-free exchange driven by ANY two id lists that contain exactly the ids of the
classification (order and multiplicity are irrelevant) -/
theorem exchangeIds_equalises (U : List Val) (hd : TsDistinct U) (a b : State)
    (ha : Good U a) (hb : Good U b) (haa : Authentic a.store) (hab : Authentic b.store)
    (push pull : List Nat)
    (hpush : ∀ k, k ∈ push ↔ k ∈ pushIds a.index b.index)
    (hpull : ∀ k, k ∈ pull ↔ k ∈ pullIds a.index b.index) :
    view (exchangeIds .none push pull a b).1.store = merge (view a.store) (view b.store) ∧
    view (exchangeIds .none push pull a b).2.store = merge (view a.store) (view b.store) ∧
    Good U (exchangeIds .none push pull a b).1 ∧ Good U (exchangeIds .none push pull a b).2 ∧
    (∀ k, lookup (exchangeIds .none push pull a b).1.index k = lookup (exchangeIds .none push pull a b).2.index k) := by
  have hpushU : ∀ v ∈ valuesAt a.store push, v ∈ U := by
    intro v hv; obtain ⟨k, hk⟩ := valuesAt_mem _ _ v hv; exact ha.rows k v hk
  have hpullU : ∀ v ∈ valuesAt b.store pull, v ∈ U := by
    intro v hv; obtain ⟨k, hk⟩ := valuesAt_mem _ _ v hv; exact hb.rows k v hk
  have hB : view (exchangeIds .none push pull a b).2.store = merge (view a.store) (view b.store) ∧
      Good U (exchangeIds .none push pull a b).2 := by
    simp only [exchangeIds]
    refine ⟨?_, setRaw_good U .none _ b hb hpushU⟩
    rcases setRaw_view U hd .none _ b hb hpushU with ⟨h1, _⟩ | ⟨_, h2⟩
    · exact absurd h1 (setRaw_none_ne_err _ b)
    · rw [h2, filter_acceptable_of_authentic a.store haa, merge_pushed_ids U hd a b ha hb push hpush, merge_comm]
  have hA : view (exchangeIds .none push pull a b).1.store = merge (view a.store) (view b.store) ∧
      Good U (exchangeIds .none push pull a b).1 := by
    simp only [exchangeIds]
    have hch : ∀ c ∈ chunks (applyBatchSize - 1) (valuesAt b.store pull).length (valuesAt b.store pull),
        ∀ v ∈ c, v ∈ U :=
      fun c hc v hv => hpullU v (chunks_mem _ _ _ (Nat.le_refl _) c hc v hv)
    have := foldl_setRaw_view U hd _ a ha hch
    refine ⟨?_, this.2⟩
    rw [this.1, chunks_flatten _ _ _ (Nat.le_refl _), filter_acceptable_of_authentic b.store hab]
    exact merge_pushed_ids U hd b a hb ha pull hpull
  refine ⟨hA.1, hB.1, hA.2, hB.2, ?_⟩
  exact index_of_view_eq _ _ hA.2.cons hB.2.cons (hA.1.trans hB.1.symm)

end AnySync.KV
