/-
Specification vocabulary for C12: a store is abstractly a map slot ↦ entry, an entry is
(timestamp, value id); `merge` is the pointwise maximum (last writer wins).
Ties of the timestamp are broken by the value id, which makes `merge` a genuine semilattice on ALL
inputs; under the property's hypothesis (distinct timestamps per slot) the tie-break is never used.
-/
import AnySyncModel.KV.Model

namespace AnySync.KV

abbrev Entry := Int × Nat

/-- the later entry (timestamp first, value id as tie-break) -/
def maxE (a b : Entry) : Entry :=
  if a.1 < b.1 ∨ (a.1 = b.1 ∧ a.2 ≤ b.2) then b else a

def maxO : Option Entry → Option Entry → Option Entry
  | none, b => b
  | a, none => a
  | some a, some b => some (maxE a b)

abbrev SMap := Nat → Option Entry

def merge (a b : SMap) : SMap := fun k => maxO (a k) (b k)

def emptyMap : SMap := fun _ => none

def entryOf (v : Val) : Entry := (v.ts, v.vid)

def single (v : Val) : SMap := fun k => if k = v.slot then some (entryOf v) else none

/-- LWW merge of a list of values (each filed under its envelope slot) -/
def ofList : List Val → SMap
  | [] => emptyMap
  | v :: vs => merge (single v) (ofList vs)

/-- abstract contents of a model store -/
def view (st : Store) : SMap := fun k => (lookup st k).map entryOf

/-- the index a restart would rebuild from the collection -/
def indexOf (st : Store) : Nat → Option Nat := fun k => (lookup st k).map (fun v => headOf v.ts)

/-- what `SetRaw` is supposed to let through -/
def Acceptable (v : Val) : Prop :=
  v.decodes = true ∧ v.idSigOk = true ∧ v.peerSigOk = true ∧ v.slot = v.innerSlot ∧
  v.aclKnown = true ∧ v.canWrite = true ∧ 0 ≤ v.ts ∧ v.ts < tsLimit

def acceptable (v : Val) : Bool := fromProto v && v.aclKnown && v.canWrite

/-- "distinct timestamps per slot": two values of one slot with the same timestamp are the same value -/
def TsDistinct (vs : List Val) : Prop :=
  ∀ v ∈ vs, ∀ w ∈ vs, v.slot = w.slot → v.ts = w.ts → v.vid = w.vid

/-- index, advertised heads entry and collection agree -/
def Consistent (s : State) : Prop :=
  (∀ k, lookup s.index k = indexOf s.store k) ∧ (∀ k, lookup s.adv k = indexOf s.store k)

/-- every row is filed under its own envelope slot and has an in-range timestamp -/
def WellFiled (st : Store) : Prop :=
  ∀ k v, lookup st k = some v → v.slot = k ∧ 0 ≤ v.ts ∧ v.ts < tsLimit

/-! ### histories -/

inductive Op where
  | raw (f : Fault) (batch : List Val)     -- SetRaw / pushed message / one pulled batch
  | set (f : Fault) (own : Bool) (v : Val) -- local Set
deriving Repr

def stepOp (s : State) : Op → State × Res
  | .raw f b => setRaw f b s
  | .set f own v => localSet f own v s

def run (s : State) : List Op → State
  | [] => s
  | o :: ops => run (stepOp s o).1 ops

def opVals : Op → List Val
  | .raw _ b => b
  | .set _ _ v => [v]

/-- what one operation contributes to "the values received": the acceptable values of a pushed / pulled
batch that did not fail, the locally written value of a local Set that returned nil -/
def contrib (o : Op) (r : Res) : List Val :=
  match o, r with
  | .raw _ b, .ok _ => b.filter acceptable
  | .set _ _ v, .ok _ => [v]
  | _, _ => []

def received (s : State) : List Op → List Val
  | [] => []
  | o :: ops => contrib o (stepOp s o).2 ++ received (stepOp s o).1 ops

/-- timestamps of locally written values are in the exact range (the clock is sane) -/
def LocalRange (ops : List Op) : Prop :=
  ∀ f own v, Op.set f own v ∈ ops → 0 ≤ v.ts ∧ v.ts < tsLimit

/-- a value the store signs itself is acceptable whenever its account may write -/
def LocalAuthentic (ops : List Op) : Prop :=
  ∀ f v, Op.set f true v ∈ ops → Acceptable v

def Authentic (st : Store) : Prop := ∀ k v, lookup st k = some v → Acceptable v ∧ v.slot = k

end AnySync.KV
