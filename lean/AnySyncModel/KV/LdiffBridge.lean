/-
Bridge between the key-value model (abstract index = association list slot ↦ head) and the `Ldiff`
model of app/ldiff (skip list + range tree + diff recursion), whose C07 / C08 theorems are proved in
`Props/C07.lean`, `Props/C08.lean`.

* `Rep hf idx sl`: the ldiff skip list `sl` holds exactly the id ↦ head map `idx`
  (element = (slot id, xxhash = `hf slot`, head = big-endian timestamp as a number).
* every mutation the key-value model performs on its abstract index (`upsert` = `diff.Set` of one
  element, `erase` = `diff.RemoveId`) is ONE ldiff operation that preserves `Rep`
  (`rep_set`, `rep_remove`); `runOps` is the ldiff-level history a key-value history emits
  (including the undo operations of failed transactions), `rep_run` the lifted invariant.
* `push_iff_spec` / `pull_iff_spec`: the abstract classification of the key-value exchange
  (`pushIds` / `pullIds`) is exactly `specK true` of C07 on the two id ↦ head lists.
Helper lemmas only; the composed property theorems are in `Props/C12.lean`.
-/
import AnySyncModel.KV.Lemmas
import AnySyncModel.Props.C07
import AnySyncModel.Props.C08

namespace AnySync.KV
open AnySync.Ldiff (Elem SlWf Sorted slStep slRun pairs lookupHead specK Kind M)

/-- the ldiff element of slot `k` with head `h` (`hf` = xxhash64 of the slot id) -/
def elemOf (hf : Nat → Nat) (k h : Nat) : Elem := ⟨k, hf k, h⟩

/-- the skip list `sl` holds exactly the map `idx` -/
structure Rep (hf : Nat → Nat) (idx : Index) (sl : List Elem) : Prop where
  wf : SlWf hf sl
  sorted : Sorted sl
  look : ∀ k, lookup idx k = lookupHead (pairs sl) k

theorem pairs_nodup {hf : Nat → Nat} {sl : List Elem} (h : SlWf hf sl) : ((pairs sl).map (·.1)).Nodup := by
  rw [Ldiff.pairs_fst]; exact h.nodup

theorem mem_pairs_iff {hf : Nat → Nat} {sl : List Elem} (h : SlWf hf sl) (k hd : Nat) :
    (k, hd) ∈ pairs sl ↔ elemOf hf k hd ∈ sl := by
  simp only [pairs, List.mem_map, Prod.mk.injEq]
  constructor
  · rintro ⟨e, he, rfl, rfl⟩
    have := (h.hash e he).1
    have : elemOf hf e.id e.head = e := by
      cases e; simp only [elemOf] at *; simp [this]
    rw [this]; exact he
  · intro he; exact ⟨_, he, rfl, rfl⟩

theorem lookupHead_pairs_iff {hf : Nat → Nat} {sl : List Elem} (h : SlWf hf sl) (k hd : Nat) :
    lookupHead (pairs sl) k = some hd ↔ elemOf hf k hd ∈ sl := by
  rw [Ldiff.lookup_some_iff (pairs_nodup h), mem_pairs_iff h]

theorem option_ext {α : Type} (a b : Option α) (h : ∀ x, a = some x ↔ b = some x) : a = b := by
  cases a with
  | none =>
    cases b with
    | none => rfl
    | some y => exact absurd ((h y).2 rfl) (by simp)
  | some x => exact ((h x).1 rfl).symm

theorem rep_nil (hf : Nat → Nat) : Rep hf [] [] :=
  ⟨⟨by simp, by simp⟩, by simp [Sorted], fun k => by simp [lookup, pairs, lookupHead]⟩

/-- `diff.Set` of one element = `upsert` on the map -/
theorem rep_set (hf : Nat → Nat) (idx : Index) (sl : List Elem) (k h : Nat) (hk : hf k < M)
    (r : Rep hf idx sl) : Rep hf (upsert idx k h) (slStep sl (.set1 (elemOf hf k h))) := by
  have hop : (Ldiff.Op.set1 (elemOf hf k h)).Wf hf := ⟨rfl, hk⟩
  have wf' := Ldiff.slWf_step hf sl _ r.wf hop
  refine ⟨wf', Ldiff.slStep_sorted hf sl _ r.sorted, fun k' => ?_⟩
  apply option_ext
  intro x
  rw [lookup_upsert, lookupHead_pairs_iff wf']
  simp only [slStep]
  rw [(Ldiff.slInsert_perm _ _).mem_iff, List.mem_cons, Ldiff.mem_slRemove]
  by_cases hkk : k = k'
  · subst hkk
    simp only [if_true, Option.some.injEq]
    constructor
    · intro hx; left; rw [hx]
    · rintro (hx | ⟨_, hne⟩)
      · simp only [elemOf, Elem.mk.injEq] at hx; exact hx.2.2.symm
      · exact absurd rfl hne
  · simp only [hkk, if_false]
    rw [r.look k', lookupHead_pairs_iff r.wf]
    constructor
    · intro hx; right; exact ⟨hx, fun h => hkk h.symm⟩
    · rintro (hx | ⟨hx, _⟩)
      · simp only [elemOf, Elem.mk.injEq] at hx; exact absurd hx.1.symm hkk
      · exact hx

/-- `diff.RemoveId` = `erase` on the map -/
theorem rep_remove (hf : Nat → Nat) (idx : Index) (sl : List Elem) (k : Nat) (hk : hf k < M)
    (r : Rep hf idx sl) : Rep hf (erase idx k) (slStep sl (.remove k (hf k))) := by
  have hop : (Ldiff.Op.remove k (hf k)).Wf hf := ⟨rfl, hk⟩
  have wf' := Ldiff.slWf_step hf sl _ r.wf hop
  refine ⟨wf', Ldiff.slStep_sorted hf sl _ r.sorted, fun k' => ?_⟩
  apply option_ext
  intro x
  rw [lookup_erase, lookupHead_pairs_iff wf']
  simp only [slStep]
  rw [Ldiff.mem_slRemove]
  by_cases hkk : k = k'
  · subst hkk
    simp only [if_true, reduceCtorEq, false_iff]
    rintro ⟨_, hne⟩; exact hne rfl
  · simp only [hkk, if_false]
    rw [r.look k', lookupHead_pairs_iff r.wf]
    exact ⟨fun hx => ⟨hx, fun h => hkk h.symm⟩, fun hx => hx.1⟩

/-! ### the ldiff-level history emitted by the key-value operations -/

def setOp (hf : Nat → Nat) (e : Nat × Nat) : Ldiff.Op := .set1 (elemOf hf e.1 e.2)
def rmOp (hf : Nat → Nat) (k : Nat) : Ldiff.Op := .remove k (hf k)

/-- `s.diff.Set(elements...)` -/
def elsOps (hf : Nat → Nat) (els : List (Nat × Nat)) : List Ldiff.Op := els.map (setOp hf)

/-- the deferred undo: `s.diff.Set(prior[i])` in reverse, then `s.diff.RemoveId(id)` -/
def undoOps (hf : Nat → Nat) (prior : List (Nat × Nat)) (added : List Nat) : List Ldiff.Op :=
  prior.reverse.map (setOp hf) ++ added.map (rmOp hf)

theorem slRun_append (sl : List Elem) (a b : List Ldiff.Op) : slRun sl (a ++ b) = slRun (slRun sl a) b := by
  simp [slRun, List.foldl_append]

theorem rep_foldl_set (hf : Nat → Nat) (h64 : ∀ k, hf k < M) (l : List (Nat × Nat)) :
    ∀ idx sl, Rep hf idx sl →
      Rep hf (l.foldl (fun m e => upsert m e.1 e.2) idx) (slRun sl (l.map (setOp hf))) := by
  induction l with
  | nil => intro idx sl r; simpa [slRun] using r
  | cons e l ih =>
    intro idx sl r
    simp only [List.foldl_cons, List.map_cons, slRun]
    exact ih _ _ (rep_set hf idx sl e.1 e.2 (h64 _) r)

theorem rep_foldl_erase (hf : Nat → Nat) (h64 : ∀ k, hf k < M) (l : List Nat) :
    ∀ idx sl, Rep hf idx sl → Rep hf (l.foldl erase idx) (slRun sl (l.map (rmOp hf))) := by
  induction l with
  | nil => intro idx sl r; simpa [slRun] using r
  | cons k l ih =>
    intro idx sl r
    simp only [List.foldl_cons, List.map_cons, slRun]
    exact ih _ _ (rep_remove hf idx sl k (h64 _) r)

theorem rep_applyEls (hf : Nat → Nat) (h64 : ∀ k, hf k < M) (els : List (Nat × Nat)) (idx : Index)
    (sl : List Elem) (r : Rep hf idx sl) : Rep hf (applyEls idx els) (slRun sl (elsOps hf els)) :=
  rep_foldl_set hf h64 els idx sl r

theorem rep_undo (hf : Nat → Nat) (h64 : ∀ k, hf k < M) (prior : List (Nat × Nat)) (added : List Nat)
    (idx : Index) (sl : List Elem) (r : Rep hf idx sl) :
    Rep hf (undo idx prior added) (slRun sl (undoOps hf prior added)) := by
  unfold undo undoOps
  rw [slRun_append]
  exact rep_foldl_erase hf h64 added _ _ (rep_foldl_set hf h64 prior.reverse idx sl r)

/-- the ldiff operations `innerstorage.Set` performs (same case structure as `innerSet`) -/
def innerSetOps (hf : Nat → Nat) (f : Fault) (vals : List Val) (s : State) : List Ldiff.Op :=
  if f = .begin then [] else
  match updateValues f vals s.store 0 0 with
  | none => []
  | some u =>
    if f = .head ∨ f = .commit then
      (if u.elements.isEmpty then elsOps hf u.elements else elsOps hf u.elements ++ undoOps hf u.prior u.added)
    else elsOps hf u.elements

theorem rep_innerSet (hf : Nat → Nat) (h64 : ∀ k, hf k < M) (f : Fault) (vals : List Val) (s : State)
    (sl : List Elem) (r : Rep hf s.index sl) :
    Rep hf (innerSet f vals s).1.index (slRun sl (innerSetOps hf f vals s)) := by
  unfold innerSet innerSetOps
  by_cases hb : f = .begin
  · simpa [hb, slRun] using r
  · simp only [hb, if_false]
    cases hu : updateValues f vals s.store 0 0 with
    | none => simpa [slRun] using r
    | some u =>
      simp only
      by_cases hh : f = .head ∨ f = .commit
      · simp only [hh, if_true]
        by_cases he : u.elements.isEmpty = true
        · simp only [he, if_true]
          exact rep_applyEls hf h64 _ _ _ r
        · simp only [he, Bool.false_eq_true, if_false]
          rw [slRun_append]
          exact rep_undo hf h64 _ _ _ _ (rep_applyEls hf h64 _ _ _ r)
      · simp only [hh, if_false]
        exact rep_applyEls hf h64 _ _ _ r

def setRawOps (hf : Nat → Nat) (f : Fault) (batch : List Val) (s : State) : List Ldiff.Op :=
  if (kvsOf s.index batch).isEmpty then [] else innerSetOps hf f (kvsOf s.index batch) s

def localSetOps (hf : Nat → Nat) (f : Fault) (own : Bool) (v : Val) (s : State) : List Ldiff.Op :=
  if !own then [] else innerSetOps hf f [v] s

theorem rep_setRaw (hf : Nat → Nat) (h64 : ∀ k, hf k < M) (f : Fault) (batch : List Val) (s : State)
    (sl : List Elem) (r : Rep hf s.index sl) :
    Rep hf (setRaw f batch s).1.index (slRun sl (setRawOps hf f batch s)) := by
  rw [setRaw_eq]; unfold setRawOps
  split
  · simpa [slRun] using r
  · split <;> exact rep_innerSet hf h64 f _ s sl r

theorem rep_localSet (hf : Nat → Nat) (h64 : ∀ k, hf k < M) (f : Fault) (own : Bool) (v : Val) (s : State)
    (sl : List Elem) (r : Rep hf s.index sl) :
    Rep hf (localSet f own v s).1.index (slRun sl (localSetOps hf f own v s)) := by
  unfold localSet localSetOps
  cases own
  · simpa [slRun] using r
  · simp only [Bool.not_true, Bool.false_eq_true, if_false]
    split <;> exact rep_innerSet hf h64 f _ s sl r

def stepOps (hf : Nat → Nat) (s : State) : Op → List Ldiff.Op
  | .raw f b => setRawOps hf f b s
  | .set f own v => localSetOps hf f own v s

/-- the complete ldiff-level history of a key-value history -/
def runOps (hf : Nat → Nat) (s : State) : List Op → List Ldiff.Op
  | [] => []
  | o :: ops => stepOps hf s o ++ runOps hf (stepOp s o).1 ops

theorem rep_run (hf : Nat → Nat) (h64 : ∀ k, hf k < M) (ops : List Op) :
    ∀ s sl, Rep hf s.index sl → Rep hf (run s ops).index (slRun sl (runOps hf s ops)) := by
  induction ops with
  | nil => intro s sl r; simpa [run, runOps, slRun] using r
  | cons o ops ih =>
    intro s sl r
    simp only [run, runOps]
    rw [slRun_append]
    apply ih
    cases o with
    | raw f b => exact rep_setRaw hf h64 f b s sl r
    | set f own v => exact rep_localSet hf h64 f own v s sl r

/-- every emitted operation is well formed (ids determine 64-bit hashes) -/
theorem setOp_wf (hf : Nat → Nat) (h64 : ∀ k, hf k < M) (e : Nat × Nat) : (setOp hf e).Wf hf := ⟨rfl, h64 _⟩
theorem rmOp_wf (hf : Nat → Nat) (h64 : ∀ k, hf k < M) (k : Nat) : (rmOp hf k).Wf hf := ⟨rfl, h64 _⟩

theorem innerSetOps_wf (hf : Nat → Nat) (h64 : ∀ k, hf k < M) (f : Fault) (vals : List Val) (s : State) :
    ∀ op, op ∈ innerSetOps hf f vals s → op.Wf hf := by
  have h1 : ∀ els op, op ∈ elsOps hf els → op.Wf hf := by
    intro els op h; simp only [elsOps, List.mem_map] at h
    obtain ⟨e, _, rfl⟩ := h; exact setOp_wf hf h64 e
  have h2 : ∀ p a op, op ∈ undoOps hf p a → op.Wf hf := by
    intro p a op h; simp only [undoOps, List.mem_append, List.mem_map] at h
    rcases h with ⟨e, _, rfl⟩ | ⟨k, _, rfl⟩
    · exact setOp_wf hf h64 e
    · exact rmOp_wf hf h64 k
  intro op hop
  unfold innerSetOps at hop
  split at hop
  · cases hop
  · split at hop
    · cases hop
    · split at hop
      · split at hop
        · exact h1 _ _ hop
        · rcases List.mem_append.mp hop with h | h
          · exact h1 _ _ h
          · exact h2 _ _ _ h
      · exact h1 _ _ hop

theorem runOps_wf (hf : Nat → Nat) (h64 : ∀ k, hf k < M) (ops : List Op) :
    ∀ s op, op ∈ runOps hf s ops → op.Wf hf := by
  induction ops with
  | nil => intro s op h; cases h
  | cons o ops ih =>
    intro s op h
    simp only [runOps, List.mem_append] at h
    rcases h with h | h
    · cases o with
      | raw f b =>
        simp only [stepOps, setRawOps] at h
        split at h
        · cases h
        · exact innerSetOps_wf hf h64 _ _ _ op h
      | set f own v =>
        simp only [stepOps, localSetOps] at h
        split at h
        · cases h
        · exact innerSetOps_wf hf h64 _ _ _ op h
    · exact ih _ op h

/-- membership in a representing skip list, in terms of the map -/
theorem mem_of_rep (hf : Nat → Nat) (idx : Index) (sl : List Elem) (r : Rep hf idx sl) (e : Elem) :
    e ∈ sl ↔ e.hash = hf e.id ∧ lookup idx e.id = some e.head := by
  rw [r.look, lookupHead_pairs_iff r.wf]
  constructor
  · intro he
    have := (r.wf.hash e he).1
    refine ⟨this, ?_⟩
    have : elemOf hf e.id e.head = e := by cases e; simp only [elemOf] at *; simp [this]
    rw [this]; exact he
  · rintro ⟨h1, h2⟩
    have : elemOf hf e.id e.head = e := by cases e; simp only [elemOf] at *; simp [h1]
    rw [this] at h2; exact h2

/-! ### the abstract classification is `specK true` of C07 -/

theorem look_some_iff {hf : Nat → Nat} {idx : Index} {sl : List Elem} (r : Rep hf idx sl) (k h : Nat) :
    lookup idx k = some h ↔ (k, h) ∈ pairs sl := by
  rw [r.look, Ldiff.lookup_some_iff (pairs_nodup r.wf)]

theorem look_none_iff {hf : Nat → Nat} {idx : Index} {sl : List Elem} (r : Rep hf idx sl) (k : Nat) :
    lookup idx k = none ↔ ∀ h, (k, h) ∉ pairs sl := by
  rw [r.look, Ldiff.lookup_none_iff]

/-- `pushIds` = `removedIds ∪ changedIds` of `CompareDiff` as specified by C07 -/
theorem push_iff_spec (hf : Nat → Nat) (ia ib : Index) (sla slb : List Elem)
    (ra : Rep hf ia sla) (rb : Rep hf ib slb) (k : Nat) :
    k ∈ pushIds ia ib ↔
      k ∈ specK true .rm (pairs sla) (pairs slb) ∨ k ∈ specK true .ch (pairs sla) (pairs slb) := by
  have sm := Ldiff.spec_meaning (pairs sla) (pairs slb) (pairs_nodup rb.wf) k
  rw [(sm.2.1 true), sm.2.2.2.1, mem_pushIds]
  constructor
  · rintro ⟨hm, h1, h2⟩
    have h1' := (look_some_iff ra k hm).1 h1
    rcases h2 with h2 | ⟨ht, h2, hlt⟩
    · left; exact ⟨⟨hm, h1'⟩, (look_none_iff rb k).1 h2⟩
    · right; exact ⟨hm, ht, h1', (look_some_iff rb k ht).1 h2, by omega, by omega⟩
  · rintro (⟨⟨hm, h1⟩, h2⟩ | ⟨hm, ht, h1, h2, hne, hng⟩)
    · exact ⟨hm, (look_some_iff ra k hm).2 h1, Or.inl ((look_none_iff rb k).2 h2)⟩
    · exact ⟨hm, (look_some_iff ra k hm).2 h1, Or.inr ⟨ht, (look_some_iff rb k ht).2 h2, by omega⟩⟩

/-- `pullIds` = `theirChangedIds ∪ newIds` of `CompareDiff` as specified by C07 -/
theorem pull_iff_spec (hf : Nat → Nat) (ia ib : Index) (sla slb : List Elem)
    (ra : Rep hf ia sla) (rb : Rep hf ib slb) (k : Nat) :
    k ∈ pullIds ia ib ↔
      k ∈ specK true .th (pairs sla) (pairs slb) ∨ k ∈ specK true .new (pairs sla) (pairs slb) := by
  have sm := Ldiff.spec_meaning (pairs sla) (pairs slb) (pairs_nodup rb.wf) k
  rw [(sm.1 true), sm.2.2.2.2.1]
  unfold pullIds
  rw [mem_pushIds]
  constructor
  · rintro ⟨hb, h1, h2⟩
    have h1' := (look_some_iff rb k hb).1 h1
    rcases h2 with h2 | ⟨ha, h2, hlt⟩
    · right; exact ⟨⟨hb, h1'⟩, (look_none_iff ra k).1 h2⟩
    · left; exact ⟨ha, hb, (look_some_iff ra k ha).1 h2, h1', by omega, by omega⟩
  · rintro (⟨ha, hb, h1, h2, hne, hg⟩ | ⟨⟨hb, h1⟩, h2⟩)
    · exact ⟨hb, (look_some_iff rb k hb).2 h2, Or.inr ⟨ha, (look_some_iff ra k ha).2 h1, by omega⟩⟩
    · exact ⟨hb, (look_some_iff rb k hb).2 h1, Or.inl ((look_none_iff ra k).2 h2)⟩

/-! ### the live ldiff index of a key-value history, and the one a restart rebuilds -/

/-- the ldiff index `innerstorage` maintains incrementally along a key-value history -/
def liveIndex {D} (A : Ldiff.DigAlg D) (hf : Nat → Nat) (df thr : Nat) (ops : List Op) : Ldiff.Index D :=
  (Ldiff.Index.new A Ldiff.goSplit df thr).run A Ldiff.goSplit (runOps hf State.init ops)

/-- `innerstorage.New`: one `Set(all rows…)` over the collection (shadowed bindings of the association
list first, so that the visible one is set last; a real collection has distinct ids) -/
def rebuildOps (hf : Nat → Nat) (st : Store) : List Ldiff.Op :=
  elsOps hf (st.map fun p => (p.1, headOf p.2.ts)).reverse

theorem lookup_map_head (st : Store) (k : Nat) :
    lookup (st.map fun p => (p.1, headOf p.2.ts)) k = indexOf st k := by
  induction st with
  | nil => simp [lookup, indexOf]
  | cons p st ih =>
    obtain ⟨a, b⟩ := p
    simp only [List.map_cons, lookup, indexOf] at ih ⊢
    by_cases h : a = k
    · simp [h]
    · simp only [h, if_false]; exact ih

theorem rebuildOps_wf (hf : Nat → Nat) (h64 : ∀ k, hf k < M) (st : Store) :
    ∀ op, op ∈ rebuildOps hf st → op.Wf hf := by
  intro op h; simp only [rebuildOps, elsOps, List.mem_map] at h
  obtain ⟨e, _, rfl⟩ := h; exact setOp_wf hf h64 e

theorem rebuildOps_rows (hf : Nat → Nat) (h64 : ∀ k, hf k < M) (st : Store) (e : Elem) :
    e ∈ slRun [] (rebuildOps hf st) ↔ e.hash = hf e.id ∧ indexOf st e.id = some e.head := by
  have r := rep_foldl_set hf h64 (st.map fun p => (p.1, headOf p.2.ts)).reverse [] [] (rep_nil hf)
  rw [show slRun [] (rebuildOps hf st) = slRun [] (List.map (setOp hf) (st.map fun p => (p.1, headOf p.2.ts)).reverse) from rfl,
    mem_of_rep hf _ _ r e, lookup_foldl_upsert_rev, lookup_map_head]
  cases indexOf st e.id <;> simp [lookup]

end AnySync.KV
