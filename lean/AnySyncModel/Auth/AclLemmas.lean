/-
Helper lemmas about the ACL side of C02: the per-account permission cache (`buildCache`,
`closest`) against the specification `permAt` (a fold over the record sequence).
-/
import AnySyncModel.Auth.Model

namespace AnySync.Auth

/-! ### record positions -/

theorem idxOf_lt {l : Log} {r : RecId} {i : Nat} (h : idxOf l r = some i) : i < l.length := by
  induction l generalizing i with
  | nil => simp [idxOf] at h
  | cons x xs ih =>
    simp only [idxOf] at h
    split at h
    · simp at h; subst h; simp
    · cases hx : idxOf xs r with
      | none => simp [hx] at h
      | some j => simp [hx] at h; subst h; have := ih hx; simp; omega

theorem idxOf_append (l : Log) (x : Rec) (r : RecId) :
    idxOf (l ++ [x]) r =
      match idxOf l r with
      | some i => some i
      | none => if x.id = r then some l.length else none := by
  induction l with
  | nil => simp [idxOf]
  | cons y ys ih =>
    simp only [List.cons_append, idxOf]
    split
    · rfl
    · rw [ih]
      cases idxOf ys r with
      | some i => simp
      | none => simp

theorem idxOf_none_of_not_mem {l : Log} {r : RecId} (h : r ∉ l.map (·.id)) : idxOf l r = none := by
  induction l with
  | nil => rfl
  | cons y ys ih =>
    simp only [List.map_cons, List.mem_cons, not_or] at h
    simp only [idxOf]
    rw [if_neg (fun e => h.1 e.symm), ih h.2]; rfl

theorem idxOf_some_mem {l : Log} {r : RecId} {i : Nat} (h : idxOf l r = some i) : r ∈ l.map (·.id) := by
  by_cases hm : r ∈ l.map (·.id)
  · exact hm
  · rw [idxOf_none_of_not_mem hm] at h; cases h

/-! ### the specification fold -/

theorem permAfter_append (l : Log) (x : Rec) :
    permAfter (l ++ [x]) = permFold (permAfter l) x.effs := by
  simp [permAfter, List.foldl_append]

/-- permissions set on account `a` by a list of effects, in order -/
def setsOn (a : Acc) : List Effect → List Perm
  | [] => []
  | .set b p :: es => if b = a then p :: setsOn a es else setsOn a es
  | .add b p :: es => if b = a then p :: setsOn a es else setsOn a es
  | .touch _ :: es => setsOn a es

def lastOr (d : Perm) : List Perm → Perm
  | [] => d
  | p :: ps => lastOr p ps

theorem permFold_eq (m : Acc → Perm) (es : List Effect) (a : Acc) :
    permFold m es a = lastOr (m a) (setsOn a es) := by
  induction es generalizing m with
  | nil => rfl
  | cons e es ih =>
    simp only [permFold, List.foldl_cons] at ih ⊢
    rw [ih]
    cases e with
    | set b p =>
      by_cases hb : b = a
      · subst hb; simp [setsOn, Effect.apply, lastOr]
      · have : a ≠ b := fun h => hb h.symm
        simp [setsOn, hb, Effect.apply, this]
    | add b p =>
      by_cases hb : b = a
      · subst hb; simp [setsOn, Effect.apply, lastOr]
      · have : a ≠ b := fun h => hb h.symm
        simp [setsOn, hb, Effect.apply, this]
    | touch b => simp [setsOn, Effect.apply]

/-! ### the cache fold (keep = true) -/

theorem histOf_applyRec_true (c : Cache) (rid : RecId) (es : List Effect) (a : Acc) :
    histOf (es.foldl (applyEffect true rid) c) a = histOf c a ++ (setsOn a es).map (fun p => ⟨rid, p⟩) := by
  induction es generalizing c with
  | nil => simp [setsOn]
  | cons e es ih =>
    rw [List.foldl_cons, ih]
    cases e with
    | set b p =>
      by_cases hb : b = a
      · subst hb; simp [setsOn, histOf, applyEffect]
      · have : a ≠ b := fun h => hb h.symm
        simp [setsOn, hb, histOf, applyEffect, this]
    | add b p =>
      by_cases hb : b = a
      · subst hb; simp [setsOn, histOf, applyEffect]
      · have : a ≠ b := fun h => hb h.symm
        simp [setsOn, hb, histOf, applyEffect, this]
    | touch b =>
      by_cases hb : b = a
      · subst hb; simp [setsOn, histOf, applyEffect]
      · have : a ≠ b := fun h => hb h.symm
        simp [setsOn, histOf, applyEffect, this]

theorem buildCache_append (keep : Bool) (l : Log) (x : Rec) :
    buildCache keep (l ++ [x]) = applyRec keep (buildCache keep l) x := by
  simp [buildCache, List.foldl_append]

/-! ### `closestRev` -/

theorem closestRev_append (f : RecId → Bool) (xs ys : List PermChange) :
    closestRev f (xs ++ ys) = if xs.any (fun x => f x.rid) then closestRev f xs else closestRev f ys := by
  induction xs with
  | nil => simp
  | cons x xs ih =>
    simp only [List.cons_append, closestRev, List.any_cons]
    by_cases hx : f x.rid = true
    · simp [hx]
    · simp only [hx, Bool.false_eq_true, if_false, Bool.false_or]; exact ih

theorem closestRev_none (f : RecId → Bool) (xs : List PermChange) (h : xs.any (fun x => f x.rid) = false) :
    closestRev f xs = 0 := by
  induction xs with
  | nil => rfl
  | cons x xs ih =>
    simp only [List.any_cons, Bool.or_eq_false_iff] at h
    simp [closestRev, h.1, ih h.2]

theorem closestRev_congr (f g : RecId → Bool) (xs : List PermChange) (h : ∀ x ∈ xs, f x.rid = g x.rid) :
    closestRev f xs = closestRev g xs := by
  induction xs with
  | nil => rfl
  | cons x xs ih =>
    simp only [closestRev, h x (List.mem_cons_self ..)]
    rw [ih (fun y hy => h y (List.mem_cons_of_mem _ hy))]


/-! ### the cache equals the specification (history kept) -/

theorem lastOr_append (d : Perm) (xs ys : List Perm) : lastOr d (xs ++ ys) = lastOr (lastOr d xs) ys := by
  induction xs generalizing d with
  | nil => rfl
  | cons x xs ih => simp [lastOr, ih]

def lastPerm (h : List PermChange) : Perm := lastOr 0 (h.map (·.perm))

theorem closestRev_allTrue (f : RecId → Bool) (zs : List PermChange) (h : ∀ z ∈ zs, f z.rid = true) :
    closestRev f zs = lastPerm zs.reverse := by
  cases zs with
  | nil => rfl
  | cons z zs =>
    simp [closestRev, h z (List.mem_cons_self ..), lastPerm, lastOr_append, lastOr]

theorem indexOf_of_idxOf {l : Log} {r : RecId} {i : Nat} (h : idxOf l r = some i) : indexOf l r = i := by
  simp [indexOf, h]

structure CacheInv (l : Log) : Prop where
  ridIn : ∀ a, ∀ pc ∈ histOf (buildCache true l) a, ∃ j, idxOf l pc.rid = some j
  last : ∀ a, lastPerm (histOf (buildCache true l) a) = permAfter l a
  main : ∀ a r i, idxOf l r = some i → closest l (histOf (buildCache true l) a) r = permAt l i a

theorem permAt_append_lt (l : Log) (x : Rec) (i : Nat) (a : Acc) (hi : i < l.length) :
    permAt (l ++ [x]) i a = permAt l i a := by
  simp only [permAt]
  rw [List.take_append_of_le_length (by omega)]

theorem permAt_last (l : Log) (a : Acc) (n : Nat) (hn : l.length ≤ n + 1) : permAt l n a = permAfter l a := by
  simp only [permAt]
  rw [List.take_of_length_le hn]

theorem cacheInv_nil : CacheInv [] := by
  refine ⟨?_, ?_, ?_⟩
  · intro a pc h; simp [buildCache, histOf, emptyCache] at h
  · intro a; simp [buildCache, histOf, emptyCache, lastPerm, lastOr, permAfter, noPerms]
  · intro a r i h; simp [idxOf] at h

theorem cacheInv_snoc (l : Log) (x : Rec) (hx : x.id ∉ l.map (·.id)) (ih : CacheInv l) :
    CacheInv (l ++ [x]) := by
  have hxn : idxOf l x.id = none := idxOf_none_of_not_mem hx
  have hidx : idxOf (l ++ [x]) x.id = some l.length := by rw [idxOf_append, hxn]; simp
  have hkeep : ∀ r j, idxOf l r = some j → idxOf (l ++ [x]) r = some j := by
    intro r j h; rw [idxOf_append, h]
  have hhist : ∀ a, histOf (buildCache true (l ++ [x])) a =
      histOf (buildCache true l) a ++ (setsOn a x.effs).map (fun p => ⟨x.id, p⟩) := by
    intro a; rw [buildCache_append]; exact histOf_applyRec_true _ _ _ _
  have hridIn : ∀ a, ∀ pc ∈ histOf (buildCache true (l ++ [x])) a, ∃ j, idxOf (l ++ [x]) pc.rid = some j := by
    intro a pc hpc
    rw [hhist] at hpc
    rcases List.mem_append.mp hpc with h | h
    · obtain ⟨j, hj⟩ := ih.ridIn a pc h; exact ⟨j, hkeep _ _ hj⟩
    · simp only [List.mem_map] at h
      obtain ⟨p, _, rfl⟩ := h
      exact ⟨_, hidx⟩
  have hlast : ∀ a, lastPerm (histOf (buildCache true (l ++ [x])) a) = permAfter (l ++ [x]) a := by
    intro a
    rw [hhist, permAfter_append, permFold_eq, ← ih.last a]
    simp [lastPerm, lastOr_append, Function.comp_def]
  refine ⟨hridIn, hlast, ?_⟩
  intro a r i hr
  rw [idxOf_append] at hr
  cases hlr : idxOf l r with
  | some j =>
    rw [hlr] at hr; simp at hr; subst hr
    have hj : j < l.length := idxOf_lt hlr
    rw [permAt_append_lt l x j a hj, ← ih.main a r j hlr, hhist]
    simp only [closest, List.reverse_append]
    rw [closestRev_append]
    have hnone : (List.map (fun p => (⟨x.id, p⟩ : PermChange)) (setsOn a x.effs)).reverse.any
        (fun y => isAfterNoCheck (l ++ [x]) r y.rid) = false := by
      rw [List.any_eq_false]
      intro y hy
      simp only [List.mem_reverse, List.mem_map] at hy
      obtain ⟨p, _, rfl⟩ := hy
      simp [isAfterNoCheck, indexOf_of_idxOf (hkeep _ _ hlr), indexOf_of_idxOf hidx]; omega
    rw [hnone]; simp only [Bool.false_eq_true, if_false]
    apply closestRev_congr
    intro y hy
    obtain ⟨k, hk⟩ := ih.ridIn a y (List.mem_reverse.mp hy)
    simp [isAfterNoCheck, indexOf_of_idxOf (hkeep _ _ hlr), indexOf_of_idxOf hlr,
      indexOf_of_idxOf (hkeep _ _ hk), indexOf_of_idxOf hk]
  | none =>
    rw [hlr] at hr
    by_cases hxr : x.id = r
    · simp [hxr] at hr; subst hr; subst hxr
      rw [permAt_last (l ++ [x]) a l.length (by simp), ← hlast a]
      simp only [closest]
      rw [closestRev_allTrue]
      · simp
      · intro z hz
        obtain ⟨k, hk⟩ := hridIn a z (List.mem_reverse.mp hz)
        have hkl : k < (l ++ [x]).length := idxOf_lt hk
        simp [isAfterNoCheck, indexOf_of_idxOf hidx, indexOf_of_idxOf hk]
        simp at hkl; omega
    · simp [hxr] at hr

theorem cacheInv_rev (l' : Log) (h : (l'.reverse.map (·.id)).Nodup) : CacheInv l'.reverse := by
  induction l' with
  | nil => exact cacheInv_nil
  | cons x xs ih =>
    simp only [List.reverse_cons, List.map_append, List.map_cons, List.map_nil] at h ⊢
    have hnd := List.nodup_append.mp h
    apply cacheInv_snoc _ _ _ (ih hnd.1)
    intro hm
    exact hnd.2.2 _ hm _ (List.mem_singleton.mpr rfl) rfl

theorem cacheInv (l : Log) (h : (l.map (·.id)).Nodup) : CacheInv l := by
  have := cacheInv_rev l.reverse (by simpa using h)
  simpa using this


/-! ### history replaced by `AccountsAdd` (keep = false): the cache is a suffix of the kept one -/

/-- `c2` (history replaced on AccountsAdd) relates to `c1` (history kept) -/
def SuffixRel (c1 c2 : Cache) : Prop :=
  ∀ a, (c1 a).isSome = (c2 a).isSome ∧ ∃ pre, histOf c1 a = pre ++ histOf c2 a

theorem suffixRel_applyEffect (rid : RecId) (c1 c2 : Cache) (e : Effect) (h : SuffixRel c1 c2) :
    SuffixRel (applyEffect true rid c1 e) (applyEffect false rid c2 e) := by
  intro a
  obtain ⟨hs, pre, hp⟩ := h a
  cases e with
  | set b p =>
    by_cases hb : a = b
    · subst hb; obtain ⟨_, pre, hp⟩ := h a
      exact ⟨by simp [applyEffect], pre, by simp [applyEffect, histOf] at hp ⊢; simp [hp]⟩
    · exact ⟨by simp [applyEffect, hb, hs], pre, by simpa [applyEffect, histOf, hb] using hp⟩
  | add b p =>
    by_cases hb : a = b
    · subst hb
      exact ⟨by simp [applyEffect], histOf c1 a, by simp [applyEffect, histOf]⟩
    · exact ⟨by simp [applyEffect, hb, hs], pre, by simpa [applyEffect, histOf, hb] using hp⟩
  | touch b =>
    by_cases hb : a = b
    · subst hb
      exact ⟨by simp [applyEffect], pre, by simpa [applyEffect, histOf] using hp⟩
    · exact ⟨by simp [applyEffect, hb, hs], pre, by simpa [applyEffect, histOf, hb] using hp⟩

theorem suffixRel_effs (rid : RecId) (es : List Effect) (c1 c2 : Cache) (h : SuffixRel c1 c2) :
    SuffixRel (es.foldl (applyEffect true rid) c1) (es.foldl (applyEffect false rid) c2) := by
  induction es generalizing c1 c2 with
  | nil => exact h
  | cons e es ih => exact ih _ _ (suffixRel_applyEffect rid c1 c2 e h)

theorem suffixRel_log (l : Log) (c1 c2 : Cache) (h : SuffixRel c1 c2) :
    SuffixRel (l.foldl (applyRec true) c1) (l.foldl (applyRec false) c2) := by
  induction l generalizing c1 c2 with
  | nil => exact h
  | cons r rs ih => exact ih _ _ (suffixRel_effs r.id r.effs c1 c2 h)

theorem suffixRel_build (l : Log) : SuffixRel (buildCache true l) (buildCache false l) :=
  suffixRel_log l _ _ (fun _ => ⟨rfl, [], rfl⟩)

/-- looking only at a suffix of the history gives the same answer or "no permission" -/
theorem closest_suffix (l : Log) (pre suf : List PermChange) (r : RecId) :
    closest l suf r = closest l (pre ++ suf) r ∨ closest l suf r = 0 := by
  simp only [closest, List.reverse_append]
  rw [closestRev_append]
  by_cases h : suf.reverse.any (fun x => isAfterNoCheck l r x.rid) = true
  · left; simp [h]
  · right; exact closestRev_none _ _ (by simpa using h)

/-- for either shape of `applyAccountsAdd`: the cached answer is the specification's or `None` -/
theorem closest_sound (keep : Bool) (l : Log) (hnd : (l.map (·.id)).Nodup) (a : Acc) (r : RecId) (i : Nat)
    (hr : idxOf l r = some i) :
    closest l (histOf (buildCache keep l) a) r = permAt l i a ∨
    closest l (histOf (buildCache keep l) a) r = 0 := by
  cases keep with
  | true => left; exact (cacheInv l hnd).main a r i hr
  | false =>
    obtain ⟨_, pre, hp⟩ := suffixRel_build l a
    rcases closest_suffix l pre (histOf (buildCache false l) a) r with h | h
    · left; rw [h, ← hp]; exact (cacheInv l hnd).main a r i hr
    · right; exact h

/-! ### histories without re-add through `AccountsAdd` -/

/-- no `AccountsAdd` names an account that already has a permission history -/
def noReaddEffs (rid : RecId) : Cache → List Effect → Prop
  | _, [] => True
  | c, e :: es =>
    (match e with | .add a _ => histOf c a = [] | _ => True) ∧ noReaddEffs rid (applyEffect true rid c e) es

def noReaddFrom : Cache → Log → Prop
  | _, [] => True
  | c, r :: rs => noReaddEffs r.id c r.effs ∧ noReaddFrom (applyRec true c r) rs

/-- the history never re-adds a known account through `AccountsAdd` -/
def NoReadd (l : Log) : Prop := noReaddFrom emptyCache l

theorem applyEffect_false_eq (rid : RecId) (c : Cache) (e : Effect)
    (h : match e with | .add a _ => histOf c a = [] | _ => True) :
    applyEffect false rid c e = applyEffect true rid c e := by
  cases e with
  | add a p => funext x; simp only [applyEffect] at *; simp [h]
  | set a p => rfl
  | touch a => rfl

theorem noReadd_effs_eq (rid : RecId) (es : List Effect) (c : Cache) (h : noReaddEffs rid c es) :
    es.foldl (applyEffect false rid) c = es.foldl (applyEffect true rid) c := by
  induction es generalizing c with
  | nil => rfl
  | cons e es ih =>
    simp only [List.foldl_cons]
    rw [applyEffect_false_eq rid c e h.1]
    exact ih _ h.2

theorem noReadd_log_eq (l : Log) (c : Cache) (h : noReaddFrom c l) :
    l.foldl (applyRec false) c = l.foldl (applyRec true) c := by
  induction l generalizing c with
  | nil => rfl
  | cons r rs ih =>
    simp only [List.foldl_cons]
    have : applyRec false c r = applyRec true c r := noReadd_effs_eq r.id r.effs c h.1
    rw [this]; exact ih _ h.2

theorem buildCache_false_eq_of_noReadd (l : Log) (h : NoReadd l) : buildCache false l = buildCache true l :=
  noReadd_log_eq l _ h

end AnySync.Auth
