/-
Helper lemmas for C02 about the tree side: `unmarshal`, `validateChange`, the `Tree.Add` cascade,
rollback.
-/
import AnySyncModel.Auth.AclLemmas
import AnySyncModel.Auth.AcceptSpec

namespace AnySync.Auth

/-! ### unmarshal -/

theorem unmarshal_ok {H : Nat → Id} {rootId : Id} {raw : Raw} {c : Change}
    (h : unmarshal H rootId raw = .ok c) :
    raw.id = H raw.body.bytes ∧ ∃ p s, raw.body.decoded = some (p, s) ∧
      c = ⟨raw.id, raw.id == rootId && p.derived, p.identity, p.aclHead, p.prev, p.snap, p.isSnap⟩ ∧
      ((raw.id == rootId && p.derived) = true ∨ s = Sig.sign p.identity p.bytes) := by
  unfold unmarshal at h
  split at h
  · cases h
  · rename_i hid
    simp only [ne_eq, Decidable.not_not] at hid
    refine ⟨hid, ?_⟩
    split at h
    · cases h
    · rename_i p s hd
      simp only at h
      split at h
      · cases h
      · rename_i hsig
        refine ⟨p, s, hd, ?_, ?_⟩
        · cases h; rfl
        · simp only [Bool.and_eq_true, Bool.not_eq_eq_eq_not, Bool.not_true, not_and,
            Bool.not_eq_false] at hsig
          by_cases hder : (raw.id == rootId && p.derived) = true
          · left; exact hder
          · right
            have := hsig (by simpa using hder)
            simpa [verifySig] using this

/-! ### validation -/

theorem validateAll_ok {cw keep l att rootId} {cs : List Change}
    (h : validateAll cw keep l att rootId cs = .ok ()) :
    ∀ c ∈ cs, validateChange cw keep l att rootId c = .ok () := by
  induction cs with
  | nil => intro c hc; cases hc
  | cons x xs ih =>
    simp only [validateAll] at h
    split at h
    · cases h
    · rename_i hx
      intro c hc
      rcases List.mem_cons.mp hc with rfl | hc
      · exact hx
      · exact ih h c hc

theorem findCh_some {att : List Change} {id : Id} {c : Change} (h : findCh att id = some c) :
    c ∈ att ∧ c.id = id := by
  unfold findCh at h
  exact ⟨List.mem_of_find?_eq_some h, by simpa using List.find?_some h⟩

theorem checkPrev_ok {l : Log} {att : List Change} {c : Change} {i : Nat} (hi : idxOf l c.aclHead = some i)
    {ps : List Id} (h : checkPrev l att c ps = .ok ()) :
    ∀ pid ∈ ps, ∃ pc ∈ att, pc.id = pid ∧ (pc.derived = true ∨ ∃ j, idxOf l pc.aclHead = some j ∧ j ≤ i) := by
  induction ps with
  | nil => intro pid hp; cases hp
  | cons q qs ih =>
    simp only [checkPrev] at h
    split at h
    · cases h
    · rename_i pc hf
      obtain ⟨hmem, hid⟩ := findCh_some hf
      have key : (pc.derived = true ∨ ∃ j, idxOf l pc.aclHead = some j ∧ j ≤ i) ∧ checkPrev l att c qs = .ok () := by
        split at h
        · rename_i he
          exact ⟨Or.inr ⟨i, by rw [he]; exact hi, Nat.le_refl _⟩, h⟩
        · split at h
          · rename_i hd; exact ⟨Or.inl hd, h⟩
          · split at h
            · rename_i i' j hi' hj
              split at h
              · rename_i hge
                rw [hi] at hi'; cases hi'
                exact ⟨Or.inr ⟨j, hj, hge⟩, h⟩
              · cases h
            · cases h
      intro pid hp
      rcases List.mem_cons.mp hp with rfl | hp
      · exact ⟨pc, hmem, hid, key.1⟩
      · exact ih key.2 pid hp

theorem permissionsAtRecord_sound {cw : Perm → Bool} (hcw : cw 0 = false) {keep : Bool} {l : Log}
    (hnd : (l.map (·.id)).Nodup) {r : RecId} {a : Acc} {p : Perm}
    (h : permissionsAtRecord keep l r a = .ok p) (hp : cw p = true) :
    ∃ i, idxOf l r = some i ∧ cw (permAt l i a) = true := by
  unfold permissionsAtRecord at h
  split at h
  · cases h
  · rename_i i hi
    refine ⟨i, hi, ?_⟩
    split at h
    · cases h
    · rename_i hist hc
      cases h
      have hh : histOf (buildCache keep l) a = hist := by simp [histOf, hc]
      rcases closest_sound keep l hnd a r i hi with h1 | h1
      · rw [hh] at h1; rw [← h1]; exact hp
      · rw [hh] at h1; rw [h1, hcw] at hp; cases hp

theorem validateChange_ok {cw : Perm → Bool} (hcw : cw 0 = false) {keep : Bool} {l : Log}
    (hnd : (l.map (·.id)).Nodup) {att : List Change} {rootId : Id} {c : Change}
    (h : validateChange cw keep l att rootId c = .ok ()) :
    c.derived = true ∨
    ∃ i, idxOf l c.aclHead = some i ∧ cw (permAt l i c.identity) = true ∧
      (c.id = rootId ∨ ∀ pid ∈ c.prev, ∃ pc ∈ att, pc.id = pid ∧
        (pc.derived = true ∨ ∃ j, idxOf l pc.aclHead = some j ∧ j ≤ i)) := by
  unfold validateChange at h
  split at h
  · left; assumption
  · right
    split at h
    · cases h
    · rename_i p hp
      split at h
      · cases h
      · rename_i hcwp
        obtain ⟨i, hi, hperm⟩ := permissionsAtRecord_sound hcw hnd hp (by simpa using hcwp)
        refine ⟨i, hi, hperm, ?_⟩
        split at h
        · left; assumption
        · right; exact checkPrev_ok hi h


/-! ### the filter + unmarshal loop -/

theorem filterNew_ok {H : Nat → Id} {t : TreeSt} {batch : List Raw} {cs : List Change}
    (h : filterNew H t batch = .ok cs) :
    ∀ c ∈ cs, ∃ raw ∈ batch, hasId t.attached raw.id = false ∧ unmarshal H t.rootId raw = .ok c := by
  induction batch generalizing cs with
  | nil => simp only [filterNew] at h; cases h; intro c hc; cases hc
  | cons r rs ih =>
    simp only [filterNew] at h
    split at h
    · intro c hc
      obtain ⟨raw, hm, hr⟩ := ih h c hc
      exact ⟨raw, List.mem_cons_of_mem _ hm, hr⟩
    · rename_i hskip
      split at h
      · cases h
      · rename_i c0 hc0
        split at h
        · cases h
        · rename_i cs0 hcs0
          cases h
          intro c hc
          rcases List.mem_cons.mp hc with rfl | hc
          · exact ⟨r, List.mem_cons_self .., by simpa using hskip, hc0⟩
          · obtain ⟨raw, hm, hr⟩ := ih hcs0 c hc
            exact ⟨raw, List.mem_cons_of_mem _ hm, hr⟩

/-- one bad raw change that is not skipped makes the whole loop fail -/
theorem filterNew_err {H : Nat → Id} {t : TreeSt} {batch : List Raw} {raw : Raw} (hm : raw ∈ batch)
    (hskip : hasId t.attached raw.id = false) {e : Err} (hbad : unmarshal H t.rootId raw = .error e) :
    ∃ e', filterNew H t batch = .error e' := by
  induction batch with
  | nil => cases hm
  | cons r rs ih =>
    simp only [filterNew]
    rcases List.mem_cons.mp hm with rfl | hm
    · simp [hskip, hbad]
    · obtain ⟨e', he'⟩ := ih hm
      split
      · exact ⟨e', he'⟩
      · split
        · exact ⟨_, rfl⟩
        · simp [he']

/-! ### `Tree.Add` -/

theorem hasId_append (xs ys : List Change) (id : Id) : hasId (xs ++ ys) id = (hasId xs id || hasId ys id) := by
  simp [hasId]

theorem hasId_mem {xs : List Change} {c : Change} (h : c ∈ xs) : hasId xs c.id = true := by
  simp only [hasId, List.any_eq_true]; exact ⟨c, h, by simp⟩

theorem hasId_false {xs : List Change} {id : Id} (h : hasId xs id = false) : ∀ c ∈ xs, c.id ≠ id := by
  intro c hc he
  have := hasId_mem hc
  rw [he, h] at this; cases this

structure AddInv (att new : List Change) (s : AttSt) : Prop where
  att_eq : s.attached = att ++ s.added
  added_new : ∀ c ∈ s.added, c ∈ new
  unatt_new : ∀ c ∈ s.unatt, c ∈ new
  added_fresh : ∀ c ∈ s.added, hasId att c.id = false
  unatt_fresh : ∀ c ∈ s.unatt, hasId s.attached c.id = false
  prevs : ∀ c ∈ s.added, ∀ pid ∈ c.prev, hasId s.attached pid = true
  hasPrev : ∀ c ∈ s.added, c.prev ≠ []

theorem canAttach_true {att : List Change} {c : Change} {b : Bool} (h : canAttach att c = (true, b)) :
    ∀ pid ∈ c.prev, hasId att pid = true := by
  unfold canAttach at h
  split at h
  · cases h
  · split at h
    · rename_i hall
      simpa [allPrevAttached, List.all_eq_true] using hall
    · cases h

theorem canAttach_true_nonempty {att : List Change} {c : Change} {b : Bool} (h : canAttach att c = (true, b)) :
    c.prev ≠ [] := by
  unfold canAttach at h
  split at h
  · cases h
  · rename_i hne
    intro he; rw [he] at hne; simp at hne

theorem addInv_attachOne {att new : List Change} {s : AttSt} (inv : AddInv att new s) {c : Change}
    (hnew : c ∈ new) (hfresh : hasId s.attached c.id = false)
    (hprev : ∀ pid ∈ c.prev, hasId s.attached pid = true) (hne : c.prev ≠ []) : AddInv att new (attachOne s c) := by
  refine ⟨?_, ?_, ?_, ?_, ?_, ?_, ?_⟩
  · simp [attachOne, inv.att_eq]
  · intro d hd
    simp only [attachOne, List.mem_append, List.mem_singleton] at hd
    rcases hd with hd | rfl
    · exact inv.added_new d hd
    · exact hnew
  · intro d hd
    simp only [attachOne, List.mem_filter] at hd
    exact inv.unatt_new d hd.1
  · intro d hd
    simp only [attachOne, List.mem_append, List.mem_singleton] at hd
    rcases hd with hd | rfl
    · exact inv.added_fresh d hd
    · rw [inv.att_eq, hasId_append] at hfresh
      simpa using (Bool.or_eq_false_iff.mp hfresh).1
  · intro d hd
    simp only [attachOne, List.mem_filter] at hd
    simp only [attachOne, hasId_append, inv.unatt_fresh d hd.1, Bool.false_or]
    have : (d.id != c.id) = true := hd.2
    simp only [hasId, List.any_cons, List.any_nil, Bool.or_false]
    simp only [bne_iff_ne, ne_eq] at this
    simp [beq_eq_false_iff_ne]
    exact fun h => this h.symm
  · intro d hd pid hp
    simp only [attachOne, List.mem_append, List.mem_singleton] at hd
    simp only [attachOne, hasId_append]
    rcases hd with hd | rfl
    · simp [inv.prevs d hd pid hp]
    · simp [hprev pid hp]
  · intro d hd
    simp only [attachOne, List.mem_append, List.mem_singleton] at hd
    rcases hd with hd | rfl
    · exact inv.hasPrev d hd
    · exact hne

theorem addInv_wait {att new : List Change} {s : AttSt} (inv : AddInv att new s) (w : List (Id × Id)) :
    AddInv att new { s with wait := w } :=
  ⟨inv.att_eq, inv.added_new, inv.unatt_new, inv.added_fresh, inv.unatt_fresh, inv.prevs, inv.hasPrev⟩

theorem addInv_unattFilter {att new : List Change} {s : AttSt} (inv : AddInv att new s) (f : Change → Bool) :
    AddInv att new { s with unatt := s.unatt.filter f } :=
  ⟨inv.att_eq, inv.added_new, fun c hc => inv.unatt_new c (List.mem_filter.mp hc).1, inv.added_fresh,
    fun c hc => inv.unatt_fresh c (List.mem_filter.mp hc).1, inv.prevs, inv.hasPrev⟩

theorem addInv_cascade {att new : List Change} (fuel : Nat) (ws : List Id) (s : AttSt)
    (inv : AddInv att new s) : AddInv att new (cascade fuel ws s) := by
  induction fuel generalizing ws s with
  | zero => simpa [cascade] using inv
  | succ n ih =>
    cases ws with
    | nil => simpa [cascade] using inv
    | cons wid rest =>
      simp only [cascade]
      split
      · exact ih _ _ inv
      · rename_i next hf
        obtain ⟨hmem, _⟩ := findCh_some hf
        split
        · rename_i b hcan
          apply ih
          apply addInv_wait
          exact addInv_attachOne inv (inv.unatt_new next hmem) (inv.unatt_fresh next hmem) (canAttach_true hcan)
            (canAttach_true_nonempty hcan)
        · exact ih _ _ (addInv_unattFilter inv _)
        · exact ih _ _ inv

theorem addInv_addOne {att new : List Change} (fuel : Nat) (s : AttSt) (inv : AddInv att new s)
    {c : Change} (hnew : c ∈ new) : AddInv att new (addOne fuel s c) := by
  unfold addOne
  split
  · exact inv
  · rename_i hdup
    simp only [Bool.or_eq_true, not_or, Bool.not_eq_true] at hdup
    split
    · rename_i b hcan
      apply addInv_cascade
      apply addInv_wait
      exact addInv_attachOne inv hnew hdup.1 (canAttach_true hcan) (canAttach_true_nonempty hcan)
    · exact inv
    · refine ⟨inv.att_eq, inv.added_new, ?_, inv.added_fresh, ?_, inv.prevs, inv.hasPrev⟩
      · intro d hd
        rcases List.mem_append.mp hd with hd | hd
        · exact inv.unatt_new d hd
        · simp at hd; subst hd; exact hnew
      · intro d hd
        rcases List.mem_append.mp hd with hd | hd
        · exact inv.unatt_fresh d hd
        · simp at hd; subst hd; exact hdup.1

theorem addInv_foldl {att new : List Change} (fuel : Nat) (cs : List Change) (s : AttSt)
    (inv : AddInv att new s) (hcs : ∀ c ∈ cs, c ∈ new) : AddInv att new (cs.foldl (addOne fuel) s) := by
  induction cs generalizing s with
  | nil => exact inv
  | cons c cs ih =>
    simp only [List.foldl_cons]
    exact ih _ (addInv_addOne fuel s inv (hcs c (List.mem_cons_self ..)))
      (fun d hd => hcs d (List.mem_cons_of_mem _ hd))

theorem addInv_treeAdd (att new : List Change) : AddInv att new (treeAdd att new) := by
  unfold treeAdd
  apply addInv_foldl
  · exact ⟨by simp, by simp, by simp, by simp, by simp, by simp, by simp⟩
  · exact fun c hc => hc

/-! ### rollback -/

theorem rollback_filter (att added : List Change) (hfresh : ∀ c ∈ added, hasId att c.id = false) :
    (att ++ added).filter (fun c => !hasId added c.id) = att := by
  rw [List.filter_append]
  have h1 : att.filter (fun c => !hasId added c.id) = att := by
    rw [List.filter_eq_self]
    intro d hd
    simp only [Bool.not_eq_eq_eq_not, Bool.not_true]
    cases hh : hasId added d.id with
    | false => rfl
    | true =>
      simp only [hasId, List.any_eq_true] at hh
      obtain ⟨c, hc, hcd⟩ := hh
      have := hasId_false (hfresh c hc) d hd
      simp at hcd; exact absurd hcd.symm this
  have h2 : added.filter (fun c => !hasId added c.id) = [] := by
    rw [List.filter_eq_nil_iff]
    intro d hd
    simp [hasId_mem hd]
  rw [h1, h2, List.append_nil]


/-! ### no nil dereference -/

theorem findCh_of_hasId {att : List Change} {id : Id} (h : hasId att id = true) : ∃ c, findCh att id = some c := by
  simp only [hasId, List.any_eq_true] at h
  obtain ⟨c, hc, hid⟩ := h
  cases hf : findCh att id with
  | some d => exact ⟨d, rfl⟩
  | none =>
    simp only [findCh, List.find?_eq_none] at hf
    exact absurd hid (hf c hc)

theorem checkPrev_no_panic (l : Log) (att : List Change) (c : Change) (ps : List Id)
    (h : ∀ pid ∈ ps, hasId att pid = true) : checkPrev l att c ps ≠ .error .panic := by
  induction ps with
  | nil => simp [checkPrev]
  | cons q qs ih =>
    have ihq := ih (fun pid hp => h pid (List.mem_cons_of_mem _ hp))
    obtain ⟨pc, hpc⟩ := findCh_of_hasId (h q (List.mem_cons_self ..))
    simp only [checkPrev, hpc]
    split
    · exact ihq
    · split
      · exact ihq
      · split
        · split
          · exact ihq
          · simp
        · simp

theorem permissionsAtRecord_no_panic (keep : Bool) (l : Log) (r : RecId) (a : Acc) :
    permissionsAtRecord keep l r a ≠ .error .panic := by
  unfold permissionsAtRecord
  split
  · simp
  · split <;> simp

theorem validateChange_no_panic (cw : Perm → Bool) (keep : Bool) (l : Log) (att : List Change) (rootId : Id)
    (c : Change) (h : ∀ pid ∈ c.prev, hasId att pid = true) :
    validateChange cw keep l att rootId c ≠ .error .panic := by
  unfold validateChange
  split
  · simp
  · split
    · rename_i e he
      intro hh; cases hh
      exact permissionsAtRecord_no_panic keep l c.aclHead c.identity he
    · split
      · simp
      · split
        · simp
        · exact checkPrev_no_panic l att c c.prev h

theorem validateAll_no_panic (cw : Perm → Bool) (keep : Bool) (l : Log) (att : List Change) (rootId : Id)
    (cs : List Change) (h : ∀ c ∈ cs, ∀ pid ∈ c.prev, hasId att pid = true) :
    validateAll cw keep l att rootId cs ≠ .error .panic := by
  induction cs with
  | nil => simp [validateAll]
  | cons c cs ih =>
    simp only [validateAll]
    split
    · rename_i e he
      intro hh; cases hh
      exact validateChange_no_panic cw keep l att rootId c (h c (List.mem_cons_self ..)) he
    · exact ih (fun d hd => h d (List.mem_cons_of_mem _ hd))

theorem unmarshal_err_kind {H : Nat → Id} {rootId : Id} {raw : Raw} {e : Err}
    (h : unmarshal H rootId raw = .error e) : e = .cid ∨ e = .decode ∨ e = .sig := by
  unfold unmarshal at h
  split at h
  · cases h; simp
  · split at h
    · cases h; simp
    · simp only at h
      split at h
      · cases h; simp
      · cases h

theorem filterNew_err_kind {H : Nat → Id} {t : TreeSt} {batch : List Raw} {e : Err}
    (h : filterNew H t batch = .error e) : e = .cid ∨ e = .decode ∨ e = .sig := by
  induction batch with
  | nil => simp [filterNew] at h
  | cons r rs ih =>
    simp only [filterNew] at h
    split at h
    · exact ih h
    · split at h
      · rename_i e' he'
        cases h; exact unmarshal_err_kind he'
      · split at h
        · rename_i e' he'
          cases h; exact ih he'
        · cases h


/-! ### the two checks together give the acceptance predicate -/

theorem authentic_of_checks {H : Nat → Id} {cw : Perm → Bool} (hcw : cw 0 = false) {keep : Bool} {l : Log}
    (hnd : (l.map (·.id)).Nodup) {rootId : Id} {att : List Change} {raw : Raw} {c : Change}
    (hu : unmarshal H rootId raw = .ok c) (hv : validateChange cw keep l att rootId c = .ok ()) :
    Authentic H cw l rootId att raw c := by
  obtain ⟨hid, p, s, hd, hc, hsig⟩ := unmarshal_ok hu
  refine ⟨hid, by rw [hc], p, s, hd, by rw [hc], by rw [hc], by rw [hc], ?_⟩
  by_cases hder : (raw.id == rootId && p.derived) = true
  · left
    simp only [Bool.and_eq_true, beq_iff_eq] at hder
    exact ⟨by rw [hc]; exact hder.1, hder.2, by rw [hc]; simp [hder.1, hder.2]⟩
  · right
    have hcd : c.derived = false := by rw [hc]; simpa using hder
    refine ⟨hcd, ?_, ?_⟩
    · rcases hsig with h | h
      · exact absurd h hder
      · exact h
    · rcases validateChange_ok hcw hnd hv with h | h
      · rw [hcd] at h; cases h
      · exact h



/-! ### stability of the acceptance predicate -/

theorem idxOf_append_left {l : Log} {r : RecId} {i : Nat} (h : idxOf l r = some i) (m : Log) :
    idxOf (l ++ m) r = some i := by
  induction l generalizing i with
  | nil => simp [idxOf] at h
  | cons x xs ih =>
    simp only [List.cons_append, idxOf] at h ⊢
    split
    · rename_i hx; simpa [hx] using h
    · rename_i hx
      simp only [hx, if_false] at h
      cases hxs : idxOf xs r with
      | none => simp [hxs] at h
      | some j => simp [hxs] at h; subst h; simp [ih hxs]

theorem permAt_append_left (l m : Log) (i : Nat) (a : Acc) (hi : i < l.length) :
    permAt (l ++ m) i a = permAt l i a := by
  simp only [permAt]
  rw [List.take_append_of_le_length (by omega)]

theorem authentic_mono {H : Nat → Id} {cw : Perm → Bool} {l : Log} {rootId : Id} {att : List Change}
    {raw : Raw} {c : Change} (h : Authentic H cw l rootId att raw c) (more : List Change) (m : Log) :
    Authentic H cw (l ++ m) rootId (att ++ more) raw c := by
  obtain ⟨h1, h2, p, s, hd, hi, ha, hp, hrest⟩ := h
  refine ⟨h1, h2, p, s, hd, hi, ha, hp, ?_⟩
  rcases hrest with hr | ⟨hnd, hs, i, hidx, hperm, hpar⟩
  · exact Or.inl hr
  · right
    refine ⟨hnd, hs, i, idxOf_append_left hidx m, ?_, ?_⟩
    · rw [permAt_append_left l m i _ (idxOf_lt hidx)]; exact hperm
    · rcases hpar with hroot | hpar
      · exact Or.inl hroot
      · right
        intro pid hpid
        obtain ⟨pc, hpc, hpid', hor⟩ := hpar pid hpid
        refine ⟨pc, List.mem_append_left _ hpc, hpid', ?_⟩
        rcases hor with hd' | ⟨j, hj, hji⟩
        · exact Or.inl hd'
        · exact Or.inr ⟨j, idxOf_append_left hj m, hji⟩


/-! ### shape of the result of `addRaw` -/

theorem addRaw_shape (H : Nat → Id) (cw : Perm → Bool) (keep : Bool) (l : Log) (t : TreeSt) (batch : List Raw) :
    let r := addRaw H cw keep l t batch
    (r.2.2 = t ∧ r.2.1 = []) ∨
    (r.1 = .ok ∧ r.2.2.rootId = t.rootId ∧ ∃ cs, r.2.2.attached = t.attached ++ cs ∧ r.2.1 = cs.map (·.id) ∧
      r.2.2.stored = t.stored ++ r.2.1) := by
  simp only
  unfold addRaw
  split
  · left; exact ⟨rfl, rfl⟩
  · left; exact ⟨rfl, rfl⟩
  · rename_i new hne hnew
    split
    · left; exact ⟨rfl, rfl⟩
    · -- the rebuild branch
      have inv := addInv_treeAdd t.attached new
      simp only
      split
      · left; exact ⟨rfl, rfl⟩
      · split
        · left; exact ⟨rfl, rfl⟩
        · right
          exact ⟨rfl, rfl, (treeAdd t.attached new).added, inv.att_eq, rfl, rfl⟩
    · simp only
      split
      · left; exact ⟨rfl, rfl⟩
      · have inv := addInv_treeAdd t.attached new
        split
        · left
          refine ⟨?_, rfl⟩
          simp only [rollback]
          rw [inv.att_eq, rollback_filter _ _ inv.added_fresh]
        · right
          exact ⟨rfl, rfl, (treeAdd t.attached new).added, inv.att_eq, rfl, rfl⟩


theorem unmarshalNoVerify_of_unmarshal {H : Nat → Id} {rootId : Id} {raw : Raw} {c : Change}
    (h : unmarshal H rootId raw = .ok c) : unmarshalNoVerify rootId raw = .ok c := by
  obtain ⟨_, p, s, hd, hc, _⟩ := unmarshal_ok h
  simp [unmarshalNoVerify, hd, hc]

end AnySync.Auth
