/-
Model of the acceptance path for raw tree changes (C02):

* `changeBuilder.Unmarshall(raw, verify = true)`         → `unmarshal`
* `AclState.PermissionsAtRecord` / `closestPermissions`  → `permissionsAtRecord` / `closest`
  over the per-account `PermissionChanges` cache (`buildCache`, mirrors `applyChangeContent`)
* `aclList.IsAfter` / `isAfterNoCheck` (map lookups, zero value for a missing key)
* `objectTreeValidator.validateChange`                    → `validateChange`
* `objectTree.addChangesToTree` (filter + unmarshal loop, snapshot check, `Tree.Add` with the
  wait-list cascade, `ValidateNewChanges`, `rollback`, `createAddResult`) and the
  `storage.AddAll` that follows in `AddRawChangesWithUpdater`       → `addRaw`
* `CreateStorage` + `BuildObjectTree` (root verification + full validation) → `openTree`
* `BuildObjectTree` over existing storage (`ValidateFullTree`)     → `reopen`

Hashes and signatures are symbolic: `H : Nat → Id` is the content-id function on byte strings
(byte strings are named by numbers), signatures are `Sig` terms. The two facts read from the
source on every run (`Generated/AuthShape.lean`) are parameters of the model functions:
`cw` (which permissions can write) and `keep` (does `applyAccountsAdd` keep the older history).
-/
import AnySyncModel.Auth.Spec

namespace AnySync.Auth

/-! ## ACL side: the code's permission cache -/

structure PermChange where
  rid  : RecId
  perm : Perm
deriving Repr, DecidableEq

/-- `accountStates[key].PermissionChanges`; `none` = no such account state -/
abbrev Cache := Acc → Option (List PermChange)

def emptyCache : Cache := fun _ => none

def histOf (c : Cache) (a : Acc) : List PermChange := (c a).getD []

/-- one content value applied to the cache (`updatePermissions`, `applyRequestAccept`,
`applyInviteJoinWithoutApprove`, `applyAccountRemove`: append; `applyAccountsAdd`: a fresh
one-element history unless `keep`; `applyRequestJoin`: state created / history kept) -/
def applyEffect (keep : Bool) (rid : RecId) (c : Cache) : Effect → Cache
  | .set a p, x => if x = a then some (histOf c a ++ [⟨rid, p⟩]) else c x
  | .add a p, x => if x = a then some ((if keep then histOf c a else []) ++ [⟨rid, p⟩]) else c x
  | .touch a, x => if x = a then some (histOf c a) else c x

def applyRec (keep : Bool) (c : Cache) (r : Rec) : Cache := r.effs.foldl (applyEffect keep r.id) c

def buildCache (keep : Bool) (l : Log) : Cache := l.foldl (applyRec keep) emptyCache

/-- `a.indexes[id]` — a Go map lookup: a missing key reads as 0 -/
def indexOf (l : Log) (r : RecId) : Nat := (idxOf l r).getD 0

/-- `isAfterNoCheck(first, second)` -/
def isAfterNoCheck (l : Log) (first second : RecId) : Bool := indexOf l first ≥ indexOf l second

/-- the loop of `closestPermissions`, on the reversed history -/
def closestRev (after : RecId → Bool) : List PermChange → Perm
  | [] => 0
  | x :: xs => if after x.rid then x.perm else closestRev after xs

/-- `closestPermissions(accountState, recordId, isAfter)` -/
def closest (l : Log) (hist : List PermChange) (r : RecId) : Perm :=
  closestRev (fun x => isAfterNoCheck l r x) hist.reverse

inductive Err where
  | cid | decode | sig
  | noRecord | noAccount | noPerm
  | aclOrder | aclOrderUnknown
  | invalid        -- bare ErrHasInvalidChanges (snapshot id names a non-snapshot change)
  | panic          -- Go would dereference a nil `prevChange`
deriving Repr, DecidableEq

/-- `AclState.PermissionsAtRecord(id, pubKey)` -/
def permissionsAtRecord (keep : Bool) (l : Log) (r : RecId) (a : Acc) : Except Err Perm :=
  match idxOf l r with
  | none => .error .noRecord
  | some _ =>
    match buildCache keep l a with
    | none => .error .noAccount
    | some h => .ok (closest l h r)

/-! ## raw changes -/

/-- the decoded payload (`TreeChange` / `RootChange`); `bytes` names the exact payload bytes -/
structure Payload where
  bytes    : Nat
  derived  : Bool      -- `RootChange.IsDerived` (only read when the id is the tree's root id)
  identity : Acc
  aclHead  : RecId
  prev     : List Id
  snap     : Id
  isSnap   : Bool
deriving Repr, DecidableEq

/-- `RawTreeChange` bytes; `decoded = none` when the bytes do not decode (outer message, payload
or identity key) -/
structure Body where
  bytes   : Nat
  decoded : Option (Payload × Sig)
deriving Repr, DecidableEq

/-- `RawTreeChangeWithId` -/
structure Raw where
  id   : Id
  body : Body
deriving Repr, DecidableEq

/-- `objecttree.Change`, the fields the acceptance path reads -/
structure Change where
  id       : Id
  derived  : Bool
  identity : Acc
  aclHead  : RecId
  prev     : List Id
  snap     : Id
  isSnap   : Bool
deriving Repr, DecidableEq

/-- `changeBuilder.Unmarshall(raw, true)`: CID check, decode, signature check unless derived -/
def unmarshal (H : Nat → Id) (rootId : Id) (raw : Raw) : Except Err Change :=
  if raw.id ≠ H raw.body.bytes then .error .cid else
  match raw.body.decoded with
  | none => .error .decode
  | some (p, s) =>
    let derived := raw.id == rootId && p.derived
    if !derived && !verifySig p.identity p.bytes s then .error .sig
    else .ok ⟨raw.id, derived, p.identity, p.aclHead, p.prev, p.snap, p.isSnap⟩

/-! ## validation -/

def findCh (att : List Change) (id : Id) : Option Change := att.find? (·.id == id)

def hasId (att : List Change) (id : Id) : Bool := att.any (·.id == id)

/-- the loop over `c.PreviousIds` in `validateChange` -/
def checkPrev (l : Log) (att : List Change) (c : Change) : List Id → Except Err Unit
  | [] => .ok ()
  | pid :: rest =>
    match findCh att pid with
    | none => .error .panic
    | some pc =>
      if pc.aclHead = c.aclHead then checkPrev l att c rest
      else if pc.derived then checkPrev l att c rest
      else
        match idxOf l c.aclHead, idxOf l pc.aclHead with
        | some i, some j => if i ≥ j then checkPrev l att c rest else .error .aclOrder
        | _, _ => .error .aclOrderUnknown

/-- `objectTreeValidator.validateChange` (validateKeys = false, no content validator) -/
def validateChange (cw : Perm → Bool) (keep : Bool) (l : Log) (att : List Change) (rootId : Id)
    (c : Change) : Except Err Unit :=
  if c.derived then .ok () else
  match permissionsAtRecord keep l c.aclHead c.identity with
  | .error e => .error e
  | .ok p =>
    if !cw p then .error .noPerm
    else if c.id = rootId then .ok ()
    else checkPrev l att c c.prev

/-- `ValidateNewChanges`: in the order the changes were attached, first error wins -/
def validateAll (cw : Perm → Bool) (keep : Bool) (l : Log) (att : List Change) (rootId : Id) :
    List Change → Except Err Unit
  | [] => .ok ()
  | c :: cs =>
    match validateChange cw keep l att rootId c with
    | .error e => .error e
    | .ok () => validateAll cw keep l att rootId cs

/-! ## the tree -/

structure TreeSt where
  rootId      : Id
  attached    : List Change   -- `tree.attached`, in attach order
  heads       : List Id       -- `tree.headIds` (kept sorted)
  stored      : List Id       -- ids in the changes collection
  storedHeads : List Id       -- heads entry of the head storage
deriving Repr, DecidableEq

/-- the filter + unmarshal loop at the top of `addChangesToTree` -/
def filterNew (H : Nat → Id) (t : TreeSt) : List Raw → Except Err (List Change)
  | [] => .ok []
  | r :: rs =>
    if hasId t.attached r.id then filterNew H t rs
    else
      match unmarshal H t.rootId r with
      | .error e => .error e
      | .ok c =>
        match filterNew H t rs with
        | .error e => .error e
        | .ok cs => .ok (c :: cs)

inductive SnapCheck where | fine | invalid | rebuild
deriving Repr, DecidableEq

/-- `snapshotNotInTree` over the new changes -/
def snapCheck (t : TreeSt) (new : List Change) : List Change → SnapCheck
  | [] => .fine
  | c :: cs =>
    if c.snap = t.rootId then snapCheck t new cs
    else
      match findCh t.attached c.snap with
      | some sn => if !sn.isSnap then .invalid
                   else if new.any (fun n => n.isSnap && n.id == c.snap) then snapCheck t new cs else .rebuild
      | none => if new.any (fun n => n.isSnap && n.id == c.snap) then snapCheck t new cs else .rebuild

/-- state of `Tree.Add` -/
structure AttSt where
  attached : List Change
  unatt    : List Change          -- `tree.unAttached`
  wait     : List (Id × Id)       -- `tree.waitList`: (missing previous id, waiting change id), registration order
  added    : List Change          -- `tree.addedBuf`
deriving Repr

def allPrevAttached (att : List Change) (c : Change) : Bool := c.prev.all (hasId att)

/-- `canAttachOrRemove` without the wait-list side effect: (attach, remove) -/
def canAttach (att : List Change) (c : Change) : Bool × Bool :=
  -- (fix-tree-noprev) only the root has no previous ids; any other such change is dropped
  if c.prev.isEmpty then (false, true)
  else if allPrevAttached att c then
    if hasId att c.snap then (true, false) else (false, true)
  else (false, false)

def waitersOf (w : List (Id × Id)) (id : Id) : List Id := (w.filter (·.1 == id)).map (·.2)

/-- `attach(c)` without the cascade -/
def attachOne (s : AttSt) (c : Change) : AttSt :=
  { s with attached := s.attached ++ [c], added := s.added ++ [c],
           unatt := s.unatt.filter (·.id != c.id) }

/-- the wait-list cascade of `attach`, as a work list of waiting ids (depth first, in wait order) -/
def cascade : Nat → List Id → AttSt → AttSt
  | 0, _, s => s
  | _, [], s => s
  | fuel + 1, wid :: rest, s =>
    match findCh s.unatt wid with
    | none => cascade fuel rest s
    | some next =>
      match canAttach s.attached next with
      | (true, _) =>
        let s' := attachOne s next
        cascade fuel (waitersOf s'.wait next.id ++ rest) { s' with wait := s'.wait.filter (·.1 != next.id) }
      | (false, true) => cascade fuel rest { s with unatt := s.unatt.filter (·.id != next.id) }
      | (false, false) => cascade fuel rest s

/-- `Tree.add(c)` for one new change -/
def addOne (fuel : Nat) (s : AttSt) (c : Change) : AttSt :=
  if hasId s.attached c.id || hasId s.unatt c.id then s
  else
    match canAttach s.attached c with
    | (true, _) =>
      let s' := attachOne s c
      cascade fuel (waitersOf s'.wait c.id) { s' with wait := s'.wait.filter (·.1 != c.id) }
    | (false, true) => s
    | (false, false) =>
      { s with unatt := s.unatt ++ [c],
               wait := s.wait ++ (c.prev.filter (fun p => !hasId s.attached p)).map (fun p => (p, c.id)) }

def treeAddFuel (new : List Change) : Nat :=
  (new.foldl (fun n c => n + c.prev.length + 1) 0) + new.length + 1

/-- `Tree.Add(new…)`: returns the new attached list and the changes attached by this call -/
def treeAdd (att : List Change) (new : List Change) : AttSt :=
  new.foldl (addOne (treeAddFuel new)) ⟨att, [], [], []⟩

def insertSorted (x : Nat) : List Nat → List Nat
  | [] => [x]
  | y :: ys => if x ≤ y then x :: y :: ys else y :: insertSorted x ys

def sortNats (l : List Nat) : List Nat := l.foldr insertSorted []

/-- `updateHeads`: attached changes nobody attached names as previous -/
def computeHeads (att : List Change) : List Id :=
  sortNats ((att.filter (fun c => !att.any (fun d => d.prev.contains c.id))).map (·.id))

/-- the `rollback` closure of `addChangesToTree`: delete the added changes from `attached`,
restore the saved heads -/
def rollback (t1 : TreeSt) (prevHeads : List Id) (added : List Change) : TreeSt :=
  { t1 with attached := t1.attached.filter (fun c => !hasId added c.id), heads := prevHeads }

inductive Outcome where
  | ok
  | err (e : Err)
  | rebuild      -- the batch needs `rebuildFromStorage` (snapshot not in the tree): not modelled
deriving Repr, DecidableEq

/-- `AddRawChanges` (validator without filtering, default flusher, no snapshots reduced) -/
def addRaw (H : Nat → Id) (cw : Perm → Bool) (keep : Bool) (l : Log) (t : TreeSt) (batch : List Raw) :
    Outcome × List Id × TreeSt :=
  match filterNew H t batch with
  | .error e => (.err e, [], t)
  | .ok [] => (.ok, [], t)
  | .ok new =>
    match snapCheck t new new with
    | .invalid => (.err .invalid, [], t)
    | .rebuild =>
      -- `rebuildFromStorage(heads, path, newChanges)`: a fresh tree is built (`AddFast`) from the
      -- stored changes after the common snapshot plus the new changes, then `validateTree(nil)` =
      -- FULL validation of everything attached. Modelling assumption (see `reload`): the stored
      -- changes re-attach faithfully, i.e. the rebuilt tree starts as `t.attached`; no `snapCheck`
      -- applies on this path (a change attaches when its snapshot id is attached). When validation
      -- fails the previous tree is restored (repair f2ef10f); before the repair the tree was
      -- reloaded from the storage instead (`rollbackByReload`).
      let s := treeAdd t.attached new
      match validateAll cw keep l s.attached t.rootId s.attached with
      | .error e => (.err e, [], t)
      | .ok () =>
        if s.added.isEmpty then (.ok, [], t)
        else
          (.ok, s.added.map (·.id),
            { t with attached := s.attached, heads := computeHeads s.attached,
                     stored := t.stored ++ s.added.map (·.id), storedHeads := computeHeads s.attached })
    | .fine =>
      let s := treeAdd t.attached new
      if s.added.isEmpty then (.ok, [], t)
      else
        -- `Tree.Add` has attached the changes and recomputed the heads
        let t1 : TreeSt := { t with attached := s.attached, heads := computeHeads s.attached }
        match validateAll cw keep l t1.attached t.rootId s.added with
        | .error e => (.err e, [], rollback t1 t.heads s.added)
        | .ok () =>
          (.ok, s.added.map (·.id),
            { t1 with stored := t.stored ++ s.added.map (·.id), storedHeads := t1.heads })

/-- does the batch take the `rebuildFromStorage` branch? (for the driver / correspondence) -/
def takesRebuild (H : Nat → Id) (t : TreeSt) (batch : List Raw) : Bool :=
  match filterNew H t batch with
  | .ok (c :: cs) => snapCheck t (c :: cs) (c :: cs) == .rebuild
  | _ => false

/-- `treeBuilder.build`: a fresh tree from the stored changes, read in the order of the storage
(order ids), the first one being the root / common snapshot: `AddFast` attaches each change whose
previous ids and snapshot id are attached and DROPS a change whose previous ids are attached but
whose snapshot id is not (yet). -/
def reload (storedInOrder : List Change) : List Change :=
  match storedInOrder with
  | [] => []
  | root :: rest => (treeAdd [root] rest).attached

/-- the rollback of a refused rebuild-branch batch BEFORE repair f2ef10f: the tree is reloaded from
the storage (whose order is the order-id order, not the attach order) -/
def rollbackByReload (t : TreeSt) (storedInOrder : List Change) : TreeSt :=
  { t with attached := reload storedInOrder, heads := computeHeads (reload storedInOrder) }

/-- `CreateStorage(root)` then `BuildObjectTree`: root verified (CID, signature unless derived),
the one-change tree fully validated -/
def openTree (H : Nat → Id) (cw : Perm → Bool) (keep : Bool) (l : Log) (root : Raw) : Except Err TreeSt :=
  match unmarshal H root.id root with
  | .error e => .error e
  | .ok c =>
    match validateChange cw keep l [c] root.id c with
    | .error e => .error e
    | .ok () => .ok ⟨root.id, [c], [root.id], [root.id], [root.id]⟩

/-- `BuildObjectTree` over existing storage: `ValidateFullTree` -/
def reopen (cw : Perm → Bool) (keep : Bool) (l : Log) (t : TreeSt) : Bool :=
  match validateAll cw keep l t.attached t.rootId t.attached with
  | .ok () => true
  | .error _ => false

/-! ## the local path (`AddContent`) -/

/-- `AddContentWithValidator` (unencrypted, no snapshot): `prepareBuilderContent` refuses a key whose
CURRENT permission cannot write; the change is built over all heads, citing the list's head record,
signed with the key, validated like a received one, attached and persisted. `id` is the content id
the real builder produced. -/
def addContent (cw : Perm → Bool) (keep : Bool) (l : Log) (t : TreeSt) (id : Id) (a : Acc) :
    Outcome × List Id × TreeSt :=
  if !cw (permAfter l a) then (.err .noPerm, [], t) else
  match l.getLast? with
  | none => (.err .noRecord, [], t)
  | some hd =>
    let c : Change := ⟨id, false, a, hd.id, t.heads, t.rootId, false⟩
    match validateChange cw keep l t.attached t.rootId c with
    | .error e => (.err e, [], t)
    | .ok () =>
      (.ok, [id], { t with attached := t.attached ++ [c], heads := [id],
                           stored := t.stored ++ [id], storedHeads := [id] })

/-! ## whole-tree validation (`ValidateRawTreeDefault`) -/

/-- `Unmarshall(raw, verify = false)` — how a change is read back from (deferred) storage -/
def unmarshalNoVerify (rootId : Id) (raw : Raw) : Except Err Change :=
  match raw.body.decoded with
  | none => .error .decode
  | some (p, _) => .ok ⟨raw.id, raw.id == rootId && p.derived, p.identity, p.aclHead, p.prev, p.snap, p.isSnap⟩

inductive VErr where
  | err (e : Err)
  | headsMismatch     -- resulting heads differ from the claimed ones (ErrHasInvalidChanges)
  | derivedEmpty      -- ErrDerived
  | rebuild           -- not modelled (see `Outcome.rebuild`)
deriving Repr, DecidableEq

/-- `ValidateRawTreeDefault`: `BuildEmptyDataObjectTree` over a deferred storage holding only the
root (tree built WITHOUT verification, fully validated, then the header verified), then
`AddRawChanges` of all supplied changes, then the heads comparison and the empty-derived check -/
def validateRawTree (H : Nat → Id) (cw : Perm → Bool) (keep : Bool) (l : Log) (root : Raw)
    (changes : List Raw) (heads : List Id) : Except VErr TreeSt :=
  match unmarshalNoVerify root.id root with
  | .error e => .error (.err e)
  | .ok c0 =>
    match validateChange cw keep l [c0] root.id c0 with
    | .error e => .error (.err e)
    | .ok () =>
      match unmarshal H root.id root with
      | .error e => .error (.err e)
      | .ok c =>
        match addRaw H cw keep l ⟨root.id, [c], [root.id], [root.id], [root.id]⟩ changes with
        | (.err e, _, _) => .error (.err e)
        | (.rebuild, _, _) => .error .rebuild
        | (.ok, _, t') =>
          if sortNats t'.heads ≠ sortNats heads then .error .headsMismatch
          else if c.derived && t'.attached.length == 1 then .error .derivedEmpty
          else .ok t'

end AnySync.Auth
