/-
Specification vocabulary for C02 (area `auth`).

The ACL log is abstracted to what matters for the acceptance predicate of tree changes: every
record carries the list of its *permission effects*. `permAt log i a` — the permission of account
`a` after records `0..i` — is defined from the record sequence alone (a fold), NOT from the
code's per-account `PermissionChanges` cache; that cache is modelled in `Auth/Model.lean`.
-/
namespace AnySync.Auth

abbrev Id    := Nat   -- change id (interned content id)
abbrev RecId := Nat   -- ACL record id
abbrev Acc   := Nat   -- account (public key); `skOf pk = pk` in the symbolic signature algebra
abbrev Perm  := Nat   -- `aclrecordproto.AclUserPermissions` value (None = 0)

/-- permission effect of one content value of one ACL record -/
inductive Effect where
  /-- permission change / ownership change / request accept / invite join / account remove:
      the code APPENDS to the account's `PermissionChanges` -/
  | set (acc : Acc) (p : Perm)
  /-- `AccountsAdd`: sets the permission; whether the code keeps the older history is the
      F-acl-readd question -/
  | add (acc : Acc) (p : Perm)
  /-- request join: creates / keeps the account state, no permission effect -/
  | touch (acc : Acc)
deriving Repr, DecidableEq

structure Rec where
  id   : RecId
  effs : List Effect
deriving Repr, DecidableEq

abbrev Log := List Rec

/-- SPEC: effect of one content value on the permission table -/
def Effect.apply (m : Acc → Perm) : Effect → Acc → Perm
  | .set a p, x => if x = a then p else m x
  | .add a p, x => if x = a then p else m x
  | .touch _, x => m x

def noPerms : Acc → Perm := fun _ => 0

/-- SPEC: permission table after replaying a list of effects -/
def permFold (m : Acc → Perm) (es : List Effect) : Acc → Perm := es.foldl Effect.apply m

/-- SPEC: permission table after the whole log -/
def permAfter (l : Log) : Acc → Perm := l.foldl (fun m r => permFold m r.effs) noPerms

/-- SPEC: permission of `a` at record number `i` (records `0..i` applied) -/
def permAt (l : Log) (i : Nat) (a : Acc) : Perm := permAfter (l.take (i + 1)) a

/-- position of the first record with id `r` -/
def idxOf : Log → RecId → Option Nat
  | [], _ => none
  | x :: xs, r => if x.id = r then some 0 else (idxOf xs r).map (· + 1)

/-- symbolic signature terms (Dolev–Yao): `sign k m` is the signature made with the private key of
account `k` over the byte string `m`; everything else an adversary can put into the signature
field is `garbage` (or nothing). -/
inductive Sig where
  | sign (signer : Acc) (msg : Nat)
  | garbage (n : Nat)
  | none
deriving Repr, DecidableEq

/-- the signature law: `verify pk m s` holds iff `s = sign (skOf pk) m` -/
def verifySig (pk : Acc) (msg : Nat) (s : Sig) : Bool := s == .sign pk msg

end AnySync.Auth
