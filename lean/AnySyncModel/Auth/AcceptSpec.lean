/-
C02's acceptance predicate, stated against the SPECIFICATION `permAt` (the fold over the record
sequence), not against the code's permission cache.
-/
import AnySyncModel.Auth.Model

namespace AnySync.Auth

/-- `c`, decoded from `raw`, is authentic and authorised with respect to the ACL log `l` and the
attached changes `att`:
* its id is the content hash of its bytes;
* its fields are those of the decoded payload;
* it is the unsigned root of a derived tree, or its signature is the one made by the identity it
  names over exactly its payload bytes, the ACL record it cites exists in the local log, the
  identity could write at that record, and (unless it is the root) each parent is attached and
  cites a record that is not later than the one `c` cites (derived roots cite none). -/
def Authentic (H : Nat → Id) (cw : Perm → Bool) (l : Log) (rootId : Id) (att : List Change)
    (raw : Raw) (c : Change) : Prop :=
  raw.id = H raw.body.bytes ∧ c.id = raw.id ∧
  ∃ p s, raw.body.decoded = some (p, s) ∧
    c.identity = p.identity ∧ c.aclHead = p.aclHead ∧ c.prev = p.prev ∧
    ((c.id = rootId ∧ p.derived = true ∧ c.derived = true) ∨
     (c.derived = false ∧ s = Sig.sign p.identity p.bytes ∧
      ∃ i, idxOf l c.aclHead = some i ∧ cw (permAt l i c.identity) = true ∧
        (c.id = rootId ∨
         ∀ pid ∈ c.prev, ∃ pc ∈ att, pc.id = pid ∧
           (pc.derived = true ∨ ∃ j, idxOf l pc.aclHead = some j ∧ j ≤ i))))

/-- the global invariant: every attached change is authentic with respect to the current log and
attached set, and the changes collection holds exactly the attached ids -/
def AllAuthentic (H : Nat → Id) (cw : Perm → Bool) (l : Log) (t : TreeSt) : Prop :=
  (∀ c ∈ t.attached, ∃ raw, Authentic H cw l t.rootId t.attached raw c) ∧
  t.stored = t.attached.map (·.id)

/-- what can happen to a replica's tree: a batch is delivered, or the local ACL log grows -/
inductive Step where
  | add (batch : List Raw)
  | growAcl (more : List Rec)

structure Sys where
  log  : Log
  tree : TreeSt

def Sys.step (H : Nat → Id) (cw : Perm → Bool) (keep : Bool) (s : Sys) : Step → Sys
  | .add b => { s with tree := (addRaw H cw keep s.log s.tree b).2.2 }
  | .growAcl m => { s with log := s.log ++ m }

def Sys.run (H : Nat → Id) (cw : Perm → Bool) (keep : Bool) (s : Sys) (steps : List Step) : Sys :=
  steps.foldl (Sys.step H cw keep) s

/-- record ids stay pairwise distinct whenever the log grows -/
def StepsOk : Log → List Step → Prop
  | _, [] => True
  | l, .add _ :: rest => StepsOk l rest
  | l, .growAcl m :: rest => ((l ++ m).map (·.id)).Nodup ∧ StepsOk (l ++ m) rest

end AnySync.Auth
