import AnySyncModel.Acl.Rules
namespace AnySync.Acl
open Generated.AclPerm

theorem validateAccountsAdd_none (s : State) (author : Nat) (l : List (Nat × Nat))
    (h : validateAccountsAdd s author l = none) :
    ∀ a p, (a, p) ∈ l → s.perm a = permNone ∧ p ≠ permOwner ∧ p ≠ permNone ∧
      (p = permAdmin → s.perm author = permOwner) := by
  induction l with
  | nil => intro a p hm; cases hm
  | cons hd t ih =>
    obtain ⟨a0, p0⟩ := hd
    unfold validateAccountsAdd at h
    repeat' (split at h <;> try contradiction)
    intro a p hm
    rcases List.mem_cons.1 hm with heq | hm
    · injection heq with h1 h2; subst h1; subst h2
      simp_all
    · exact ih h a p hm

theorem doAccountsAdd_spec (rec : Nat) (l : List (Nat × Nat)) : ∀ (s s' : State),
    doAccountsAdd s rec l = .ok s' →
    s'.opts = s.opts ∧ s'.invites = s.invites ∧
    ∀ b, s'.perm b = s.perm b ∨ ∃ p, (b, p) ∈ l ∧ s'.perm b = p := by
  induction l with
  | nil => intro s s' h; injection h with h; subst h; exact ⟨rfl, rfl, fun b => Or.inl rfl⟩
  | cons hd t ih =>
    obtain ⟨a0, p0⟩ := hd
    intro s s' h
    unfold doAccountsAdd at h
    split at h <;> try contradiction
    obtain ⟨h1, h2, h3⟩ := ih _ _ h
    refine ⟨h1, h2, ?_⟩
    intro b
    rcases h3 b with h4 | ⟨p, hm, hp⟩
    · rw [h4, perm_accounts_insert s a0 _ b _ rfl]
      by_cases hb : b = a0
      · subst hb; right; exact ⟨p0, List.mem_cons_self, by simp⟩
      · left; simp [hb]
    · right; exact ⟨p, List.mem_cons_of_mem _ hm, hp⟩

theorem rules_add (s s' : State) (author rec : Nat) (l : List (Nat × Nat))
    (h : applyAccountsAdd true s author rec l = .ok s') : StepRules s author s' := by
  unfold applyAccountsAdd at h
  simp only [Bool.true_and, if_true] at h
  split at h <;> try contradiction
  split at h <;> try contradiction
  rename_i hv
  have hm : canManageAccounts (s.perm author) = true := by
    cases hc : canManageAccounts (s.perm author) <;> simp_all
  have hval := validateAccountsAdd_none s author l hv
  obtain ⟨h1, h2, h3⟩ := doAccountsAdd_spec rec l s s' h
  refine rules_of_manager_change s s' author hm h1 h2 ?_
  intro b
  rcases h3 b with h4 | ⟨p, hmem, hp⟩
  · exact Or.inl h4
  · obtain ⟨v1, v2, v3, v4⟩ := hval b p hmem
    right
    have hma := (canManage_iff (s.perm author)).1 hm
    refine ⟨?_, ?_, ?_, ?_, ?_⟩
    · rintro rfl; rw [v1] at hma; rcases hma with h | h <;> cases h
    · rw [v1]; decide
    · rw [hp]; exact v2
    · intro hg; rw [v1] at hg; cases hg
    · rintro (hh | hh)
      · rw [v1] at hh; cases hh
      · rw [hp] at hh; exact v4 hh
end AnySync.Acl
