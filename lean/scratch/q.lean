open List in
#check @List.dropLast_append_getLast?
#check @List.dropLast_concat_getLast
example (l : List Nat) (z : Nat) (h : l.getLast? = some z) : l = l.dropLast ++ [z] := by
  exact?
