import AnySyncModel.Acl.Rules
namespace AnySync.Acl
open Generated.AclPerm

theorem rules_own (cfg : Cfg) (hfix : cfg.Fixed) (s s' : State) (author rec n op : Nat)
    (h : applyOwnership cfg true s author rec n op = .ok s') : StepRules s author s' := by
  obtain ⟨_, _, hf3⟩ := hfix
  unfold applyOwnership at h
  simp only [Bool.true_and, hf3] at h
  repeat' (split at h <;> try contradiction)
  injection h with h; subst h
  have ho : s.perm author = permOwner := by simp_all
  have hm : canManageAccounts (s.perm author) = true := by rw [ho]; decide
  have hn1 : s.perm n ≠ permOwner := by simp_all
  have hn2 : s.perm n ≠ permGuest := by simp_all
  have hop : op ≠ permOwner := by simp_all
  have hna : n ≠ author := by rintro rfl; exact hn1 ho
  have hp : ∀ b, (updatePermissions (updatePermissions s author op rec) n permOwner rec).perm b
      = if b = n then permOwner else if b = author then op else s.perm b := by
    intro b; simp
  constructor
  · rintro ⟨o, ho', hu⟩
    refine ⟨n, by simp [hp], ?_⟩
    intro a ha
    rw [hp] at ha
    by_cases h1 : a = n
    · exact h1
    · simp only [h1, if_false] at ha
      by_cases h2 : a = author
      · simp only [h2, if_true] at ha; exact absurd ha hop
      · simp only [h2, if_false] at ha
        exact absurd ((hu a ha).trans (hu author ho).symm) h2
  · intro _ _; exact Or.inl ho
  · intro a ha hne
    rw [hp]
    have : a ≠ n := by rintro rfl; exact hn1 ha
    simp [this, hne, ha]
  · intro _ _; exact ho
  · intro h; exact absurd rfl h
  · intro _ _ _; exact hm
  · intro h; exact absurd rfl h
  · intro i hg hng; exact absurd hg hng
  · intro a ha
    rw [hp]
    have h1 : a ≠ n := by rintro rfl; exact hn2 ha
    have h2 : a ≠ author := by rintro rfl; rw [ho] at ha; cases ha
    simp [h1, h2, ha]
  · intro _ _ _; exact Or.inl hm
  · intro h; rw [hm] at h; cases h
end AnySync.Acl
