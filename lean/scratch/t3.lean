import AnySyncModel.Acl.Rules
namespace AnySync.Acl
open Generated.AclPerm

theorem rules_ich (s s' : State) (author rec i p : Nat)
    (h : applyInviteChange true s author rec i p = .ok s') : StepRules s author s' := by
  unfold applyInviteChange at h
  simp only [Bool.true_and] at h
  repeat' (split at h <;> try contradiction)
  injection h with h; subst h
  have hm : canManageAccounts (s.perm author) = true := by
    cases hc : canManageAccounts (s.perm author) <;> simp_all
  refine rules_of_perm_unchanged _ _ _ (fun _ => rfl) (fun h => absurd rfl h) (fun _ _ _ => hm) (fun _ => hm) ?_
  intro j hg hng
  obtain ⟨inv', hf', ht, hp⟩ := hg
  simp only [AMap.find?_insert] at hf'
  split at hf'
  · injection hf' with hf'; subst hf'
    simp only at ht hp
    simp_all [isAdmin, isOwner]
  · exact absurd ⟨inv', hf', ht, hp⟩ hng

theorem rules_irv (s s' : State) (author rec i : Nat)
    (h : applyInviteRevoke true s author rec i = .ok s') : StepRules s author s' := by
  unfold applyInviteRevoke at h
  simp only [Bool.true_and] at h
  repeat' (split at h <;> try contradiction)
  injection h with h; subst h
  have hm : canManageAccounts (s.perm author) = true := by
    cases hc : canManageAccounts (s.perm author) <;> simp_all
  refine rules_of_perm_unchanged _ _ _ (fun _ => rfl) (fun h => absurd rfl h) (fun _ _ _ => hm) (fun _ => hm) ?_
  intro j hg hng
  obtain ⟨inv', hf', ht, hp⟩ := hg
  simp only [AMap.find?_erase] at hf'
  split at hf'
  · cases hf'
  · exact absurd ⟨inv', hf', ht, hp⟩ hng

theorem rules_opt (s s' : State) (author rec x : Nat)
    (h : applyOptions true s author rec x = .ok s') : StepRules s author s' := by
  unfold applyOptions at h
  simp only [Bool.true_and] at h
  repeat' (split at h <;> try contradiction)
  injection h with h; subst h
  have ho : s.perm author = permOwner := by simp_all
  have hm : canManageAccounts (s.perm author) = true := by rw [ho]; decide
  exact rules_of_perm_unchanged _ _ _ (fun _ => rfl) (fun _ => ho) (fun _ _ _ => hm) (fun _ => hm)
    (fun i hg hng => absurd hg hng)

theorem rules_rkc (s s' : State) (author rec : Nat) (rk : Rkc)
    (h : applyRkc true s author rec rk true = .ok s') : StepRules s author s' := by
  unfold applyRkc at h
  simp only [Bool.true_and] at h
  repeat' (split at h <;> try contradiction)
  injection h with h; subst h
  have hm : canManageAccounts (s.perm author) = true := by
    cases hc : canManageAccounts (s.perm author) <;> simp_all
  exact rules_of_perm_unchanged _ _ _ (fun _ => rfl) (fun h => absurd rfl h) (fun _ _ _ => hm) (fun _ => hm)
    (fun i hg hng => absurd hg hng)

end AnySync.Acl
