import AnySyncModel.Acl.Rules
namespace AnySync.Acl
open Generated.AclPerm

theorem perm_of_find (s : State) (a : Nat) (x : Account) (h : s.accounts.find? a = some x) :
    s.perm a = x.perm := by simp [State.perm, h]

theorem rules_pc (cfg : Cfg) (s s' : State) (author rec t p : Nat)
    (h : applyPermissionChange cfg true s author rec t p = .ok s') : StepRules s author s' := by
  unfold applyPermissionChange at h
  simp only [Bool.true_and, if_true] at h
  repeat' (split at h <;> try contradiction)
  injection h with h; subst h
  have hm : canManageAccounts (s.perm author) = true := by
    cases hc : canManageAccounts (s.perm author) <;> simp_all
  have hpt := perm_of_find s t _ ‹_›
  refine rules_of_manager_change s _ author hm rfl rfl ?_
  intro b
  rw [perm_updatePermissions]
  by_cases hb : b = t
  · subst hb
    right
    simp only [if_true]
    have hma := (canManage_iff (s.perm author)).1 hm
    refine ⟨?_, ?_, ?_, ?_, ?_⟩
    · rintro rfl; rcases hma with h1 | h1 <;> simp_all [permAdmin, permOwner]
    · simp_all
    · simp_all
    · simp_all
    · rintro (h1 | h1) <;> simp_all
  · left; simp [hb]
end AnySync.Acl
