import AnySyncModel.Acl.Rules
namespace AnySync.Acl
open Generated.AclPerm

theorem validateRemoveIds_none (s : State) (author : Nat) (l : List Nat) : ∀ (seen : List Nat),
    validateRemoveIds s author l seen = none →
    ∀ a, a ∈ l → a ≠ author ∧ s.perm a ≠ permNone ∧ s.perm a ≠ permOwner ∧
      (s.perm a = permAdmin → s.perm author = permOwner) := by
  induction l with
  | nil => intro _ _ a hm; cases hm
  | cons a0 t ih =>
    intro seen h
    unfold validateRemoveIds at h
    repeat' (split at h <;> try contradiction)
    intro a hm
    rcases List.mem_cons.1 hm with heq | hm
    · subst heq; simp_all
    · exact ih _ h a hm

theorem removeOne_spec (s s' : State) (rec a : Nat) (h : removeOne s rec a = .ok s') :
    s'.opts = s.opts ∧ s'.invites = s.invites ∧
    ∀ b, s'.perm b = if b = a then permNone else s.perm b := by
  unfold removeOne at h
  split at h <;> try contradiction
  split at h <;> try contradiction
  simp only at h
  split at h
  all_goals
    injection h with h; subst h
    refine ⟨rfl, rfl, fun b => ?_⟩
    first
      | (rw [perm_dropRequest, perm_accounts_insert s a _ b _ rfl])
      | (rw [perm_accounts_insert s a _ b _ rfl])

theorem doRemove_spec (rec : Nat) (l : List Nat) : ∀ (s s' : State),
    doRemove s rec l = .ok s' →
    s'.opts = s.opts ∧ s'.invites = s.invites ∧
    ∀ b, s'.perm b = s.perm b ∨ (b ∈ l ∧ s'.perm b = permNone) := by
  induction l with
  | nil => intro s s' h; injection h with h; subst h; exact ⟨rfl, rfl, fun b => Or.inl rfl⟩
  | cons a0 t ih =>
    intro s s' h
    unfold doRemove at h
    split at h <;> try contradiction
    rename_i s1 h1
    obtain ⟨r1, r2, r3⟩ := removeOne_spec s s1 rec a0 h1
    obtain ⟨q1, q2, q3⟩ := ih s1 s' h
    refine ⟨q1.trans r1, q2.trans r2, fun b => ?_⟩
    rcases q3 b with h4 | ⟨hm, hp⟩
    · rw [h4, r3 b]
      by_cases hb : b = a0
      · subst hb; right; exact ⟨List.mem_cons_self, by simp⟩
      · left; simp [hb]
    · right; exact ⟨List.mem_cons_of_mem _ hm, hp⟩

theorem applyRkc_spec (v : Bool) (s s' : State) (author rec : Nat) (rk : Rkc) (val : Bool)
    (h : applyRkc v s author rec rk val = .ok s') :
    s'.accounts = s.accounts ∧ s'.opts = s.opts ∧ s'.invites = s.invites := by
  unfold applyRkc at h
  repeat' (split at h <;> try contradiction)
  injection h with h; subst h
  exact ⟨rfl, rfl, rfl⟩

theorem rules_rem (s s' : State) (author rec : Nat) (l : List Nat) (rk : Rkc)
    (h : applyAccountRemove true s author rec l rk = .ok s') : StepRules s author s' := by
  unfold applyAccountRemove at h
  simp only [Bool.true_and, if_true] at h
  split at h <;> try contradiction
  split at h <;> try contradiction
  rename_i hv
  split at h <;> try contradiction
  split at h <;> try contradiction
  rename_i s1 hrem
  have hm : canManageAccounts (s.perm author) = true := by
    cases hc : canManageAccounts (s.perm author) <;> simp_all
  have hval := validateRemoveIds_none s author l [] hv
  obtain ⟨h1, h2, h3⟩ := doRemove_spec rec l s s1 hrem
  obtain ⟨k1, k2, k3⟩ := applyRkc_spec _ _ _ _ _ _ _ h
  refine rules_of_manager_change s s' author hm (k2.trans h1) (k3.trans h2) ?_
  intro b
  rw [perm_of_accounts_eq s1 s' k1 b]
  rcases h3 b with h4 | ⟨hmem, hp⟩
  · exact Or.inl h4
  · obtain ⟨v1, v2, v3, v4⟩ := hval b hmem
    right
    refine ⟨v1, v3, ?_, fun _ => hp, ?_⟩
    · rw [hp]; decide
    · rintro (hh | hh)
      · exact v4 hh
      · rw [hp] at hh; cases hh
end AnySync.Acl
