import AnySyncModel.Acl.Lemmas
namespace AnySync.Acl
open Generated.AclPerm

theorem own_pc (cfg : Cfg) (s s' : State) (author rec t p a : Nat)
    (h : applyPermissionChange cfg true s author rec t p = .ok s')
    (ho : s.perm a = permOwner) : s'.perm a = permOwner := by
  unfold applyPermissionChange at h
  simp only [Bool.true_and, if_true] at h
  split at h <;> try contradiction
  split at h <;> try contradiction
  split at h <;> try contradiction
  rename_i cur hcur
  repeat' (split at h <;> try contradiction)
  injection h with h; subst h
  simp only [perm_updatePermissions]
  split
  · subst_vars
    simp_all [State.perm]
  · exact ho
end AnySync.Acl
