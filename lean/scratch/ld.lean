import AnySyncModel.Acl.List
namespace AnySync.Acl

/-- a stored record as `build` sees it after `unmarshalForState` verified it: id, PrevId
(`none` = the root's empty PrevId), decoded body (`none` for the root) -/
structure Item where
  id   : Nat
  prev : Option Nat
  body : Option Record
deriving DecidableEq, Repr, Inhabited

/-- the PrevId cross-check of `isContiguousChain` -/
def linked : List Item → Bool
  | a :: b :: t => b.prev == some a.id && linked (b :: t)
  | _ => true

/-- `isContiguousChain(records, rootId, head)` -/
def contiguous (l : List Item) (rootId head : Nat) : Bool :=
  match l.head?, l.getLast? with
  | some f, some z => f.id == rootId && z.id == head && linked l
  | _, _ => false

/-- `loadRecordsByPrevId`: from `head` follow PrevId with `storage.Get` until the empty PrevId;
`none` = a `Get` failed (or the chain is longer than the fuel) -/
def walkUp (get : Nat → Option Item) : Nat → Nat → Option (List Item)
  | 0, _ => none
  | fuel + 1, id =>
    match get id with
    | none => none
    | some it =>
      match it.prev with
      | none => some [it]
      | some p => (walkUp get fuel p).map fun l => l ++ [it]

/-- `loadRecords`: the order-index scan (`none` = it returned an error) is used only if it is the
exact head→root chain; otherwise the authoritative PrevId walk -/
def loadRecords (scan : Option (List Item)) (walk : Option (List Item)) (rootId head : Nat) :
    Option (List Item) :=
  match scan with
  | some l => if contiguous l rootId head then some l else walk
  | none => walk

theorem linked_snoc (l : List Item) (y z : Item) :
    linked (l ++ [y] ++ [z]) = (linked (l ++ [y]) && z.prev == some y.id) := by
  induction l with
  | nil => simp [linked]
  | cons a t ih =>
    cases t with
    | nil => simp [linked]
    | cons b t' =>
      simp only [List.cons_append, linked] at ih ⊢
      rw [ih]; simp [Bool.and_assoc]

/-- a verified, linked list that ends at `z`, starts at an item without PrevId and consists of
items `Get` returns is what the PrevId walk from `z.id` returns (`r` = the items before `z`, in
reverse order) -/
theorem walkUp_of_linked (get : Nat → Option Item) : ∀ (r : List Item) (z : Item) (fuel : Nat),
    (∀ it ∈ r.reverse ++ [z], get it.id = some it) → linked (r.reverse ++ [z]) = true →
    ((r.reverse ++ [z]).head?.bind (·.prev)) = none →
    (r.reverse ++ [z]).length ≤ fuel → walkUp get fuel z.id = some (r.reverse ++ [z]) := by
  intro r
  induction r with
  | nil =>
    intro z fuel hget _ hroot hf
    cases fuel with
    | zero => simp at hf
    | succ f =>
      have := hget z (by simp)
      simp only [List.reverse_nil, List.nil_append, List.head?_cons, Option.bind_some] at hroot
      simp [walkUp, this, hroot]
  | cons y r' ih =>
    intro z fuel hget hl hroot hf
    cases fuel with
    | zero => simp at hf
    | succ f =>
      have hz := hget z (by simp)
      simp only [List.reverse_cons] at hget hl hroot hf ⊢
      rw [linked_snoc] at hl
      simp only [Bool.and_eq_true, beq_iff_eq] at hl
      have hrec := ih y f (fun it hit => hget it (by simp at hit ⊢; rcases hit with h | h; exact Or.inl h; exact Or.inr (Or.inl h)))
        hl.1
        (by
          cases hr : r'.reverse with
          | nil => rw [hr] at hroot; simpa using hroot
          | cons a t => rw [hr] at hroot; simpa using hroot)
        (by simp at hf ⊢; omega)
      simp [walkUp, hz, hl.2, hrec]

theorem exists_rev_snoc (l : List Item) (z : Item) (h : l.getLast? = some z) :
    ∃ r : List Item, l = r.reverse ++ [z] := by
  refine ⟨l.dropLast.reverse, ?_⟩
  rw [List.reverse_reverse]
  have hne : l ≠ [] := by intro hn; rw [hn] at h; cases h
  have := List.dropLast_concat_getLast hne
  rw [List.getLast?_eq_some_getLast hne] at h
  injection h with h
  rw [← h]; exact this.symm

/-- **the order-index scan never decides the outcome of `build`**: whatever it returns — an error,
leftover or foreign documents, gaps, duplicates, a wrong order — `loadRecords` yields the PrevId
chain from the head. Hypotheses: every scanned item passed verification and is the document `Get`
returns for its id (ids are hashes), the root has no PrevId. -/
theorem loadRecords_eq_walk (get : Nat → Option Item) (scan : Option (List Item))
    (rootId head fuel : Nat) (chain : List Item)
    (hwalk : walkUp get fuel head = some chain)
    (hver : ∀ l, scan = some l → ∀ it ∈ l, get it.id = some it)
    (hroot : ∀ it, get rootId = some it → it.prev = none)
    (hfuel : ∀ l, scan = some l → l.length ≤ fuel) :
    loadRecords scan (walkUp get fuel head) rootId head = some chain := by
  unfold loadRecords
  cases scan with
  | none => exact hwalk
  | some l =>
    simp only
    by_cases hc : contiguous l rootId head = true
    · simp only [hc, if_true]
      unfold contiguous at hc
      cases hf : l.head? with
      | none => rw [hf] at hc; simp at hc
      | some f =>
        cases hz : l.getLast? with
        | none => rw [hf, hz] at hc; simp at hc
        | some z =>
          rw [hf, hz] at hc
          simp only [Bool.and_eq_true, beq_iff_eq] at hc
          obtain ⟨⟨hfid, hzid⟩, hlink⟩ := hc
          obtain ⟨r, hr⟩ := exists_rev_snoc l z hz
          have hfget := hver l rfl f (List.mem_of_mem_head? hf)
          have hfprev : f.prev = none := hroot f (hfid ▸ hfget)
          have hw := walkUp_of_linked get r z fuel (by rw [← hr]; exact hver l rfl) (by rw [← hr]; exact hlink)
            (by rw [← hr, hf]; simpa using hfprev) (by rw [← hr]; exact hfuel l rfl)
          rw [hzid, hwalk] at hw
          rw [hr]; exact hw.symm ▸ rfl
    · simp only [hc, Bool.false_eq_true, if_false]
      exact hwalk
end AnySync.Acl
