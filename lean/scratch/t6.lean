import AnySyncModel.Acl.Rules
namespace AnySync.Acl
open Generated.AclPerm

theorem rules_acc (cfg : Cfg) (hfix : cfg.Fixed) (s s' : State) (author rec t rid p : Nat)
    (h : applyRequestAccept cfg true s author rec t rid p = .ok s') : StepRules s author s' := by
  obtain ⟨hf1, hf2, _⟩ := hfix
  unfold applyRequestAccept at h
  simp only [if_true] at h
  split at h <;> try contradiction
  rename_i hv
  unfold validateRequestAccept at hv
  simp only [hf1, hf2, Bool.true_and] at hv
  repeat' (split at hv <;> try contradiction)
  repeat' (split at h <;> try contradiction)
  injection h with h; subst h
  have hm : canManageAccounts (s.perm author) = true := by
    cases hc : canManageAccounts (s.perm author) <;> simp_all
  have hn : s.perm t = permNone := by simp_all
  refine rules_of_manager_change s _ author hm rfl rfl ?_
  intro b
  simp only [perm_dropRequest]
  rw [perm_accounts_insert s t _ b _ rfl]
  by_cases hb : b = t
  · subst hb
    right
    simp only [if_true]
    have hma := (canManage_iff (s.perm author)).1 hm
    refine ⟨?_, ?_, ?_, ?_, ?_⟩
    · rintro rfl; rcases hma with h1 | h1 <;> simp_all [permAdmin, permOwner, permNone]
    · simp_all [permOwner, permNone]
    · simp_all
    · simp_all [permGuest, permNone]
    · rintro (h1 | h1) <;> simp_all [permAdmin, permNone]
  · left; simp [hb]
end AnySync.Acl
