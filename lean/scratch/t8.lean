import AnySyncModel.Acl.Rules
namespace AnySync.Acl
open Generated.AclPerm

theorem dropRequestOf_accounts (s : State) (x : Nat) : (dropRequestOf s x).accounts = s.accounts := by
  unfold dropRequestOf; split <;> rfl
theorem dropRequestOf_invites (s : State) (x : Nat) : (dropRequestOf s x).invites = s.invites := by
  unfold dropRequestOf; split <;> rfl
theorem dropRequestOf_opts (s : State) (x : Nat) : (dropRequestOf s x).opts = s.opts := by
  unfold dropRequestOf; split <;> rfl

theorem rules_ijn (s s' : State) (author rec t i p sk sa : Nat) (big hasRK : Bool)
    (hsane : InvitesSane s)
    (h : applyInviteJoin true s author rec t i p sk sa big hasRK = .ok s') : StepRules s author s' := by
  unfold applyInviteJoin at h
  simp only [if_true] at h
  split at h <;> try contradiction
  rename_i hv
  unfold validateInviteJoin at hv
  repeat' (split at hv <;> try contradiction)
  split at h <;> try contradiction
  injection h with h
  rename_i inv hfi _ _ _ _ _ _ _ _
  have hn : s.perm author = permNone := by simp_all
  have hta : t = author := by simp_all
  have htyp : inv.typ = itAnyoneCanJoin := by simp_all
  have hle : isLessOrEqual p inv.perm = true := by simp_all
  obtain ⟨hs1, hs2, hs3⟩ := hsane i inv hfi htyp
  subst hta
  -- the permission the joiner ends with
  have hacc : s'.accounts = s.accounts.insert t
      ⟨if isNone p then inv.perm else p, stActive, some s.curKey,
        admitHist s t (if isNone p then inv.perm else p) rec⟩ := by
    rw [← h, dropRequestOf_accounts]; simp [hfi]
  have hinv : s'.invites = s.invites := by rw [← h, dropRequestOf_invites]
  have hopts : s'.opts = s.opts := by rw [← h, dropRequestOf_opts]
  have hp : ∀ b, s'.perm b = if b = t then (if isNone p then inv.perm else p) else s.perm b :=
    fun b => perm_accounts_insert s t _ b s' hacc
  have hq : (if isNone p then inv.perm else p) ≠ permOwner := by
    split
    · exact hs1
    · intro hpo; subst hpo; revert hle; simp [isLessOrEqual, permOwner, permNone, permReader, permWriter, permAdmin]
  have hjoin : JoinsVia s s' t := by
    refine ⟨hn, i, inv, hfi, htyp, ?_⟩
    rw [hp t]; simp only [if_true]
    split
    · exact Or.inl rfl
    · exact Or.inr hle
  have hmf : canManageAccounts (s.perm t) = false := by rw [hn]; decide
  constructor
  · exact sane_of_invites_eq s s' hinv
  · apply oneOwner_of_perm_owner_iff
    intro b; rw [hp b]
    by_cases hb : b = t
    · subst hb; simp only [if_true]
      exact ⟨fun h => absurd h hq, fun h => by rw [hn] at h; cases h⟩
    · simp [hb]
  · intro a ha
    by_cases hb : a = t
    · subst hb; exact Or.inr ⟨rfl, hjoin⟩
    · rw [hp a, if_neg hb] at ha; exact absurd Iff.rfl ha
  · intro a ha hne; rw [hp a]; simp [hne, ha]
  · intro a ha
    by_cases hb : a = t
    · subst hb; rw [hp a, if_pos rfl] at ha
      exact absurd ⟨fun h => by rw [hn] at h; exact absurd h (by decide), fun h => absurd h hq⟩ ha
    · rw [hp a, if_neg hb] at ha; exact absurd Iff.rfl ha
  · intro h; exact absurd hopts h
  · intro a ha hne; exact absurd (entry_accounts_insert s s' t _ hacc a ha) hne
  · intro h; exact absurd hinv h
  · intro j hg hng; exact absurd ((grantsAdmin_of_invites_eq s s' hinv j).1 hg) hng
  · intro a ha
    have : a ≠ t := by rintro rfl; rw [hn] at ha; cases ha
    rw [hp a]; simp [this, ha]
  · intro a ha hne
    by_cases hb : a = t
    · subst hb; exact Or.inr ⟨rfl, hjoin⟩
    · rw [hp a] at hne; simp only [hb, if_false] at hne; exact absurd ha hne
  · intro _ hne; exact absurd hn hne
end AnySync.Acl
