import AnySyncModel.Acl.Rules
namespace AnySync.Acl
open Generated.AclPerm

/-- only the status (not the permission) of one existing account `k` changes; `k` is the author
itself or the author is a manager -/
theorem rules_of_status_change (s s' : State) (author k : Nat) (x y : Account)
    (hf : s.accounts.find? k = some x) (hy : y.perm = x.perm)
    (hacc : s'.accounts = s.accounts.insert k y) (hopts : s'.opts = s.opts)
    (hinv : s'.invites = s.invites)
    (hk : k = author ∨ canManageAccounts (s.perm author) = true) : StepRules s author s' := by
  have hp : ∀ b, s'.perm b = s.perm b := by
    intro b
    rw [perm_accounts_insert s k y b s' hacc]
    split
    · subst_vars; simp [State.perm, hf, hy]
    · rfl
  refine rules_of_perm_unchanged _ _ _ hp (fun h => absurd hopts h) ?_ (fun h => absurd hinv h)
    (fun i hg hng => absurd ((grantsAdmin_of_invites_eq s s' hinv i).1 hg) hng)
  intro a ha hne
  rcases hk with hk | hk
  · exact absurd (entry_accounts_insert s s' k y hacc a (hk ▸ ha)) hne
  · exact hk

/-- the author, who has no permission, (re)writes its own entry with no permission -/
theorem rules_of_self_insert_none (s s' : State) (author : Nat) (y : Account)
    (hn : s.perm author = permNone) (hy : y.perm = permNone)
    (hacc : s'.accounts = s.accounts.insert author y) (hopts : s'.opts = s.opts)
    (hinv : s'.invites = s.invites) : StepRules s author s' := by
  have hp : ∀ b, s'.perm b = s.perm b := by
    intro b
    rw [perm_accounts_insert s author y b s' hacc]
    split
    · subst_vars; simp [hn, hy]
    · rfl
  refine rules_of_perm_unchanged _ _ _ hp (fun h => absurd hopts h) ?_ (fun h => absurd hinv h)
    (fun i hg hng => absurd ((grantsAdmin_of_invites_eq s s' hinv i).1 hg) hng)
  intro a ha hne
  exact absurd (entry_accounts_insert s s' author y hacc a ha) hne

theorem rules_rjn (s s' : State) (author rec identity i sk sa : Nat) (big : Bool)
    (h : applyRequestJoin true s author rec identity i sk sa big = .ok s') : StepRules s author s' := by
  unfold applyRequestJoin at h
  simp only [if_true] at h
  split at h <;> try contradiction
  rename_i hv
  injection h with h; subst h
  unfold validateRequestJoin at hv
  repeat' (split at hv <;> try contradiction)
  have hn : s.perm author = permNone := by simp_all
  exact rules_of_self_insert_none s _ author _ hn rfl rfl rfl rfl

theorem rules_dec (s s' : State) (author rec rid : Nat)
    (h : applyRequestDecline true s author rec rid = .ok s') : StepRules s author s' := by
  unfold applyRequestDecline at h
  simp only [Bool.true_and, if_true] at h
  repeat' (split at h <;> try contradiction)
  injection h with h; subst h
  have hm : canManageAccounts (s.perm author) = true := by
    cases hc : canManageAccounts (s.perm author) <;> simp_all
  exact rules_of_status_change s _ author _ _ _ ‹_› (by rfl) rfl rfl rfl (Or.inr hm)

theorem rules_can (s s' : State) (author rec rid : Nat)
    (h : applyRequestCancel true s author rec rid = .ok s') : StepRules s author s' := by
  unfold applyRequestCancel at h
  simp only [Bool.true_and, if_true] at h
  repeat' (split at h <;> try contradiction)
  all_goals
    injection h with h; subst h
    refine rules_of_status_change s _ author _ _ _ ‹_› (by rfl) rfl rfl rfl (Or.inl ?_)
    simp_all

theorem rules_rrm (s s' : State) (author rec : Nat)
    (h : applyRequestRemove true s author rec = .ok s') : StepRules s author s' := by
  unfold applyRequestRemove at h
  simp only [Bool.true_and] at h
  repeat' (split at h <;> try contradiction)
  injection h with h; subst h
  exact rules_of_status_change s _ author _ _ _ ‹_› (by rfl) rfl rfl rfl (Or.inl rfl)

theorem rules_nop (s : State) (author : Nat) : StepRules s author s :=
  rules_of_perm_unchanged _ _ _ (fun _ => rfl) (fun h => absurd rfl h) (fun _ _ h => absurd rfl h)
    (fun h => absurd rfl h) (fun i hg hng => absurd hg hng)
end AnySync.Acl
