import AnySyncModel.Acl.Rules
namespace AnySync.Acl
open Generated.AclPerm

@[simp] theorem isOwner_iff (p : Nat) : isOwner p = true ↔ p = permOwner := by simp [isOwner]
@[simp] theorem isNone_iff (p : Nat) : isNone p = true ↔ p = permNone := by simp [isNone]
@[simp] theorem isAdmin_iff (p : Nat) : isAdmin p = true ↔ p = permAdmin := by simp [isAdmin]
@[simp] theorem isGuest_iff (p : Nat) : isGuest p = true ↔ p = permGuest := by simp [isGuest]
theorem canManage_iff (p : Nat) : canManageAccounts p = true ↔ p = permAdmin ∨ p = permOwner := by
  simp only [canManageAccounts]; split <;> simp_all
theorem canManage_owner : canManageAccounts permOwner = true := by decide

theorem rules_inv (s s' : State) (author rec typ perm key : Nat) (hasRK : Bool)
    (h : applyInvite true s author rec typ perm key hasRK = .ok s') : StepRules s author s' := by
  unfold applyInvite at h
  simp only [Bool.true_and] at h
  repeat' (split at h <;> try contradiction)
  injection h with h; subst h
  rename_i h1 h2 h3 h4 h5
  have hm : canManageAccounts (s.perm author) = true := by simpa using h2
  refine rules_of_perm_unchanged _ _ _ (fun _ => rfl) (fun h => absurd rfl h) (fun _ _ _ => hm) (fun _ => hm) ?_
  intro i hg hng
  obtain ⟨inv, hf, ht, hp⟩ := hg
  simp only [AMap.find?_insert] at hf
  split at hf
  · injection hf with hf; subst hf
    simp only at ht hp
    trace_state
    simp_all
  · exact absurd ⟨inv, hf, ht, hp⟩ hng
end AnySync.Acl
