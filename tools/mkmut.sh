#!/bin/sh
# tools/mkmut.sh <Cxx> <tag>: scratch repo worktree + property text for a seeding agent (nothing from /verif is exposed)
set -e
P="$1"; T="$2"; mkdir -p /tmp/m
git -C /repo worktree add -q --detach "/tmp/m/$P$T" HEAD
python3 - "$P" <<'PY' > "/tmp/m/$P.txt"
import json,sys
for l in open('/verif/properties.jsonl'):
    p=json.loads(l)
    if p['id']==sys.argv[1]: print(json.dumps({k:p[k] for k in ('id','title','statement','quantifier','why_tests_cant','anchors')},indent=1))
PY
echo "/tmp/m/$P$T"
