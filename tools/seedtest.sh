#!/bin/sh
# tools/seedtest.sh <seed-dir> [tier]: apply seeded/<id>/patch.diff to /repo, run the check of its property, undo.
# Prints DETECTED / MISSED and stores the outcome in <seed-dir>/result-<tier>.txt
set -u
D=$(cd "$1" && pwd); TIER="${2:-quick}"
P=$(python3 -c "import json,sys;print(json.load(open('$D/meta.json'))['property'])")
cd "${SEED_VERIF:-/verif}"
# SEED_VERIF=<worktree of /verif> runs the check from a separate checkout (so /verif can be edited meanwhile)
# SEED_REPO=<scratch worktree of /repo HEAD> keeps /repo itself untouched (checks honour VERIF_REPO)
R="${SEED_REPO:-/repo}"
[ "$R" = /repo ] || export VERIF_REPO="$R"
if ! git -C "$R" diff --quiet; then echo "$R has local modifications; refusing"; exit 2; fi
git -C "$R" apply "$D/patch.diff" || { echo "patch does not apply"; exit 2; }
cp "evidence/$P.json" "/tmp/.ev-$P.json" 2>/dev/null
./check "$P" --tier "$TIER" > "$D/result-$TIER.txt" 2>&1; RC=$?
cp "/tmp/.ev-$P.json" "evidence/$P.json" 2>/dev/null; rm -f "/tmp/.ev-$P.json"
git -C "$R" checkout -- . ; git -C "$R" clean -fdq -- . 2>/dev/null
if [ $RC -eq 1 ] && grep -q "^VIOLATION property=$P" "$D/result-$TIER.txt"; then echo "DETECTED $D ($TIER): $(grep '^VIOLATION' "$D/result-$TIER.txt" | head -1)"; else echo "MISSED $D ($TIER) rc=$RC"; fi
