#!/usr/bin/env python3
"""Regenerate /verif/MANIFEST.json from checks.d/*.json (+ hooks.json, not_applicable.json)."""
import json, os, glob
V = os.path.dirname(os.path.dirname(os.path.abspath(__file__)))
props = [json.loads(l) for l in open(os.path.join(V, "properties.jsonl"))]
checks = {os.path.basename(p)[:-5]: json.load(open(p)) for p in sorted(glob.glob(os.path.join(V, "checks.d", "C*.json")))}
hooks = json.load(open(os.path.join(V, "hooks.json")))
na = json.load(open(os.path.join(V, "not_applicable.json")))
claimed = sorted(checks)
m = {
 "version": 1,
 "setup_cmd": "./setup.sh",
 "hooks": hooks,
 "engines": [
  {"name": "lean-model", "path": "/verif/lean", "serves_properties": claimed,
   "kind_free_text": "Lean 4 models + property theorems (core Lean only), axiom-audited on every run"},
  {"name": "verifharness", "path": "/verif/harness", "serves_properties": claimed,
   "kind_free_text": "Go correspondence harness: real any-sync packages in-process vs the compiled Lean model through a line protocol, plus a direct property oracle used as failing-input search; go/ast extractor regenerating Lean fragments"}],
 "checks": [],
 "notes": "Every check is `./check Cxx --tier …`: regen (extract + rebuild harness from /repo), prove (lake build Props.Cxx + axiom audit), correspond (model vs real code), oracle (property on real observations). See DESIGN.md.",
 "not_applicable": [],
}
for pid in claimed:
    c = checks[pid]; mm = c["manifest"]
    m["checks"].append({
        "property_id": pid,
        "quick_cmd": f"./check {pid} --tier quick",
        "thorough_cmd": f"./check {pid} --tier thorough",
        "evidence_file": f"/verif/evidence/{pid}.json",
        "replay_cmd_template": f"./check {pid} --replay {{path}}",
        "engine": "lean-model",
        "level_claimed": {"category": "proof", "text": mm["level_text"], "design_ref": mm.get("design_ref", "DESIGN.md §4 " + pid)},
        "level_note": mm["level_note"],
        "technique": mm["technique"],
    })
for p in props:
    if p["id"] not in checks:
        m["not_applicable"].append({"property_id": p["id"], "reason": na.get(p["id"], "model and check under construction; not yet claimed")})
json.dump(m, open(os.path.join(V, "MANIFEST.json"), "w"), indent=1)
print("claimed:", claimed)
