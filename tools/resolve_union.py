#!/usr/bin/env python3
"""resolve git conflict markers in a file by keeping BOTH sides (ours then theirs) — for Main.lean-style registries"""
import sys,re
for p in sys.argv[1:]:
    s=open(p).read()
    out=[];mode=None
    for line in s.splitlines(keepends=True):
        if line.startswith('<<<<<<< '): mode='ours'; continue
        if line.startswith('=======') and mode=='ours': mode='theirs'; continue
        if line.startswith('>>>>>>> ') and mode=='theirs': mode=None; continue
        out.append(line)
    open(p,'w').write(''.join(out))
