import AnySyncModel.OCache.Congr
/-! preservation of layer LAYER of the invariant by every transition (generated from the same case
skeleton as StepA.lean; see notes/areas/ocache.md) -/
namespace AnySync.OCache

attribute [local simp] upd State.setThr State.setE State.setI State.goto State.finish State.panic
  markStarted_pc markStarted_op markStarted_todo Pc.loaderOf Pc.closerOf Pc.holds Pc.rmRef Entry.inMapOf

@[local simp] theorem loaded_iff (x : IStatus) : x.loaded = true ↔ x = .live ∨ x = .closing ∨ x = .closed := by
  cases x <;> simp [IStatus.loaded]
@[local simp] theorem alive_iff (x : IStatus) : x.alive = true ↔ x = .loading ∨ x = .live ∨ x = .closing := by
  cases x <;> simp [IStatus.alive]
@[local simp] theorem alive_false_iff (x : IStatus) : x.alive = false ↔ x = .closed ∨ x = .failed := by
  cases x <;> simp [IStatus.alive]

theorem stale_started {s : State} {t : Tid} (hC : InvC s) (ht : t < s.nThr) :
    ∀ i, i ∈ (markStarted s (s.thr t)).stale → i < s.nInst ∧ (s.inst i).st = .closed := by
  intro i hi
  unfold markStarted at hi
  split at hi
  · exact (hC.thr t ht).stale_closed i hi
  · simp [closedInsts] at hi; exact hi

/-- the instance stored in an entry has finished loading; it is closed only if the entry is -/
theorem val_loaded {s : State} {r : Ref} (a : EInvA s r) (b : EInvB s r) :
    ∀ i, (s.heap r).value = some i →
      i < s.nInst ∧ (s.inst i).st.loaded = true ∧ (s.inst i).id = (s.heap r).id ∧
      ((s.heap r).st ≠ .closed → (s.inst i).st ≠ .closed) := by
  intro i hv
  have v := b.val_inst i hv
  have hne : (s.heap r).st ≠ .loading := by
    intro h; have := a.loading_iff.1 h; rw [hv] at this; cases this
  refine ⟨v.1, ?_, v.2.2.1, ?_⟩
  · cases hst : (s.heap r).st
    · exact absurd hst hne
    · rw [v.2.2.2.1 hst]; rfl
    · rw [v.2.2.2.2.1 hst]; rfl
    · rw [v.2.2.2.2.2 hst]; rfl
  · intro hnc
    cases hst : (s.heap r).st
    · exact absurd hst hne
    · rw [v.2.2.2.1 hst]; simp
    · rw [v.2.2.2.2.1 hst]; simp
    · exact absurd hst hnc

theorem markStarted_started (s : State) (th : Thread) : (markStarted s th).started = true := by
  unfold markStarted; split <;> simp_all

theorem markStarted_of_started {s : State} {th : Thread} (h : th.started = true) : markStarted s th = th := by
  unfold markStarted; simp [h]

set_option hygiene false in
/-- facts about the stepping thread from all layers -/
local macro "thr_facts" : tactic => `(tactic|
  (obtain ⟨hb1, hb2, hb3, hb4, hb6, hb5, hb7⟩ := hB.thr t ht
   obtain ⟨hc1, hc2, hc3, hc4, hc5⟩ := hC.thr t ht
   simp only [loaded_iff] at hb2 hb3
   have hst := stale_started hC ht
   have hmst := markStarted_started s (s.thr t)))

set_option hygiene false in
local macro "open_step" : tactic => `(tactic|
  (have hTd := (hA.thr t ht).1
   have hM := hA.map_ok
   have hTt := (hA.thr t ht).2
   have hcl0 := congrArg Pc.closerOf hpc
   have hld0 := congrArg Pc.loaderOf hpc
   have hhold0 := congrArg Pc.holds hpc
   have hrm0 := congrArg Pc.rmRef hpc
   generalize hrm : (s.thr t).pc.rmRef = rm at hrm0
   simp only [Pc.rmRef] at hrm0
   subst hrm0
   generalize hcl : (s.thr t).pc.closerOf = cl at hcl0
   generalize hld : (s.thr t).pc.loaderOf = ld at hld0
   generalize hhold : (s.thr t).pc.holds = hd at hhold0
   simp only [Pc.closerOf, Pc.loaderOf, Pc.holds] at hcl0 hld0 hhold0
   subst hcl0 hld0 hhold0
   thr_facts
   rw [hpc] at hTt
   simp only at hTt
   have hcr := hD.thr t ht
   unfold CloseRun at hcr
   rw [hpc] at hcr
   simp only at hcr
   first
   | (have hms : markStarted s (s.thr t) = s.thr t := by
        rcases hc5 with h | h
        · exact markStarted_of_started h
        · exfalso; rw [hpc] at h; cases hop : (s.thr t).op <;> rw [hop] at h <;> simp [firstPc] at h)
   | skip
   unfold stepCore at h
   rw [markStarted_pc, hpc] at h
   simp only [markStarted_op, markStarted_todo] at h))

set_option hygiene false in
/-- layer A and B facts of entry `r` (needs `hr : r < s.nHeap`) -/
local macro "ent_facts" r:ident : tactic => `(tactic|
  (obtain ⟨hE1, hE2, hE3, hE4, hE5, hE6, hE7, hE8, hE9, hE10⟩ := hA.ent $r hr
   have hVL := val_loaded (hA.ent $r hr) (hB.ent $r hr)
   simp only [loaded_iff] at hVL
   obtain ⟨hB1, hB2, hB3⟩ := hB.ent $r hr))

set_option hygiene false in
/-- layer B facts of the instance stored in entry `r` (needs `hval : (s.heap r).value = some i`) -/
local macro "ins_facts" i:ident : tactic => `(tactic|
  (have hvi := hB1 $i hval
   obtain ⟨hJ1, hJ2, hJ3⟩ := hB.ins $i hvi.1
   simp only [alive_iff] at hJ1))

set_option hygiene false in
local macro "with_after" hh:ident tac:tactic : tactic => `(tactic|
  (obtain ⟨th', cd, rfl, hAf, hcd⟩ := $hh
   obtain ⟨op', pc', todo', ret', sta', stale'⟩ := th'
   obtain ⟨hop', hst', hsd', hsub, hpc'⟩ := hAf
   simp only [markStarted_op, markStarted_todo] at hop' hst' hsd' hsub hpc' hcd
   try simp only [State.setE, State.setI, State.setThr, State.goto] at hcd
   rcases hpc' with ⟨hp, hx⟩ | ⟨hp, hx⟩ | ⟨hp, hx⟩ | ⟨r2, hm2, hp, hx⟩ | ⟨r2, hm2, hp, hx⟩ <;> subst hp <;> $tac))

set_option hygiene false in
local macro "vac" : tactic => `(tactic| (exfalso; simp at hr; done))

set_option hygiene false in
local macro "frameB" r0:term "," i0:term : tactic => `(tactic|
  (apply invB_frame (t := t) $r0 $i0 hA hB
   case hnThr => simp
   case hnHeap => simp
   case hnew => intro r hr; simp at hr ⊢; first | omega | grind
   case hnInst => simp
   case hnewI => intro i hi; simp at hi ⊢; first | omega | grind
   case hthr => intro t' ht'; simp [ht']
   case hheap => intro r hr; simp [hr]
   case hinst => intro i hi; simp [hi]
   case hmap => intro r hr hr2; simp [hr]; try grind
   case hid0 => intro hr; first | vac | (simp; done) | (simp <;> grind)
   case hrel => intro hr; first | vac | ((try simp at hr); grind)
   case hEB0 => intro hr; first | vac | ((try simp at hr); constructor <;> simp <;> grind)
   case hIB0 => intro hr; first | vac | ((try simp at hr); constructor <;> simp <;> grind)
   case hOwn => intro i hi hne hal hent hr0 hvp hm; simp at hal hvp hm ⊢ <;> grind
   case hLoaded => intro hr; first | vac | ((try simp at hr); simp <;> grind)
   case hValKeep => intro hr hv; first | vac | ((try simp at hr); simp at hv ⊢ <;> grind)
   case hPendKeep => intro hr hp hldr; first | vac | ((try simp at hr); simp at hp hldr ⊢ <;> grind)
   case hTB => constructor <;> simp <;> grind))

set_option hygiene false in
local macro "frameC" r0:term "," i0:term : tactic => `(tactic|
  (apply invC_frame (t := t) $r0 $i0 hA hC
   case hnThr => simp
   case hnInst => simp
   case hthr => intro t' ht'; simp [ht']
   case hheap => intro r hr; simp [hr]
   case hinst => intro i hi; simp [hi]
   case hClosedKeep => intro hr hcls; first | vac | ((try simp at hr); simp at hcls ⊢ <;> grind)
   case hValFresh => intro hr; first | vac | ((try simp at hr); intro i hv; simp at hv ⊢ <;> grind)
   case hTC => constructor <;> simp [markStarted_started] <;> grind))


set_option hygiene false in
local macro "frameD" r0:term "," i0:term : tactic => `(tactic|
  (apply invD_frame (t := t) hD
   case hnThr => simp
   case hthr => intro t' ht'; simp [ht']
   case hTD => intro hop; simp at hop; unfold CloseRun; simp <;> grind
   case hD3 => intro hc0 r hr hm; simp at hr hm ⊢ <;> grind
   case hD4 => intro hcd; simp at hcd ⊢ <;> grind
   case hD5 => intro hc0; simp [hc0] <;> grind))

