theorem b_spawn (s : State) (op : Op) (hA : InvA s) (hB : InvB s) (hC : InvC s) (hD : InvD s) :
    InvB (spawn s op) := by
  unfold spawn
  constructor
  · intro r hr; have e := hB.ent r hr; exact ⟨e.val_inst, e.pend_inst, e.val_pend⟩
  · intro i hi; have e := hB.ins i hi; exact ⟨e.owned, e.closes, e.no_bad⟩
  · intro t ht
    by_cases e : t = s.nThr
    · subst e
      simp only [upd, if_true]
      constructor <;> intros <;> (cases op <;> simp_all [firstPc, Pc.holds, Pc.rmRef])
    · have ht' : t < s.nThr := by
        have : t < s.nThr + 1 := ht
        omega
      simp only [upd, e, if_false]
      have b := hB.thr t ht'
      exact ⟨b.held_id, b.ret_val, b.ret_objs, b.commit_live, b.same_target, b.load_loading, b.remove_op⟩
