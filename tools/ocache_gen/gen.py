#!/usr/bin/env python3
"""generate StepB/StepC/StepD.lean from one table of branch skeletons (same case analysis as StepA)"""
import sys
L = sys.argv[1]           # B | C | D
SIG = "(hA : InvA s) (hB : InvB s) (hC : InvC s) (hD : InvD s) (ht : t < s.nThr)"
ARGS = "hA hB hC hD ht"
step_h = "(h : stepCore s t (markStarted s (s.thr t)) hint = some s')"

lemmas = []
def lem(name, params, pc, body, h=step_h):
    lemmas.append((name, params, pc, body, h))

lem("getLookup", "", ".getLookup", """  open_step
  split at h
  · cases h
    FRAME s.nHeap s.nInst
  · split at h
    · rename_i r hm
      cases h
      have hr := (hM _ _ hm).1
      have hid := (hM _ _ hm).2
      ENT r
      FRAME s.nHeap s.nInst
    · cases h
      FRAME s.nHeap s.nInst
""")
lem("getWaitClose", "(r : Ref) (l : Bool)", ".getWaitClose r l", """  cases l
  all_goals
    open_step
    have hr : r < s.nHeap := by first | exact hTt | exact hTt.1
    ENT r
    split at h
    · cases h; FRAME s.nHeap s.nInst
    · cases h; FRAME s.nHeap s.nInst
    · simp at h; cases h; FRAME s.nHeap s.nInst
""")
lem("waitCloseWait", "(r : Ref) (g : Nat)", ".waitCloseWait r g", """  open_step
  split at h
  · cases h; FRAME s.nHeap s.nInst
  · cases h
""")
lem("loadBegin", "(r : Ref)", ".loadBegin r", """  open_step
  have hr : r < s.nHeap := hTt.1
  ENT r
  cases h
  FRAME r s.nInst
""")
lem("loadCommit", "(r : Ref) (v : Option Inst) (ab : Bool)", ".loadCommit r v ab", """  open_step
  have hr : r < s.nHeap := hTt.1
  ENT r
  split at h
  · cases h; FRAME r s.nInst
  · cases h; FRAME r s.nInst
""")
lem("loadSignal", "(r : Ref)", ".loadSignal r", """  open_step
  have hr : r < s.nHeap := hTt.1
  ENT r
  cases h
  unfold getReturn
  simp only [markStarted_retries]
  split
  · split
    · FRAME r s.nInst
    · FRAME r s.nInst
  · split
    · FRAME r s.nInst
    · FRAME r s.nInst
""")
lem("getWaitLoad", "(r : Ref)", ".getWaitLoad r", """  open_step
  have hr : r < s.nHeap := hTt
  ENT r
  split at h
  · cases h
    unfold getReturn
    simp only [markStarted_retries]
    split
    · split
      · FRAME s.nHeap s.nInst
      · FRAME s.nHeap s.nInst
    · split
      · FRAME s.nHeap s.nInst
      · FRAME s.nHeap s.nInst
  · cases h
""")
lem("pickLookup", "", ".pickLookup", """  open_step
  split at h
  · cases h; FRAME s.nHeap s.nInst
  · rename_i r hm
    have hr := (hM _ _ hm).1
    have hid := (hM _ _ hm).2
    ENT r
    split at h
    · cases h; FRAME s.nHeap s.nInst
    · cases h; FRAME s.nHeap s.nInst
""")
lem("pickWaitLoad", "(r : Ref)", ".pickWaitLoad r", """  open_step
  have hr : r < s.nHeap := hTt
  ENT r
  split at h
  · split at h
    · cases h; FRAME s.nHeap s.nInst
    · split at h
      · cases h; FRAME s.nHeap s.nInst
      · cases h; FRAME s.nHeap s.nInst
  · cases h
""")
lem("addStart", "", ".addStart", """  open_step
  split at h
  · cases h; FRAME s.nHeap s.nInst
  · split at h
    · cases h; FRAME s.nHeap s.nInst
    · cases h; FRAME s.nHeap s.nInst
""")
lem("removeLookup", "", ".removeLookup", """  open_step
  split at h
  · cases h; FRAME s.nHeap s.nInst
  · split at h
    · cases h; FRAME s.nHeap s.nInst
    · rename_i r hm
      have hr := (hM _ _ hm).1
      ENT r
      cases h; FRAME s.nHeap s.nInst
""")
lem("removeSameLookup", "", ".removeSameLookup", """  open_step
  split at h
  · cases h; FRAME s.nHeap s.nInst
  · split at h
    · rename_i r _ _ hm _
      have hr := (hM _ _ hm).1
      ENT r
      split at h
      · cases h; FRAME s.nHeap s.nInst
      · cases h; FRAME s.nHeap s.nInst
    · cases h; FRAME s.nHeap s.nInst
""")
lem("tryRemoveLookup", "", ".tryRemoveLookup", """  open_step
  split at h
  · cases h; FRAME s.nHeap s.nInst
  · split at h
    · cases h; FRAME s.nHeap s.nInst
    · rename_i r hm
      have hr := (hM _ _ hm).1
      ENT r
      split at h
      · cases h; FRAME s.nHeap s.nInst
      · cases h; FRAME s.nHeap s.nInst
""")
lem("doLocked", "", ".doLocked", """  open_step
  split at h
  · cases h; FRAME s.nHeap s.nInst
  · split at h
    · cases h; FRAME s.nHeap s.nInst
    · cases h; FRAME s.nHeap s.nInst
""")
lem("forEach", "", ".forEach", """  open_step
  have hfe : ∀ i, i ∈ (mapRefs s).filterMap (fun r => if ((s.heap r).loadDone && !(s.heap r).isClosing) = true then (s.heap r).value else none) →
      i < s.nInst ∧ ((s.inst i).st = .live ∨ (s.inst i).st = .closing ∨ (s.inst i).st = .closed) ∧ (s.inst i).st ≠ .closed := by
    intro i hi
    simp only [List.mem_filterMap, mem_mapRefs] at hi
    obtain ⟨r, ⟨hr, hm⟩, hv⟩ := hi
    split at hv
    · rename_i hc
      simp [Entry.isClosing] at hc
      have := val_loaded (hA.ent r hr) (hB.ent r hr) i hv
      exact ⟨this.1, (loaded_iff _).1 this.2.1, this.2.2.2 hc.2.2⟩
    · cases hv
  cases h; FRAME s.nHeap s.nInst
""")
lem("rmWaitLoad", "(r : Ref)", ".rmWaitLoad r", """  open_step
  have hr : r < s.nHeap := hTt
  ENT r
  split at h
  · split at h
    · have hh := afterRemove_shape h
      with_after hh (FRAME s.nHeap s.nInst)
    · cases h; FRAME s.nHeap s.nInst
  · cases h
""")
setclosing = """theorem L_setClosingWait (s s' : State) (t : Tid) (hint : Option Id) (r : Ref)
    SIG
    (hpc : (s.thr t).pc = .rmSetClosing r ∨ ∃ g, (s.thr t).pc = .rmClosingWait r g)
    (hr : r < s.nHeap) (hld1 : (s.heap r).loadDone = true) (hle : (s.heap r).loadErr = false)
    (h : setClosingWait s t (markStarted s (s.thr t)) r hint = some s') : InvL s' := by
  have hTd := (hA.thr t ht).1
  have hM := hA.map_ok
  have hcl : (s.thr t).pc.closerOf = none := by
    rcases hpc with h | ⟨g, h⟩ <;> rw [h] <;> rfl
  have hld : (s.thr t).pc.loaderOf = none := by
    rcases hpc with h | ⟨g, h⟩ <;> rw [h] <;> rfl
  have hhold : (s.thr t).pc.holds = none := by
    rcases hpc with h | ⟨g, h⟩ <;> rw [h] <;> rfl
  have hrm : (s.thr t).pc.rmRef = some r := by
    rcases hpc with h | ⟨g, h⟩ <;> rw [h] <;> rfl
  have hnd : ∀ res, (s.thr t).pc ≠ .done res := by
    intro res; rcases hpc with h | ⟨g, h⟩ <;> rw [h] <;> simp
  have hnc : ∀ r i ab, (s.thr t).pc ≠ .loadCommit r i ab := by
    intro r i ab; rcases hpc with h | ⟨g, h⟩ <;> rw [h] <;> simp
  have hcr : (s.thr t).op = .close →
      s.closed = true ∧ ∀ r', r' < s.nHeap → Entry.inMapOf s r' → r' = r ∨ r' ∈ (s.thr t).todo := by
    intro hop
    have hp := hD.thr t ht hop
    unfold CloseRun at hp
    rcases hpc with h | ⟨g, h⟩ <;> rw [h] at hp <;> exact hp
  thr_facts
  ENT r
  unfold setClosingWait at h
  simp only [markStarted_op, markStarted_todo] at h
  split at h
  · cases h; FRAME s.nHeap s.nInst
  · have hh := afterRemove_shape h
    with_after hh (FRAME s.nHeap s.nInst)
  · split at h
    · cases h
      exfalso; grind
    · cases h
      rename_i hncl hncd _ i hval
      have hact : (s.heap r).st = .active := by
        cases hst : (s.heap r).st <;> simp_all
      INS i
      unfold markClosing startClose
      FRAME r i

"""
lem("rmSetClosing", "(r : Ref)", ".rmSetClosing r", """  have hTt := (hA.thr t ht).2
  rw [hpc] at hTt
  unfold stepCore at h
  rw [markStarted_pc, hpc] at h
  exact L_setClosingWait s s' t hint r ARGS (Or.inl hpc) hTt.1 hTt.2.1 hTt.2.2 h
""")
lem("rmClosingWait", "(r : Ref) (g : Nat)", ".rmClosingWait r g", """  have hTt := (hA.thr t ht).2
  rw [hpc] at hTt
  unfold stepCore at h
  rw [markStarted_pc, hpc] at h
  simp only at h
  split at h
  · exact L_setClosingWait s s' t hint r ARGS (Or.inr ⟨g, hpc⟩) hTt.1 hTt.2.1 hTt.2.2.1 h
  · cases h
""")
lem("trySetClosing", "(r : Ref)", ".trySetClosing r", """  open_step
  have hr : r < s.nHeap := hTt.1
  ENT r
  split at h
  · have hh := afterRemove_shape h
    with_after hh (FRAME s.nHeap s.nInst)
  · have hh := afterRemove_shape h
    with_after hh (FRAME s.nHeap s.nInst)
  · split at h
    · cases h
      exfalso; grind
    · cases h
      rename_i hncl hncd _ i hval
      have hact : (s.heap r).st = .active := by
        cases hst : (s.heap r).st <;> simp_all
      INS i
      unfold markClosing startClose
      FRAME r i
""")
lem("gcCollect", "", ".gcCollect", """  open_step
  split at h
  · cases h; FRAME s.nHeap s.nInst
  · have hh := nextTodo_shape false none h
    have hmr : ∀ r, r ∈ (mapRefs s).filter (fun r => (s.heap r).st == .active) →
        r < s.nHeap ∧ (s.heap r).st = .active := by
      intro r hr; simp [mem_mapRefs] at hr; exact ⟨hr.1.1, hr.2⟩
    with_after hh (FRAME s.nHeap s.nInst)
""")

def render():
    out = []
    for name, params, pc, body, h in lemmas:
        if name == "rmSetClosing":
            out.append(setclosing.replace("SIG", SIG))
        out.append(f"theorem L_{name} (s s' : State) (t : Tid) (hint : Option Id) {params}\n    {SIG} (hpc : (s.thr t).pc = {pc})\n    {h} : InvL s' := by\n{body}\n")
    txt = "".join(out)
    import re
    txt = re.sub(r"FRAME (\S+) (\S+)\)", r"frameL \1 \2)", txt)
    txt = re.sub(r"FRAME (\S+) (\S+)", r"frameL \1 \2", txt)
    txt = re.sub(r"ENT (\w+)", r"ent_facts \1", txt)
    txt = re.sub(r"INS (\w+)", r"ins_facts \1", txt)
    txt = txt.replace("ARGS", ARGS)
    txt = txt.replace("L_", L.lower() + "_").replace("InvL", "Inv" + L).replace("frameL", "frame" + L)
    return txt

if __name__ == "__main__":
    sys.stdout.write(render())
