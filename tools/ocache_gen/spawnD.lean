theorem d_spawn (s : State) (op : Op) (hA : InvA s) (hB : InvB s) (hC : InvC s) (hD : InvD s) :
    InvD (spawn s op) := by
  unfold spawn
  constructor
  · intro hcl
    obtain ⟨t, ht, hp⟩ := hD.progress hcl
    refine ⟨t, Nat.lt_succ_of_lt ht, ?_⟩
    have hne : t ≠ s.nThr := Nat.ne_of_lt ht
    simp only [upd, hne, if_false]
    exact hp
  · exact hD.close_done
