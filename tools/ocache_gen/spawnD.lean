theorem d_spawn (s : State) (op : Op) (hA : InvA s) (hB : InvB s) (hC : InvC s) (hD : InvD s) :
    InvD (spawn s op) := by
  unfold spawn
  constructor
  · intro t ht hop
    by_cases e : t = s.nThr
    · subst e
      simp only [upd, if_true] at hop ⊢
      subst hop
      simp [CloseRun, firstPc]
    · have ht' : t < s.nThr := by
        have : t < s.nThr + 1 := ht
        omega
      simp only [upd, e, if_false] at hop ⊢
      exact hD.thr t ht' hop
  · exact hD.close_done
