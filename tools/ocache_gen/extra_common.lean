theorem L_closeCollect_core (s s' : State) (t : Tid) (hint : Option Id) (th0 : Thread)
    SIG (hpc : (s.thr t).pc = .closeCollect) (hop0 : th0.op = (s.thr t).op)
    (hsta0 : th0.stale = (markStarted s (s.thr t)).stale) (hstd0 : th0.started = true)
    (hcl0 : s.closed = false)
    (htd : ∀ r, r ∈ th0.todo ↔ r ∈ mapRefs s)
    (h : nextTodo { s with closed := true } t th0 hint = some s') : InvL s' := by
  have hM := hA.map_ok
  have hTt := (hA.thr t ht).2
  rw [hpc] at hTt
  simp only at hTt
  have hcl : (s.thr t).pc.closerOf = none := by rw [hpc]; rfl
  have hld : (s.thr t).pc.loaderOf = none := by rw [hpc]; rfl
  have hhold : (s.thr t).pc.holds = none := by rw [hpc]; rfl
  have hrm : (s.thr t).pc.rmRef = none := by rw [hpc]; rfl
  thr_facts
  have hmr : ∀ r, r ∈ th0.todo ↔ (r < s.nHeap ∧ s.map (s.heap r).id = some r) := by
    intro r; rw [htd r]; exact mem_mapRefs
  have hh := nextTodo_shape false none h
  with_after hh (frameL s.nHeap, s.nInst)

theorem L_closeCollect (s s' : State) (t : Tid) (hint : Option Id)
    SIG (hpc : (s.thr t).pc = .closeCollect)
    (h : stepCore s t (markStarted s (s.thr t)) hint = some s') : InvL s' := by
  open_step
  split at h
  · cases h; frameL s.nHeap, s.nInst
  · rename_i hncl
    let heap' : Ref → Entry := fun r =>
      if (mapRefs s).contains r && (s.heap r).cancelSet then { s.heap r with cancelled := true } else s.heap r
    have hce : ∀ r, CoreEq (heap' r) (s.heap r) := by
      intro r; simp only [heap']; split <;> constructor <;> rfl
    have hmrefs : ∀ r, r ∈ mapRefs s ↔ r ∈ mapRefs { s with heap := heap' } := by
      intro r; simp only [mem_mapRefs, (hce r).id]
    exact L_closeCollect_core { s with heap := heap' } s' t hint
      { op := (s.thr t).op, pc := .closeCollect, todo := mapRefs s, retries := (markStarted s (s.thr t)).retries,
        started := (markStarted s (s.thr t)).started, stale := (markStarted s (s.thr t)).stale }
      (invA_heap_congr hA hce) (invB_heap_congr hB hce) (invC_heap_congr hC hce) (invD_heap_congr hD hce)
      ht hpc rfl rfl (markStarted_started _ _) (by simpa using hncl) (fun r => hmrefs r) h

set_option hygiene false in
local macro "open_env" : tactic => `(tactic|
  (have hTd := (hA.thr t ht).1
   have hM := hA.map_ok
   have hTt := (hA.thr t ht).2
   have hcl0 := congrArg Pc.closerOf hpc
   have hld0 := congrArg Pc.loaderOf hpc
   have hhold0 := congrArg Pc.holds hpc
   have hrm0 := congrArg Pc.rmRef hpc
   generalize hrm : (s.thr t).pc.rmRef = rm at hrm0
   simp only [Pc.rmRef] at hrm0
   subst hrm0
   generalize hcl : (s.thr t).pc.closerOf = cl at hcl0
   generalize hld : (s.thr t).pc.loaderOf = ld at hld0
   generalize hhold : (s.thr t).pc.holds = hd at hhold0
   simp only [Pc.closerOf, Pc.loaderOf, Pc.holds] at hcl0 hld0 hhold0
   subst hcl0 hld0 hhold0
   thr_facts
   have hstd : (s.thr t).started = true := by
     rcases hc5 with h | h
     · exact h
     · exfalso; rw [hpc] at h; cases hop : (s.thr t).op <;> rw [hop] at h <;> simp [firstPc] at h
   have hcr := hD.thr t ht
   unfold CloseRun at hcr
   rw [hpc] at hcr
   simp only at hcr
   rw [hpc] at hTt
   simp only at hTt
   unfold envStep at h
   simp only [ht, if_true, hpc] at h))

theorem L_env_load (s s' : State) (t : Tid) (v : Verdict) (hint : Option Id) (r : Ref) (i : Inst)
    SIG (hpc : (s.thr t).pc = .inLoad r i)
    (h : envStep s t v hint = some s') : InvL s' := by
  open_env
  have hr : r < s.nHeap := hTt.1
  ent_facts r
  have hpi := hB2 i hTt.2.2.2.1
  obtain ⟨hJ1, hJ2, hJ3⟩ := hB.ins i hpi.1
  simp only [alive_iff] at hJ1
  cases v <;> simp only at h
  · cases h; frameL r, i
  · cases h; frameL r, i
  all_goals cases h

set_option hygiene false in
local macro "closer_pre" : tactic => `(tactic|
  (have hTd := (hA.thr t ht).1
   have hM := hA.map_ok
   have hTt : r < s.nHeap ∧ (s.heap r).closer = some t ∧ (s.heap r).st = .closing ∧ (s.heap r).value = some i := by
     have := (hA.thr t ht).2
     rcases hpc with h | h <;> rw [h] at this <;> exact this
   have hcl : (s.thr t).pc.closerOf = some r := by rcases hpc with h | h <;> rw [h] <;> rfl
   have hld : (s.thr t).pc.loaderOf = none := by rcases hpc with h | h <;> rw [h] <;> rfl
   have hhold : (s.thr t).pc.holds = none := by rcases hpc with h | h <;> rw [h] <;> rfl
   have hrm : (s.thr t).pc.rmRef = some r ∨ (s.thr t).pc = .inTry r i := by
     rcases hpc with h | h
     · left; rw [h]; rfl
     · right; exact h
   have hnd : ∀ res, (s.thr t).pc ≠ .done res := by
     intro res; rcases hpc with h | h <;> rw [h] <;> simp
   have hnc : ∀ r i ab, (s.thr t).pc ≠ .loadCommit r i ab := by
     intro r i ab; rcases hpc with h | h <;> rw [h] <;> simp
   have hcr : (s.thr t).op = .close → (s.thr t).pc = .inClose r i ∧
       s.closed = true ∧ ∀ r', r' < s.nHeap → Entry.inMapOf s r' → r' = r ∨ r' ∈ (s.thr t).todo := by
     intro hop
     have hp := hD.thr t ht hop
     unfold CloseRun at hp
     rcases hpc with h | h
     · rw [h] at hp; exact ⟨h, hp⟩
     · rw [h] at hp; exact hp.elim
   thr_facts
   have hstd : (s.thr t).started = true := by
     rcases hc5 with h | h
     · exact h
     · exfalso; rcases hpc with h2 | h2 <;> rw [h2] at h <;> cases hop : (s.thr t).op <;> rw [hop] at h <;> simp [firstPc] at h
   have hr : r < s.nHeap := hTt.1
   ent_facts r
   have hval := hTt.2.2.2
   ins_facts i))

theorem L_closed_core (s s' : State) (t : Tid) (hint : Option Id) (r : Ref) (i : Inst)
    (ok : Bool) (err : Option Err)
    SIG (hpc : (s.thr t).pc = .inClose r i ∨ (s.thr t).pc = .inTry r i)
    (h : afterRemove (closeAndDelete (s.setI i { s.inst i with st := .closed, closes := (s.inst i).closes + 1 }) r (s.heap r))
      t (s.thr t) ok err hint = some s') : InvL s' := by
  closer_pre
  have hh := afterRemove_shape h
  unfold closeAndDelete at hh
  with_after hh (frameL r, i)

theorem L_busy_core (s s' : State) (t : Tid) (hint : Option Id) (r : Ref) (i : Inst)
    (ok : Bool) (err : Option Err)
    SIG (hpt : (s.thr t).pc = .inTry r i)
    (h : afterRemove ((s.setI i { s.inst i with st := if (s.inst i).st = .closing then .live else (s.inst i).st }).setE r
        { s.heap r with st := .active, chOpen := false, closer := none })
      t (s.thr t) ok err hint = some s') : InvL s' := by
  have hpc : (s.thr t).pc = .inClose r i ∨ (s.thr t).pc = .inTry r i := Or.inr hpt
  closer_pre
  have hnotclose : (s.thr t).op ≠ .close := by
    intro hop; have := (hcr hop).1; rw [hpt] at this; cases this
  have hh := afterRemove_shape h
  with_after hh (frameL r, i)

theorem L_env_close (s s' : State) (t : Tid) (v : Verdict) (hint : Option Id) (r : Ref) (i : Inst)
    SIG (hpc : (s.thr t).pc = .inClose r i)
    (h : envStep s t v hint = some s') : InvL s' := by
  have hTt := (hA.thr t ht).2
  rw [hpc] at hTt
  simp only at hTt
  have hop : (s.heap r).chOpen = true := ((hA.ent r hTt.1).closing_open).1 hTt.2.2.1
  unfold envStep at h
  simp only [ht, if_true, hpc] at h
  cases v <;> simp only [hop, Bool.not_true, Bool.false_eq_true, if_false] at h
  case closeRet => exact L_closed_core s s' t hint r i _ _ ARGS (Or.inl hpc) h
  all_goals cases h

theorem L_env_try (s s' : State) (t : Tid) (v : Verdict) (hint : Option Id) (r : Ref) (i : Inst)
    SIG (hpc : (s.thr t).pc = .inTry r i)
    (h : envStep s t v hint = some s') : InvL s' := by
  have hTt := (hA.thr t ht).2
  rw [hpc] at hTt
  simp only at hTt
  have hop : (s.heap r).chOpen = true := ((hA.ent r hTt.1).closing_open).1 hTt.2.2.1
  unfold envStep at h
  simp only [ht, if_true, hpc] at h
  cases v <;> simp only [hop, Bool.not_true, Bool.false_eq_true, if_false, if_true] at h
  case tryTrue => exact L_closed_core s s' t hint r i _ _ ARGS (Or.inr hpc) h
  case tryErrTrue => exact L_closed_core s s' t hint r i _ _ ARGS (Or.inr hpc) h
  case tryFalse => exact L_busy_core s s' t hint r i _ _ ARGS hpc h
  case tryErrFalse => exact L_busy_core s s' t hint r i _ _ ARGS hpc h
  all_goals cases h

SPAWN

/-- every internal step preserves the layer -/
theorem invL_step {s s' : State} {t : Tid} {hint : Option Id}
    (hA : InvA s) (hB : InvB s) (hC : InvC s) (hD : InvD s) (h : step s t hint = some s') : InvL s' := by
  unfold step at h
  split at h
  · rename_i ht
    simp only at h
    cases hpc : (s.thr t).pc
    case getLookup => exact L_getLookup s s' t hint ARGS hpc h
    case getWaitClose r l => exact L_getWaitClose s s' t hint r l ARGS hpc h
    case waitCloseWait r g => exact L_waitCloseWait s s' t hint r g ARGS hpc h
    case loadBegin r => exact L_loadBegin s s' t hint r ARGS hpc h
    case loadCommit r v ab => exact L_loadCommit s s' t hint r v ab ARGS hpc h
    case loadSignal r => exact L_loadSignal s s' t hint r ARGS hpc h
    case getWaitLoad r => exact L_getWaitLoad s s' t hint r ARGS hpc h
    case pickLookup => exact L_pickLookup s s' t hint ARGS hpc h
    case pickWaitLoad r => exact L_pickWaitLoad s s' t hint r ARGS hpc h
    case addStart => exact L_addStart s s' t hint ARGS hpc h
    case removeLookup => exact L_removeLookup s s' t hint ARGS hpc h
    case removeSameLookup => exact L_removeSameLookup s s' t hint ARGS hpc h
    case tryRemoveLookup => exact L_tryRemoveLookup s s' t hint ARGS hpc h
    case rmWaitLoad r => exact L_rmWaitLoad s s' t hint r ARGS hpc h
    case rmSetClosing r => exact L_rmSetClosing s s' t hint r ARGS hpc h
    case rmClosingWait r g => exact L_rmClosingWait s s' t hint r g ARGS hpc h
    case trySetClosing r => exact L_trySetClosing s s' t hint r ARGS hpc h
    case gcCollect => exact L_gcCollect s s' t hint ARGS hpc h
    case closeCollect => exact L_closeCollect s s' t hint ARGS hpc h
    case doLocked => exact L_doLocked s s' t hint ARGS hpc h
    case forEach => exact L_forEach s s' t hint ARGS hpc h
    all_goals (unfold stepCore at h; rw [markStarted_pc, hpc] at h; cases h)
  · cases h

theorem invL_env {s s' : State} {t : Tid} {v : Verdict} {hint : Option Id}
    (hA : InvA s) (hB : InvB s) (hC : InvC s) (hD : InvD s)
    (h : envStep s t v hint = some s') : InvL s' := by
  by_cases ht : t < s.nThr
  · cases hpc : (s.thr t).pc
    case inLoad r i => exact L_env_load s s' t v hint r i ARGS hpc h
    case inClose r i => exact L_env_close s s' t v hint r i ARGS hpc h
    case inTry r i => exact L_env_try s s' t v hint r i ARGS hpc h
    all_goals (unfold envStep at h; simp only [ht, if_true, hpc] at h; cases h)
  · unfold envStep at h; simp only [ht, if_false] at h; cases h

theorem invL_next {s s' : State} {l : Label} (hI : Inv s) (h : next s l = some s') : InvL s' := by
  cases l with
  | spawn op => simp only [next] at h; cases h; exact L_spawn s op hI.a hI.b hI.c hI.d
  | step t hint => exact invL_step hI.a hI.b hI.c hI.d h
  | env t v hint => exact invL_env hI.a hI.b hI.c hI.d h
