theorem c_spawn (s : State) (op : Op) (hA : InvA s) (hB : InvB s) (hC : InvC s) (hD : InvD s) :
    InvC (spawn s op) := by
  unfold spawn
  constructor
  intro t ht
  by_cases e : t = s.nThr
  · subst e
    simp only [upd, if_true]
    constructor <;> intros <;> (cases op <;> simp_all [firstPc, Pc.holds])
  · have ht' : t < s.nThr := by
      have : t < s.nThr + 1 := ht
      omega
    simp only [upd, e, if_false]
    have b := hC.thr t ht'
    exact ⟨b.stale_closed, b.held_fresh, b.ret_val, b.ret_objs, b.started_first⟩
