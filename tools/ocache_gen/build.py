#!/usr/bin/env python3
import subprocess, sys, re
L=sys.argv[1]; l=L.lower()
SIG = "(hA : InvA s) (hB : InvB s) (hC : InvC s) (hD : InvD s) (ht : t < s.nThr)"
ARGS = "hA hB hC hD ht"
hdr=open('/tmp/w/ocache/gen/header.lean').read().replace("LAYER",L)
body=subprocess.run(['python3','/tmp/w/ocache/gen/gen.py',L],stdout=subprocess.PIPE,text=True).stdout
extra=open('/tmp/w/ocache/gen/extra_common.lean').read().replace("SPAWN", open(f'/tmp/w/ocache/gen/spawn{L}.lean').read())
extra=extra.replace("SIG",SIG).replace("ARGS",ARGS).replace("L_", l+"_").replace("InvL","Inv"+L).replace("invL","inv"+L).replace("frameL","frame"+L)
txt=body+extra
txt=re.sub(r"frame%s (\S+) (\S+)\)"%L, lambda m: m.group(0) if m.group(1).endswith(',') else "frame%s %s, %s)"%(L,m.group(1),m.group(2)), txt)
txt=re.sub(r"frame%s (\S+) (\S+)"%L, lambda m: m.group(0) if m.group(1).endswith(',') else "frame%s %s, %s"%(L,m.group(1),m.group(2)), txt)
if len(sys.argv)>2:   # only lemmas from name a (inclusive) on
    a=sys.argv[2]; txt=txt[txt.index(f"theorem {l}_{a} "):]
    # keep macros defined in extra before that point
    pre=extra[:extra.index(f"theorem {l}_{a} ")] if f"theorem {l}_{a} " in extra else ""
    macros="".join(re.findall(r"set_option hygiene false in\nlocal macro.*?\)\)\n\n", pre, flags=re.S))
    txt=macros+txt
    # drop assembly which refers to everything
    if "/-- every internal step preserves the layer -/" in txt: txt=txt[:txt.index("/-- every internal step preserves the layer -/")]
sys.stdout.write(hdr+txt+"\nend AnySync.OCache\n")
