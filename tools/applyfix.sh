#!/bin/sh
# tools/applyfix.sh <patch> : apply a fix:/hook patch to /repo as ONE commit (message from the .msg file next to it)
set -e
P=$(cd "$(dirname "$1")" && pwd)/$(basename "$1"); M="${P%.patch}.msg"
git -C /repo diff --quiet || { echo "/repo dirty"; exit 2; }
git -C /repo apply --index "$P"
git -C /repo commit -q -F "$M"
git -C /repo log --oneline | head -1
