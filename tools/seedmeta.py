#!/usr/bin/env python3
"""fold tools/verify_seed.sh + tools/seedtest.sh outcomes into seeded/<id>/meta.json and print a table"""
import json, glob, os, re, sys
V='/verif'
rows=[]
for d in sorted(glob.glob(f'{V}/seeded/C*')):
    mp=os.path.join(d,'meta.json')
    if not os.path.exists(mp): continue
    m=json.load(open(mp))
    m.setdefault('confirmed_by_integrator','tools/verify_seed.sh in a scratch worktree of /repo HEAD: go build ./... ok; tests of the touched packages pass; demo fails with the patch and passes without it')
    res={}
    for tier in ('quick','thorough'):
        rp=os.path.join(d,f'result-{tier}.txt')
        if os.path.exists(rp):
            t=open(rp).read()
            v=[l for l in t.splitlines() if l.startswith('VIOLATION')]
            s=[l for l in t.splitlines() if l.startswith('[check] C')]
            if v:
                kind='no-failing-input-found (correspondence / proof obligation only)' if 'no-failing-input-found' in v[0] else 'failing input found (oracle)'
                res[tier]='DETECTED: '+kind
            else:
                res[tier]='MISSED'
            if s: res[tier]+=' | '+re.sub(r'^\[check\] ','',s[-1])
    if res: m['check_result_auto']=res
    json.dump(m,open(mp,'w'),indent=1)
    rows.append((os.path.basename(d), m.get('property'), m.get('what_breaks','')[:110], res.get('quick','').split(' |')[0], m.get('check_result', '') if isinstance(m.get('check_result'),str) else ''))
for r in rows: print(' | '.join(str(x) for x in r))
