#!/usr/bin/env python3
"""Hand-mutation campaign for C16 (area ocache). Usage: ocache_mutants.py <repo worktree> <verif worktree>
Applies each mutant to app/ocache in the (hooked + fixed) repo worktree, rebuilds the harness, runs
`corr ocache` for 20 s and prints what the oracle / correspondence reported. Restores the files."""
import subprocess, sys, os, json, shutil
repo, verif = sys.argv[1], sys.argv[2]
OC, EN = os.path.join(repo, 'app/ocache/ocache.go'), os.path.join(repo, 'app/ocache/entry.go')
oc0, en0 = open(OC).read(), open(EN).read()
M = [
 ('revert-fix-tryremove-load', 'oc', "\tif !e.isActive() {\n\t\tc.mu.Unlock()\n\t\treturn false, nil\n\t}\n", ""),
 ('revert-fix-add-after-close', 'oc', "\tif c.closed {\n\t\treturn ErrClosed\n\t}\n\tif _, ok := c.data[id]; ok {\n\t\treturn ErrExists\n\t}\n\te := newEntry", "\tif _, ok := c.data[id]; ok {\n\t\treturn ErrExists\n\t}\n\te := newEntry"),
 ('revert-fix-tryremove-err', 'oc', "\t\tc.log.With(\"object_id\", e.id).Warnf(\"try remove err: %v\", err)\n\t}\n", "\t\tc.log.With(\"object_id\", e.id).Warnf(\"try remove err: %v\", err)\n\t\treturn closed, err\n\t}\n"),
 ('get-ignores-closed', 'oc', "\t\tc.mu.Lock()\n\t\tif c.closed {\n\t\t\tc.mu.Unlock()\n\t\t\treturn nil, ErrClosed\n\t\t}\n\t\te, ok := c.data[id]", "\t\tc.mu.Lock()\n\t\te, ok := c.data[id]"),
 ('pick-ignores-closing', 'oc', "if !ok || val.isClosing() {", "if !ok {"),
 ('delete-before-value-close', 'oc', "\t\terr = e.value.Close()\n\t\tc.closeAndDelete(e)\n", "\t\tc.closeAndDelete(e)\n\t\terr = e.value.Close()\n"),
 ('setclosing-if-instead-of-loop', 'en', "\tfor e.state == entryStateClosing {", "\tif e.state == entryStateClosing {"),
 ('closeanddelete-keeps-map-entry', 'oc', "\te.setClosed()\n\tdelete(c.data, e.id)\n", "\te.setClosed()\n"),
 ('failed-load-stays-in-map', 'oc', "\t\te.loadAborted = aborted\n\t\tdelete(c.data, id)\n", "\t\te.loadAborted = aborted\n"),
 ('gc-takes-non-active', 'oc', "if e.isActive() && e.lastUsage.Before(deadline) {", "if e.lastUsage.Before(deadline) {"),
 ('waitclose-closed-no-reload', 'en', "\tcase entryStateClosed:\n\t\te.mx.Unlock()\n\t\treturn true, nil", "\tcase entryStateClosed:\n\t\te.mx.Unlock()\n\t\treturn false, nil"),
 ('tryremove-busy-keeps-channel-open', 'oc', "\tif !closed {\n\t\te.setActive(true)\n\t\treturn false, err\n\t}", "\tif !closed {\n\t\te.setActive(false)\n\t\treturn false, err\n\t}"),
 ('removesame-no-identity-check', 'oc', "same := exists && e.value == value", "same := exists"),
 ('close-does-not-set-closed', 'oc', "\tc.closed = true\n\tclose(c.closeCh)", "\tclose(c.closeCh)"),
 ('remove-closes-even-if-other-closed', 'oc', "\tif curState == entryStateClosing {\n\t\tok = true", "\tif curState == entryStateClosing || curState == entryStateClosed {\n\t\tok = true"),
 ('remove-skips-waitload', 'oc', "\tif _, err = e.waitLoad(loadCtx, e.id); err != nil {\n\t\treturn false, err\n\t}\n", ""),
 ('gc-busy-object-closed-anyway', 'oc', "\t\tif !closed {\n\t\t\te.setActive(true)\n\t\t\tcontinue\n\t\t} else {", "\t\tif closed && false {\n\t\t\te.setActive(true)\n\t\t\tcontinue\n\t\t} else {"),
 ('load-activates-before-value-set', 'oc', "\t\te.value = value\n\t\te.setActive(false)\n", "\t\te.setActive(false)\n\t\tc.mu.Unlock()\n\t\tverifYield(\"load.commit\", id)\n\t\tc.mu.Lock()\n\t\te.value = value\n"),
 ('get-inserts-after-unlock', 'oc', "\t\t\tload = true\n\t\t\tc.data[id] = e\n\t\t}\n\t\te.lastUsage = time.Now()\n\t\tc.mu.Unlock()\n", "\t\t\tload = true\n\t\t}\n\t\te.lastUsage = time.Now()\n\t\tc.mu.Unlock()\n\t\tif load {\n\t\t\tverifYield(\"get.waitClose\", id)\n\t\t\tc.mu.Lock()\n\t\t\tc.data[id] = e\n\t\t\tc.mu.Unlock()\n\t\t}\n"),
]
env = dict(os.environ, GOFLAGS='-mod=mod', GOPROXY='off')
exe = os.path.join(verif, '.build', 'vh-mut')
out = '/tmp/w/ocache/out-mut'
only = sys.argv[3:] 
try:
    for name, which, old, new in M:
        if only and name not in only: continue
        oc, en = oc0, en0
        src = oc if which == 'oc' else en
        if src.count(old) != 1:
            print(f'{name}: PATTERN NOT FOUND ({src.count(old)})'); continue
        src = src.replace(old, new, 1)
        if which == 'oc': oc = src
        else: en = src
        open(OC, 'w').write(oc); open(EN, 'w').write(en)
        b = subprocess.run(['go', 'build', '-modfile=' + os.path.join(verif, '.build/alt.go.mod'), '-tags', 'verif', '-o', exe, './cmd/verifharness'],
                           cwd=os.path.join(verif, 'harness'), env=env, stdout=subprocess.PIPE, stderr=subprocess.STDOUT, text=True)
        if b.returncode != 0:
            print(f'{name}: BUILD FAILED\n{b.stdout[-500:]}'); continue
        shutil.rmtree(out, ignore_errors=True)
        subprocess.run([exe, 'corr', 'ocache', '-seed', '1', '-tier', 'quick', '-out', out, '-budget', '20s', '-model', os.path.join(verif, 'lean/.lake/build/bin/modeld')],
                       cwd=verif, env=env, stdout=subprocess.PIPE, stderr=subprocess.STDOUT, text=True)
        r = json.load(open(os.path.join(out, 'result-ocache.json')))
        iss = r.get('issues') or []
        v = [i for i in iss if i['kind'] == 'violation']; d = [i for i in iss if i['kind'] == 'disagreement']
        kinds = sorted({i['stream'].replace('ocache.oracle.', '') for i in v})
        first = (v or d or [None])[0]
        print(f"{name}: {'CAUGHT' if iss else 'MISSED'} violations={len(v)} ({','.join(kinds)}) disagreements={len(d)} after {r['evaluations']} schedules"
              + (f"\n      first: {first['desc'][:160]} | {first['ops'][0]} | {first['ops'][1][:80]}" if first else ''), flush=True)
finally:
    open(OC, 'w').write(oc0); open(EN, 'w').write(en0)
