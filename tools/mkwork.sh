#!/bin/sh
# tools/mkwork.sh <area>: scratch worktrees for one area builder (outside /repo and /verif)
set -e
A="$1"; W=/tmp/w/$A
mkdir -p "$W"
git -C /verif worktree add -q -b "area/$A" "$W/verif" HEAD
git -C /repo worktree add -q --detach "$W/repo" HEAD
echo "$W"
