#!/usr/bin/env python3
"""Run the pinned suite (BASELINE.json cmd, guard off) on a repo tree and require every stable_pass id to pass.
   usage: tools/baseline.py [repo_dir] [pkg_pattern ...]   (default /repo, ./...)"""
import json, subprocess, sys, os, time
repo = sys.argv[1] if len(sys.argv) > 1 else "/repo"
pkgs = sys.argv[2:] or ["./..."]
base = json.load(open("/root/.vp/BASELINE.json"))
want = set(base["stable_pass"])
env = dict(os.environ, GOFLAGS="-mod=mod", GOPROXY="off", GOTOOLCHAIN="auto"); env.pop("GOSUMDB", None)
t = time.time()
p = subprocess.run(["go", "test", "-mod=mod", "-json", "-vet=off", "-count=1", "-timeout", "25m"] + pkgs,
                   cwd=repo, env=env, stdout=subprocess.PIPE, stderr=subprocess.DEVNULL, text=True)
res = {}
pk_seen = set()
for line in p.stdout.splitlines():
    try: e = json.loads(line)
    except Exception: continue
    if e.get("Package"): pk_seen.add(e["Package"])
    if e.get("Test") and e.get("Action") in ("pass", "fail", "skip"):
        res[f'{e["Package"]}::{e["Test"]}'] = e["Action"]
if pkgs != ["./..."]:
    want = {w for w in want if w.split("::")[0] in pk_seen}
bad = sorted(w for w in want if res.get(w) != "pass")
print(f"baseline: {len(want)-len(bad)}/{len(want)} stable_pass ids passed in {time.time()-t:.0f}s (repo={repo})")
for b in bad[:40]:
    print("  NOT-PASS", b, res.get(b))
sys.exit(1 if bad else 0)
