#!/bin/sh
# resolve the routine merge conflicts of an area branch: Main.lean (union), known_findings.json (union by id), evidence (ours)
cd /verif
for f in $(git diff --name-only --diff-filter=U); do
  case "$f" in
    lean/AnySyncModel/Driver/Main.lean) tools/resolve_union.py "$f"; git add "$f";;
    known_findings.json)
      git show :2:known_findings.json > /tmp/kf-ours.json; git show :3:known_findings.json > /tmp/kf-theirs.json
      python3 - <<'PY'
import json
a=json.load(open('/tmp/kf-ours.json')); b=json.load(open('/tmp/kf-theirs.json'))
ids={f['id'] for f in a['findings']}
for f in b['findings']:
    if f['id'] not in ids: a['findings'].append(f)
json.dump(a,open('/verif/known_findings.json','w'),indent=1)
PY
      git add known_findings.json;;
    evidence/*) git checkout --ours "$f"; git add "$f";;
    *) echo "UNRESOLVED $f";;
  esac
done
git diff --name-only --diff-filter=U
