#!/usr/bin/env python3
"""regenerate the findings table (§5.1) and the seeded-changes table (§9.1) of DESIGN.md from known_findings.json and seeded/*/meta.json"""
import json, glob, os, re
V='/verif'
def short(w,n=230):
    w=w.replace('\n',' ').replace('|','/')
    return w if len(w)<=n else w[:n-1]+'…'
k=json.load(open(f'{V}/known_findings.json'))
ft="| id | property | fix commit | what failed |\n|---|---|---|---|\n"+"\n".join(f"| {f['id']} | {f['property']} | {f['kind']} `{f.get('commit','')}` | {short(f['what'])} |" for f in k['findings'])
rows=[]
for d in sorted(glob.glob(f'{V}/seeded/C*')):
    m=json.load(open(d+'/meta.json'))
    first=m.get('first_result') or ''
    now=(m.get('check_result_auto') or {}).get('quick','')
    now=now.split(' |')[0]
    rows.append(f"| {os.path.basename(d)} | {short(m.get('what_breaks',''),150)} | {first} | {now} |")
st="| seed | what it breaks | first run | now |\n|---|---|---|---|\n"+"\n".join(rows)
s=open(f'{V}/DESIGN.md').read()
s=re.sub(r'<!-- FINDINGS-TABLE-BEGIN -->.*?<!-- FINDINGS-TABLE-END -->', lambda _:'<!-- FINDINGS-TABLE-BEGIN -->\n'+ft+'\n<!-- FINDINGS-TABLE-END -->', s, flags=re.S)
s=re.sub(r'<!-- SEEDS-TABLE-BEGIN -->.*?<!-- SEEDS-TABLE-END -->', lambda _:'<!-- SEEDS-TABLE-BEGIN -->\n'+st+'\n<!-- SEEDS-TABLE-END -->', s, flags=re.S)
open(f'{V}/DESIGN.md','w').write(s)
print(len(k['findings']),'findings',len(rows),'seeds')
