#!/bin/sh
# tools/sweep.sh "<seeds>" [tier]: run every claimed check for each seed on the unchanged tree; print one line per run
cd "$(dirname "$0")/.."
[ -x .build/verifharness-setup ] || ./setup.sh >/dev/null 2>&1
TIER="${2:-quick}"
for s in $1; do
  for c in checks.d/C*.json; do
    p=$(basename $c .json)
    VERIF_SEED=$s ./check $p --tier $TIER > /tmp/sweep-$p-$s.log 2>&1; rc=$?
    echo "seed=$s $p rc=$rc $(grep -E '^VIOLATION|^KNOWN' /tmp/sweep-$p-$s.log | head -2 | cut -c1-160 | tr '\n' ' ') $(grep -o 'wall=[0-9.]*s' /tmp/sweep-$p-$s.log | tail -1)"
  done
done
