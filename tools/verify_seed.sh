#!/bin/sh
# tools/verify_seed.sh <dir with patch.diff, demo_test.go(first line: // place at <path>), meta.json>
# confirms in a scratch worktree: builds; touched packages' tests pass; demo fails with the patch and passes without it.
set -u
D=$(cd "$1" && pwd); W=/tmp/sv-$$
export GOFLAGS=-mod=mod GOPROXY=off GOTOOLCHAIN=auto
git -C /repo worktree add -q --detach "$W" HEAD || exit 2
trap 'git -C /repo worktree remove --force "$W" >/dev/null 2>&1' EXIT
cd "$W"
DEMO=$(head -1 "$D/demo_test.go" | sed -n 's|.*place at \([^ ]*\).*|\1|p')
[ -n "$DEMO" ] || { echo "no demo path"; exit 2; }
PKGS=$(grep '^+++ b/' "$D/patch.diff" | sed 's|+++ b/||' | xargs -n1 dirname | sort -u | sed 's|^|./|')
cp "$D/demo_test.go" "$DEMO"
DP="./$(dirname "$DEMO")"
DT=$(grep -o '^func Test[A-Za-z0-9_]*' "$D/demo_test.go" | sed 's/func //' | paste -sd'|')
TAGS=""; grep -q "go:build verif" "$D/demo_test.go" && TAGS="-tags verif"
go test $TAGS -vet=off -count=1 -run "^($DT)\$" "$DP" >/tmp/sv-clean.log 2>&1; CLEAN=$?
git apply "$D/patch.diff" || { echo "patch does not apply"; exit 2; }
go build ./... >/tmp/sv-build.log 2>&1; BUILD=$?
go test $TAGS -vet=off -count=1 -run "^($DT)\$" "$DP" >/tmp/sv-demo.log 2>&1; DEMORC=$?
rm "$DEMO"
go test -vet=off -count=1 $PKGS >/tmp/sv-tests.log 2>&1; TESTS=$?
echo "build=$BUILD existing_tests($PKGS)=$TESTS demo_with_patch=$DEMORC(demo must fail) demo_clean=$CLEAN(must pass)"
if [ $BUILD -eq 0 ] && [ $TESTS -eq 0 ] && [ $DEMORC -ne 0 ] && [ $CLEAN -eq 0 ]; then echo CONFIRMED; else echo REJECTED; tail -5 /tmp/sv-tests.log; fi
