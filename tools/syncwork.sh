#!/bin/sh
# tools/syncwork.sh <area>: bring an area builder's worktrees up to date with the integrated state
# (/repo HEAD incl. all hook+fix commits; /verif main merged into the area branch)
set -e
A="$1"; W=/tmp/w/$A
git -C "$W/repo" reset -q --hard; git -C "$W/repo" clean -fdq; git -C "$W/repo" checkout -q --detach "$(git -C /repo rev-parse HEAD)"
git -C "$W/verif" add -A; git -C "$W/verif" commit -qm "wip before sync" || true
git -C "$W/verif" merge -q --no-edit main || { echo "merge conflict in $W/verif"; exit 1; }
echo "synced $A: repo=$(git -C $W/repo log --oneline | head -1 | cut -c1-60) verif=$(git -C $W/verif log --oneline | head -1 | cut -c1-60)"
