#!/usr/bin/env python3
"""after applyfix: fill known_findings.json `commit` fields that are TBD by matching the .msg subject of
   repo_patches/**/fix-*.msg against /repo's log; add hook commits (subject starts with verif/hook) to hooks.json"""
import json, subprocess, glob, os, re
V='/verif'
log=[l.split(' ',1) for l in subprocess.run(['git','-C','/repo','log','--format=%h %s'],capture_output=True,text=True).stdout.splitlines()]
k=json.load(open(f'{V}/known_findings.json'))
msgs={}
for m in glob.glob(f'{V}/repo_patches/*/*.msg'):
    subj=open(m).read().splitlines()[0].strip()
    msgs[os.path.basename(m)[:-4]]=subj
def find(subj):
    for h,s in log:
        if s.strip()==subj: return h
for f in k['findings']:
    if f.get('commit') in (None,'','TBD'):
        cands=[n for n in msgs if f['id'].lower().replace('f-','') in n.lower().replace('f-','') or n.lower().replace('fix-','').replace('f-','') in f['id'].lower()]
        for c in cands:
            h=find(msgs[c])
            if h: f['commit']=h; break
        print(f['id'], '->', f.get('commit'))
json.dump(k,open(f'{V}/known_findings.json','w'),indent=1)
hk=json.load(open(f'{V}/hooks.json'))
for n,subj in msgs.items():
    if n.startswith('hook'):
        h=find(subj)
        if h and h not in hk['source_commits']: hk['source_commits'].append(h); print('hook',n,h)
json.dump(hk,open(f'{V}/hooks.json','w'),indent=1)
