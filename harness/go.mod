module verifharness

go 1.25.7

require (
	github.com/anyproto/any-sync v0.0.0
	go.uber.org/zap v1.28.0
)

require (
	github.com/gobwas/glob v0.2.3 // indirect
	go.uber.org/multierr v1.11.0 // indirect
	golang.org/x/exp v0.0.0-20260718201538-764159d718ef // indirect
)

replace github.com/anyproto/any-sync => /repo
