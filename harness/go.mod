module verifharness

go 1.25.7

require (
	filippo.io/edwards25519 v1.2.0
	github.com/anyproto/any-store v0.4.7
	github.com/anyproto/any-sync v0.0.0
	github.com/anyproto/go-chash v0.1.0
	github.com/cespare/xxhash v1.1.0
	github.com/cheggaaa/mb/v3 v3.0.3
	github.com/golang/snappy v1.0.0
	github.com/ipfs/go-cid v0.6.2
	github.com/multiformats/go-multibase v0.3.0
	github.com/multiformats/go-multicodec v0.10.0
	github.com/multiformats/go-multihash v0.2.3
	go.uber.org/zap v1.28.0
	google.golang.org/protobuf v1.36.11
	storj.io/drpc v1.0.0
)

require (
	github.com/anyproto/go-bip39 v1.0.0 // indirect
	github.com/anyproto/go-slip10 v1.0.1 // indirect
	github.com/anyproto/go-slip21 v1.0.0 // indirect
	github.com/anyproto/go-sqlite v1.4.2-any // indirect
	github.com/anyproto/lexid v0.0.6 // indirect
	github.com/beorn7/perks v1.0.1 // indirect
	github.com/cespare/xxhash/v2 v2.3.0 // indirect
	github.com/davecgh/go-spew v1.1.1 // indirect
	github.com/davidlazar/go-crypto v0.0.0-20200604182044-b73af7476f6c // indirect
	github.com/decred/dcrd/dcrec/secp256k1/v4 v4.4.1 // indirect
	github.com/disintegration/imaging v1.6.2 // indirect
	github.com/dustin/go-humanize v1.0.1 // indirect
	github.com/flopp/go-findfont v0.1.0 // indirect
	github.com/fogleman/gg v1.3.0 // indirect
	github.com/gobwas/glob v0.2.3 // indirect
	github.com/goccy/go-graphviz v0.2.10 // indirect
	github.com/golang/freetype v0.0.0-20170609003504-e2365dfdc4a0 // indirect
	github.com/google/uuid v1.6.0 // indirect
	github.com/hashicorp/yamux v0.1.2 // indirect
	github.com/huandu/skiplist v1.2.1 // indirect
	github.com/jbenet/go-temp-err-catcher v0.1.0 // indirect
	github.com/klauspost/cpuid/v2 v2.4.0 // indirect
	github.com/libp2p/go-buffer-pool v0.1.0 // indirect
	github.com/libp2p/go-libp2p v0.49.0 // indirect
	github.com/mr-tron/base58 v1.3.0 // indirect
	github.com/multiformats/go-base32 v0.1.0 // indirect
	github.com/multiformats/go-base36 v0.2.0 // indirect
	github.com/multiformats/go-multiaddr v0.16.1 // indirect
	github.com/multiformats/go-multistream v0.6.1 // indirect
	github.com/multiformats/go-varint v0.1.0 // indirect
	github.com/munnerz/goautoneg v0.0.0-20191010083416-a7dc8b61c822 // indirect
	github.com/planetscale/vtprotobuf v0.6.0 // indirect
	github.com/pmezard/go-difflib v1.0.0 // indirect
	github.com/prometheus/client_golang v1.24.1 // indirect
	github.com/prometheus/client_model v0.6.2 // indirect
	github.com/prometheus/common v0.70.1 // indirect
	github.com/prometheus/procfs v0.21.1 // indirect
	github.com/remyoudompheng/bigfft v0.0.0-20230129092748-24d4a6f8daec // indirect
	github.com/spaolacci/murmur3 v1.1.0 // indirect
	github.com/stretchr/testify v1.11.1 // indirect
	github.com/tetratelabs/wazero v1.10.1 // indirect
	github.com/valyala/fastjson v1.6.10 // indirect
	github.com/zeebo/blake3 v0.2.4 // indirect
	github.com/zeebo/errs v1.3.0 // indirect
	go.uber.org/atomic v1.11.0 // indirect
	go.uber.org/multierr v1.11.0 // indirect
	golang.org/x/crypto v0.54.0 // indirect
	golang.org/x/exp v0.0.0-20260718201538-764159d718ef // indirect
	golang.org/x/image v0.21.0 // indirect
	golang.org/x/net v0.57.0 // indirect
	golang.org/x/sys v0.47.0 // indirect
	golang.org/x/text v0.40.0 // indirect
	golang.org/x/time v0.15.0 // indirect
	golang.org/x/tools v0.48.0 // indirect
	gopkg.in/yaml.v3 v3.0.1 // indirect
	lukechampine.com/blake3 v1.4.1 // indirect
	modernc.org/libc v1.66.8 // indirect
	modernc.org/mathutil v1.7.1 // indirect
	modernc.org/memory v1.11.0 // indirect
	modernc.org/sqlite v1.37.1 // indirect
)

replace github.com/anyproto/any-sync => /repo
