package main

import (
	"verifharness/areas/app"
)

func init() {
	areas["app"] = app.Run
}
