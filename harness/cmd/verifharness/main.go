// verifharness: correspondence + oracle harness for the any-sync Lean models.
//
//	verifharness corr <area> -seed N -tier quick|thorough -out DIR -model "<cmd …>"
//	verifharness extract -repo /repo -out DIR
package main

import (
	"flag"
	"fmt"
	"os"
	"strings"
	"time"

	"verifharness/internal/corr"
)

func main() {
	if len(os.Args) < 2 {
		usage()
	}
	switch os.Args[1] {
	case "corr":
		if len(os.Args) < 3 {
			usage()
		}
		area := os.Args[2]
		fs := flag.NewFlagSet("corr", flag.ExitOnError)
		seed := fs.Int64("seed", 1, "PRNG seed")
		tier := fs.String("tier", "quick", "quick|thorough")
		out := fs.String("out", "out", "output directory")
		model := fs.String("model", "", "model driver command (area name is appended)")
		budget := fs.Duration("budget", 0, "soft time budget for generated cases")
		fs.Parse(os.Args[3:])
		fn, ok := corr.Areas[area]
		if !ok {
			fmt.Fprintln(os.Stderr, "unknown area", area)
			os.Exit(2)
		}
		b := *budget
		if b == 0 {
			b = 40 * time.Second
			if *tier == "thorough" {
				b = 8 * time.Minute
			}
		}
		corr.SilenceLogs()
		r := corr.NewRun(area, *seed, *tier, *out, strings.Fields(*model), b)
		fn(r)
		r.Finish()
		fmt.Printf("area=%s evaluations=%d distinct=%d issues=%d wall=%.1fs\n", area, r.Res.Evaluations, r.Res.DistinctNontrivial, len(r.Res.Issues), r.Res.WallS)
	case "extract":
		fs := flag.NewFlagSet("extract", flag.ExitOnError)
		repo := fs.String("repo", "/repo", "repository root")
		out := fs.String("out", "", "output directory for Generated/*.lean")
		fs.Parse(os.Args[2:])
		if err := extract(*repo, *out); err != nil {
			fmt.Fprintln(os.Stderr, "extract:", err)
			os.Exit(1)
		}
	default:
		usage()
	}
}

func usage() {
	fmt.Fprintln(os.Stderr, "usage: verifharness corr <area> [flags] | extract -repo DIR -out DIR")
	os.Exit(2)
}
