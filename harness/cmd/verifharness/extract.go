package main

import (
	"fmt"
	"os"

	"verifharness/internal/corr"
)

// extract runs every registered extractor: go/ast facts about /repo rendered as Lean definitions
// (lean/AnySyncModel/Generated/*.lean).
func extract(repo, out string) error {
	if out == "" {
		return fmt.Errorf("-out required")
	}
	if err := os.MkdirAll(out, 0o755); err != nil {
		return err
	}
	for name, fn := range corr.Extractors {
		if err := fn(repo, out); err != nil {
			return fmt.Errorf("%s: %w", name, err)
		}
	}
	return nil
}
