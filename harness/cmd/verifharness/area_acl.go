package main

import _ "verifharness/areas/acl"
