package main

import _ "verifharness/areas/space"
