package main

import _ "verifharness/areas/deletion"
