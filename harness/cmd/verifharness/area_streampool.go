package main

import _ "verifharness/areas/streampool"
