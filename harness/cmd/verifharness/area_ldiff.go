package main

import _ "verifharness/areas/ldiff"
