package main

import _ "verifharness/areas/sync"
