package main

import _ "verifharness/areas/kv"
