package main

// further extractors are added here, one function per generated file
func extractMore(repo, out string) error {
	return nil
}
