package main

import _ "verifharness/areas/app"
