package main

import _ "verifharness/areas/store"
