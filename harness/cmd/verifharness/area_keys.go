package main

import _ "verifharness/areas/keys"
