package main

import _ "verifharness/areas/bytes"
