package main

import _ "verifharness/areas/handshake"
