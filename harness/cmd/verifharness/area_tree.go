package main

import _ "verifharness/areas/tree"
