package main

import _ "verifharness/areas/pubsub"
