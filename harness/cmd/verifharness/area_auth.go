package main

import _ "verifharness/areas/auth"
