package main

import _ "verifharness/areas/ocache"
