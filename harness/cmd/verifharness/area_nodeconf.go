package main

import _ "verifharness/areas/nodeconf"
