package corr

// Areas maps an area name to its correspondence + oracle driver.
var Areas = map[string]func(r *Run){}

// Extractors maps a name to a go/ast fact extractor writing Generated/*.lean into out.
var Extractors = map[string]func(repo, out string) error{}

func RegisterArea(name string, fn func(r *Run))                      { Areas[name] = fn }
func RegisterExtractor(name string, fn func(repo, out string) error) { Extractors[name] = fn }
