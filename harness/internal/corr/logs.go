package corr

import (
	"go.uber.org/zap"

	"github.com/anyproto/any-sync/app/logger"
)

// SilenceLogs replaces any-sync's global zap logger by a no-op one.
func SilenceLogs() {
	logger.SetDefault(zap.NewNop())
	logger.SetNamedLevels(nil)
}
