// Package corr is the shared plumbing of the correspondence harness: it owns the model
// subprocess (line protocol), the PRNG, the coverage counters and the result file.
package corr

import (
	"bufio"
	"encoding/json"
	"fmt"
	"hash/fnv"
	"io"
	"math/rand/v2"
	"os"
	"os/exec"
	"path/filepath"
	"sort"
	"strings"
	"time"
)

// Issue is a disagreement (model vs implementation) or a violation (implementation vs property).
type Issue struct {
	Kind     string   `json:"kind"`     // "disagreement" | "violation"
	Property string   `json:"property"` // Cxx this issue bears on ("" = all properties of the area)
	Sig      string   `json:"sig"`      // finding signature (e.g. F-ldiff-width) or ""
	Stream   string   `json:"stream"`   // correspondence stream / oracle name
	Desc     string   `json:"desc"`
	Ops      []string `json:"ops"` // the input / operation sequence (line protocol)
	Model    string   `json:"model,omitempty"`
	Impl     string   `json:"impl,omitempty"`
	Replay   string   `json:"replay,omitempty"`
	Seed     int64    `json:"seed"`
	Tier     string   `json:"tier"`
	Area     string   `json:"area"`
}

type Result struct {
	Area               string         `json:"area"`
	Seed               int64          `json:"seed"`
	Tier               string         `json:"tier"`
	Evaluations        int            `json:"evaluations"`
	DistinctNontrivial int            `json:"distinct_nontrivial"`
	ModelSteps         int            `json:"model_steps"`
	TracesValidated    int            `json:"traces_validated_against_impl"`
	Rule               string         `json:"rule"`
	Exhaustive         bool           `json:"exhaustive"`
	Samples            []any          `json:"samples"`
	Counters           map[string]int `json:"counters"`
	Issues             []Issue        `json:"issues"`
	WallS              float64        `json:"wall_s"`
	Notes              []string       `json:"notes,omitempty"`
}

type Run struct {
	Area     string
	Seed     int64
	Tier     string
	Rand     *rand.Rand
	OutDir   string
	ModelCmd []string
	Deadline time.Time
	Res      Result

	distinct  map[uint64]struct{}
	cmd       *exec.Cmd
	in        *bufio.Writer
	inRaw     io.WriteCloser
	out       *bufio.Reader
	start     time.Time
	maxIssue  int
	nDisagree int
}

func NewRun(area string, seed int64, tier, outDir string, modelCmd []string, budget time.Duration) *Run {
	r := &Run{Area: area, Seed: seed, Tier: tier, OutDir: outDir, ModelCmd: modelCmd}
	r.Rand = rand.New(rand.NewPCG(uint64(seed), 0x9e3779b97f4a7c15^uint64(len(area))))
	r.distinct = map[uint64]struct{}{}
	r.Res = Result{Area: area, Seed: seed, Tier: tier, Counters: map[string]int{}}
	r.start = time.Now()
	r.Deadline = r.start.Add(budget)
	r.maxIssue = 20
	return r
}

func (r *Run) Quick() bool    { return r.Tier != "thorough" }
func (r *Run) TimeLeft() bool { return time.Now().Before(r.Deadline) }

// Pick returns q in quick tier and t in thorough tier.
func (r *Run) Pick(q, t int) int {
	if r.Quick() {
		return q
	}
	return t
}

func (r *Run) startModel() error {
	if r.cmd != nil {
		return nil
	}
	args := append(append([]string{}, r.ModelCmd[1:]...), r.Area)
	c := exec.Command(r.ModelCmd[0], args...)
	c.Stderr = os.Stderr
	w, err := c.StdinPipe()
	if err != nil {
		return err
	}
	o, err := c.StdoutPipe()
	if err != nil {
		return err
	}
	if err := c.Start(); err != nil {
		return err
	}
	r.cmd, r.inRaw, r.in, r.out = c, w, bufio.NewWriterSize(w, 1<<16), bufio.NewReaderSize(o, 1<<20)
	return nil
}

// RestartModel gives stateful areas a fresh model state.
func (r *Run) RestartModel() {
	r.stopModel()
}

func (r *Run) stopModel() {
	if r.cmd == nil {
		return
	}
	r.in.Flush()
	r.inRaw.Close()
	r.cmd.Wait()
	r.cmd = nil
}

// Ask sends one operation line to the model and returns its one-line answer.
func (r *Run) Ask(line string) string {
	if strings.ContainsAny(line, "\n\r") {
		panic("corr: newline inside op: " + line)
	}
	if err := r.startModel(); err != nil {
		r.fatal("cannot start model: " + err.Error())
	}
	r.in.WriteString(line)
	r.in.WriteByte('\n')
	if err := r.in.Flush(); err != nil {
		r.fatal("model write: " + err.Error())
	}
	s, err := r.out.ReadString('\n')
	if err != nil {
		r.fatal(fmt.Sprintf("model died on op %q: %v", line, err))
	}
	r.Res.ModelSteps++
	return strings.TrimRight(s, "\r\n")
}

func (r *Run) fatal(msg string) {
	fmt.Fprintln(os.Stderr, "HARNESS-FATAL:", msg)
	r.Res.Notes = append(r.Res.Notes, "fatal: "+msg)
	r.Finish()
	os.Exit(3)
}

// Fatal aborts the run because the harness itself (not model or implementation) is broken.
func (r *Run) Fatal(msg string) { r.fatal(msg) }

// Case records one explored case. trace is its canonical text (used for distinctness);
// nontrivial says whether it counts by the area's stated rule.
func (r *Run) Case(trace string, nontrivial bool) {
	r.Res.Evaluations++
	r.Res.TracesValidated++
	if !nontrivial {
		return
	}
	h := fnv.New64a()
	h.Write([]byte(trace))
	r.distinct[h.Sum64()] = struct{}{}
}

func (r *Run) Sample(v any) {
	if len(r.Res.Samples) < 6 {
		r.Res.Samples = append(r.Res.Samples, v)
	}
}

func (r *Run) Count(key string)         { r.Res.Counters[key]++ }
func (r *Run) CountN(key string, n int) { r.Res.Counters[key] += n }
func (r *Run) SetRule(rule string)      { r.Res.Rule = rule }
func (r *Run) SetExhaustive(b bool)     { r.Res.Exhaustive = b }
func (r *Run) Note(format string, a ...any) {
	r.Res.Notes = append(r.Res.Notes, fmt.Sprintf(format, a...))
}

func (r *Run) addIssue(is Issue) {
	if len(r.Res.Issues) >= r.maxIssue {
		r.Res.Counters["issues_dropped"]++
		return
	}
	dir := filepath.Join(r.OutDir, "replays")
	os.MkdirAll(dir, 0o755)
	name := fmt.Sprintf("%s-%s-%s-seed%d-%d.json", r.Area, is.Kind, is.Stream, r.Seed, len(r.Res.Issues))
	name = strings.Map(func(c rune) rune {
		if c == '/' || c == ' ' {
			return '_'
		}
		return c
	}, name)
	is.Replay = filepath.Join(dir, name)
	is.Seed, is.Tier, is.Area = r.Seed, r.Tier, r.Area
	b, _ := json.MarshalIndent(is, "", " ")
	os.WriteFile(is.Replay, b, 0o644)
	r.Res.Issues = append(r.Res.Issues, is)
}

// Disagree records model ≠ implementation on the given op sequence.
func (r *Run) Disagree(property, stream, desc string, ops []string, model, impl string) {
	// disagreements never crowd out violations: at most 8 are recorded (the rest only counted), so
	// the shared issue cap always leaves room for the failing inputs the oracle finds later
	r.nDisagree++
	if r.nDisagree > 8 {
		r.Res.Counters["disagreements_not_recorded"]++
		return
	}
	r.addIssue(Issue{Kind: "disagreement", Property: property, Stream: stream, Desc: desc, Ops: ops, Model: model, Impl: impl})
}

// Violate records an input on which the implementation itself breaks the property.
func (r *Run) Violate(property, sig, stream, desc string, ops []string) {
	r.addIssue(Issue{Kind: "violation", Property: property, Sig: sig, Stream: stream, Desc: desc, Ops: ops})
}

func (r *Run) Issues() int { return len(r.Res.Issues) }

// Finish writes <OutDir>/result-<area>.json.
func (r *Run) Finish() {
	r.stopModel()
	r.Res.DistinctNontrivial = len(r.distinct)
	r.Res.WallS = time.Since(r.start).Seconds()
	keys := make([]string, 0, len(r.Res.Counters))
	for k := range r.Res.Counters {
		keys = append(keys, k)
	}
	sort.Strings(keys)
	os.MkdirAll(r.OutDir, 0o755)
	b, _ := json.MarshalIndent(r.Res, "", " ")
	os.WriteFile(filepath.Join(r.OutDir, "result-"+r.Area+".json"), b, 0o644)
}

// Check compares a model answer with the implementation's observation for one step.
func (r *Run) Check(property, stream string, ops []string, model, impl string) bool {
	if model == impl {
		return true
	}
	r.Disagree(property, stream, "model and implementation differ", ops, model, impl)
	return false
}

// Perm returns a random permutation of 0..n-1.
func (r *Run) Perm(n int) []int { return r.Rand.Perm(n) }
func (r *Run) Intn(n int) int   { return r.Rand.IntN(n) }
func (r *Run) Chance(pct int) bool {
	return r.Rand.IntN(100) < pct
}
