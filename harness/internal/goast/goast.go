// Package goast: tiny helpers for the go/ast fact extractors (the "small translator").
// An extractor accepts a restricted set of source shapes only; a shape it does not recognise is
// emitted with `shapeOk := false`, which breaks a Lean obligation and sends the check to its
// failing-input search.
package goast

import (
	"bytes"
	"go/ast"
	"go/parser"
	"go/printer"
	"go/token"
	"strings"
)

type File struct {
	Fset *token.FileSet
	F    *ast.File
}

func Parse(path string) (*File, error) {
	fset := token.NewFileSet()
	f, err := parser.ParseFile(fset, path, nil, 0)
	if err != nil {
		return nil, err
	}
	return &File{fset, f}, nil
}

func (g *File) Str(n ast.Node) string {
	if n == nil || isNilNode(n) {
		return ""
	}
	var b bytes.Buffer
	printer.Fprint(&b, g.Fset, n)
	return strings.Join(strings.Fields(b.String()), " ")
}

func isNilNode(n ast.Node) bool {
	switch v := n.(type) {
	case ast.Stmt:
		return v == nil
	case ast.Expr:
		return v == nil
	}
	return false
}

func (g *File) Fn(recv, name string) *ast.FuncDecl {
	for _, d := range g.F.Decls {
		fd, ok := d.(*ast.FuncDecl)
		if !ok || fd.Name.Name != name {
			continue
		}
		if recv == "" && fd.Recv == nil {
			return fd
		}
		if fd.Recv != nil && len(fd.Recv.List) == 1 && strings.TrimPrefix(g.Str(fd.Recv.List[0].Type), "*") == recv {
			return fd
		}
	}
	return nil
}

func Contains(g *File, n ast.Node, sub string) bool {
	return strings.Contains(g.Str(n), sub)
}

func LeanBool(b bool) string {
	if b {
		return "true"
	}
	return "false"
}
