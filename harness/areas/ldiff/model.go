package ldiff

import (
	"encoding/hex"
	"fmt"
	"strings"

	real "github.com/anyproto/any-sync/app/ldiff"

	"verifharness/internal/corr"
)

// modelSession streams the operations of one case to the Lean model (`modeld ldiff`) and compares
// every answer with the observation made on the real index. Digests are compared up to a
// consistent renaming: the model prints terms (E[…], N[…]), the implementation real blake3 values;
// d2t/t2d is the bijection built during one case.
type modelSession struct {
	r      *corr.Run
	paused bool
	w      *world
	d2t    map[string]string
	t2d    map[string]string
	headIx map[string]int
}

func newModelSession(r *corr.Run) *modelSession {
	m := &modelSession{r: r, headIx: map[string]int{}}
	for i, h := range heads {
		m.headIx[h] = i
	}
	return m
}

func (m *modelSession) close()  {}
func (m *modelSession) pause()  { m.paused = true }
func (m *modelSession) resume() { m.paused = false }

func (m *modelSession) begin(w *world) {
	m.w = w
	m.d2t, m.t2d = map[string]string{}, map[string]string{}
	if m.paused {
		return
	}
	if a := m.r.Ask("reset"); a != "ok" {
		m.r.Fatal("model reset: " + a)
	}
}

// bind returns the term standing for a real digest, binding it to the model's term when both are new.
func (m *modelSession) bind(realHex, modelTerm string) string {
	if realHex == "" {
		return "nil"
	}
	if t, ok := m.d2t[realHex]; ok {
		return t
	}
	if _, used := m.t2d[modelTerm]; !used && modelTerm != "nil" && modelTerm != "" {
		m.d2t[realHex], m.t2d[modelTerm] = modelTerm, realHex
		return modelTerm
	}
	return "?" + realHex[:8]
}

func firstTok(s string, i int) string {
	f := strings.Fields(s)
	if i < len(f) {
		return f[i]
	}
	return ""
}

// op sends a `new`/`set`/`rm` line; x is the real index after the op.
func (m *modelSession) op(line, prop string, all []string, x real.Diff, notFound bool) {
	if m.paused {
		return
	}
	ans := m.r.Ask(line)
	var impl string
	switch {
	case strings.HasPrefix(line, "new "):
		impl = "ok"
	case notFound:
		impl = "notfound"
	default:
		impl = fmt.Sprintf("ok %d %s", x.Len(), m.bind(x.Hash(), firstTok(ans, 2)))
	}
	m.r.Check(prop, "ldiff.model."+firstTok(line, 0), append([]string{}, all...), ans, impl)
}

func (m *modelSession) pairs(els []real.Element) string {
	if len(els) == 0 {
		return "-"
	}
	p := make([]string, len(els))
	for i, e := range els {
		p[i] = fmt.Sprintf("%d:%d", m.w.idx[e.Id], m.headIx[e.Head])
	}
	return strings.Join(p, ",")
}

// observe compares the answers to a sweep of range queries (with and without elements).
func (m *modelSession) observe(x real.Diff, ix string, df, thr int, prop string, all []string) {
	if m.paused {
		return
	}
	rs := sweep(m.r, x, df, thr, 14)
	for _, g := range rs {
		for _, el := range []bool{false, true} {
			res, err := x.Ranges(ctx, []real.Range{{From: g.from, To: g.to, Elements: el}}, nil)
			if err != nil || len(res) != 1 {
				continue
			}
			b := "0"
			if el {
				b = "1"
			}
			line := fmt.Sprintf("range %s %d %d %s", ix, g.from, g.to, b)
			ans := m.r.Ask(line)
			impl := fmt.Sprintf("%s %d %s", m.bind(hex.EncodeToString(res[0].Hash), firstTok(ans, 0)), res[0].Count, m.pairs(res[0].Elements))
			m.r.Check(prop, "ldiff.model.range", append(append([]string{}, all...), line), ans, impl)
			m.r.Count("model.range")
		}
	}
}

// diff compares the model's diff (discovery order) with the implementation's raw result.
func (m *modelSession) diff(variant string, got dres, prop string, all []string) {
	if m.paused {
		return
	}
	mv := map[string]string{"diff": "diff", "cdiff": "cdiff", "wire-diff": "wdiff", "kvwire-diff": "wdiff", "wire-cdiff": "wcdiff", "kvwire-cdiff": "wcdiff"}[variant]
	ans := m.r.Ask(mv + " a b")
	impl := got.raw
	if got.err == "does-not-terminate" {
		impl = "nonterm"
	} else if got.err != "" {
		impl = "err:" + got.err
	}
	m.r.Check(prop, "ldiff.model."+mv, all, ans, impl)
	m.r.Count("model.diff")
}
