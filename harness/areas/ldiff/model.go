package ldiff

import (
	real "github.com/anyproto/any-sync/app/ldiff"

	"verifharness/internal/corr"
)

// modelSession streams the operations of one case to the Lean model (stage 2).
type modelSession struct {
	r      *corr.Run
	paused bool
}

func newModelSession(r *corr.Run) *modelSession { return &modelSession{r: r} }

func (m *modelSession) close()                                                        {}
func (m *modelSession) pause()                                                        { m.paused = true }
func (m *modelSession) resume()                                                       { m.paused = false }
func (m *modelSession) begin(w *world)                                                {}
func (m *modelSession) op(line, prop string, all []string)                            {}
func (m *modelSession) observe(x real.Diff, ix string, df, thr int, prop string, all []string) {}
func (m *modelSession) diff(variant string, got dres, prop string, all []string)      {}
