package ldiff

import (
	"fmt"
	"math"
	"sort"
	"strings"

	"github.com/cespare/xxhash"

	real "github.com/anyproto/any-sync/app/ldiff"

	"verifharness/internal/corr"
)

// world is the id universe of one case: ids sorted bytewise (so the interned index order is the
// Go string order used by the skip list on equal hashes) with their REAL xxhash64 values.
type world struct {
	ids  []string
	hash []uint64
	idx  map[string]int
}

// heads are sorted ascending as Go strings: the interned index order equals the string order that
// compareElementsGreater uses.
var heads = []string{"", "a", "ab", "b", "h1", "h2", "zz"}

func newWorld(ids []string) *world {
	seen := map[string]bool{}
	var u []string
	for _, id := range ids {
		if !seen[id] {
			seen[id] = true
			u = append(u, id)
		}
	}
	sort.Strings(u)
	w := &world{ids: u, idx: map[string]int{}}
	for i, id := range u {
		w.hash = append(w.hash, xxhash.Sum64([]byte(id)))
		w.idx[id] = i
	}
	return w
}

func (w *world) el(id, head int) real.Element { return real.Element{Id: w.ids[id], Head: heads[head]} }

// tok renders an element for the line protocol: <id>:<xxhash>:<head>
func (w *world) tok(id, head int) string { return fmt.Sprintf("%d:%d:%d", id, w.hash[id], head) }

// contents: id index -> head index
type contents map[int]int

func (c contents) clone() contents {
	o := make(contents, len(c))
	for k, v := range c {
		o[k] = v
	}
	return o
}

func (c contents) keys() []int {
	ks := make([]int, 0, len(c))
	for k := range c {
		ks = append(ks, k)
	}
	sort.Ints(ks)
	return ks
}

func (c contents) equal(o contents) bool {
	if len(c) != len(o) {
		return false
	}
	for k, v := range c {
		if ov, ok := o[k]; !ok || ov != v {
			return false
		}
	}
	return true
}

// sorted returns the ids in skip-list order: (hash, id)
func (w *world) sorted(c contents) []int {
	ks := c.keys()
	sort.Slice(ks, func(i, j int) bool {
		a, b := ks[i], ks[j]
		if w.hash[a] != w.hash[b] {
			return w.hash[a] < w.hash[b]
		}
		return a < b
	})
	return ks
}

func (w *world) elements(c contents, order []int) []real.Element {
	out := make([]real.Element, 0, len(order))
	for _, id := range order {
		out = append(out, w.el(id, c[id]))
	}
	return out
}

func (w *world) toks(c contents, order []int) string {
	p := make([]string, 0, len(order))
	for _, id := range order {
		p = append(p, w.tok(id, c[id]))
	}
	if len(p) == 0 {
		return "-"
	}
	return strings.Join(p, " ")
}

// ---- range arithmetic of the harness (written from the specification "df consecutive parts, the
// first df-1 of width floor(w/df), the last takes the remainder"; independent of hashrange.go) ----

type rng struct{ from, to uint64 }

func (r rng) span() uint64 { return r.to - r.from } // width-1 (the top range has width 2^64)

// narrow: width < df — such a range cannot be split into df non-empty parts
func (r rng) narrow(df int) bool { return r.span() < uint64(df)-1 }

func split(r rng, df int) []rng {
	d := uint64(df)
	s := r.span()
	per, rem := s/d, s%d+1 // width = s+1 = per*d + rem with rem in 1..d
	if rem == d {
		per, rem = per+1, 0
	}
	out := make([]rng, 0, df)
	j := r.from
	for i := 0; i < df; i++ {
		w := per
		if i == df-1 {
			w += rem
		}
		out = append(out, rng{j, j + w - 1})
		j += w
	}
	return out
}

var top = rng{0, math.MaxUint64}

func countIn(sortedHashes []uint64, r rng) int {
	lo := sort.Search(len(sortedHashes), func(i int) bool { return sortedHashes[i] >= r.from })
	hi := sort.Search(len(sortedHashes), func(i int) bool { return sortedHashes[i] > r.to })
	return hi - lo
}

// widthSafe reports whether the canonical tree for these hashes never has to split a range
// narrower than df (more than thr ids inside fewer than df hash values). Outside this set the code
// recurses without bound (documented hypothesis `WidthOk` of the termination theorem,
// F-ldiff-width); the generators stay inside it.
func widthSafe(sortedHashes []uint64, df, thr int) bool {
	var rec func(r rng, depth int) bool
	rec = func(r rng, depth int) bool {
		for _, c := range split(r, df) {
			if countIn(sortedHashes, c) > thr {
				if c.narrow(df) || depth > 70 {
					return false
				}
				if !rec(c, depth+1) {
					return false
				}
			}
		}
		return true
	}
	return rec(top, 0)
}

// allowNarrow: contents with more than thr ids inside a range narrower than df are legal since
// fix-width (the range stays undivided). It is switched off for the rest of the run when the
// regression child (width.go) shows that the real code still recurses without bound on them — a
// fatal stack overflow cannot be recovered in process.
var allowNarrow = true

func excludeNarrow(r *corr.Run, sortedHashes []uint64, df, thr int) bool {
	if widthSafe(sortedHashes, df, thr) {
		return false
	}
	if allowNarrow {
		r.Count("gen.narrow-over-threshold")
		return false
	}
	r.Count("gen.width-excluded")
	return true
}

func (w *world) hashesOf(cs ...contents) []uint64 {
	seen := map[int]bool{}
	var hs []uint64
	for _, c := range cs {
		for id := range c {
			if !seen[id] {
				seen[id] = true
				hs = append(hs, w.hash[id])
			}
		}
	}
	sort.Slice(hs, func(i, j int) bool { return hs[i] < hs[j] })
	return hs
}

// ---- id universes --------------------------------------------------------------------------

var tagCounter uint64

func crafted(target uint64) string {
	tagCounter++
	return craftID(tagCounter*0x9e3779b97f4a7c15+1, target)
}

// genWorld builds an id universe of about n ids. kind selects the hash distribution.
func genWorld(r *corr.Run, kind string, n, df int) *world {
	var ids []string
	nat := func() string { return fmt.Sprintf("obj-%d", r.Rand.Uint64()%1000003) }
	switch kind {
	case "natural":
		for i := 0; i < n; i++ {
			ids = append(ids, nat())
		}
	case "deep":
		// all hashes share the top 64-k bits: forces a chain of k/log2(df) divided levels
		k := 2 + r.Intn(40)
		base := r.Rand.Uint64()
		seen := map[uint64]bool{}
		for i := 0; i < n; i++ {
			h := base ^ (r.Rand.Uint64() & (uint64(1)<<k - 1))
			if seen[h] {
				continue
			}
			seen[h] = true
			ids = append(ids, crafted(h))
		}
	case "boundary":
		// hashes on and next to the boundaries of the ranges of the first levels for this df
		var cand []uint64
		lvl := []rng{top}
		for d := 0; d < 3; d++ {
			var next []rng
			for _, p := range lvl {
				for _, c := range split(p, df) {
					cand = append(cand, c.from, c.to, c.from+1, c.to-1)
					next = append(next, c)
				}
			}
			if len(next) > 16 {
				// follow a random subset to keep it small
				r.Rand.Shuffle(len(next), func(i, j int) { next[i], next[j] = next[j], next[i] })
				next = next[:16]
			}
			lvl = next
		}
		seen := map[uint64]bool{}
		for i := 0; i < n*3 && len(ids) < n; i++ {
			h := cand[r.Intn(len(cand))]
			if seen[h] {
				continue
			}
			seen[h] = true
			ids = append(ids, crafted(h))
		}
	case "adjacent":
		// runs of consecutive hash values at a random place (and at both ends of the hash space)
		base := r.Rand.Uint64()
		switch r.Intn(4) {
		case 0:
			base = 0
		case 1:
			base = math.MaxUint64 - uint64(n)
		}
		step := uint64(1 + r.Intn(3))
		for i := 0; i < n; i++ {
			ids = append(ids, crafted(base+uint64(i)*step))
		}
	case "narrow":
		// fix-width universes: many ids inside grid ranges of width 1, 2, df-1, df, df+1 found at
		// several depths by random descents (width 1 needs genuine xxhash collisions: same target,
		// different crafted prefix), plus ids in the neighbouring parts
		type cand struct {
			r rng
		}
		var cands []cand
		want := map[uint64]bool{0: true, 1: true, uint64(df) - 2: true, uint64(df) - 1: true, uint64(df): true}
		for d := 0; d < 8; d++ {
			cur := top
			for depth := 0; depth < 80; depth++ {
				if want[cur.span()] {
					cands = append(cands, cand{cur})
				}
				if cur.narrow(df) {
					break
				}
				cs := split(cur, df)
				cur = cs[r.Intn(len(cs))]
			}
		}
		if len(cands) == 0 {
			cands = append(cands, cand{top})
		}
		for len(ids) < n {
			c := cands[r.Intn(len(cands))].r
			k := 1 + r.Intn(5)
			for j := 0; j < k && len(ids) < n; j++ {
				h := r.Rand.Uint64()
				if c.span() != math.MaxUint64 {
					h = c.from + h%(c.span()+1)
				}
				if r.Chance(15) {
					h = c.to + 1 // just outside
				}
				ids = append(ids, crafted(h))
			}
		}
	default: // mixed
		base := r.Rand.Uint64()
		k := 3 + r.Intn(30)
		seen := map[uint64]bool{}
		for i := 0; i < n; i++ {
			switch r.Intn(3) {
			case 0:
				ids = append(ids, nat())
			default:
				h := base ^ (r.Rand.Uint64() & (uint64(1)<<k - 1))
				if !seen[h] {
					seen[h] = true
					ids = append(ids, crafted(h))
				}
			}
		}
	}
	return newWorld(ids)
}

var worldKinds = []string{"natural", "deep", "deep", "boundary", "adjacent", "mixed", "narrow", "narrow"}
