// Package ldiff drives the real app/ldiff index (and the head-sync / key-value wire adapters)
// against the direct oracles of C07 and C08 and against the Lean model (area `ldiff`).
package ldiff

import (
	"bytes"
	"context"
	"errors"
	"fmt"
	"os"
	"sort"
	"strings"

	real "github.com/anyproto/any-sync/app/ldiff"
	"github.com/anyproto/any-sync/commonspace/headsync"
	"github.com/anyproto/any-sync/commonspace/object/keyvalue"
	"github.com/anyproto/any-sync/commonspace/spacesyncproto"

	"verifharness/internal/corr"
)

func init() {
	corr.RegisterArea("ldiff", Run)
}

var ctx = context.Background()

// ---- remotes ---------------------------------------------------------------------------------

var errRoundLimit = errors.New("round limit")

// counting wraps a Remote and fails after `limit` rounds: the diff recursion can be at most 64
// levels deep for df >= 2 (plus one element round), so more rounds mean it does not terminate.
type counting struct {
	inner  real.Remote
	rounds int
	ranges int
	limit  int
}

func (c *counting) Ranges(ctx context.Context, ranges []real.Range, buf []real.RangeResult) ([]real.RangeResult, error) {
	c.rounds++
	c.ranges += len(ranges)
	if c.rounds > c.limit || c.ranges > 4_000_000 {
		return nil, errRoundLimit
	}
	return c.inner.Ranges(ctx, ranges, buf)
}

// hsClient serves HeadSync requests from a local index through the real wire encoding.
type hsClient struct{ d real.Diff }

func (c hsClient) HeadSync(ctx context.Context, in *spacesyncproto.HeadSyncRequest) (*spacesyncproto.HeadSyncResponse, error) {
	b, err := in.MarshalVT()
	if err != nil {
		return nil, err
	}
	req := &spacesyncproto.HeadSyncRequest{}
	if err = req.UnmarshalVT(b); err != nil {
		return nil, err
	}
	resp, err := headsync.HandleRangeRequest(ctx, c.d, req)
	if err != nil {
		return nil, err
	}
	if b, err = resp.MarshalVT(); err != nil {
		return nil, err
	}
	out := &spacesyncproto.HeadSyncResponse{}
	if err = out.UnmarshalVT(b); err != nil {
		return nil, err
	}
	return out, nil
}

type kvClient struct{ d real.Diff }

func (c kvClient) StoreDiff(ctx context.Context, in *spacesyncproto.StoreDiffRequest) (*spacesyncproto.StoreDiffResponse, error) {
	b, err := in.MarshalVT()
	if err != nil {
		return nil, err
	}
	req := &spacesyncproto.StoreDiffRequest{}
	if err = req.UnmarshalVT(b); err != nil {
		return nil, err
	}
	resp, err := keyvalue.HandleRangeRequest(ctx, c.d, req)
	if err != nil {
		return nil, err
	}
	if b, err = resp.MarshalVT(); err != nil {
		return nil, err
	}
	out := &spacesyncproto.StoreDiffResponse{}
	if err = out.UnmarshalVT(b); err != nil {
		return nil, err
	}
	return out, nil
}

// ---- diff results ------------------------------------------------------------------------------

type dres struct {
	nw, ch, tch, rm []int
	err             string
	raw             string // the four lists in the order reported
}

func ints(l []int) string {
	if len(l) == 0 {
		return "-"
	}
	p := make([]string, len(l))
	for i, v := range l {
		p[i] = fmt.Sprint(v)
	}
	return strings.Join(p, ",")
}

func (d dres) String() string {
	if d.err != "" {
		return "err:" + d.err
	}
	return fmt.Sprintf("new=%s changed=%s their=%s removed=%s", ints(d.nw), ints(d.ch), ints(d.tch), ints(d.rm))
}

// specDiff is the property stated naively: set difference of the two id->head maps.
func specDiff(a, b contents, compare bool) dres {
	var d dres
	for _, id := range b.keys() {
		if _, ok := a[id]; !ok {
			d.nw = append(d.nw, id)
		}
	}
	for _, id := range a.keys() {
		bh, ok := b[id]
		switch {
		case !ok:
			d.rm = append(d.rm, id)
		case bh == a[id]:
		case compare && heads[bh] > heads[a[id]]:
			d.tch = append(d.tch, id)
		default:
			d.ch = append(d.ch, id)
		}
	}
	return d
}

// canon maps reported ids back to indexes; keeps duplicates (a duplicate is a failure), sorted.
func (w *world) canon(ids []string) ([]int, string) {
	out := make([]int, 0, len(ids))
	for _, id := range ids {
		i, ok := w.idx[id]
		if !ok {
			return nil, fmt.Sprintf("unknown id %q reported", id)
		}
		out = append(out, i)
	}
	sort.Ints(out)
	return out, ""
}

func safely(f func()) (perr string) {
	defer func() {
		if p := recover(); p != nil {
			perr = fmt.Sprintf("panic: %v", p)
		}
	}()
	f()
	return ""
}

// runDiff executes one variant of the real diff of a against remote b.
func runDiff(w *world, variant string, a, b real.Diff) (dres, int) {
	var rem real.Remote = b
	switch variant {
	case "wire-diff", "wire-cdiff":
		rem = headsync.NewRemoteDiff("space", hsClient{b})
	case "kvwire-diff", "kvwire-cdiff":
		rem = keyvalue.NewRemoteDiff("space", kvClient{b})
	}
	cr := &counting{inner: rem, limit: 80}
	var d dres
	var nw, ch, tch, rm []string
	var err error
	perr := safely(func() {
		if strings.HasSuffix(variant, "cdiff") {
			nw, ch, tch, rm, err = a.(real.CompareDiff).CompareDiff(ctx, cr)
		} else {
			nw, ch, rm, err = a.Diff(ctx, cr)
		}
	})
	switch {
	case perr != "":
		d.err = perr
	case errors.Is(err, errRoundLimit):
		d.err = "does-not-terminate"
	case err != nil:
		d.err = "error"
	default:
		var m string
		for _, p := range []struct {
			dst *[]int
			src []string
		}{{&d.nw, nw}, {&d.ch, ch}, {&d.tch, tch}, {&d.rm, rm}} {
			if *p.dst, m = w.canon(p.src); m != "" {
				d.err = m
				break
			}
		}
		rawl := func(ids []string) string {
			l := make([]int, 0, len(ids))
			for _, id := range ids {
				l = append(l, w.idx[id])
			}
			return ints(l)
		}
		d.raw = fmt.Sprintf("new=%s changed=%s their=%s removed=%s", rawl(nw), rawl(ch), rawl(tch), rawl(rm))
	}
	return d, cr.rounds
}

// ---- building indexes ----------------------------------------------------------------------

type hop struct {
	kind string // set | rm
	els  [][2]int
	id   int
}

func (w *world) line(ix string, h hop) string {
	if h.kind == "rm" {
		return fmt.Sprintf("rm %s %d:%d", ix, h.id, w.hash[h.id])
	}
	p := make([]string, len(h.els))
	for i, e := range h.els {
		p[i] = w.tok(e[0], e[1])
	}
	return fmt.Sprintf("set %s %s", ix, strings.Join(p, " "))
}

// apply runs one op on the real index and on the naive contents. It returns "" or a description of
// a wrong direct answer of the op itself.
func (w *world) apply(d real.Diff, c contents, h hop) (msg string) {
	perr := safely(func() {
		switch h.kind {
		case "set":
			els := make([]real.Element, len(h.els))
			for i, e := range h.els {
				els[i] = w.el(e[0], e[1])
				c[e[0]] = e[1]
			}
			d.Set(els...)
		case "rm":
			_, had := c[h.id]
			delete(c, h.id)
			err := d.RemoveId(w.ids[h.id])
			if had && err != nil {
				msg = "RemoveId of a present id returned " + err.Error()
			}
			if !had && !errors.Is(err, real.ErrElementNotFound) {
				msg = fmt.Sprintf("RemoveId of an absent id returned %v", err)
			}
		}
	})
	if perr != "" {
		return perr
	}
	return msg
}

// fresh builds the reference index: New(df,thr) and ONE Set call with the contents.
func (w *world) fresh(df, thr int, c contents, order []int) (d real.Diff, perr string) {
	perr = safely(func() {
		d = real.New(df, thr)
		if order == nil {
			order = c.keys()
		}
		if len(order) > 0 {
			d.Set(w.elements(c, order)...)
		}
	})
	return
}

// genHistory produces a random op sequence over the world, weighted towards updates of existing ids
// and removals (DESIGN §4 C08). Every intermediate contents stays width-safe.
func genHistory(r *corr.Run, w *world, df, thr, steps int, freshOnly bool) []hop {
	c := contents{}
	var ops []hop
	n := len(w.ids)
	all := contents{}
	for id := range w.ids {
		all[id] = 0
	}
	// width-safety is monotone (a subset of a safe set is safe): check the whole universe once
	allSafe := widthSafe(w.hashesOf(all), df, thr)
	safe := func(c contents) bool {
		if allSafe {
			return true
		}
		if allowNarrow {
			// since fix-width a range narrower than df simply stays undivided: such contents are legal
			if len(w.ids) <= 64 && !widthSafe(w.hashesOf(c), df, thr) {
				r.Count("gen.narrow-over-threshold")
			}
			return true
		}
		return len(w.ids) <= 64 && widthSafe(w.hashesOf(c), df, thr)
	}
	present := func() []int { return c.keys() }
	for len(ops) < steps {
		var h hop
		k := r.Intn(100)
		pr := present()
		switch {
		case freshOnly || len(pr) == 0 || k < 25: // new id(s)
			h.kind = "set"
			m := 1
			if r.Chance(30) {
				m = 1 + r.Intn(5)
			}
			for i := 0; i < m; i++ {
				id := r.Intn(n)
				if _, ok := c[id]; ok && freshOnly {
					continue
				}
				h.els = append(h.els, [2]int{id, r.Intn(len(heads))})
			}
			if freshOnly {
				// no duplicates inside the call either
				seen := map[int]bool{}
				var u [][2]int
				for _, e := range h.els {
					if !seen[e[0]] {
						seen[e[0]] = true
						u = append(u, e)
					}
				}
				h.els = u
			}
			if len(h.els) == 0 {
				if len(c) == n {
					return ops
				}
				continue
			}
		case k < 60: // update existing id (same or different head), sometimes several and mixed with new ones
			h.kind = "set"
			m := 1
			if r.Chance(30) {
				m = 1 + r.Intn(4)
			}
			for i := 0; i < m; i++ {
				id := pr[r.Intn(len(pr))]
				hd := r.Intn(len(heads))
				if r.Chance(25) {
					hd = c[id]
				}
				h.els = append(h.els, [2]int{id, hd})
				if r.Chance(15) {
					h.els = append(h.els, [2]int{r.Intn(n), r.Intn(len(heads))})
				}
			}
		case k < 95: // remove existing
			h = hop{kind: "rm", id: pr[r.Intn(len(pr))]}
		default: // remove a missing id
			h = hop{kind: "rm", id: r.Intn(n)}
		}
		nc := c.clone()
		if h.kind == "set" {
			for _, e := range h.els {
				nc[e[0]] = e[1]
			}
		} else {
			delete(nc, h.id)
		}
		if !safe(nc) {
			r.Count("gen.width-excluded")
			if r.Chance(20) {
				return ops
			}
			continue
		}
		c = nc
		ops = append(ops, h)
	}
	return ops
}

// ---- C08: observations of an index compared with the fresh reference ------------------------------

func sameBytes(a, b []byte) bool { return bytes.Equal(a, b) } // nil == empty, as on the wire

func rrString(w *world, rr real.RangeResult) string {
	var p []string
	for _, e := range rr.Elements {
		p = append(p, fmt.Sprintf("%d:%q", w.idx[e.Id], e.Head))
	}
	return fmt.Sprintf("hash=%x count=%d elements=[%s]", rr.Hash, rr.Count, strings.Join(p, " "))
}

func sameRR(a, b real.RangeResult) bool {
	if !sameBytes(a.Hash, b.Hash) || a.Count != b.Count || len(a.Elements) != len(b.Elements) {
		return false
	}
	for i := range a.Elements {
		if a.Elements[i] != b.Elements[i] {
			return false
		}
	}
	return true
}

// sweep lists the ranges to query: every node of the canonical tree (found by following the
// reference index's own counts), the would-be children of every leaf (two levels), and random ranges.
func sweep(r *corr.Run, y real.Diff, df, thr, max int) []rng {
	var out []rng
	type item struct {
		r     rng
		below int
	}
	queue := []item{{top, 0}}
	for len(queue) > 0 && len(out) < max {
		it := queue[0]
		queue = queue[1:]
		out = append(out, it.r)
		res, _ := y.Ranges(ctx, []real.Range{{From: it.r.from, To: it.r.to}}, nil)
		if it.r.narrow(df) {
			continue
		}
		divided := it.r == top || (res[0].Count > thr && it.below == 0)
		if divided {
			for _, c := range split(it.r, df) {
				queue = append(queue, item{c, 0})
			}
		} else if it.below < 2 && res[0].Count > 0 {
			for _, c := range split(it.r, df) {
				queue = append(queue, item{c, it.below + 1})
			}
		}
	}
	for i := 0; i < 4; i++ {
		a, b := r.Rand.Uint64(), r.Rand.Uint64()
		if a > b {
			a, b = b, a
		}
		out = append(out, rng{a, b})
	}
	return out
}

// compareIndexes states C08 directly: x (any history) must answer exactly like y (fresh, one Set).
func compareIndexes(r *corr.Run, w *world, x, y real.Diff, c contents, df, thr, maxSweep int) string {
	if hx, hy := x.Hash(), y.Hash(); hx != hy {
		return fmt.Sprintf("Hash() %s, fresh index with the same %d entries has %s", hx[:12], len(c), hy[:12])
	}
	if x.Len() != len(c) {
		return fmt.Sprintf("Len() %d, contents have %d", x.Len(), len(c))
	}
	want := w.elements(c, w.sorted(c))
	got := x.Elements()
	if len(got) != len(want) {
		return fmt.Sprintf("Elements() has %d entries, contents have %d", len(got), len(want))
	}
	for i := range got {
		if got[i] != want[i] {
			return fmt.Sprintf("Elements()[%d] = %v, expected %v", i, got[i], want[i])
		}
	}
	ids := x.Ids()
	for i := range want {
		if i >= len(ids) || ids[i] != want[i].Id {
			return "Ids() differs from the contents"
		}
	}
	for id := range w.ids {
		e, err := x.Element(w.ids[id])
		h, ok := c[id]
		if ok && (err != nil || e != w.el(id, h)) {
			return fmt.Sprintf("Element(%d) = %v,%v expected %v", id, e, err, w.el(id, h))
		}
		if !ok && !errors.Is(err, real.ErrElementNotFound) {
			return fmt.Sprintf("Element(%d) of an absent id = %v,%v", id, e, err)
		}
	}
	rs := sweep(r, y, df, thr, maxSweep)
	q := make([]real.Range, 0, 2*len(rs))
	for _, g := range rs {
		q = append(q, real.Range{From: g.from, To: g.to}, real.Range{From: g.from, To: g.to, Elements: true})
	}
	rx, ex := x.Ranges(ctx, q, nil)
	ry, ey := y.Ranges(ctx, q, nil)
	if ex != nil || ey != nil || len(rx) != len(q) || len(ry) != len(q) {
		return fmt.Sprintf("Ranges failed: %v %v", ex, ey)
	}
	r.CountN("c08.ranges-compared", len(q))
	for i := range q {
		if !sameRR(rx[i], ry[i]) {
			return fmt.Sprintf("Ranges([%d,%d] elements=%v): %s; fresh index: %s", q[i].From, q[i].To, q[i].Elements, rrString(w, rx[i]), rrString(w, ry[i]))
		}
	}
	return ""
}

func safeCompare(r *corr.Run, w *world, x, y real.Diff, c contents, df, thr, maxSweep int) (msg string) {
	if perr := safely(func() { msg = compareIndexes(r, w, x, y, c, df, thr, maxSweep) }); perr != "" {
		return perr
	}
	return msg
}

func opLines(w *world, ix string, df, thr int, ops []hop) []string {
	l := []string{fmt.Sprintf("new %s %d %d", ix, df, thr)}
	for _, h := range ops {
		l = append(l, w.line(ix, h))
	}
	return l
}

func kindsOf(ops []hop, before []contents) string {
	var sb strings.Builder
	for i, h := range ops {
		switch {
		case h.kind == "rm":
			if _, ok := before[i][h.id]; ok {
				sb.WriteByte('R')
			} else {
				sb.WriteByte('r')
			}
		case len(h.els) > 1:
			sb.WriteByte('M')
		default:
			if _, ok := before[i][h.els[0][0]]; ok {
				sb.WriteByte('U')
			} else {
				sb.WriteByte('S')
			}
		}
	}
	return sb.String()
}

func describeWorld(w *world) string {
	n := len(w.ids)
	if n > 24 {
		n = 24
	}
	p := make([]string, n)
	for i, id := range w.ids[:n] {
		p[i] = fmt.Sprintf("%d=%x", i, id)
	}
	if n < len(w.ids) {
		p = append(p, fmt.Sprintf("… (%d ids)", len(w.ids)))
	}
	return "ids(hex): " + strings.Join(p, " ")
}

// caseC08 runs one history on the real index and compares with the fresh reference after every
// `every`-th op and at the end.
func caseC08(r *corr.Run, m *modelSession, w *world, df, thr int, ops []hop, every int, maxSweep int) {
	x := real.New(df, thr)
	c := contents{}
	var before []contents
	lines := []string{fmt.Sprintf("new x %d %d", df, thr)}
	m.begin(w)
	m.op(lines[0], "C08", lines, x, false)
	failed := false
	for i, h := range ops {
		before = append(before, c.clone())
		_, had := c[h.id]
		had = had && h.kind == "rm"
		lines = append(lines, w.line("x", h))
		if msg := w.apply(x, c, h); msg != "" {
			r.Violate("C08", "", "ldiff.history.op", msg+"; "+describeWorld(w), lines)
			failed = true
			break
		}
		switch {
		case h.kind == "rm" && had:
			_ = had
			r.Count("c08.op.remove-present")
		case h.kind == "rm":
			r.Count("c08.op.remove-absent")
		case len(h.els) > 1:
			r.Count("c08.op.set-multi")
		default:
			if _, ok := before[i][h.els[0][0]]; ok {
				r.Count("c08.op.set-existing")
			} else {
				r.Count("c08.op.set-new")
			}
		}
		m.op(lines[len(lines)-1], "C08", lines, x, h.kind == "rm" && !had)
		if (i+1)%every == 0 || i == len(ops)-1 {
			y, perr := w.fresh(df, thr, c, nil)
			if perr != "" {
				r.Violate("C08", "", "ldiff.fresh", fmt.Sprintf("one Set call with %d entries on a new index (df=%d thr=%d): %s; %s", len(c), df, thr, perr, describeWorld(w)), lines)
				break
			}
			if msg := safeCompare(r, w, x, y, c, df, thr, maxSweep); msg != "" {
				r.Violate("C08", "", "ldiff.history.oracle",
					fmt.Sprintf("after history kinds=%s: %s; %s", kindsOf(ops[:i+1], before), msg, describeWorld(w)), lines)
				failed = true
				break
			}
			if i == len(ops)-1 || r.Chance(35) {
				m.observe(x, "x", df, thr, "C08", lines)
			}
		}
	}
	if len(ops) == 0 {
		y, _ := w.fresh(df, thr, c, nil)
		if msg := safeCompare(r, w, x, y, c, df, thr, maxSweep); msg != "" {
			r.Violate("C08", "", "ldiff.history.oracle", "empty index: "+msg, lines)
		}
	}
	_ = failed
	depth := treeDepth(w.hashesOf(c), df, thr)
	r.Count(fmt.Sprintf("c08.final-depth.%s", bucket(depth)))
	r.Case(strings.Join(lines, ";"), len(ops) >= 3)
	if len(ops) >= 6 {
		r.Sample(map[string]any{"stream": "ldiff.history", "kinds": kindsOf(ops[:len(before)], before), "df": df, "thr": thr, "final_size": len(c), "depth": depth})
	}
}

func bucket(n int) string {
	switch {
	case n <= 1:
		return "1"
	case n <= 3:
		return "2-3"
	case n <= 8:
		return "4-8"
	case n <= 20:
		return "9-20"
	default:
		return "21+"
	}
}

// treeDepth: number of divided levels of the canonical tree (harness arithmetic)
func treeDepth(hs []uint64, df, thr int) int {
	var rec func(r rng) int
	rec = func(r rng) int {
		best := 1
		for _, c := range split(r, df) {
			if countIn(hs, c) > thr && !c.narrow(df) {
				if d := 1 + rec(c); d > best {
					best = d
				}
			}
		}
		return best
	}
	return rec(top)
}

// ---- C07 -------------------------------------------------------------------------------------

var variants = []string{"diff", "cdiff", "wire-diff", "wire-cdiff", "kvwire-diff", "kvwire-cdiff"}

// caseC07 builds the two indexes (a local, b remote) by the given histories and checks every diff
// variant against the naive set difference.
func caseC07(r *corr.Run, m *modelSession, w *world, df, thr int, opsA, opsB []hop, vs []string) {
	a, b := real.New(df, thr), real.New(df, thr)
	A, B := contents{}, contents{}
	lines := []string{fmt.Sprintf("new a %d %d", df, thr), fmt.Sprintf("new b %d %d", df, thr)}
	m.begin(w)
	m.op(lines[0], "C07", lines, a, false)
	m.op(lines[1], "C07", lines, b, false)
	for _, h := range opsA {
		lines = append(lines, w.line("a", h))
		_, had := A[h.id]
		if msg := w.apply(a, A, h); msg != "" {
			r.Violate("C07", "", "ldiff.diff.build", msg, lines)
			return
		}
		m.op(lines[len(lines)-1], "C07", lines, a, h.kind == "rm" && !had)
	}
	for _, h := range opsB {
		lines = append(lines, w.line("b", h))
		_, had := B[h.id]
		if msg := w.apply(b, B, h); msg != "" {
			r.Violate("C07", "", "ldiff.diff.build", msg, lines)
			return
		}
		m.op(lines[len(lines)-1], "C07", lines, b, h.kind == "rm" && !had)
	}
	if r.Chance(15) {
		m.observe(b, "b", df, thr, "C07", lines)
	}
	for _, v := range vs {
		got, rounds := runDiff(w, v, a, b)
		want := specDiff(A, B, strings.HasSuffix(v, "cdiff"))
		op := fmt.Sprintf("%s a b", v)
		all := append(append([]string{}, lines...), op)
		if got.String() != want.String() {
			r.Violate("C07", "", "ldiff.diff.oracle."+v,
				fmt.Sprintf("df=%d thr=%d |a|=%d |b|=%d: %s reported {%s}, set difference is {%s}; %s", df, thr, len(A), len(B), v, got, want, describeWorld(w)), all)
		}
		r.Count("c07.variant." + v)
		r.Count("c07.rounds." + bucket(rounds))
		m.diff(v, got, "C07", all)
	}
	// equal top hash <=> equal contents (what DiffTypeCheck relies on)
	needs, err := headsync.NewRemoteDiff("space", hsClient{b}).DiffTypeCheck(ctx, a)
	if err != nil || needs != !A.equal(B) {
		r.Violate("C07", "", "ldiff.diff.typecheck",
			fmt.Sprintf("DiffTypeCheck says needsSync=%v err=%v but contents equal=%v", needs, err, A.equal(B)), lines)
	}
	sd := specDiff(A, B, true)
	switch {
	case A.equal(B):
		r.Count("c07.shape.equal")
	case len(A) == 0 || len(B) == 0:
		r.Count("c07.shape.one-empty")
	default:
		r.Count("c07.shape.differ")
	}
	if len(sd.rm) > 0 {
		r.Count("c07.has.removed")
	}
	if len(sd.nw) > 0 {
		r.Count("c07.has.new")
	}
	if len(sd.ch) > 0 || len(sd.tch) > 0 {
		r.Count("c07.has.changed")
	}
	r.Count("c07.depth-b." + bucket(treeDepth(w.hashesOf(B), df, thr)))
	r.Case(strings.Join(lines, ";"), len(A)+len(B) >= 2)
	if len(A) >= 3 && len(B) >= 3 && !A.equal(B) {
		r.Sample(map[string]any{"stream": "ldiff.diff", "df": df, "thr": thr, "a": len(A), "b": len(B), "expected": sd.String()})
	}
}

func freshOps(w *world, c contents, order []int) []hop {
	if len(c) == 0 {
		return nil
	}
	h := hop{kind: "set"}
	if order == nil {
		order = c.keys()
	}
	for _, id := range order {
		h.els = append(h.els, [2]int{id, c[id]})
	}
	return []hop{h}
}

func randContents(r *corr.Run, w *world, p int) contents {
	c := contents{}
	for id := range w.ids {
		if r.Chance(p) {
			c[id] = r.Intn(len(heads))
		}
	}
	return c
}

// related derives b from a: drop some, change some heads, add some — the interesting diffs
func related(r *corr.Run, w *world, a contents) contents {
	b := a.clone()
	k := 1 + r.Intn(4)
	for i := 0; i < k; i++ {
		id := r.Intn(len(w.ids))
		switch r.Intn(3) {
		case 0:
			delete(b, id)
		case 1:
			if _, ok := b[id]; ok {
				b[id] = r.Intn(len(heads))
			}
		default:
			b[id] = r.Intn(len(heads))
		}
	}
	return b
}

func replay(w *world, ops []hop) contents {
	c := contents{}
	for _, h := range ops {
		if h.kind == "rm" {
			delete(c, h.id)
		} else {
			for _, e := range h.els {
				c[e[0]] = e[1]
			}
		}
	}
	return c
}

// Run is the area driver. VERIF_PROPERTY selects which property's streams get the budget.
func Run(r *corr.Run) {
	prop := os.Getenv("VERIF_PROPERTY")
	r.SetRule("C07: pairs of indexes (fresh one-call, or reached by random histories with updates and removals) over id universes " +
		"with natural xxhash values and with crafted ones (shared prefixes up to 41 bits, range boundaries, adjacent values), df 2..5 (+16,32), thr 1..4 (+8), " +
		"every diff variant (Diff, CompareDiff, in process and through the head-sync and key-value wire encodings) compared with the naive set difference; " +
		"exhaustive block: all pairs of sub-maps of a 4-id universe with 2 heads for df in 2..4, thr in 1..3. " +
		"C08: histories of Set(new / existing / multi) and RemoveId (present / absent), compared after every op with a fresh index filled by one Set: " +
		"Hash, Len, Elements, Ids, Element, and Ranges over all canonical node ranges, two levels below the leaves and random ranges, with and without elements. " +
		"A case is non-trivial when it has >= 2 elements (C07) / >= 3 ops (C08); distinct = distinct op sequences")
	m := newModelSession(r)
	defer m.close()
	exhibitWidth(r)
	if prop == "" || prop == "C07" {
		runC07(r, m, prop == "C07")
	}
	if prop == "" || prop == "C08" {
		runC08(r, m, prop == "C08")
	}
}

func pickParams(r *corr.Run) (df, thr int) {
	df = 2 + r.Intn(4)
	thr = 1 + r.Intn(4)
	if r.Chance(8) {
		df = []int{16, 32, 7}[r.Intn(3)]
	}
	if r.Chance(8) {
		thr = 8
	}
	return
}

func runC07(r *corr.Run, m *modelSession, only bool) {
	// (0) size-directed asymmetric cases (one side on / above the powers of two up to 2^18)
	runSizes(r)
	// (i) exhaustive block over a tiny universe
	exhaustiveC07(r, m)
	// (i') fix-width: universes concentrated in ranges of width 1, 2, df-1, df, df+1
	for k := 0; r.TimeLeft() && k < r.Pick(250, 4000); k++ {
		randomCaseC07(r, m, "narrow")
	}
	// (iii) larger random sets, oracle only
	m.pause()
	for k := 0; r.TimeLeft() && k < r.Pick(12, 120); k++ {
		df, thr := pickParams(r)
		if r.Chance(50) {
			df, thr = []int{8, 16, 32}[r.Intn(3)], []int{8, 64, 256}[r.Intn(3)]
		}
		n := 200 + r.Intn(r.Pick(3000, 30000))
		kind := []string{"natural", "natural", "mixed", "deep"}[r.Intn(4)]
		w := genWorld(r, kind, n, df)
		A := randContents(r, w, 70+r.Intn(30))
		B := related(r, w, A)
		for i := r.Intn(30); i > 0; i-- {
			B = related(r, w, B)
		}
		if excludeNarrow(r, w.hashesOf(A), df, thr) || excludeNarrow(r, w.hashesOf(B), df, thr) {
			r.Count("gen.width-excluded")
			continue
		}
		r.Count("c07.large")
		caseC07(r, m, w, df, thr, freshOps(w, A, nil), freshOps(w, B, nil), []string{"diff", "cdiff", "wire-cdiff", "kvwire-diff"})
	}
	m.resume()
	// (ii) guard-directed random cases
	for k := 0; r.TimeLeft() && k < r.Pick(6000, 120000); k++ {
		randomCaseC07(r, m, "")
	}
}

// randomCaseC07 runs one guard-directed random case (kind "" = random universe kind)
func randomCaseC07(r *corr.Run, m *modelSession, kind string) {
	df, thr := pickParams(r)
	if kind == "" {
		kind = worldKinds[r.Intn(len(worldKinds))]
	}
	w := genWorld(r, kind, 2+r.Intn(14), df)
	if len(w.ids) == 0 {
		return
	}
	r.Count("c07.world." + kind)
	var opsA, opsB []hop
	mode := r.Intn(10)
	switch {
	case mode < 4: // fresh on both sides
		A := randContents(r, w, 30+r.Intn(60))
		B := related(r, w, A)
		if r.Chance(30) {
			B = randContents(r, w, 30+r.Intn(60))
		}
		if r.Chance(10) {
			A, B = B, contents{}
		}
		if r.Chance(10) {
			B = A.clone()
		}
		if excludeNarrow(r, w.hashesOf(A), df, thr) || excludeNarrow(r, w.hashesOf(B), df, thr) {
			r.Count("gen.width-excluded")
			return
		}
		oa, ob := r.Perm(len(w.ids)), r.Perm(len(w.ids))
		opsA = freshOps(w, A, filterIn(oa, A))
		opsB = freshOps(w, B, filterIn(ob, B))
		r.Count("c07.build.fresh")
	default: // histories
		opsA = genHistory(r, w, df, thr, 1+r.Intn(12), mode < 6)
		if r.Chance(50) {
			// b continues from a's history: mostly equal contents with a few differences
			opsB = append(append([]hop{}, opsA...), genTail(r, w, df, thr, replay(w, opsA), r.Intn(4))...)
		} else {
			opsB = genHistory(r, w, df, thr, 1+r.Intn(12), mode < 6)
		}
		r.Count("c07.build.history")
	}
	caseC07(r, m, w, df, thr, opsA, opsB, variants)
}

func filterIn(order []int, c contents) []int {
	var out []int
	for _, id := range order {
		if _, ok := c[id]; ok {
			out = append(out, id)
		}
	}
	return out
}

// genTail: a few more ops starting from contents c
func genTail(r *corr.Run, w *world, df, thr int, c contents, n int) []hop {
	var ops []hop
	c = c.clone()
	for i := 0; i < n; i++ {
		var h hop
		pr := c.keys()
		if len(pr) > 0 && r.Chance(50) {
			h = hop{kind: "rm", id: pr[r.Intn(len(pr))]}
		} else {
			h = hop{kind: "set", els: [][2]int{{r.Intn(len(w.ids)), r.Intn(len(heads))}}}
		}
		nc := c.clone()
		if h.kind == "rm" {
			delete(nc, h.id)
		} else {
			nc[h.els[0][0]] = h.els[0][1]
		}
		if excludeNarrow(r, w.hashesOf(nc), df, thr) {
			continue
		}
		c = nc
		ops = append(ops, h)
	}
	return ops
}

// exhaustiveC07: all pairs of sub-maps of a 4-id universe with 2 heads (3^4 = 81 maps, 6561 pairs)
// for one (df,thr) in quick (rotating with the seed) and all nine in thorough.
func exhaustiveC07(r *corr.Run, m *modelSession) {
	var params [][2]int
	for df := 2; df <= 4; df++ {
		for thr := 1; thr <= 3; thr++ {
			params = append(params, [2]int{df, thr})
		}
	}
	if r.Quick() {
		params = [][2]int{params[int(r.Seed)%len(params)]}
	}
	for _, p := range params {
		df, thr := p[0], p[1]
		// two clustered ids (deep split), one boundary id, one natural id
		base := r.Rand.Uint64()
		w := newWorld([]string{crafted(base), crafted(base ^ 5), crafted(split(top, df)[1].from), fmt.Sprintf("obj-%d", r.Intn(1000))})
		if len(w.ids) != 4 {
			continue
		}
		var maps []contents
		for code := 0; code < 81; code++ {
			c := contents{}
			x := code
			for id := 0; id < 4; id++ {
				if x%3 > 0 {
					c[id] = x%3 + 3 // heads "h1","h2"
				}
				x /= 3
			}
			maps = append(maps, c)
		}
		stride := 1
		if r.Quick() {
			stride = 3
		}
		for i, A := range maps {
			for j := (i * 7) % stride; j < len(maps); j += stride {
				B := maps[j]
				if excludeNarrow(r, w.hashesOf(A), df, thr) || excludeNarrow(r, w.hashesOf(B), df, thr) {
					continue
				}
				if !r.TimeLeft() {
					return
				}
				r.Count("c07.exhaustive")
				caseC07(r, m, w, df, thr, freshOps(w, A, nil), freshOps(w, B, nil), []string{"diff", "cdiff"})
			}
		}
	}
}

func runC08(r *corr.Run, m *modelSession, only bool) {
	// (0) size thresholds: an incrementally built large index against the one-call index
	runSizesC08(r)
	// larger histories, oracle only
	m.pause()
	for k := 0; r.TimeLeft() && k < r.Pick(6, 150); k++ {
		df, thr := pickParams(r)
		if r.Chance(40) {
			df, thr = []int{8, 16, 32}[r.Intn(3)], []int{8, 64, 256}[r.Intn(3)]
		}
		kind := []string{"natural", "mixed", "deep"}[r.Intn(3)]
		w := genWorld(r, kind, 100+r.Intn(r.Pick(1500, 8000)), df)
		ops := genHistory(r, w, df, thr, 200+r.Intn(r.Pick(800, 6000)), false)
		r.Count("c08.large")
		caseC08(r, m, w, df, thr, ops, 97, 600)
	}
	m.resume()
	for k := 0; r.TimeLeft() && k < r.Pick(5000, 100000); k++ {
		df, thr := pickParams(r)
		kind := worldKinds[r.Intn(len(worldKinds))]
		w := genWorld(r, kind, 2+r.Intn(12), df)
		if len(w.ids) == 0 {
			continue
		}
		r.Count("c08.world." + kind)
		ops := genHistory(r, w, df, thr, r.Intn(16), r.Chance(12))
		caseC08(r, m, w, df, thr, ops, 1, 400)
	}
}
