package ldiff

import (
	"fmt"
	"go/ast"
	"go/token"
	"os"
	"path/filepath"
	"strings"

	"verifharness/internal/corr"
	"verifharness/internal/goast"
)

func init() {
	corr.RegisterExtractor("ldiff", extract)
}

// The extractor renders the uint64 arithmetic of genTupleRanges / getBottomRange
// (app/ldiff/hashrange.go) as Lean definitions over Nat with explicit `% M` (M = 2^64):
//
//	a + b -> (a + b) % M      a - b -> (a + M - b) % M      a * b -> (a * b) % M      / and % as they are
//
// and checks that every other statement of the two functions has exactly the expected text. The
// theorem `ldiffShape_ok` (Ldiff/Shape.lean) proves that the generated definitions equal the
// hand-written model (`perRange`, `align`, `childRange`, `bucketOf`), so a change of the arithmetic
// breaks a Lean obligation.

type xlat struct {
	g      *goast.File
	rename map[string]string
	ok     bool
}

func (x *xlat) expr(e ast.Expr) string {
	switch v := e.(type) {
	case *ast.Ident:
		if r, ok := x.rename[v.Name]; ok {
			return r
		}
		x.ok = false
		return "0"
	case *ast.SelectorExpr:
		if r, ok := x.rename[x.g.Str(v)]; ok {
			return r
		}
		x.ok = false
		return "0"
	case *ast.BasicLit:
		if v.Kind == token.INT {
			return v.Value
		}
	case *ast.ParenExpr:
		return x.expr(v.X)
	case *ast.CallExpr:
		if id, ok := v.Fun.(*ast.Ident); ok && id.Name == "uint64" && len(v.Args) == 1 {
			return x.expr(v.Args[0])
		}
	case *ast.BinaryExpr:
		a, b := x.expr(v.X), x.expr(v.Y)
		switch v.Op {
		case token.ADD:
			return fmt.Sprintf("((%s + %s) %% M)", a, b)
		case token.SUB:
			return fmt.Sprintf("((%s + M - %s) %% M)", a, b)
		case token.MUL:
			return fmt.Sprintf("((%s * %s) %% M)", a, b)
		case token.QUO:
			return fmt.Sprintf("(%s / %s)", a, b)
		case token.REM:
			return fmt.Sprintf("(%s %% %s)", a, b)
		}
	}
	x.ok = false
	return "0"
}

// rhs returns the right-hand side of `name := <expr>` / `name = <expr>` at body[i]
func assignRHS(g *goast.File, st ast.Stmt, name string) ast.Expr {
	as, ok := st.(*ast.AssignStmt)
	if !ok || len(as.Lhs) != 1 || len(as.Rhs) != 1 || g.Str(as.Lhs[0]) != name {
		return nil
	}
	return as.Rhs[0]
}

func extract(repo, out string) error {
	g, err := goast.Parse(filepath.Join(repo, "app/ldiff/hashrange.go"))
	if err != nil {
		return err
	}
	ok := true
	defs := map[string]string{
		"perRange0": "0", "align": "0", "tupleTo": "0", "nextJ": "0", "lastAdds": "0",
		"gbPerRange0": "0", "gbAlign": "0", "gbBucket": "0", "gbFrom": "0", "gbTo": "0", "gbLastTo": "0",
		"cdL": "0", "cdR": "0",
	}
	want := func(st ast.Stmt, text string) {
		if g.Str(st) != text {
			ok = false
		}
	}
	tr := func(e ast.Expr, rename map[string]string) string {
		if e == nil {
			ok = false
			return "0"
		}
		x := &xlat{g: g, rename: rename, ok: true}
		s := x.expr(e)
		if !x.ok {
			ok = false
		}
		return s
	}

	// ---- genTupleRanges ----
	if fd := g.Fn("", "genTupleRanges"); fd != nil && len(fd.Body.List) == 7 {
		b := fd.Body.List
		rn := map[string]string{"from": "lo", "to": "hi", "df": "df"}
		want(b[0], "df := uint64(divideFactor)")
		defs["perRange0"] = tr(assignRHS(g, b[1], "perRange"), rn)
		defs["align"] = tr(assignRHS(g, b[2], "align"), rn)
		want(b[3], "if align == 0 { perRange++ }")
		want(b[4], "var j = from")
		want(b[6], "return")
		if loop, isFor := b[5].(*ast.ForStmt); isFor && len(loop.Body.List) == 3 &&
			g.Str(loop.Init)+"; "+g.Str(loop.Cond)+"; "+g.Str(loop.Post) == "i := 0; i < divideFactor; i++" {
			lb := loop.Body.List
			// if i == divideFactor-1 { perRange += align }
			if is, isIf := lb[0].(*ast.IfStmt); isIf && is.Else == nil && is.Init == nil &&
				g.Str(is.Cond) == "i == divideFactor-1" && len(is.Body.List) == 1 {
				if as, isAs := is.Body.List[0].(*ast.AssignStmt); isAs && as.Tok == token.ADD_ASSIGN && g.Str(as.Lhs[0]) == "perRange" {
					defs["lastAdds"] = tr(&ast.BinaryExpr{X: as.Lhs[0], Op: token.ADD, Y: as.Rhs[0]}, map[string]string{"perRange": "per", "align": "al"})
				} else {
					ok = false
				}
			} else {
				ok = false
			}
			// prepare = append(prepare, rangeTuple{from: j, to: <expr>})
			found := false
			if as, isAs := lb[1].(*ast.AssignStmt); isAs && len(as.Rhs) == 1 && g.Str(as.Lhs[0]) == "prepare" {
				if call, isCall := as.Rhs[0].(*ast.CallExpr); isCall && g.Str(call.Fun) == "append" && len(call.Args) == 2 && g.Str(call.Args[0]) == "prepare" {
					if cl, isCl := call.Args[1].(*ast.CompositeLit); isCl && g.Str(cl.Type) == "rangeTuple" && len(cl.Elts) == 2 {
						kv0, ok0 := cl.Elts[0].(*ast.KeyValueExpr)
						kv1, ok1 := cl.Elts[1].(*ast.KeyValueExpr)
						if ok0 && ok1 && g.Str(kv0.Key) == "from" && g.Str(kv0.Value) == "j" && g.Str(kv1.Key) == "to" {
							defs["tupleTo"] = tr(kv1.Value, map[string]string{"j": "j", "perRange": "per"})
							found = true
						}
					}
				}
			}
			if !found {
				ok = false
			}
			// j += perRange
			if as, isAs := lb[2].(*ast.AssignStmt); isAs && as.Tok == token.ADD_ASSIGN && g.Str(as.Lhs[0]) == "j" {
				defs["nextJ"] = tr(&ast.BinaryExpr{X: as.Lhs[0], Op: token.ADD, Y: as.Rhs[0]}, map[string]string{"j": "j", "perRange": "per"})
			} else {
				ok = false
			}
		} else {
			ok = false
		}
	} else {
		ok = false
	}

	// ---- getBottomRange ----
	if fd := g.Fn("hashRanges", "getBottomRange"); fd != nil && len(fd.Body.List) == 9 {
		b := fd.Body.List
		rn := map[string]string{"rng.from": "lo", "rng.to": "hi", "df": "df", "elHash": "h", "perRange": "per", "bucket": "b"}
		want(b[0], "df := uint64(h.divideFactor)")
		defs["gbPerRange0"] = tr(assignRHS(g, b[1], "perRange"), rn)
		defs["gbAlign"] = tr(assignRHS(g, b[2], "align"), rn)
		want(b[3], "if align == 0 { perRange++ }")
		defs["gbBucket"] = tr(assignRHS(g, b[4], "bucket"), rn)
		want(b[5], "if bucket > df-1 { bucket = df - 1 }")
		found := false
		if rhs := assignRHS(g, b[6], "tuple"); rhs != nil {
			if cl, isCl := rhs.(*ast.CompositeLit); isCl && g.Str(cl.Type) == "rangeTuple" && len(cl.Elts) == 2 {
				kv0, ok0 := cl.Elts[0].(*ast.KeyValueExpr)
				kv1, ok1 := cl.Elts[1].(*ast.KeyValueExpr)
				if ok0 && ok1 && g.Str(kv0.Key) == "from" && g.Str(kv1.Key) == "to" {
					defs["gbFrom"] = tr(kv0.Value, rn)
					defs["gbTo"] = tr(kv1.Value, rn)
					found = true
				}
			}
		}
		if !found {
			ok = false
		}
		if is, isIf := b[7].(*ast.IfStmt); isIf && is.Else == nil && is.Init == nil && g.Str(is.Cond) == "bucket == df-1" && len(is.Body.List) == 1 {
			if as, isAs := is.Body.List[0].(*ast.AssignStmt); isAs && as.Tok == token.ADD_ASSIGN && g.Str(as.Lhs[0]) == "tuple.to" {
				defs["gbLastTo"] = tr(&ast.BinaryExpr{X: ast.NewIdent("t"), Op: token.ADD, Y: as.Rhs[0]}, map[string]string{"t": "t", "align": "al"})
			} else {
				ok = false
			}
		} else {
			ok = false
		}
		want(b[8], "return h.ranges[tuple]")
	} else {
		ok = false
	}

	// ---- canDivide (fix-width) and its three call sites ----
	if fd := g.Fn("", "canDivide"); fd != nil && len(fd.Body.List) == 1 {
		found := false
		if ret, isRet := fd.Body.List[0].(*ast.ReturnStmt); isRet && len(ret.Results) == 1 {
			if be, isBin := ret.Results[0].(*ast.BinaryExpr); isBin && be.Op == token.GEQ {
				rn := map[string]string{"from": "lo", "to": "hi", "divideFactor": "df"}
				defs["cdL"] = tr(be.X, rn)
				defs["cdR"] = tr(be.Y, rn)
				found = true
			}
		}
		if !found {
			ok = false
		}
	} else {
		ok = false
	}
	ifCond := func(fd *ast.FuncDecl, cond string) bool {
		hit := false
		if fd == nil {
			return false
		}
		ast.Inspect(fd.Body, func(n ast.Node) bool {
			if is, isIf := n.(*ast.IfStmt); isIf && g.Str(is.Cond) == cond {
				hit = true
			}
			return true
		})
		return hit
	}
	if !ifCond(g.Fn("hashRanges", "addElement"), "rng.elements > h.compareThreshold && canDivide(rng.from, rng.to, h.divideFactor)") {
		ok = false
	}
	if !ifCond(g.Fn("hashRanges", "makeBottomRanges"), "newRange.elements > h.compareThreshold && canDivide(newRange.from, newRange.to, h.divideFactor)") {
		ok = false
	}
	if gd, err := goast.Parse(filepath.Join(repo, "app/ldiff/diff.go")); err == nil {
		hit := false
		if fd := gd.Fn("diff", "compareResults"); fd != nil {
			ast.Inspect(fd.Body, func(n ast.Node) bool {
				if is, isIf := n.(*ast.IfStmt); isIf && gd.Str(is.Cond) == "otherRes.Count <= d.compareThreshold && len(otherRes.Elements) == 0 || len(myRes.Elements) == myRes.Count || !canDivide(r.From, r.To, d.divideFactor)" {
					hit = true
				}
				return true
			})
		}
		if !hit {
			ok = false
		}
	} else {
		ok = false
	}

	// ---- diff.getRange: no branch other than the ones in the model (Index.getRange) ----
	// node found: hash+count, elements only when requested; no node: elements + their hash.
	getRangeOk := false
	if gd, err := goast.Parse(filepath.Join(repo, "app/ldiff/diff.go")); err == nil {
		if fd := gd.Fn("diff", "getRange"); fd != nil && len(fd.Body.List) == 8 {
			b := fd.Body.List
			wantText := []string{
				"rng := d.ranges.getRange(r.From, r.To)",
				"if rng != nil { rr.Hash = rng.hash rr.Count = rng.elements if !r.Elements { return } }",
				"el := d.sl.Find(&element{hash: r.From})",
				"rr.Elements = make([]Element, 0, d.divideFactor)",
				"for el != nil && el.Key().(*element).hash <= r.To { elem := el.Key().(*element).Element el = el.Next() rr.Elements = append(rr.Elements, elem) }",
				"rr.Count = len(rr.Elements)",
				"if rng == nil { rr.Hash, _ = d.ranges.calcElementsHash(r.From, r.To) }",
				"return",
			}
			getRangeOk = true
			for i, t := range wantText {
				if gd.Str(b[i]) != t {
					getRangeOk = false
				}
			}
		}
	}

	var sb strings.Builder
	sb.WriteString("-- GENERATED by `verifharness extract` from /repo/app/ldiff/hashrange.go — do not edit\n")
	sb.WriteString("namespace AnySync.Generated.LdiffShape\n")
	sb.WriteString("/-- 2^64: uint64 arithmetic is rendered with explicit `% M` -/\nabbrev M : Nat := 18446744073709551616\n")
	sb.WriteString("/-- every statement of genTupleRanges / getBottomRange outside the translated expressions has the expected text -/\n")
	sb.WriteString("def shapeOk : Bool := " + goast.LeanBool(ok) + "\n")
	sb.WriteString("/-- genTupleRanges: `perRange := …` -/\ndef perRange0 (lo hi df : Nat) : Nat := " + defs["perRange0"] + "\n")
	sb.WriteString("/-- genTupleRanges: `align := …` -/\ndef align (lo hi df : Nat) : Nat := " + defs["align"] + "\n")
	sb.WriteString("/-- genTupleRanges: `perRange += align` in the last iteration -/\ndef lastAdds (per al : Nat) : Nat := " + defs["lastAdds"] + "\n")
	sb.WriteString("/-- genTupleRanges: `to:` of the appended tuple -/\ndef tupleTo (j per : Nat) : Nat := " + defs["tupleTo"] + "\n")
	sb.WriteString("/-- genTupleRanges: `j += perRange` -/\ndef nextJ (j per : Nat) : Nat := " + defs["nextJ"] + "\n")
	sb.WriteString("/-- getBottomRange: `perRange := …` -/\ndef gbPerRange0 (lo hi df : Nat) : Nat := " + defs["gbPerRange0"] + "\n")
	sb.WriteString("/-- getBottomRange: `align := …` -/\ndef gbAlign (lo hi df : Nat) : Nat := " + defs["gbAlign"] + "\n")
	sb.WriteString("/-- getBottomRange: `bucket := …` (before the clamp `if bucket > df-1 { bucket = df - 1 }`) -/\ndef gbBucket (lo h per : Nat) : Nat := " + defs["gbBucket"] + "\n")
	sb.WriteString("/-- getBottomRange: `from:` of the looked-up tuple -/\ndef gbFrom (lo b per : Nat) : Nat := " + defs["gbFrom"] + "\n")
	sb.WriteString("/-- getBottomRange: `to:` of the looked-up tuple -/\ndef gbTo (lo b per : Nat) : Nat := " + defs["gbTo"] + "\n")
	sb.WriteString("/-- getBottomRange: `tuple.to += align` for the last bucket -/\ndef gbLastTo (t al : Nat) : Nat := " + defs["gbLastTo"] + "\n")
	sb.WriteString("/-- canDivide: left and right side of `>=` (fix-width); shapeOk also pins the three guards using it -/\ndef canDivideL (lo hi : Nat) : Nat := " + defs["cdL"] + "\n")
	sb.WriteString("def canDivideR (df : Nat) : Nat := " + defs["cdR"] + "\n")
	sb.WriteString("/-- diff.getRange has exactly the branches of the model's `Index.getRange` (no size- or limit-dependent branch) -/\ndef getRangeShapeOk : Bool := " + goast.LeanBool(getRangeOk) + "\n")
	sb.WriteString("end AnySync.Generated.LdiffShape\n")
	return os.WriteFile(filepath.Join(out, "LdiffShape.lean"), []byte(sb.String()), 0o644)
}
