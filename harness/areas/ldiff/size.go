package ldiff

import (
	"fmt"
	"os"
	"strings"
	"time"

	real "github.com/anyproto/any-sync/app/ldiff"

	"verifharness/internal/corr"
)

// Size-directed asymmetric cases (seed C07-6): one side holds N elements with N on and just above
// the powers of two up to 2^18, the other side holds 0 / 1 / thr / thr+1 elements, so that the
// driver asks for the elements of a huge range instead of subdividing. Both directions, both
// variants, in process and through both wire encodings. Nothing in C07 excuses a size-dependent
// cliff. Ids are cheap sequential strings; the model is not consulted (oracle only).

type bigSide struct {
	w   *world
	d   real.Diff
	c   contents
	n   int
	df  int
	thr int
}

func buildBig(n, df, thr int) (*bigSide, string) {
	ids := make([]string, n+8)
	for i := range ids {
		ids[i] = fmt.Sprintf("s-%d", i)
	}
	w := newWorld(ids)
	c := make(contents, n)
	for i := 0; i < n; i++ {
		c[w.idx[fmt.Sprintf("s-%d", i)]] = 4 + i%2
	}
	d, perr := w.fresh(df, thr, c, nil)
	return &bigSide{w: w, d: d, c: c, n: n, df: df, thr: thr}, perr
}

func sizeCase(r *corr.Run, b *bigSide, small contents, bigIsLocal bool, vs []string) {
	w := b.w
	sd, perr := w.fresh(b.df, b.thr, small, nil)
	dir := "big-local"
	a, rem, A, B := b.d, sd, b.c, small
	if !bigIsLocal {
		dir = "big-remote"
		a, rem, A, B = sd, b.d, small, b.c
	}
	ops := []string{fmt.Sprintf("new a %d %d", b.df, b.thr), fmt.Sprintf("new b %d %d", b.df, b.thr),
		fmt.Sprintf("# %s: the big side holds ids s-0..s-%d (heads h1/h2 alternating), one Set call", dir, b.n-1),
		fmt.Sprintf("# the small side holds %d elements: %s", len(small), w.toks(small, small.keys()))}
	if perr != "" {
		r.Violate("C07", "", "ldiff.size.build", perr, ops)
		return
	}
	for _, v := range vs {
		t0 := time.Now()
		got, rounds := runDiff(w, v, a, rem)
		if os.Getenv("VERIF_LDIFF_PROF") != "" {
			fmt.Fprintf(os.Stderr, "prof %s %s small=%d %v\n", dir, v, len(small), time.Since(t0))
		}
		want := specDiff(A, B, strings.HasSuffix(v, "cdiff"))
		if got.String() != want.String() {
			r.Violate("C07", "", "ldiff.size.oracle."+v,
				fmt.Sprintf("df=%d thr=%d %s |a|=%d |b|=%d: %s reported {%s}, set difference is {%s}", b.df, b.thr, dir, len(A), len(B), v,
					clip(got.String()), clip(want.String())), append(append([]string{}, ops...), v+" a b"))
		}
		r.Count("c07.size.variant." + v)
		r.Count("c07.rounds." + bucket(rounds))
	}
	r.Count(fmt.Sprintf("c07.size.%s.small%d", dir, len(small)))
	r.Case(fmt.Sprintf("size %d %d %d %s %d", b.n, b.df, b.thr, dir, len(small)), true)
}

func clip(s string) string {
	if len(s) > 300 {
		return s[:300] + "…"
	}
	return s
}

// smallSides: 0, 1 (existing id, other head), thr (existing and foreign ids), thr+1 elements
func smallSides(r *corr.Run, b *bigSide) []contents {
	w := b.w
	pickIDs := func(k int) contents {
		c := contents{}
		for len(c) < k {
			id := w.idx[fmt.Sprintf("s-%d", r.Intn(b.n+8))]
			c[id] = 4 + r.Intn(3)
		}
		return c
	}
	return []contents{{}, pickIDs(1), pickIDs(b.thr), pickIDs(b.thr + 1)}
}

func runSizes(r *corr.Run) {
	type job struct {
		n, df, thr int
		full       bool
	}
	var jobs []job
	cliff := []int{1<<17 + 1, 1 << 18}
	t0 := time.Now()
	if r.Quick() {
		// 2^17+1 with the production parameters in every run; then, while the block has used less
		// than ~8 s, 2^18 and two sizes at smaller powers of two
		jobs = append(jobs, job{cliff[0], 32, 256, true})
		jobs = append(jobs, job{cliff[1], []int{2, 3, 16}[r.Intn(3)], []int{1, 2, 8}[r.Intn(3)], false})
		for i := 0; i < 2; i++ {
			k := 8 + r.Intn(9)
			jobs = append(jobs, job{1<<k + r.Intn(2), 2 + r.Intn(4), 1 + r.Intn(3), false})
		}
	} else {
		for k := 18; k >= 8; k-- {
			for _, d := range []int{1, 0} {
				df, thr := pickParams(r)
				if k >= 16 && r.Chance(50) {
					df, thr = 32, 256
				}
				jobs = append(jobs, job{1<<k + d, df, thr, true})
			}
		}
	}
	for ji, j := range jobs {
		if ji > 0 && (!r.TimeLeft() || (r.Quick() && time.Since(t0) > 8*time.Second)) {
			r.Count("c07.size.skipped-for-time")
			break
		}
		t1 := time.Now()
		b, perr := buildBig(j.n, j.df, j.thr)
		if os.Getenv("VERIF_LDIFF_PROF") != "" {
			fmt.Fprintf(os.Stderr, "prof build n=%d df=%d thr=%d %v\n", j.n, j.df, j.thr, time.Since(t1))
		}
		if perr != "" {
			r.Violate("C07", "", "ldiff.size.build", fmt.Sprintf("one Set call with %d sequential ids (df=%d thr=%d): %s", j.n, j.df, j.thr, perr), nil)
			continue
		}
		r.Count(fmt.Sprintf("c07.size.n=2^%d%s", log2(j.n), map[bool]string{true: "", false: "+1"}[j.n&(j.n-1) == 0]))
		smalls := smallSides(r, b)
		vs := variants
		if r.Quick() {
			// 0 and thr elements on the small side
			smalls = []contents{smalls[0], smalls[2]}
			vs = []string{"diff", "cdiff", "wire-diff", "kvwire-cdiff"}
			if !j.full {
				smalls = smalls[:1]
				vs = []string{"diff", "wire-cdiff"}
			}
		}
		for _, small := range smalls {
			sizeCase(r, b, small, true, vs)
			sizeCase(r, b, small, false, vs)
		}
	}
}

func log2(n int) int {
	k := 0
	for n > 1 {
		n >>= 1
		k++
	}
	return k
}

// runSizesC08: the same size thresholds for C08 — an index of N sequential ids built
// incrementally (three chunks, then updates of existing ids, removals and re-insertions) must
// answer exactly like the index filled by ONE Set call.
func runSizesC08(r *corr.Run) {
	var sizes []int
	if r.Quick() {
		sizes = []int{1<<(10+r.Intn(6)) + r.Intn(2)}
	} else {
		for k := 17; k >= 8; k-- {
			sizes = append(sizes, 1<<k+1, 1<<k)
		}
	}
	t0 := time.Now()
	for si, n := range sizes {
		if si > 0 && !r.TimeLeft() {
			break
		}
		if r.Quick() && time.Since(t0) > 6*time.Second {
			break
		}
		df, thr := pickParams(r)
		if r.Chance(40) {
			df, thr = 32, 256
		}
		ids := make([]string, n)
		for i := range ids {
			ids[i] = fmt.Sprintf("s-%d", i)
		}
		w := newWorld(ids)
		c := contents{}
		x := real.New(df, thr)
		ops := []string{fmt.Sprintf("new x %d %d", df, thr), fmt.Sprintf("# %d sequential ids s-0..s-%d in three Set calls, then 64 updates, 64 removals, 32 re-insertions", n, n-1)}
		perr := safely(func() {
			order := r.Perm(len(w.ids))
			for part := 0; part < 3; part++ {
				lo, hi := part*len(order)/3, (part+1)*len(order)/3
				els := make([]real.Element, 0, hi-lo)
				for _, id := range order[lo:hi] {
					c[id] = 4
					els = append(els, w.el(id, 4))
				}
				x.Set(els...)
			}
			var removed []int
			for i := 0; i < 64; i++ {
				id := r.Intn(len(w.ids))
				c[id] = 5
				x.Set(w.el(id, 5))
			}
			for i := 0; i < 64; i++ {
				id := r.Intn(len(w.ids))
				if _, ok := c[id]; ok {
					delete(c, id)
					if err := x.RemoveId(w.ids[id]); err != nil {
						panic(err)
					}
					removed = append(removed, id)
				}
			}
			for i := 0; i < 32 && i < len(removed); i++ {
				c[removed[i]] = 6
				x.Set(w.el(removed[i], 6))
			}
		})
		if perr != "" {
			r.Violate("C08", "", "ldiff.size.history", perr, ops)
			continue
		}
		y, perr := w.fresh(df, thr, c, nil)
		if perr != "" {
			r.Violate("C08", "", "ldiff.size.fresh", perr, ops)
			continue
		}
		if msg := safeCompare(r, w, x, y, c, df, thr, 600); msg != "" {
			r.Violate("C08", "", "ldiff.size.oracle", fmt.Sprintf("df=%d thr=%d n=%d: %s", df, thr, n, clip(msg)), ops)
		}
		r.Count(fmt.Sprintf("c08.size.n~2^%d", log2(n)))
		r.Case(fmt.Sprintf("c08 size %d %d %d", n, df, thr), true)
	}
}
