package ldiff

import (
	"context"
	"fmt"
	"os"
	"os/exec"
	"runtime/debug"
	"strings"
	"time"

	real "github.com/anyproto/any-sync/app/ldiff"

	"verifharness/internal/corr"
)

// F-ldiff-width (repaired by fix-width): more than compareThreshold ids inside a range narrower
// than divideFactor made makeBottomRanges recurse without bound (fatal "stack overflow", not
// recoverable in process) and the diff loop run forever. The witness is replayed on the real code in
// a CHILD process (this binary re-executed with VERIF_LDIFF_WIDTH_CHILD set): df=3, thr=1, ids whose
// (crafted, verified) xxhash values lie in one width-2 range of the grid — adjacent values and a
// genuine collision. With the repair the child must return the exact diff; if it dies or reports
// something else the defect is back. The child runs before the other streams: when it fails, the
// generators stop producing such contents for the rest of the run (`allowNarrow`).

const widthChildEnv = "VERIF_LDIFF_WIDTH_CHILD"

func init() {
	if os.Getenv(widthChildEnv) != "" {
		widthChild()
	}
}

// findNarrow returns a grid range of width exactly 2 (narrower than df=3) reachable from the top.
func findNarrow(r rng, df, depth int) (rng, bool) {
	if r.narrow(df) {
		return r, r.span() == 1
	}
	if depth > 80 {
		return r, false
	}
	for _, c := range split(r, df) {
		if g, ok := findNarrow(c, df, depth+1); ok {
			return g, true
		}
	}
	return r, false
}

// widthCase: local a = {x0:h1, x1:h1, x3:h1}, remote b = {x0:h2, x2:h1, x3:h1} where x0,x1 have the
// two hash values of the narrow range, x2 collides with x1, x3 collides with x0.
func widthCase() (ids []string, node rng, ok bool) {
	node, ok = findNarrow(top, 3, 0)
	if !ok {
		return nil, node, false
	}
	return []string{craftID(0x51d7, node.from), craftID(0x51d8, node.from+1), craftID(0x51d9, node.from+1), craftID(0x51da, node.from)}, node, true
}

func widthChild() {
	debug.SetMaxStack(48 << 20)
	ids, _, ok := widthCase()
	if !ok {
		fmt.Println("NO-NARROW-NODE")
		os.Exit(0)
	}
	a, b := real.New(3, 1), real.New(3, 1)
	a.Set(real.Element{Id: ids[0], Head: "h1"}, real.Element{Id: ids[1], Head: "h1"}, real.Element{Id: ids[3], Head: "h1"})
	b.Set(real.Element{Id: ids[0], Head: "h2"}, real.Element{Id: ids[2], Head: "h1"}, real.Element{Id: ids[3], Head: "h1"})
	w := newWorld(ids)
	res := "SURVIVED"
	for _, v := range []string{"diff", "cdiff", "wire-cdiff"} {
		got, _ := runDiff(w, v, a, b)
		// report by position in ids (not by world index)
		res += " " + v + "{" + got.String() + "}"
	}
	// after removing the surplus the narrow leaf must look like a fresh one
	a.RemoveId(ids[1])
	fresh := real.New(3, 1)
	fresh.Set(real.Element{Id: ids[0], Head: "h1"}, real.Element{Id: ids[3], Head: "h1"})
	res += fmt.Sprintf(" rmhash=%v", a.Hash() == fresh.Hash())
	fmt.Println(res)
	os.Exit(0)
}

// exhibitWidth runs the child; a crash or a wrong answer is the defect F-ldiff-width.
func exhibitWidth(r *corr.Run) {
	exe, err := os.Executable()
	if err != nil {
		return
	}
	ids, node, ok := widthCase()
	if !ok {
		r.Count("width.no-narrow-node")
		return
	}
	w := newWorld(ids)
	ix := func(i int) int { return w.idx[ids[i]] }
	A := contents{ix(0): 4, ix(1): 4, ix(3): 4}
	B := contents{ix(0): 5, ix(2): 4, ix(3): 4}
	want := "SURVIVED"
	for _, v := range []string{"diff", "cdiff", "wire-cdiff"} {
		want += " " + v + "{" + specDiff(A, B, strings.HasSuffix(v, "cdiff")).String() + "}"
	}
	want += " rmhash=true"
	cx, cancel := context.WithTimeout(context.Background(), 120*time.Second)
	defer cancel()
	cmd := exec.CommandContext(cx, exe)
	cmd.Env = append(os.Environ(), widthChildEnv+"=1")
	out, err := cmd.CombinedOutput()
	s := strings.TrimSpace(string(out))
	ops := []string{"new a 3 1", "new b 3 1",
		fmt.Sprintf("set a 0:%d:4 1:%d:4 3:%d:4", node.from, node.from+1, node.from),
		fmt.Sprintf("set b 0:%d:5 2:%d:4 3:%d:4", node.from, node.from+1, node.from), "diff a b"}
	desc := fmt.Sprintf("df=3 thr=1, ids with xxhash %d and %d (the two values of the grid range [%d,%d], narrower than df; one adjacent pair, two collisions); ids(hex) %x %x %x %x: ",
		node.from, node.from+1, node.from, node.to, ids[0], ids[1], ids[2], ids[3])
	switch {
	case err == nil && s == want:
		r.Count("width.child.ok")
	case strings.Contains(s, "stack overflow") || strings.Contains(s, "goroutine stack exceeds"):
		r.Count("width.child.stack-overflow")
		allowNarrow = false
		r.Violate("C07", "F-ldiff-width", "ldiff.width.child", desc+"Set does not return: fatal stack overflow in makeBottomRanges (child process)", ops)
		r.Violate("C08", "F-ldiff-width", "ldiff.width.child", desc+"Set does not return: fatal stack overflow in makeBottomRanges (child process)", ops)
	case cx.Err() != nil:
		r.Count("width.child.timeout")
		allowNarrow = false
		r.Violate("C07", "F-ldiff-width", "ldiff.width.child", desc+"no answer within 120 s (child process)", ops)
	case strings.HasPrefix(s, "SURVIVED"):
		r.Count("width.child.wrong-answer")
		allowNarrow = false
		r.Violate("C07", "F-ldiff-width", "ldiff.width.child", desc+"child reported {"+s+"}, the property requires {"+want+"}", ops)
	default:
		r.Count("width.child.inconclusive")
		allowNarrow = false
		r.Note("width child: %v %s", err, s)
	}
}
