package ldiff

import (
	"context"
	"fmt"
	"os"
	"os/exec"
	"runtime/debug"
	"strings"
	"time"

	real "github.com/anyproto/any-sync/app/ldiff"

	"verifharness/internal/corr"
)

// F-ldiff-width: more than compareThreshold ids inside a range narrower than divideFactor make
// makeBottomRanges recurse without bound (fatal "stack overflow", not recoverable in process).
// It is the hypothesis `NoNarrow` of the Lean theorems. The input is exhibited on the real code in
// a CHILD process (this binary re-executed with VERIF_LDIFF_WIDTH_CHILD set): df=3, thr=1 and two
// ids whose (crafted, verified) xxhash values are the two values of a width-2 node of the range
// grid — no hash collision is needed.

const widthChildEnv = "VERIF_LDIFF_WIDTH_CHILD"

func init() {
	if os.Getenv(widthChildEnv) != "" {
		widthChild()
	}
}

// findNarrow returns a grid range of width exactly 2 (narrower than df=3) reachable from the top.
func findNarrow(r rng, df, depth int) (rng, bool) {
	if r.narrow(df) {
		return r, r.span() == 1
	}
	if depth > 80 {
		return r, false
	}
	for _, c := range split(r, df) {
		if g, ok := findNarrow(c, df, depth+1); ok {
			return g, true
		}
	}
	return r, false
}

func widthIDs() (ids []string, node rng, ok bool) {
	node, ok = findNarrow(top, 3, 0)
	if !ok {
		return nil, node, false
	}
	return []string{craftID(0x51d7, node.from), craftID(0x51d8, node.from+1)}, node, true
}

func widthChild() {
	debug.SetMaxStack(48 << 20)
	ids, _, ok := widthIDs()
	if !ok {
		fmt.Println("NO-NARROW-NODE")
		os.Exit(0)
	}
	d := real.New(3, 1)
	d.Set(real.Element{Id: ids[0], Head: "h1"}, real.Element{Id: ids[1], Head: "h1"})
	fmt.Println("SURVIVED", d.Len())
	os.Exit(0)
}

// exhibitWidth runs the child and records the known finding when the real code crashes.
func exhibitWidth(r *corr.Run) {
	exe, err := os.Executable()
	if err != nil {
		return
	}
	ids, node, ok := widthIDs()
	if !ok {
		r.Count("width.no-narrow-node")
		return
	}
	cx, cancel := context.WithTimeout(context.Background(), 90*time.Second)
	defer cancel()
	cmd := exec.CommandContext(cx, exe)
	cmd.Env = append(os.Environ(), widthChildEnv+"=1")
	out, err := cmd.CombinedOutput()
	s := string(out)
	switch {
	case err != nil && (strings.Contains(s, "stack overflow") || strings.Contains(s, "goroutine stack exceeds")):
		r.Count("width.child.stack-overflow")
		r.Violate("C07", "F-ldiff-width", "ldiff.width.child",
			fmt.Sprintf("ldiff.New(3,1).Set of two ids with xxhash %d and %d (both inside the width-2 grid range [%d,%d]) does not return: fatal stack overflow in makeBottomRanges (child process); ids(hex) %x %x",
				node.from, node.from+1, node.from, node.to, ids[0], ids[1]),
			[]string{"new a 3 1", fmt.Sprintf("set a 0:%d:1 1:%d:1", node.from, node.from+1)})
	case strings.Contains(s, "SURVIVED"):
		r.Count("width.child.survived")
	default:
		r.Count("width.child.inconclusive")
	}
}
