package ldiff

import (
	"encoding/binary"
	"math/bits"

	"github.com/cespare/xxhash"
)

// xxhash64 (seed 0) is not a cryptographic hash: for a 16-byte input the last 8 bytes can be solved
// for any wanted 64-bit result. The generators use this to place ids at chosen positions of the
// hash space (range boundaries, long shared prefixes, adjacent values). Every crafted id is checked
// against the real xxhash.Sum64 (craftID panics on a mismatch), so nothing is assumed about it.

const (
	xxP1 uint64 = 11400714785074694791
	xxP2 uint64 = 14029467366897019727
	xxP3 uint64 = 1609587929392839161
	xxP4 uint64 = 9650029242287828579
	xxP5 uint64 = 2870177450012600261
)

func inv64(a uint64) uint64 { // inverse of an odd number mod 2^64 (Newton)
	x := a
	for i := 0; i < 6; i++ {
		x *= 2 - a*x
	}
	return x
}

var (
	xxI1 = inv64(xxP1)
	xxI2 = inv64(xxP2)
	xxI3 = inv64(xxP3)
)

func xxRound(acc, in uint64) uint64 {
	acc += in * xxP2
	acc = bits.RotateLeft64(acc, 31)
	return acc * xxP1
}

// craftID returns a 16-byte id whose first 8 bytes encode tag and whose xxhash64 is target.
func craftID(tag, target uint64) string {
	var b [16]byte
	binary.LittleEndian.PutUint64(b[:8], tag)
	h := xxP5 + 16
	h ^= xxRound(0, tag)
	h = bits.RotateLeft64(h, 27)*xxP1 + xxP4
	// invert the avalanche
	t := target
	t ^= t >> 32
	t *= xxI3
	t ^= (t >> 29) ^ (t >> 58)
	t *= xxI2
	t ^= t >> 33
	// t = rol27(h ^ k1)*P1 + P4
	x := bits.RotateLeft64((t-xxP4)*xxI1, -27)
	k1 := x ^ h
	// k1 = rol31(in*P2)*P1
	in := bits.RotateLeft64(k1*xxI1, -31) * xxI2
	binary.LittleEndian.PutUint64(b[8:], in)
	if xxhash.Sum64(b[:]) != target {
		panic("craftID: xxhash inversion does not match the real xxhash.Sum64")
	}
	return string(b[:])
}
