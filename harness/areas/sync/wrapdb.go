package sync

// Copy of harness/areas/store/wrapdb.go (the store area's recording / fault-injecting wrapper around the
// REAL any-store database; types there are unexported), without the trace rendering. Used to fail
// the k-th write-side storage call of one scheduler step.

// A recording / fault-injecting wrapper around the REAL any-store (SQLite) database.
//
// anystore.DB, Collection, WriteTx and Query are interfaces; any-sync only ever talks to them
// through those interfaces, so the harness hands the real constructors (spacestorage.Create/New,
// objecttree.CreateStorage/NewStorage, list.CreateStorageTx/NewStorage, headstorage.New) a wrapDB.
// Every *write-side storage call* (begin, savepoint begin, collection creation, index creation,
// insert, upsert, update, delete, query-delete, commit, rollback) is a **boundary**: it is appended
// to the recorder and, before it is forwarded to the real database, the recorder's hook is called
// with the boundary index. The hook may (a) copy the database directory (crash image "just before
// call k") or (b) return an error, which is then returned from call k instead of executing it
// (injected storage fault). Reads are forwarded untouched.
//
// The real write transaction travels inside tx.Context() exactly as in production (any-store keeps it
// under an unexported context key); the wrapper adds its own key so that collection calls can tell
// whether they were issued inside a wrapped transaction.

import (
	"context"
	"errors"
	"fmt"
	"strings"

	anystore "github.com/anyproto/any-store"
	"github.com/anyproto/any-store/anyenc"
	"github.com/anyproto/any-store/query"
)

type evKind int

const (
	evBegin evKind = iota
	evCommit
	evRollback
	evSBegin
	evSCommit
	evSRollback
	evMkColl
	evIndex
	evInsert
	evUpsert
	evUpdate
	evDelete
	evQDelete
	evQUpdate
)

var evNames = map[evKind]string{
	evBegin: "begin", evCommit: "commit", evRollback: "rollback",
	evSBegin: "sbegin", evSCommit: "scommit", evSRollback: "srollback",
	evMkColl: "mkcoll", evIndex: "idx", evInsert: "ins", evUpsert: "ups", evUpdate: "upd",
	evDelete: "del", evQDelete: "qdel", evQUpdate: "qupd",
}

func (k evKind) isWrite() bool { return k >= evMkColl }

// Event is one recorded storage call.
type Event struct {
	Kind  evKind
	Coll  string
	Ids   []string // document ids touched (insert may carry several)
	InTx  bool     // issued with a context that carries a live wrapped top-level transaction
	Depth int      // nesting depth at the time of the call (0 = no tx)
	Err   string   // "" or the error text the call returned (after forwarding or injected)
}

var errInjected = errors.New("verif: injected storage fault")

type txKey struct{}

// Recorder collects events; hook is consulted before each boundary is forwarded.
type Recorder struct {
	events []Event
	on     bool
	hook   func(k int, ev Event) error
}

func (r *Recorder) start(hook func(k int, ev Event) error) {
	r.events = r.events[:0]
	r.on = true
	r.hook = hook
}

func (r *Recorder) stop() []Event {
	r.on = false
	r.hook = nil
	out := make([]Event, len(r.events))
	copy(out, r.events)
	return out
}

// boundary registers the call; a non-nil result is an injected error (the call must not be forwarded).
func (r *Recorder) boundary(ev Event) (int, error) {
	if !r.on {
		return -1, nil
	}
	k := len(r.events)
	r.events = append(r.events, ev)
	if r.hook != nil {
		if err := r.hook(k, ev); err != nil {
			r.events[k].Err = err.Error()
			return k, err
		}
	}
	return k, nil
}

func (r *Recorder) result(k int, err error) {
	if k >= 0 && k < len(r.events) && err != nil {
		r.events[k].Err = err.Error()
	}
}

// ---------------------------------------------------------------------------------------------

type wrapDB struct {
	anystore.DB
	rec   *Recorder
	colls map[string]*wrapColl
}

func newWrapDB(real anystore.DB) *wrapDB {
	return &wrapDB{DB: real, rec: &Recorder{}, colls: map[string]*wrapColl{}}
}

type wrapTx struct {
	anystore.WriteTx // the real tx (or savepoint): promotes the unexported methods too
	db               *wrapDB
	parent           *wrapTx
	ctx              context.Context
	done             bool
}

func liveTx(ctx context.Context) *wrapTx {
	if t, ok := ctx.Value(txKey{}).(*wrapTx); ok && t != nil && !t.top().done {
		return t
	}
	return nil
}

func (t *wrapTx) top() *wrapTx {
	for t.parent != nil {
		t = t.parent
	}
	return t
}

func (t *wrapTx) depth() int {
	d := 1
	for p := t.parent; p != nil; p = p.parent {
		d++
	}
	return d
}

func depthOf(ctx context.Context) int {
	if t := liveTx(ctx); t != nil {
		return t.depth()
	}
	return 0
}

func (t *wrapTx) Context() context.Context { return t.ctx }

func (t *wrapTx) Commit() error {
	if t.done {
		return t.WriteTx.Commit()
	}
	kind := evCommit
	if t.parent != nil {
		kind = evSCommit
	}
	k, inj := t.db.rec.boundary(Event{Kind: kind, InTx: true, Depth: t.depth()})
	if inj != nil {
		// a failed commit persists nothing: release the real transaction
		t.done = true
		_ = t.WriteTx.Rollback()
		return inj
	}
	t.done = true
	err := t.WriteTx.Commit()
	t.db.rec.result(k, err)
	return err
}

func (t *wrapTx) Rollback() error {
	if t.done {
		return t.WriteTx.Rollback()
	}
	kind := evRollback
	if t.parent != nil {
		kind = evSRollback
	}
	k, _ := t.db.rec.boundary(Event{Kind: kind, InTx: true, Depth: t.depth()})
	t.done = true
	err := t.WriteTx.Rollback()
	t.db.rec.result(k, err)
	return err
}

func (d *wrapDB) WriteTx(ctx context.Context) (anystore.WriteTx, error) {
	parent := liveTx(ctx)
	kind := evBegin
	if parent != nil {
		kind = evSBegin
	}
	k, inj := d.rec.boundary(Event{Kind: kind, InTx: parent != nil, Depth: depthOf(ctx)})
	if inj != nil {
		return nil, inj
	}
	real, err := d.DB.WriteTx(ctx)
	d.rec.result(k, err)
	if err != nil {
		return nil, err
	}
	t := &wrapTx{WriteTx: real, db: d, parent: parent}
	t.ctx = context.WithValue(real.Context(), txKey{}, t)
	return t, nil
}

func (d *wrapDB) wrapColl(c anystore.Collection) anystore.Collection {
	if w, ok := d.colls[c.Name()]; ok && w.Collection == c {
		return w
	}
	w := &wrapColl{Collection: c, db: d}
	d.colls[c.Name()] = w
	return w
}

func (d *wrapDB) OpenCollection(ctx context.Context, name string) (anystore.Collection, error) {
	c, err := d.DB.OpenCollection(ctx, name)
	if err != nil {
		return nil, err
	}
	return d.wrapColl(c), nil
}

func (d *wrapDB) CreateCollection(ctx context.Context, name string) (anystore.Collection, error) {
	k, inj := d.rec.boundary(Event{Kind: evMkColl, Coll: name, InTx: liveTx(ctx) != nil, Depth: depthOf(ctx)})
	if inj != nil {
		return nil, inj
	}
	c, err := d.DB.CreateCollection(ctx, name)
	d.rec.result(k, err)
	if err != nil {
		return nil, err
	}
	return d.wrapColl(c), nil
}

// Collection mirrors any-store's db.Collection (open, else create, else open) with the creation
// step exposed as a boundary.
func (d *wrapDB) Collection(ctx context.Context, name string) (anystore.Collection, error) {
	c, err := d.OpenCollection(ctx, name)
	if err == nil {
		return c, nil
	}
	if !errors.Is(err, anystore.ErrCollectionNotFound) {
		return nil, err
	}
	c, err = d.CreateCollection(ctx, name)
	if err == nil {
		return c, nil
	}
	if !errors.Is(err, anystore.ErrCollectionExists) {
		return nil, err
	}
	return d.OpenCollection(ctx, name)
}

// ---------------------------------------------------------------------------------------------

type wrapColl struct {
	anystore.Collection
	db *wrapDB
}

func idOf(v *anyenc.Value) string {
	if v == nil {
		return "?"
	}
	return v.GetString("id")
}

func (c *wrapColl) ev(ctx context.Context, kind evKind, ids ...string) Event {
	return Event{Kind: kind, Coll: c.Name(), Ids: ids, InTx: liveTx(ctx) != nil, Depth: depthOf(ctx)}
}

func (c *wrapColl) Insert(ctx context.Context, docs ...*anyenc.Value) error {
	ids := make([]string, len(docs))
	for i, d := range docs {
		ids[i] = idOf(d)
	}
	k, inj := c.db.rec.boundary(c.ev(ctx, evInsert, ids...))
	if inj != nil {
		return inj
	}
	err := c.Collection.Insert(ctx, docs...)
	c.db.rec.result(k, err)
	return err
}

func (c *wrapColl) UpdateOne(ctx context.Context, doc *anyenc.Value) error {
	k, inj := c.db.rec.boundary(c.ev(ctx, evUpdate, idOf(doc)))
	if inj != nil {
		return inj
	}
	err := c.Collection.UpdateOne(ctx, doc)
	c.db.rec.result(k, err)
	return err
}

func (c *wrapColl) UpdateId(ctx context.Context, id any, mod query.Modifier) (anystore.ModifyResult, error) {
	k, inj := c.db.rec.boundary(c.ev(ctx, evUpdate, fmt.Sprint(id)))
	if inj != nil {
		return anystore.ModifyResult{}, inj
	}
	res, err := c.Collection.UpdateId(ctx, id, mod)
	c.db.rec.result(k, err)
	return res, err
}

func (c *wrapColl) UpsertOne(ctx context.Context, doc *anyenc.Value) error {
	k, inj := c.db.rec.boundary(c.ev(ctx, evUpsert, idOf(doc)))
	if inj != nil {
		return inj
	}
	err := c.Collection.UpsertOne(ctx, doc)
	c.db.rec.result(k, err)
	return err
}

func (c *wrapColl) UpsertId(ctx context.Context, id any, mod query.Modifier) (anystore.ModifyResult, error) {
	k, inj := c.db.rec.boundary(c.ev(ctx, evUpsert, fmt.Sprint(id)))
	if inj != nil {
		return anystore.ModifyResult{}, inj
	}
	res, err := c.Collection.UpsertId(ctx, id, mod)
	c.db.rec.result(k, err)
	return res, err
}

func (c *wrapColl) DeleteId(ctx context.Context, id any) error {
	k, inj := c.db.rec.boundary(c.ev(ctx, evDelete, fmt.Sprint(id)))
	if inj != nil {
		return inj
	}
	err := c.Collection.DeleteId(ctx, id)
	c.db.rec.result(k, err)
	return err
}

func (c *wrapColl) CreateIndex(ctx context.Context, info ...anystore.IndexInfo) error {
	k, inj := c.db.rec.boundary(c.ev(ctx, evIndex))
	if inj != nil {
		return inj
	}
	err := c.Collection.CreateIndex(ctx, info...)
	c.db.rec.result(k, err)
	return err
}

// EnsureIndex of indexes that all exist already writes nothing and is not a boundary.
func (c *wrapColl) EnsureIndex(ctx context.Context, info ...anystore.IndexInfo) error {
	have := map[string]bool{}
	for _, i := range c.Collection.GetIndexes() {
		have[i.Info().Name] = true
	}
	missing := false
	for _, i := range info {
		n := i.Name
		if n == "" {
			n = strings.Join(i.Fields, ",")
		}
		if !have[n] {
			missing = true
		}
	}
	if !missing {
		return c.Collection.EnsureIndex(ctx, info...)
	}
	k, inj := c.db.rec.boundary(c.ev(ctx, evIndex))
	if inj != nil {
		return inj
	}
	err := c.Collection.EnsureIndex(ctx, info...)
	c.db.rec.result(k, err)
	return err
}

func (c *wrapColl) WriteTx(ctx context.Context) (anystore.WriteTx, error) { return c.db.WriteTx(ctx) }

func (c *wrapColl) Find(filter any) anystore.Query {
	return &wrapQuery{Query: c.Collection.Find(filter), c: c}
}

// wrapQuery forwards everything; Delete/Update are boundaries.
type wrapQuery struct {
	anystore.Query
	c *wrapColl
}

// MarshalJSON keeps one quirk of the real code intact: acl/list/storage.go passes a Query as the
// *filter* of a second Find, which any-store json-marshals (a *collQuery has no exported fields, so
// it becomes `{}` = match all). The wrapper must marshal to the same thing.
func (q *wrapQuery) MarshalJSON() ([]byte, error) { return []byte("{}"), nil }

func (q *wrapQuery) Limit(l uint) anystore.Query { return &wrapQuery{Query: q.Query.Limit(l), c: q.c} }
func (q *wrapQuery) Offset(o uint) anystore.Query {
	return &wrapQuery{Query: q.Query.Offset(o), c: q.c}
}
func (q *wrapQuery) Sort(s ...any) anystore.Query {
	return &wrapQuery{Query: q.Query.Sort(s...), c: q.c}
}
func (q *wrapQuery) IndexHint(h ...anystore.IndexHint) anystore.Query {
	return &wrapQuery{Query: q.Query.IndexHint(h...), c: q.c}
}

func (q *wrapQuery) Delete(ctx context.Context) (anystore.ModifyResult, error) {
	k, inj := q.c.db.rec.boundary(q.c.ev(ctx, evQDelete))
	if inj != nil {
		return anystore.ModifyResult{}, inj
	}
	res, err := q.Query.Delete(ctx)
	q.c.db.rec.result(k, err)
	return res, err
}

func (q *wrapQuery) Update(ctx context.Context, modifier any) (anystore.ModifyResult, error) {
	k, inj := q.c.db.rec.boundary(q.c.ev(ctx, evQUpdate))
	if inj != nil {
		return anystore.ModifyResult{}, inj
	}
	res, err := q.Query.Update(ctx, modifier)
	q.c.db.rec.result(k, err)
	return res, err
}

// ---------------------------------------------------------------------------------------------

// render gives the canonical text of a trace; ids are interned by the caller.
