package sync

import (
	"fmt"

	"verifharness/internal/corr"
)

type scenario struct {
	name  string
	n     int
	batch int
	body  func(w *world)
}

// helpers used by the fixed scenarios -------------------------------------------------------------

func (w *world) first(k kind, from, to int) *message {
	for _, m := range w.net {
		if m.k == k && (from < 0 || m.from == from) && (to < 0 || m.to == to) {
			return m
		}
	}
	return nil
}

func (w *world) last(k kind, from, to int) *message {
	for i := len(w.net) - 1; i >= 0; i-- {
		m := w.net[i]
		if m.k == k && (from < 0 || m.from == from) && (to < 0 || m.to == to) {
			return m
		}
	}
	return nil
}

func (w *world) deliverAll() {
	for n := 0; len(w.net) > 0 && n < maxDrain && !w.failed; n++ {
		w.stepDeliver(w.net[0])
	}
}

func (w *world) dropAll() {
	for len(w.net) > 0 && !w.failed {
		w.stepDrop(w.net[0])
	}
}

func (w *world) deliverIf(m *message) {
	if m != nil && !w.failed {
		w.stepDeliver(m)
	}
}

// scenarios are guard-directed: each aims at one branch of synchandler.go / synctree.go /
// objecttree.go that bears on C01, on both sides.
func scenarios() []scenario {
	return []scenario{
		{"head update applies", 2, 0, func(w *world) {
			w.stepAdd(0, false)
			w.deliverAll()
		}},
		{"missing parent -> full sync request -> response -> counter request", 2, 0, func(w *world) {
			w.stepAdd(0, false)
			w.stepAdd(0, false)
			w.stepDrop(w.net[0])
			w.deliverAll()
		}},
		{"forwarding broadcast, empty update to the sender", 3, 0, func(w *world) {
			w.stepAdd(0, false)
			w.deliverIf(w.first(kHU, 0, 1))
			w.deliverIf(w.first(kHU, 1, 0)) // empty head update: heads already known
			w.deliverIf(w.first(kHU, 1, 2)) // forwarded with the change
			w.deliverIf(w.first(kHU, 0, 2)) // duplicate information
			w.deliverAll()
		}},
		{"empty head update with unknown heads -> request", 3, 0, func(w *world) {
			w.stepAdd(0, false)
			w.deliverIf(w.first(kHU, 0, 1))
			w.stepAdd(0, false) // 0 moves on; 1's empty update to 0 is stale but known
			w.deliverIf(w.first(kHU, 1, 0))
			w.stepAdd(1, false)
			// 2 receives 1's latest update without the earlier changes
			w.deliverIf(w.last(kHU, 1, 2))
			w.deliverAll()
		}},
		{"concurrent adds merge", 2, 0, func(w *world) {
			w.stepAdd(0, false)
			w.stepAdd(1, false)
			w.deliverAll()
			w.stepAdd(0, false) // two parents
			w.stepAdd(1, false) // concurrent with the merge
			w.deliverAll()
		}},
		{"concurrent snapshots", 3, 0, func(w *world) {
			w.stepAdd(0, false)
			w.deliverAll()
			w.stepAdd(0, true)
			w.stepAdd(1, true)
			w.stepAdd(2, false)
			w.stepAdd(0, false)
			w.stepAdd(1, false)
			w.deliverAll()
			w.stepAdd(2, true)
			w.deliverAll()
		}},
		{"stale head updates after a snapshot (stored but not in memory)", 2, 0, func(w *world) {
			w.stepAdd(0, false)
			w.stepAdd(0, false)
			w.stepAdd(0, true)
			w.stepAdd(0, false)
			// newest first: cannot attach, full sync
			w.deliverIf(w.last(kHU, 0, 1))
			// complete the exchange (requests and responses only; FIFO among them)
			for n := 0; n < 40 && !w.failed; n++ {
				m := w.first(kReq, -1, -1)
				if r := w.first(kResp, -1, -1); r != nil && (m == nil || r.mid < m.mid) {
					m = r
				}
				if m == nil {
					break
				}
				w.stepDeliver(m)
			}
			// now the stale ones, oldest first, one of them twice
			if m := w.first(kHU, 0, 1); m != nil {
				w.stepDup(m)
			}
			w.deliverAll()
		}},
		{"stale update citing an old snapshot while the receiver snapshotted", 2, 0, func(w *world) {
			w.stepAdd(0, false)
			w.deliverAll()
			w.stepAdd(0, false) // held back
			held := w.first(kHU, 0, 1)
			w.stepAdd(1, true)
			w.stepAdd(1, false)
			w.deliverIf(w.first(kHU, 1, 0))
			w.deliverIf(held)
			w.deliverAll()
		}},
		{"sync with equal heads, with a subset, with a superset", 2, 0, func(w *world) {
			w.stepSync(0, 1)
			w.deliverAll()
			w.stepAdd(0, false)
			w.stepAdd(0, false)
			w.dropAll()
			w.stepSync(1, 0) // requester behind
			w.stepSync(0, 1) // requester ahead
			w.deliverAll()
		}},
		{"diverged both ways, one exchange", 2, 0, func(w *world) {
			w.stepAdd(0, false)
			w.stepAdd(1, false)
			w.stepAdd(1, true)
			w.stepAdd(0, false)
			w.dropAll()
		}},
		{"responses duplicated and reordered, requests duplicated", 3, 0, func(w *world) {
			for k := 0; k < 4; k++ {
				w.stepAdd(k%2, k == 2)
			}
			w.dropAll()
			w.stepSync(2, 0)
			w.stepDup(w.net[0])
			w.deliverIf(w.first(kReq, 2, 0))
			w.deliverIf(w.first(kReq, 2, 0))
			w.deliverIf(w.last(kResp, 0, 2))
			w.deliverIf(w.last(kReq, 0, 2))
			w.deliverAll()
		}},
		{"multi-batch response, batches out of order and lost", 2, 300, func(w *world) {
			for k := 0; k < 5; k++ {
				w.stepAdd(0, false)
			}
			w.dropAll()
			w.stepSync(1, 0)
			w.deliverIf(w.first(kReq, 1, 0))
			w.deliverIf(w.last(kResp, 0, 1)) // last batch first: nothing attaches
			if m := w.first(kResp, 0, 1); m != nil {
				w.stepDup(m)
			}
			w.deliverIf(w.first(kResp, 0, 1))
			if m := w.first(kResp, 0, 1); m != nil { // lose the second batch
				w.stepDrop(m)
			}
			w.deliverAll()
		}},
		{"multi-batch response with a snapshot in the middle", 3, 1, func(w *world) {
			w.stepAdd(0, false)
			w.stepAdd(0, false)
			w.stepAdd(0, true)
			w.stepAdd(0, false)
			w.stepAdd(1, false)
			w.dropAll()
			w.stepSync(1, 0)
			w.stepSync(2, 1)
			w.deliverAll()
		}},
	}
}

// exhaustive enumerates every schedule of at most `depth` scheduler steps for two replicas over
// the alphabet {add r, snapshot r, deliver oldest, deliver newest, drop oldest, duplicate oldest}
// (first step at replica 0 by symmetry), each followed by the anti-entropy phase.
func exhaustive(r *corr.Run, run func(n int, batch int, body func(w *world)) bool) {
	const alphabet = 8
	apply := func(w *world, op int) bool {
		switch op {
		case 0, 1:
			w.stepAdd(op, false)
		case 2, 3:
			w.stepAdd(op-2, true)
		default:
			if len(w.net) == 0 {
				return false
			}
			switch op {
			case 4:
				w.stepDeliver(w.net[0])
			case 5:
				if len(w.net) < 2 {
					return false // same as 4
				}
				w.stepDeliver(w.net[len(w.net)-1])
			case 6:
				w.stepDrop(w.net[0])
			case 7:
				w.stepDup(w.net[0])
			}
		}
		return true
	}
	complete := true
	for depth := 1; depth <= 7 && violations == 0; depth++ {
		total := 1
		for i := 1; i < depth; i++ {
			total *= alphabet
		}
		// first op is add@0 or snapshot@0
		// visit the codes of this depth in a seed-dependent order (an odd stride is a permutation
		// of 0..8^k-1), so that different seeds cover different parts of a depth that does not fit
		offset, stride := r.Intn(total), 2*r.Intn(total/2+1)+1
		for first := 0; first <= 2 && violations == 0; first += 2 {
			for k := 0; k < total; k++ {
				code := (offset + k*stride) % total
				if !r.TimeLeft() {
					complete = false
					break
				}
				seq := []int{first}
				for c, i := code, 1; i < depth; i++ {
					seq = append(seq, c%alphabet)
					c /= alphabet
				}
				valid := true
				run(2, 0, func(w *world) {
					for _, op := range seq {
						if w.failed {
							return
						}
						if !apply(w, op) {
							valid, w.abort = false, true
							return
						}
					}
				})
				if valid {
					r.Count("schedule.exhaustive")
				} else {
					r.Count("schedule.exhaustive.pruned")
				}
				if violations > 0 {
					break
				}
			}
		}
		if complete {
			r.Count("exhaustive.depth.complete")
		}
	}
	r.SetExhaustive(complete)
}

// settle delivers (FIFO, until quiescent) everything in flight except messages from or to the
// partitioned replicas, which are dropped.
func (w *world) settle(partitioned ...int) {
	cut := func(m *message) bool {
		for _, p := range partitioned {
			if m.from == p || m.to == p {
				return true
			}
		}
		return false
	}
	for n := 0; len(w.net) > 0 && n < maxDrain && !w.failed; n++ {
		if m := w.net[0]; cut(m) {
			w.stepDrop(m)
		} else {
			w.stepDeliver(m)
		}
	}
}

// staleForkFamily: replica 0 writes k consecutive snapshots (optionally with plain changes in
// between); replica 1 follows everything, so 0 and 1 are reduced to the newest snapshot and have
// computed their snapshot paths; replica 2 was partitioned after snapshot j (j = 0: before the
// first one). Then 2 writes a change — it forks off before snapshot j+1 — and that change reaches
// only `recv`, whose in-memory root has to move BACK to an older snapshot. The other up-to-date
// replica then asks `recv` for a full sync (its root is still the newest snapshot), and the usual
// anti-entropy phase follows. Aimed at: snapshot path after the root moved back, common snapshot of
// two paths of different length, rebuild from storage at an older snapshot, head updates that
// carry the path.
func staleForkFamily(r *corr.Run) []scenario {
	var out []scenario
	maxK := r.Pick(3, 4)
	for k := 2; k <= maxK; k++ {
		for j := 0; j < k; j++ {
			for recv := 0; recv <= 1; recv++ {
				for between := 0; between <= 1; between++ {
					for forward := 0; forward <= 1; forward++ {
						for variant := 0; variant <= 3; variant++ {
							k, j, recv, between, forward := k, j, recv, between, forward
							// early: requests are built while the root is the newest snapshot;
							// author: recv writes on top of the stale change before anybody syncs
							early, author := variant&1, variant>>1
							name := fmt.Sprintf("stale fork k=%d j=%d recv=%d between=%d forward=%d earlysync=%d author=%d", k, j, recv, between, forward, early, author)
							out = append(out, scenario{name, 3, 0, func(w *world) {
								other := 1 - recv
								w.stepAdd(0, false)
								w.settle()
								for i := 1; i <= k && !w.failed; i++ {
									if between == 1 {
										w.stepAdd(0, false)
									}
									w.stepAdd(0, true)
									if i <= j {
										w.settle()
									} else {
										w.settle(2)
									}
								}
								if early == 1 {
									// both up-to-date replicas build a request (snapshot path of the newest root)
									w.stepSync(recv, other)
									w.stepSync(other, recv)
									w.settle(2)
								}
								// the partitioned replica writes on top of what it has
								w.stepAdd(2, false)
								if between == 1 {
									w.stepAdd(2, false)
								}
								for m := w.first(kHU, 2, other); m != nil && !w.failed; m = w.first(kHU, 2, other) {
									w.stepDrop(m)
								}
								for m := w.first(kHU, 2, recv); m != nil && !w.failed; m = w.first(kHU, 2, recv) {
									w.stepDeliver(m)
								}
								if author == 1 && !w.failed {
									w.stepAdd(recv, false) // on top of the newest snapshot's branch and the stale fork
								}
								// what recv forwards / asks: lost, or delivered among 0 and 1 only
								if forward == 0 {
									w.dropAll()
								} else {
									w.settle(2)
									w.dropAll()
								}
								// exactly one round, the up-to-date replica meets recv before it meets
								// the author of the stale change (one pass over all pairs must do)
								if recv == 0 {
									w.phase = [][2]int{{other, recv}, {other, 2}, {recv, 2}}
								} else {
									w.phase = [][2]int{{recv, other}, {2, other}, {2, recv}}
								}
							}})
						}
					}
				}
			}
		}
	}
	return out
}

// faultFamily: small base schedules whose last interesting step (a delivery that writes, or a local
// add) is repeated with the k-th write-side storage call failing, for every k the step makes
// (transaction begin, each insert, the heads-entry upsert, commit). After the failed step the same
// message is delivered again without a fault, the replica writes a change of its own, and the usual
// anti-entropy phase follows. Aimed at: rollback of the in-memory tree after a failed storage write
// (plain batch, batch that moves the common snapshot, response batch, rebuild-from-storage path,
// local add / local snapshot), "attached but not stored", heads vs. durable heads entry.
func faultFamily() []func(k int) scenario {
	type base struct {
		name string
		n    int
		// prepare returns the message to fail (nil: fail a local add on replica `at`)
		prepare func(w *world) (m *message, at int, snap bool)
	}
	bases := []base{
		{"plain head update", 2, func(w *world) (*message, int, bool) {
			w.stepAdd(0, false)
			return w.first(kHU, 0, 1), 1, false
		}},
		{"head update with a snapshot the receiver reduces to", 2, func(w *world) (*message, int, bool) {
			w.stepAdd(0, false)
			w.deliverAll()
			w.stepAdd(0, true)
			return w.first(kHU, 0, 1), 1, false
		}},
		{"response with changes, a snapshot and more changes", 2, func(w *world) (*message, int, bool) {
			w.stepAdd(0, false)
			w.stepAdd(0, true)
			w.stepAdd(0, false)
			w.dropAll()
			w.stepSync(1, 0)
			w.deliverIf(w.first(kReq, 1, 0))
			return w.first(kResp, 0, 1), 1, false
		}},
		{"stale fork: the receiver rebuilds from storage at an older snapshot", 3, func(w *world) (*message, int, bool) {
			w.stepAdd(0, false)
			w.settle()
			w.stepAdd(0, true)
			w.stepAdd(0, false)
			w.settle(2)
			w.stepAdd(2, false)
			return w.first(kHU, 2, 0), 0, false
		}},
		{"merge of two branches with a snapshot on one of them", 2, func(w *world) (*message, int, bool) {
			w.stepAdd(0, false)
			w.deliverAll()
			w.stepAdd(1, false)
			w.stepAdd(0, true)
			w.deliverIf(w.first(kHU, 1, 0))
			return w.first(kHU, 0, 1), 1, false
		}},
		{"local add", 2, func(w *world) (*message, int, bool) {
			w.stepAdd(0, false)
			w.deliverAll()
			return nil, 1, false
		}},
		{"local snapshot", 2, func(w *world) (*message, int, bool) {
			w.stepAdd(0, false)
			w.stepAdd(0, false)
			w.deliverAll()
			return nil, 1, true
		}},
	}
	var out []func(k int) scenario
	for _, b := range bases {
		b := b
		out = append(out, func(k int) scenario {
			return scenario{fmt.Sprintf("storage fault at write call %d: %s", k, b.name), b.n, 0, func(w *world) {
				w.deep = true
				m, at, snap := b.prepare(w)
				if w.failed {
					return
				}
				if m == nil {
					w.faultFired = w.stepAddFault(at, snap, k)
				} else {
					w.stepDup(m)
					w.faultFired = w.stepDeliverFault(m, k)
				}
				if w.failed {
					return
				}
				// again, without a fault; then the replica goes on working
				w.deliverAll()
				if !w.failed {
					w.stepAdd(at, false)
				}
				w.deliverAll()
			}}
		})
	}
	return out
}

// manyHeadsFamily: three or more concurrent heads that cite two different snapshots reach a replica
// whose in-memory root is still the older snapshot, in every relative id order of the heads (heads
// are kept sorted by id and reduceTree walks them in that order). Replica 0 writes snapshot s1 (all
// follow), replica 1 writes a change on s1 that nobody sees, replica 0 writes snapshot s2 which only 2
// and 3 receive, and 0, 2, 3 each write a change on s2. Replica 1 then syncs with the others one by
// one (remote adds handled in memory), receives one more remote change, and writes itself. Aimed at:
// reduceTree with >= 3 heads (common snapshot of all heads), heads after reduce, heads entry, reopen.
func manyHeadsFamily() []scenario {
	var out []scenario
	// position of the s1-citing head among the s2-citing ones, by id: 0 = smallest … 3 = largest
	for pos := 0; pos <= 3; pos++ {
		for variant := 0; variant <= 3; variant++ {
			// gather: replica 0 first collects the heads written on s2, so that replica 1 gets s2 and all
			// of them in ONE response (a batch that brings its own snapshot is added in memory; a batch
			// citing an attached snapshot that is not the root goes through rebuild-from-storage)
			pos, extra, gather := pos, variant&1, variant>>1
			out = append(out, scenario{fmt.Sprintf("three or four heads over two snapshots, older-snapshot head at id position %d, extra=%d, gather=%d", pos, extra, gather), 4, 0, func(w *world) {
				w.deep = true
				w.stepAdd(0, false)
				w.settle()
				w.stepAdd(0, true) // s1
				w.settle()
				w.stepAdd(1, false) // on s1, seen by nobody yet
				w.dropAll()
				if w.failed {
					return
				}
				pivot := w.chs[len(w.chs)-1].real
				w.stepAdd(0, true) // s2
				w.settle(1)
				// the heads on s2: `pos` of them sort before the pivot, the others after it
				writers := []int{2, 3, 0}
				for n, r := range writers {
					before := n < pos
					w.idWanted = func(id string) bool { return (id < pivot) == before }
					w.stepAdd(r, false)
					w.dropAll()
				}
				if gather == 1 {
					for _, r := range []int{2, 3} {
						if !w.failed {
							w.exchange(0, r)
						}
						w.dropAll()
					}
					if !w.failed {
						w.exchange(1, 0)
					}
				} else {
					// replica 1 learns everything, one peer at a time
					for _, r := range []int{2, 3, 0} {
						if !w.failed {
							w.exchange(1, r)
						}
					}
				}
				w.dropAll()
				if extra == 1 && !w.failed {
					// one more remote change, then a local one
					w.stepAdd(2, false)
					w.dropAll()
					w.exchange(1, 2)
					w.dropAll()
				}
				if !w.failed {
					w.stepAdd(1, false)
				}
				w.dropAll()
			}})
		}
	}
	return out
}

// laggingRootFamily: a replica whose in-memory root lags behind (is an older snapshot than) the
// root of the replica it talks to, and then writes. Two replicas write concurrent snapshots a1, b1;
// `merger` receives the other snapshot (rebuild from storage at the common snapshot), merges, and
// writes snapshot s2, so its root is s2; the other snapshot author receives b1/m/s2 either in ONE
// response batch (its root was its own snapshot: the batch cites a snapshot below it, the rebuild
// leaves the root on the common snapshot and does not reduce) or one by one; then it writes an edit
// — which cites the old snapshot while its parent is s2 — optionally two chained edits, and an
// optional third replica that followed everything one by one must get them too. Aimed at: a change
// citing a snapshot BELOW the receiver's in-memory root (snapshotNotInTree → rebuild from storage),
// canAttachOrRemove's snapshot requirement, root after rebuild vs. after reduce.
func laggingRootFamily() []scenario {
	var out []scenario
	for variant := 0; variant < 16; variant++ {
		oneBatch, chained, third, plainBetween := variant&1 == 1, variant&2 != 0, variant&4 != 0, variant&8 != 0
		n := 2
		if third {
			n = 3
		}
		name := fmt.Sprintf("lagging root: oneBatch=%v chained=%v third=%v plainBetween=%v", oneBatch, chained, third, plainBetween)
		out = append(out, scenario{name, n, 0, func(w *world) {
			w.deep = true
			w.stepAdd(0, false)
			w.deliverAll()
			// concurrent snapshots
			w.stepAdd(0, true) // a1
			w.stepAdd(1, true) // b1
			// replica 1 (the merger) learns a1; what it sends to 0 is lost for now
			for m := w.first(kHU, 0, 1); m != nil && !w.failed; m = w.first(kHU, 0, 1) {
				w.stepDeliver(m)
			}
			dropTo0 := func() {
				for _, m := range append([]*message(nil), w.net...) {
					if m.to == 0 && !w.failed {
						w.stepDrop(m)
					}
				}
			}
			if oneBatch {
				dropTo0()
			}
			if plainBetween {
				w.stepAdd(1, false)
			}
			w.stepAdd(1, false) // the merge m
			w.stepAdd(1, true)  // s2
			if oneBatch {
				dropTo0()
				if third {
					w.settle(0)
				}
				// replica 0 gets b1, m, s2 in one response
				if !w.failed {
					w.exchange(0, 1)
				}
				w.dropAll()
			} else {
				w.deliverAll()
			}
			if w.failed {
				return
			}
			// the (possibly lagging) replica writes
			w.stepAdd(0, false)
			if chained {
				w.stepAdd(0, false)
			}
			// head updates first (the usual way), then the anti-entropy phase repairs what is left
			w.deliverAll()
		}})
	}
	return out
}
