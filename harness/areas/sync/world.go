// Package sync drives N real SyncTrees (real objecttree over real any-store, non-verifying
// builder) through harness-chosen message schedules and ties them to the Lean model
// AnySync.Sync (property C01: replicas converge under any message schedule).
//
// Every outbound message of a replica (head update broadcast, full-sync request, response
// batch) is captured by a fake SyncClient / send callback into a harness-owned network; the
// harness decides the fate of every message (deliver / drop / duplicate / delay).
package sync

import (
	"context"
	"errors"
	"fmt"
	"os"
	"path/filepath"
	"runtime/debug"
	"sort"
	"strings"
	"sync/atomic"
	"time"

	anystore "github.com/anyproto/any-store"
	"google.golang.org/protobuf/proto"

	"github.com/anyproto/any-sync/commonspace/headsync/headstorage"
	"github.com/anyproto/any-sync/commonspace/object/accountdata"
	"github.com/anyproto/any-sync/commonspace/object/acl/list"
	"github.com/anyproto/any-sync/commonspace/object/tree/objecttree"
	"github.com/anyproto/any-sync/commonspace/object/tree/synctree"
	"github.com/anyproto/any-sync/commonspace/object/tree/synctree/response"
	"github.com/anyproto/any-sync/commonspace/object/tree/treechangeproto"
	"github.com/anyproto/any-sync/commonspace/spacestorage"
	"github.com/anyproto/any-sync/commonspace/spacesyncproto"
	"github.com/anyproto/any-sync/commonspace/sync/objectsync/objectmessages"
	"github.com/anyproto/any-sync/commonspace/sync/syncdeps"
	"github.com/anyproto/any-sync/commonspace/syncstatus"
	"github.com/anyproto/any-sync/net/peer"
	"github.com/anyproto/any-sync/util/crypto"

	"verifharness/internal/corr"
)

const spaceId = "verif-space"

type kind byte

const (
	kHU   kind = 'H' // head update
	kReq  kind = 'Q' // full-sync request
	kResp kind = 'R' // one full-sync response batch
)

// message is one in-flight protocol message owned by the harness.
type message struct {
	mid     int
	k       kind
	from    int
	to      int
	payload []byte // TreeSyncMessage bytes (HU, Req) or ObjectSyncMessage payload (Resp)
	heads   []int  // interned, sorted
	changes []int  // interned, sorted
	held    int    // >0: delayed for that many more scheduler steps
	depth   int    // length of the causal chain of deliveries that produced it (reset when an exchange starts)

	rawHeads, rawChanges []string // real ids, interned by resolveEmitted once the step is over
}

func (m *message) wire() string {
	if m.k == kReq {
		return fmt.Sprintf("%c/%d/%d/%s", m.k, m.from, m.to, ints(m.heads))
	}
	return fmt.Sprintf("%c/%d/%d/%s/%s", m.k, m.from, m.to, ints(m.heads), ints(m.changes))
}

func ints(l []int) string {
	if len(l) == 0 {
		return "-"
	}
	p := make([]string, len(l))
	for i, v := range l {
		p[i] = fmt.Sprint(v)
	}
	return strings.Join(p, ",")
}

type changeInfo struct {
	id      int
	real    string
	parents []int
	snap    int // interned snapshot base (-1 for the root)
	isSnap  bool
}

// site holds what survives between schedules: one any-store DB per replica slot.
type site struct {
	dir  string
	dbs  []*wrapDB // the real any-store DB behind a recording / fault-injecting wrapper
	hss  []headstorage.HeadStorage
	keys *accountdata.AccountKeys
	acl  list.AclList
	seq  int // tree counter (distinct tree per schedule)

	addSeq [8]atomic.Uint64
}

// detAcl: the derived in-memory ACL draws its read key and master key from crypto/rand, so its head
// id differs from run to run; every tree change embeds the ACL head id, hence every change id (and
// with it every id-ordered decision of the tree) would too. The trees here use the non-validating
// builder, which never looks the head up, so a fixed head id keeps runs seed-deterministic.
type detAcl struct{ list.AclList }

func (d detAcl) Head() *list.AclRecord {
	h := *d.AclList.Head()
	h.Id = "verif-acl-head"
	return &h
}

type detReader struct{ r *corr.Run }

func (d detReader) Read(p []byte) (int, error) {
	for i := range p {
		p[i] = byte(d.r.Rand.IntN(256))
	}
	return len(p), nil
}

func newSite(r *corr.Run, n int) (*site, error) {
	dir, err := os.MkdirTemp("", "verif-sync-*")
	if err != nil {
		return nil, err
	}
	s := &site{dir: dir}
	ctx := context.Background()
	for i := 0; i < n; i++ {
		db, err := anystore.Open(ctx, filepath.Join(dir, fmt.Sprintf("r%d.db", i)), &anystore.Config{
			// no crash is simulated here (C10 does that): skip fsync
			SQLiteConnectionOptions: map[string]string{"synchronous": "off"},
		})
		if err != nil {
			s.close()
			return nil, err
		}
		wdb := newWrapDB(db)
		s.dbs = append(s.dbs, wdb)
		// the index spacestorage.Create puts on the changes collection in production
		coll, err := wdb.Collection(ctx, objecttree.CollName)
		if err == nil {
			err = coll.EnsureIndex(ctx, anystore.IndexInfo{Fields: []string{objecttree.TreeKey, objecttree.OrderKey}, Unique: true})
		}
		if err != nil {
			s.close()
			return nil, err
		}
		hs, err := headstorage.New(ctx, wdb)
		if err != nil {
			s.close()
			return nil, err
		}
		s.hss = append(s.hss, hs)
	}
	sign, _, err := crypto.GenerateEd25519Key(detReader{r})
	if err != nil {
		s.close()
		return nil, err
	}
	peerKey, _, err := crypto.GenerateEd25519Key(detReader{r})
	if err != nil {
		s.close()
		return nil, err
	}
	s.keys = accountdata.New(peerKey, sign)
	acl, err := list.NewInMemoryDerivedAcl(spaceId, s.keys)
	if err != nil {
		s.close()
		return nil, err
	}
	s.acl = detAcl{acl}
	return s, nil
}

func (s *site) close() {
	for _, db := range s.dbs {
		db.Close()
	}
	os.RemoveAll(s.dir)
}

type replica struct {
	idx  int
	st   objecttree.Storage
	hs   headstorage.HeadStorage
	tree synctree.SyncTree
}

// world is one schedule: N replicas of one tree + the network.
type world struct {
	r      *corr.Run
	site   *site
	n      int
	treeId string
	reps   []*replica
	ids    map[string]int
	chs    []*changeInfo
	net    []*message
	nextM  int
	seqNo  int // payload counter (unique data per local change)

	emitted      []*message // messages produced by the current step
	actor        int        // replica whose code runs in the current step
	ops          []string   // op lines sent to the model so far (replay trace)
	batch        int        // response batch size in bytes (0 = production default)
	nomodel      bool
	abort        bool                     // schedule not meaningful (pruned by the enumerator)
	idWanted     func(realId string) bool // next local add: pick a payload whose change id satisfies this
	ghostSeen    bool
	curDepth     int // causal depth of the message being delivered (0 outside deliveries)
	maxDepthSeen int
	unjudged     bool // an exchange hit the absolute safety cap: the phase did not complete, do not judge
	faultFired   bool // the fault family: the injected fault was reached
	deep         bool // rebuild the acting replica from storage after every step (guard-directed scenarios)
	stepNo       int
	phase        [][2]int // if set: the anti-entropy phase is exactly these exchanges, in this order
	failed       bool     // a property violation was recorded (or the schedule cannot go on)
	disagreed    bool     // the model was left behind in this schedule
	errs         map[string]int
}

func peerName(i int) string { return fmt.Sprintf("peer%d", i) }
func peerIdx(s string) int {
	var i int
	if _, err := fmt.Sscanf(s, "peer%d", &i); err != nil {
		return -1
	}
	return i
}

// fakeSpaceStorage gives BuildSyncTreeOrGetRemote the already created tree storage.
type fakeSpaceStorage struct {
	spacestorage.SpaceStorage
	st objecttree.Storage
	hs headstorage.HeadStorage
}

func (f *fakeSpaceStorage) TreeStorage(ctx context.Context, id string) (objecttree.Storage, error) {
	return f.st, nil
}
func (f *fakeSpaceStorage) HeadStorage() headstorage.HeadStorage { return f.hs }
func (f *fakeSpaceStorage) Id() string                           { return spaceId }

// fakeClient is the SyncClient seam: the real request factory, and a network that only captures.
type fakeClient struct {
	synctree.RequestFactory
	w  *world
	me int
}

func (c *fakeClient) Broadcast(ctx context.Context, hu *objectmessages.HeadUpdate) error {
	for j := 0; j < c.w.n; j++ {
		if j == c.me {
			continue
		}
		b, err := hu.Update.Marshall(objectmessages.ObjectMeta{PeerId: peerName(j), ObjectId: c.w.treeId, SpaceId: spaceId})
		if err != nil {
			return err
		}
		c.w.emit(kHU, c.me, j, b)
	}
	return nil
}

func (c *fakeClient) QueueRequest(ctx context.Context, req syncdeps.Request) error {
	return c.w.emitRequest(c.me, req)
}

func (c *fakeClient) SendTreeRequest(ctx context.Context, req syncdeps.Request, collector syncdeps.ResponseCollector) error {
	return errors.New("verif: SendTreeRequest is not expected (tree storage always exists)")
}

func (w *world) emitRequest(from int, req syncdeps.Request) error {
	pm, err := req.Proto()
	if err != nil {
		return err
	}
	osm, ok := pm.(*spacesyncproto.ObjectSyncMessage)
	if !ok {
		return fmt.Errorf("verif: unexpected request proto %T", pm)
	}
	to := peerIdx(req.PeerId())
	if to < 0 || to >= w.n || to == from {
		return fmt.Errorf("verif: request to unknown peer %q", req.PeerId())
	}
	w.emit(kReq, from, to, osm.Payload)
	return nil
}

func (w *world) intern(ids []string) []int { return w.internAs(ids, "a message") }

// internAs maps real change ids to the interned ones. An id no replica ever created successfully
// (every successful AddContent is interned) is a change somebody holds or advertises without it
// being stored anywhere — e.g. the remains of a failed local add: a violation, not a harness error.
func (w *world) internAs(ids []string, where string) []int {
	out := make([]int, 0, len(ids))
	for _, id := range ids {
		v, ok := w.ids[id]
		if !ok {
			if !w.ghostSeen {
				w.ghostSeen = true
				w.violate("sync.ghost", fmt.Sprintf("%s cites change %s, which no replica ever stored (no successful AddContent created it)", where, id))
			}
			continue
		}
		out = append(out, v)
	}
	sort.Ints(out)
	return out
}

func rawIds(l []*treechangeproto.RawTreeChangeWithId) []string {
	out := make([]string, len(l))
	for i, c := range l {
		out[i] = c.Id
	}
	return out
}

func (w *world) emit(k kind, from, to int, payload []byte) {
	cp := append([]byte(nil), payload...)
	tm := &treechangeproto.TreeSyncMessage{}
	if err := tm.UnmarshalVT(cp); err != nil {
		w.r.Fatal("emitted message does not parse: " + err.Error())
	}
	m := &message{mid: w.nextM, k: k, from: from, to: to, payload: cp, depth: w.curDepth + 1}
	w.nextM++
	switch k {
	case kHU:
		hu := tm.GetContent().GetHeadUpdate()
		m.rawHeads, m.rawChanges = hu.GetHeads(), rawIds(hu.GetChanges())
	case kReq:
		rq := tm.GetContent().GetFullSyncRequest()
		m.rawHeads = rq.GetHeads()
	case kResp:
		rs := tm.GetContent().GetFullSyncResponse()
		m.rawHeads, m.rawChanges = rs.GetHeads(), rawIds(rs.GetChanges())
	}
	w.net = append(w.net, m)
	w.emitted = append(w.emitted, m)
}

// resolveEmitted interns the ids cited by the messages of the current step (a local add cites
// the id it has just created, so this runs after the step).
func (w *world) resolveEmitted() {
	for _, m := range w.emitted {
		m.heads, m.changes = w.intern(m.rawHeads), w.intern(m.rawChanges)
		m.rawHeads, m.rawChanges = nil, nil
	}
}

func newWorld(r *corr.Run, s *site, n int, batch int) (*world, error) {
	w := &world{r: r, site: s, n: n, ids: map[string]int{}, batch: batch, errs: map[string]int{}}
	synctree.VerifSetResponseBatchSize(batch) // hook (build tag verif): small batches => multi-batch responses
	s.seq++
	root, err := objecttree.CreateObjectTreeRoot(objecttree.ObjectTreeCreatePayload{
		PrivKey:    s.keys.SignKey,
		ChangeType: "verif",
		SpaceId:    spaceId,
		Seed:       []byte(fmt.Sprintf("seed-%d", s.seq)),
		Timestamp:  1700000000,
	}, s.acl)
	if err != nil {
		return nil, err
	}
	w.treeId = root.Id
	w.ids[root.Id] = 0
	w.chs = append(w.chs, &changeInfo{id: 0, real: root.Id, snap: -1, isSnap: true})
	ctx := context.Background()
	for i := 0; i < n; i++ {
		st, err := objecttree.CreateStorage(ctx, root, s.hss[i], s.dbs[i])
		if err != nil {
			return nil, fmt.Errorf("create storage: %w", err)
		}
		// what spaceStorage.setAddSeq does in production
		if setter, ok := st.(interface{ SetAddSeq(*atomic.Uint64) }); ok {
			setter.SetAddSeq(&s.addSeq[i])
		}
		rep := &replica{idx: i, st: st, hs: s.hss[i]}
		deps := synctree.BuildDeps{
			SpaceId:         spaceId,
			SyncClient:      &fakeClient{RequestFactory: synctree.NewRequestFactory(spaceId), w: w, me: i},
			AclList:         s.acl,
			SpaceStorage:    &fakeSpaceStorage{st: st, hs: s.hss[i]},
			OnClose:         func(string) {},
			SyncStatus:      syncstatus.NewNoOpSyncStatus(),
			BuildObjectTree: objecttree.BuildTestableTree,
		}
		t, err := synctree.BuildSyncTreeOrGetRemote(ctx, root.Id, deps)
		if err != nil {
			return nil, fmt.Errorf("build sync tree: %w", err)
		}
		rep.tree = t
		w.reps = append(w.reps, rep)
	}
	return w, nil
}

// ---- observations -------------------------------------------------------------------------

type obs struct {
	stored  []int // sorted interned ids
	heads   []int // tree.Heads(), sorted
	entry   []int // head storage entry heads, sorted
	root    int   // in-memory root (a snapshot), interned
	parents map[int][]int
	snaps   map[int]int
	unknown []string
}

func (w *world) observe(i int) (o obs, err error) {
	rep := w.reps[i]
	o.parents, o.snaps = map[int][]int{}, map[int]int{}
	ctx := context.Background()
	err = rep.st.GetAfterOrder(ctx, "", func(ctx context.Context, c objecttree.StorageChange) (bool, error) {
		id, ok := w.ids[c.Id]
		if !ok {
			o.unknown = append(o.unknown, c.Id)
			return true, nil
		}
		o.stored = append(o.stored, id)
		var ps []int
		for _, p := range c.PrevIds {
			if pid, ok := w.ids[p]; ok {
				ps = append(ps, pid)
			} else {
				ps = append(ps, -1)
			}
		}
		sort.Ints(ps)
		o.parents[id] = ps
		if c.SnapshotId == "" {
			o.snaps[id] = -1
		} else if sid, ok := w.ids[c.SnapshotId]; ok {
			o.snaps[id] = sid
		} else {
			o.snaps[id] = -2
		}
		return true, nil
	})
	if err != nil {
		return
	}
	sort.Ints(o.stored)
	rep.tree.Lock()
	o.heads = w.internAs(rep.tree.Heads(), fmt.Sprintf("the in-memory heads of replica %d", i))
	o.root = -1
	if rc := rep.tree.Root(); rc != nil {
		if id, ok := w.ids[rc.Id]; ok {
			o.root = id
		}
	}
	rep.tree.Unlock()
	e, err := rep.hs.GetEntry(ctx, w.treeId)
	if err != nil {
		return
	}
	o.entry = w.internAs(e.Heads, fmt.Sprintf("the durable heads entry of replica %d", i))
	return
}

// reopenHeads builds a second, fresh object tree over the replica's storage (what a restart does).
func (w *world) reopenHeads(i int) ([]int, error) {
	t, err := objecttree.BuildTestableTree(w.reps[i].st, w.site.acl)
	if err != nil {
		return nil, err
	}
	return w.internAs(t.Heads(), fmt.Sprintf("the tree replica %d rebuilds from its storage", i)), nil
}

// maximal returns the maximal elements (no stored child) of a stored set, by the creators' parent lists.
func (w *world) maximal(stored []int) []int {
	isParent := map[int]bool{}
	for _, id := range stored {
		for _, p := range w.chs[id].parents {
			isParent[p] = true
		}
	}
	var out []int
	for _, id := range stored {
		if !isParent[id] {
			out = append(out, id)
		}
	}
	return out
}

// attachedDefect: a change the in-memory tree has attached but the storage does not hold.
func (w *world) attachedDefect(i int, o obs) string {
	rep := w.reps[i]
	rep.tree.Lock()
	defer rep.tree.Unlock()
	for _, c := range w.chs {
		if rep.tree.HasChanges(c.real) && !has(o.stored, c.id) {
			return fmt.Sprintf("replica %d has change %d attached in memory but not in its storage", i, c.id)
		}
	}
	return ""
}

// faulty runs f while the k-th write-side storage call (transaction begin, insert, upsert, commit, …;
// rollbacks excepted) of replica i's database fails with an injected error.
func (w *world) faulty(i, k int, f func()) (fired bool, kind string, calls int) {
	rec := w.site.dbs[i].rec
	rec.start(func(idx int, ev Event) error {
		if idx == k && ev.Kind != evRollback && ev.Kind != evSRollback {
			fired, kind = true, evNames[ev.Kind]
			return errInjected
		}
		return nil
	})
	done := make(chan struct{})
	go func() {
		defer close(done)
		f()
	}()
	select {
	case <-done:
	case <-time.After(60 * time.Second):
		// a leaked write transaction blocks the single write connection for ever
		w.violate("sync.fault.hang", fmt.Sprintf("replica %d hangs after an injected storage fault at write call %d", i, k))
		w.r.Finish()
		os.Exit(1)
	}
	calls = len(rec.stop())
	return
}

func has(sorted []int, v int) bool {
	i := sort.SearchInts(sorted, v)
	return i < len(sorted) && sorted[i] == v
}

// closureDefect states the safety half of C01 directly on what replica i stores.
func (w *world) closureDefect(o obs) string {
	if len(o.unknown) > 0 {
		return "stores a change nobody created: " + o.unknown[0]
	}
	for _, id := range o.stored {
		info := w.chs[id]
		// the DAG facts are those of the creator (the stored copies must agree)
		if ints(o.parents[id]) != ints(info.parents) {
			return fmt.Sprintf("stored change %d has parents %s, created with %s", id, ints(o.parents[id]), ints(info.parents))
		}
		for _, p := range info.parents {
			if !has(o.stored, p) {
				return fmt.Sprintf("stores change %d without its parent %d", id, p)
			}
		}
		if info.snap >= 0 && !has(o.stored, info.snap) {
			return fmt.Sprintf("stores change %d without its snapshot %d", id, info.snap)
		}
	}
	return ""
}

func (w *world) advertisedDefect(o obs, m *message) string {
	for _, h := range m.heads {
		if !has(o.stored, h) {
			return fmt.Sprintf("%s advertises head %d which replica %d does not hold", m.wire(), h, m.from)
		}
	}
	for _, c := range m.changes {
		if !has(o.stored, c) {
			return fmt.Sprintf("%s carries change %d which replica %d does not hold", m.wire(), c, m.from)
		}
	}
	return ""
}

func (o obs) line() string {
	return "ok " + ints(o.stored) + " " + ints(o.heads) + " @" + fmt.Sprint(o.root)
}

// ---- steps --------------------------------------------------------------------------------

func errKind(err error) string {
	if err == nil {
		return "nil"
	}
	switch {
	case errors.Is(err, objecttree.ErrNoCommonSnapshot):
		return "no-common-snapshot"
	case errors.Is(err, objecttree.ErrHasInvalidChanges):
		return "invalid-changes"
	case errors.Is(err, objecttree.ErrEmpty):
		return "empty"
	}
	s := err.Error()
	if len(s) > 60 {
		s = s[:60]
	}
	return "other:" + s
}

func (w *world) recovering(what string, f func() error) (err error) {
	defer func() {
		if p := recover(); p != nil {
			err = fmt.Errorf("panic in %s: %v", what, p)
			if os.Getenv("VERIF_SYNC_STACK") != "" {
				fmt.Fprintf(os.Stderr, "%s\n", debug.Stack())
			}
			w.errs["panic"]++
			w.violate("sync.panic", fmt.Sprintf("real code panicked in %s: %v", what, p))
		}
	}()
	return f()
}

func (w *world) violate(stream, desc string) {
	w.failed = true
	violations++
	w.r.Violate("C01", "", stream, desc, append([]string(nil), w.ops...))
}

// localAdd performs a real AddContent on replica i.
func (w *world) localAdd(i int, snapshot bool) (id int, err error) {
	rep := w.reps[i]
	w.seqNo++
	content := func(salt int) objecttree.SignableChangeContent {
		return objecttree.SignableChangeContent{
			Data:       []byte(fmt.Sprintf("payload-%d-%d-%d", i, w.seqNo, salt)),
			Key:        w.site.keys.SignKey,
			IsSnapshot: snapshot,
			Timestamp:  1700000000 + int64(w.seqNo),
			DataType:   "verif",
		}
	}
	salt := 0
	if w.idWanted != nil {
		// guard-directed id order (heads are sorted by id): try payloads until the change id the
		// real builder would produce (ObjectTree.PrepareChange) is the kind the scenario wants
		pred := w.idWanted
		w.idWanted = nil
		for ; salt < 400; salt++ {
			rep.tree.Lock()
			raw, e := rep.tree.PrepareChange(content(salt))
			rep.tree.Unlock()
			if e != nil || pred(raw.Id) {
				break
			}
		}
	}
	var res objecttree.AddResult
	err = w.recovering("AddContent", func() error {
		rep.tree.Lock()
		defer rep.tree.Unlock()
		var e error
		res, e = rep.tree.AddContent(context.Background(), content(salt))
		return e
	})
	if err != nil {
		return -1, err
	}
	if len(res.Added) != 1 {
		return -1, fmt.Errorf("AddContent added %d changes", len(res.Added))
	}
	sc := res.Added[0]
	id = len(w.chs)
	w.ids[sc.Id] = id
	info := &changeInfo{id: id, real: sc.Id, isSnap: snapshot, snap: -1}
	for _, p := range sc.PrevIds {
		if _, ok := w.ids[p]; !ok {
			w.internAs([]string{p}, fmt.Sprintf("a new local change of replica %d, as its parent,", i))
			continue
		}
		info.parents = append(info.parents, w.ids[p])
	}
	sort.Ints(info.parents)
	if sid, ok := w.ids[sc.SnapshotId]; ok {
		info.snap = sid
	}
	w.chs = append(w.chs, info)
	return id, nil
}

func (w *world) deliver(m *message) (err error) {
	rep := w.reps[m.to]
	ctx := peer.CtxWithPeerId(context.Background(), peerName(m.from))
	payload := append([]byte(nil), m.payload...)
	switch m.k {
	case kHU:
		var req syncdeps.Request
		err = w.recovering("HandleHeadUpdate", func() error {
			var e error
			req, e = rep.tree.HandleHeadUpdate(ctx, syncstatus.NewNoOpSyncStatus(), &objectmessages.HeadUpdate{
				Meta:  objectmessages.ObjectMeta{PeerId: peerName(m.from), ObjectId: w.treeId, SpaceId: spaceId},
				Bytes: payload,
			})
			return e
		})
		if req != nil {
			// what syncService.handleIncomingMessage does with the returned request
			if e := w.emitRequest(m.to, req); e != nil {
				w.r.Fatal(e.Error())
			}
		}
	case kReq:
		var ret syncdeps.Request
		err = w.recovering("HandleStreamRequest", func() error {
			var e error
			ret, e = rep.tree.HandleStreamRequest(ctx,
				objectmessages.NewByteRequest(peerName(m.from), spaceId, w.treeId, payload),
				nopUpdater{},
				func(resp proto.Message) error {
					osm, ok := resp.(*spacesyncproto.ObjectSyncMessage)
					if !ok {
						return fmt.Errorf("verif: unexpected response proto %T", resp)
					}
					w.emit(kResp, m.to, m.from, osm.Payload)
					return nil
				})
			return e
		})
		if ret != nil {
			// requestManager.HandleStreamRequest queues the returned request even on error
			if e := w.emitRequest(m.to, ret); e != nil {
				w.r.Fatal(e.Error())
			}
		}
	case kResp:
		err = w.recovering("HandleResponse", func() error {
			resp := &response.Response{}
			if e := resp.SetProtoMessage(&spacesyncproto.ObjectSyncMessage{SpaceId: spaceId, ObjectId: w.treeId, Payload: payload}); e != nil {
				return e
			}
			return rep.tree.HandleResponse(ctx, peerName(m.from), w.treeId, resp)
		})
	}
	return err
}

type nopUpdater struct{}

func (nopUpdater) UpdateQueueSize(size uint64, msgType int, add bool) {}

// syncWith is SyncTree.SyncWithPeer (the head-sync / anti-entropy entry point).
func (w *world) syncWith(i, j int) error {
	return w.recovering("SyncWithPeer", func() error {
		return w.reps[i].tree.SyncWithPeer(context.Background(), fakePeer{id: peerName(j)})
	})
}

type fakePeer struct {
	peer.Peer
	id string
}

func (f fakePeer) Id() string { return f.id }
