package sync

import (
	"fmt"
	"os"
	"runtime/pprof"
	"strings"
	"time"

	"verifharness/internal/corr"
)

var tObserve, tModel time.Duration

// violations counts property violations found by the direct oracle in this run; the search stops at
// the first one. Disagreements (model ≠ code) do not stop it: at most maxDisagreements are recorded,
// the schedule goes on without the model (which is out of step from there on) and the direct
// oracle — in particular the convergence oracle after the anti-entropy phase — still decides.
var violations, disagreements int

const maxDisagreements = 3

// check compares one model answer with the implementation's observation.
func (w *world) check(stream, model, impl string) {
	if model == impl {
		return
	}
	w.disagreed, w.nomodel = true, true
	disagreements++
	if disagreements <= maxDisagreements {
		w.r.Check("C01", stream, append([]string(nil), w.ops...), model, impl)
	} else {
		w.r.Count("disagreements.not-recorded")
	}
}

func init() { corr.RegisterArea("sync", Run) }

// ---- one scheduler step = real code + model + oracle ------------------------------------------

func (w *world) wires() string {
	if len(w.emitted) == 0 {
		return ""
	}
	p := make([]string, len(w.emitted))
	for i, m := range w.emitted {
		p[i] = fmt.Sprintf("%d:%s", m.mid, m.wire())
	}
	return " " + strings.Join(p, " ")
}

// resolution is what the abstract protocol leaves open and the real code decided in this step:
// was a head update broadcast, was a request emitted, which response batches were sent.
func (w *world) resolution(root int) string {
	bh, bq := 0, 0
	var batches []string
	for _, m := range w.emitted {
		switch m.k {
		case kHU:
			bh = 1
		case kReq:
			bq = 1
		case kResp:
			batches = append(batches, ints(m.heads)+"/"+ints(m.changes))
		}
	}
	s := fmt.Sprintf(" %d %d %d", bh, bq, root)
	if len(batches) > 0 {
		s += " " + strings.Join(batches, " ")
	}
	return s
}

// after runs the model on the op, observes the acting replica and evaluates the direct oracle.
func (w *world) after(op string, actor int, stream string) {
	w.resolveEmitted()
	t0 := time.Now()
	o, err := w.observe(actor)
	tObserve += time.Since(t0)
	if err != nil {
		w.r.Fatal("observe: " + err.Error())
	}
	line := op
	if strings.HasPrefix(op, "dlv ") {
		// what the abstract protocol leaves open: broadcast / request / batches, and where the
		// receiver's in-memory root went
		line += w.resolution(o.root)
	}
	w.ops = append(w.ops, line)
	w.directOracle(actor, o)
	if !w.nomodel {
		t1 := time.Now()
		ans := w.r.Ask(line)
		tModel += time.Since(t1)
		impl := o.line()
		if ws := w.wires(); ws != "" {
			impl += " |" + ws
		}
		w.check(stream, ans, impl)
	}
	for _, m := range w.emitted {
		w.r.Count("emit." + string(rune(m.k)))
		if m.k == kHU && len(m.changes) == 0 {
			w.r.Count("emit.H.empty")
		}
		if m.k == kResp && len(m.changes) == 0 {
			w.r.Count("emit.R.empty")
		}
	}
	w.emitted = nil
}

// directOracle states the safety half of C01 on what replica `actor` holds and has just emitted
// (needs no model): stored set closed under parents and snapshot base; advertised ids stored; every
// change attached in memory is stored; tree heads = maximal elements of the stored set = durable
// heads entry (= heads of a tree rebuilt from storage, checked in the guard-directed scenarios after
// every step, elsewhere every few steps and at the end).
func (w *world) directOracle(actor int, o obs) {
	if d := w.closureDefect(o); d != "" {
		w.violate("sync.closure", fmt.Sprintf("replica %d %s", actor, d))
	}
	for _, m := range w.emitted {
		if d := w.advertisedDefect(o, m); d != "" {
			w.violate("sync.advertised", d)
		}
	}
	if ints(o.heads) != ints(o.entry) {
		w.violate("sync.headsentry", fmt.Sprintf("replica %d: tree heads %s but durable heads entry %s", actor, ints(o.heads), ints(o.entry)))
	}
	if mx := w.maximal(o.stored); ints(mx) != ints(o.heads) {
		w.violate("sync.heads.maximal", fmt.Sprintf("replica %d: heads %s, but the maximal elements of what it stores {%s} are %s", actor, ints(o.heads), ints(o.stored), ints(mx)))
	}
	if d := w.attachedDefect(actor, o); d != "" {
		w.violate("sync.attached", d)
	}
	w.stepNo++
	if w.deep || w.stepNo%8 == 0 {
		if rh, err := w.reopenHeads(actor); err != nil {
			w.violate("sync.reopen", fmt.Sprintf("replica %d: cannot rebuild the tree from its storage: %v", actor, err))
		} else if ints(rh) != ints(o.heads) {
			w.violate("sync.reopen", fmt.Sprintf("replica %d: heads %s in memory but %s when rebuilt from storage", actor, ints(o.heads), ints(rh)))
		}
	}
}

// settleFault: a step whose storage write was failed by the harness must leave the replica as it
// was (no change stored, none attached, nothing emitted): the model drops the message (if any) and
// lets the replica rebuild from storage (only the root may move).
func (w *world) settleFault(actor int, mid int, stream string) {
	w.resolveEmitted()
	o, err := w.observe(actor)
	if err != nil {
		w.r.Fatal("observe: " + err.Error())
	}
	if mid >= 0 {
		line := fmt.Sprintf("drop %d", mid)
		w.ops = append(w.ops, "# storage fault during the delivery of the next dropped message", line)
		if !w.nomodel {
			w.check(stream, w.r.Ask(line), "ok")
		}
	}
	line := fmt.Sprintf("reroot %d %d", actor, o.root)
	w.ops = append(w.ops, line)
	w.directOracle(actor, o)
	if !w.nomodel {
		impl := o.line()
		if ws := w.wires(); ws != "" {
			impl += " |" + ws
		}
		w.check(stream, w.r.Ask(line), impl)
	}
	w.emitted = nil
}

// stepDeliverFault delivers m while the k-th write-side storage call of the receiver fails.
// It returns false when the step made fewer than k+1 such calls (then it was an ordinary delivery).
func (w *world) stepDeliverFault(m *message, k int) bool {
	w.emitted = nil
	w.take(m)
	var err error
	w.curDepth = m.depth
	fired, kind, _ := w.faulty(m.to, k, func() { err = w.deliver(m) })
	w.curDepth = 0
	if !fired {
		w.r.Count("op.deliver." + string(rune(m.k)))
		w.after(fmt.Sprintf("dlv %d", m.mid), m.to, "sync.deliver."+string(rune(m.k)))
		return false
	}
	w.r.Count("op.fault.deliver." + string(rune(m.k)) + "." + kind)
	if err == nil {
		w.r.Count("fault.swallowed")
	}
	w.settleFault(m.to, m.mid, "sync.fault.deliver")
	return true
}

// stepAddFault is a local AddContent while the k-th write-side storage call fails.
func (w *world) stepAddFault(i int, snap bool, k int) bool {
	w.emitted = nil
	var (
		id  int
		err error
	)
	fired, kind, _ := w.faulty(i, k, func() { id, err = w.localAdd(i, snap) })
	if err == nil {
		// the change exists (the fault did not fire, or hit something the add survives)
		if fired {
			w.r.Count("fault.swallowed")
		}
		info := w.chs[id]
		sn := 0
		if snap {
			sn = 1
		}
		w.after(fmt.Sprintf("add %d %d %s %d %d", i, id, ints(info.parents), sn, info.snap), i, "sync.add")
		return fired
	}
	if !fired {
		w.violate("sync.localadd", fmt.Sprintf("AddContent on replica %d failed: %v", i, err))
		return false
	}
	w.r.Count("op.fault.add." + kind)
	w.settleFault(i, -1, "sync.fault.add")
	return true
}

func (w *world) begin() {
	w.ops = append(w.ops[:0], fmt.Sprintf("new %d", w.n))
	if !w.nomodel {
		if ans := w.r.Ask(w.ops[0]); ans != "ok" {
			w.r.Fatal("model refused `" + w.ops[0] + "`: " + ans)
		}
	}
}

func (w *world) stepAdd(i int, snap bool) {
	w.emitted = nil
	id, err := w.localAdd(i, snap)
	if err != nil {
		w.r.Count("err.add." + errKind(err))
		w.violate("sync.localadd", fmt.Sprintf("AddContent on replica %d failed: %v", i, err))
		return
	}
	if snap {
		w.r.Count("op.snapshot")
	} else {
		w.r.Count("op.add")
	}
	info := w.chs[id]
	sn := 0
	if snap {
		sn = 1
	}
	w.after(fmt.Sprintf("add %d %d %s %d %d", i, id, ints(info.parents), sn, info.snap), i, "sync.add")
}

func (w *world) take(m *message) {
	for k, x := range w.net {
		if x == m {
			w.net = append(w.net[:k], w.net[k+1:]...)
			return
		}
	}
	w.r.Fatal("message not in flight")
}

func (w *world) stepDeliver(m *message) {
	w.emitted = nil
	w.take(m)
	w.curDepth = m.depth
	err := w.deliver(m)
	w.curDepth = 0
	w.r.Count("op.deliver." + string(rune(m.k)))
	if err != nil {
		w.r.Count("err.deliver." + string(rune(m.k)) + "." + errKind(err))
	}
	w.after(fmt.Sprintf("dlv %d", m.mid), m.to, "sync.deliver."+string(rune(m.k)))
}

func (w *world) stepDrop(m *message) {
	w.take(m)
	w.r.Count("op.drop")
	line := fmt.Sprintf("drop %d", m.mid)
	w.ops = append(w.ops, line)
	if !w.nomodel {
		w.check("sync.drop", w.r.Ask(line), "ok")
	}
}

func (w *world) stepDup(m *message) {
	c := *m
	c.mid = w.nextM
	c.held = 0
	w.nextM++
	w.net = append(w.net, &c)
	w.r.Count("op.dup")
	line := fmt.Sprintf("dup %d %d", m.mid, c.mid)
	w.ops = append(w.ops, line)
	if !w.nomodel {
		w.check("sync.dup", w.r.Ask(line), "ok")
	}
}

func (w *world) stepSync(i, j int) {
	w.emitted = nil
	if err := w.syncWith(i, j); err != nil {
		w.violate("sync.syncwith", fmt.Sprintf("SyncWithPeer %d->%d failed: %v", i, j, err))
		return
	}
	w.r.Count("op.sync")
	w.after(fmt.Sprintf("sync %d %d", i, j), i, "sync.sync")
}

// ---- anti-entropy phase ----------------------------------------------------------------------

const maxDrain = 1500

// between returns the oldest in-flight message exchanged between i and j (either direction).
func (w *world) between(i, j int) *message {
	for _, m := range w.net {
		if (m.from == i && m.to == j) || (m.from == j && m.to == i) {
			return m
		}
	}
	return nil
}

// exchange is one complete anti-entropy exchange started by i towards j: request, all response
// batches, counter-request, its responses, ... until nothing is in flight between the two
// (this includes head updates earlier exchanges left in flight between them, and whatever those
// trigger). The unchanged code gets there within a few dozen deliveries; if the two keep asking
// each other (a responder that never satisfies the requester), the exchange is cut after
// maxExchange deliveries, what is left between the two is dropped, and the final oracle decides.
func (w *world) exchange(i, j int) bool {
	// causal depth is counted from the start of the exchange
	for _, m := range w.net {
		if (m.from == i && m.to == j) || (m.from == j && m.to == i) {
			m.depth = 0
		}
	}
	w.stepSync(i, j)
	for n := 0; !w.failed; n++ {
		m := w.between(i, j)
		if m == nil {
			return true
		}
		if n >= maxExchange {
			// absolute safety cap: the exchange is merely long (many duplicates, one-change
			// batches): the phase did not complete and the convergence oracle must not judge
			w.r.Count("exchange.unfinished")
			w.unjudged = true
			for m := w.between(i, j); m != nil && !w.failed; m = w.between(i, j) {
				w.stepDrop(m)
			}
			return !w.failed
		}
		if m.depth > w.maxDepthSeen {
			w.maxDepthSeen = m.depth
		}
		if m.depth > maxChain {
			// the two keep answering each other: request -> responses -> counter-request -> ... .
			// In the protocol such a chain ends after three requests (heads are equal by then);
			// a chain this long never ends. Cut it, drop the rest, and let the oracle decide.
			w.r.Count("exchange.cut")
			for m := w.between(i, j); m != nil && !w.failed; m = w.between(i, j) {
				w.stepDrop(m)
			}
			return !w.failed
		}
		w.stepDeliver(m)
	}
	return false
}

// maxChain: longest causal chain of deliveries inside one exchange before it is declared endless
// (sync request, responses, applied -> forwarded update, counter-request, ...: the unchanged code
// stays below 10). maxExchange: absolute cap on the deliveries of one exchange (not judged).
const (
	maxChain    = 24
	maxExchange = 30000
)

// drain empties the network: mode 0 drops everything, 1 delivers everything (FIFO) until
// quiescent, 2 decides per message. After maxDrain deliveries the rest is dropped.
func (w *world) drain(mode int) bool {
	for n := 0; len(w.net) > 0; n++ {
		if n == maxDrain {
			w.r.Count("drain.cut")
		}
		m := w.net[0]
		switch {
		case mode == 0, n >= maxDrain, mode == 2 && w.r.Chance(40):
			w.stepDrop(m)
		default:
			w.stepDeliver(m)
		}
		if w.failed {
			return false
		}
	}
	return true
}

func (w *world) finalState() (sets, heads, roots []string) {
	for i := range w.reps {
		o, err := w.observe(i)
		if err != nil {
			w.r.Fatal("observe: " + err.Error())
		}
		if d := w.closureDefect(o); d != "" {
			w.violate("sync.closure", fmt.Sprintf("replica %d %s", i, d))
		}
		sets = append(sets, ints(o.stored))
		heads = append(heads, ints(o.heads))
		roots = append(roots, fmt.Sprint(o.root))
		// a fresh tree built from what the replica persisted must show the same heads
		if rh, err := w.reopenHeads(i); err != nil {
			w.violate("sync.reopen", fmt.Sprintf("replica %d: cannot rebuild the tree from its storage: %v", i, err))
		} else if ints(rh) != ints(o.heads) {
			w.violate("sync.reopen", fmt.Sprintf("replica %d: heads %s in memory but %s when rebuilt from storage", i, ints(o.heads), ints(rh)))
		}
	}
	return
}

// antiEntropy runs the fair phase and then states the convergence half of C01 directly.
func (w *world) antiEntropy(rounds int) {
	if w.failed {
		return
	}
	if !w.drain(w.r.Intn(3)) {
		return
	}
	if w.phase != nil {
		w.r.Count("phase.fixed")
		for _, p := range w.phase {
			if !w.exchange(p[0], p[1]) {
				return
			}
		}
		rounds = 0
	}
	for round := 0; round < rounds; round++ {
		var pairs [][2]int
		for i := 0; i < w.n; i++ {
			for j := i + 1; j < w.n; j++ {
				if w.r.Chance(50) {
					pairs = append(pairs, [2]int{i, j})
				} else {
					pairs = append(pairs, [2]int{j, i})
				}
			}
		}
		w.r.Rand.Shuffle(len(pairs), func(a, b int) { pairs[a], pairs[b] = pairs[b], pairs[a] })
		for _, p := range pairs {
			if !w.exchange(p[0], p[1]) {
				return
			}
		}
	}
	// whatever the exchanges broadcast to third parties: any fate (lost, when the phase is fixed:
	// the scenario wants exactly these exchanges and nothing else)
	mode := w.r.Intn(3)
	if w.phase != nil {
		mode = 0
	}
	if !w.drain(mode) {
		return
	}
	sets, heads, roots := w.finalState()
	if w.failed {
		return
	}
	if w.unjudged {
		w.r.Count("phase.unjudged")
		return
	}
	for i := 1; i < w.n; i++ {
		if sets[i] != sets[0] {
			w.violate("sync.converge.sets", fmt.Sprintf("after the anti-entropy phase replica 0 stores {%s} but replica %d stores {%s}", sets[0], i, sets[i]))
			return
		}
		if heads[i] != heads[0] {
			w.violate("sync.converge.heads", fmt.Sprintf("after the anti-entropy phase replica 0 has heads {%s} but replica %d has {%s}", heads[0], i, heads[i]))
			return
		}
	}
	if want := ints(seq(len(w.chs))); sets[0] != want {
		// every change ever created was held by its creator when the phase started
		w.violate("sync.converge.lost", fmt.Sprintf("after the anti-entropy phase the replicas store {%s}, created were {%s}", sets[0], want))
		return
	}
	if !w.nomodel {
		var parts []string
		for i := range sets {
			parts = append(parts, sets[i]+" "+heads[i]+" @"+roots[i])
		}
		w.ops = append(w.ops, "state")
		w.check("sync.final", w.r.Ask("state"), "ok "+strings.Join(parts, " ; "))
	}
	w.r.Count("converged")
}

func seq(n int) []int {
	l := make([]int, n)
	for i := range l {
		l[i] = i
	}
	return l
}

// ---- schedules -------------------------------------------------------------------------------

type weights struct{ deliver, add, snap, drop, dup, delay, sync, fault int }

func (w *world) pickMsg() *message {
	var free []*message
	for _, m := range w.net {
		if m.held == 0 {
			free = append(free, m)
		}
	}
	if len(free) == 0 {
		if len(w.net) == 0 {
			return nil
		}
		free = w.net
	}
	if w.r.Chance(50) {
		return free[0] // oldest first: the usual case
	}
	return free[w.r.Intn(len(free))]
}

func (w *world) randomSchedule(steps int, wt weights) {
	total := wt.deliver + wt.add + wt.snap + wt.drop + wt.dup + wt.delay + wt.sync + wt.fault
	for s := 0; s < steps && !w.failed; s++ {
		for _, m := range w.net {
			if m.held > 0 {
				m.held--
			}
		}
		x := w.r.Intn(total)
		switch {
		case x < wt.deliver:
			if m := w.pickMsg(); m != nil {
				w.stepDeliver(m)
			} else {
				w.stepAdd(w.r.Intn(w.n), false)
			}
		case x < wt.deliver+wt.add:
			w.stepAdd(w.r.Intn(w.n), false)
		case x < wt.deliver+wt.add+wt.snap:
			w.stepAdd(w.r.Intn(w.n), true)
		case x < wt.deliver+wt.add+wt.snap+wt.drop:
			if m := w.pickMsg(); m != nil {
				w.stepDrop(m)
			}
		case x < wt.deliver+wt.add+wt.snap+wt.drop+wt.dup:
			if m := w.pickMsg(); m != nil {
				w.stepDup(m)
			}
		case x < wt.deliver+wt.add+wt.snap+wt.drop+wt.dup+wt.delay:
			if m := w.pickMsg(); m != nil {
				m.held = 3 + w.r.Intn(25)
				w.r.Count("op.delay")
			}
		case x < wt.deliver+wt.add+wt.snap+wt.drop+wt.dup+wt.delay+wt.sync:
			i := w.r.Intn(w.n)
			j := (i + 1 + w.r.Intn(w.n-1)) % w.n
			w.stepSync(i, j)
		default:
			// a storage fault inside the schedule: some write call of a delivery or of a local add fails
			k := w.r.Intn(7)
			if m := w.pickMsg(); m != nil && w.r.Chance(70) {
				w.stepDeliverFault(m, k)
			} else {
				w.stepAddFault(w.r.Intn(w.n), w.r.Chance(25), k)
			}
		}
	}
}

func (w *world) summary() {
	snaps, merges := 0, 0
	for _, c := range w.chs {
		if c.isSnap {
			snaps++
		}
		if len(c.parents) > 1 {
			merges++
		}
	}
	w.r.Count(fmt.Sprintf("replicas.%d", w.n))
	w.r.Count(fmt.Sprintf("exchange.maxchain.%02d", w.maxDepthSeen))
	w.r.CountN("changes.total", len(w.chs)-1)
	w.r.CountN("changes.snapshots", snaps-1)
	w.r.CountN("changes.merges", merges)
	nontrivial := len(w.chs) >= 4 && merges+snaps > 1
	w.r.Case(strings.Join(w.ops, "\n"), nontrivial)
	if nontrivial && len(w.ops) < 60 {
		w.r.Sample(map[string]any{"replicas": w.n, "ops": append([]string(nil), w.ops...)})
	}
}

// Run is the area driver: guard-directed scenarios, random schedules, and (thorough) the
// exhaustive short schedules for two replicas.
func Run(r *corr.Run) {
	if pf := os.Getenv("VERIF_SYNC_PPROF"); pf != "" {
		f, _ := os.Create(pf)
		pprof.StartCPUProfile(f)
		defer pprof.StopCPUProfile()
	}
	r.SetRule("a schedule counts as non-trivial when it created >= 3 changes and at least two merges/snapshots; distinctness is by the full op trace")
	s, err := newSite(r, 4)
	if err != nil {
		r.Fatal("cannot create any-store site: " + err.Error())
	}
	defer s.close()

	run := func(n int, batch int, body func(w *world)) bool {
		w, err := newWorld(r, s, n, batch)
		if err != nil {
			r.Fatal("cannot build replicas: " + err.Error())
		}
		w.nomodel = os.Getenv("VERIF_SYNC_NOMODEL") != "" || disagreements >= maxDisagreements+20
		w.begin()
		body(w)
		if w.abort {
			return true
		}
		rounds := 1 + r.Intn(2)
		w.antiEntropy(rounds)
		w.summary()
		return !w.failed
	}

	// 1. guard-directed scenarios (fixed shapes, every seed), then the stale-fork family (quick: a
	// seed-dependent sixth of it)
	all := scenarios()
	all = append(all, manyHeadsFamily()...)
	all = append(all, laggingRootFamily()...)
	for _, sc := range staleForkFamily(r) {
		if r.Quick() && r.Intn(6) != 0 {
			continue
		}
		all = append(all, sc)
	}
	// storage faults: every write call of the last step of each base schedule
	for _, mk := range faultFamily() {
		for k := 0; k < 40 && violations == 0; k++ {
			sc := mk(k)
			var fired bool
			run(sc.n, sc.batch, func(w *world) { sc.body(w); fired = w.faultFired })
			r.Count("scenario.fault")
			if !fired {
				break
			}
		}
		if violations > 0 {
			return
		}
	}
	for _, sc := range all {
		sc := sc
		t0 := time.Now()
		run(sc.n, sc.batch, sc.body)
		if os.Getenv("VERIF_SYNC_STACK") != "" {
			fmt.Fprintf(os.Stderr, "scenario %q: %v steps=%d observe=%v model=%v\n", sc.name, time.Since(t0), r.Res.ModelSteps, tObserve, tModel)
		}
		r.Count("scenario")
		if violations > 0 {
			return
		}
	}

	// 2. random schedules
	profiles := []weights{
		{deliver: 50, add: 20, snap: 5, drop: 10, dup: 10, delay: 5, sync: 2, fault: 3},
		{deliver: 35, add: 25, snap: 10, drop: 15, dup: 5, delay: 10, sync: 3, fault: 4},
		{deliver: 60, add: 15, snap: 3, drop: 3, dup: 15, delay: 4, sync: 1, fault: 2},
		{deliver: 25, add: 30, snap: 8, drop: 30, dup: 2, delay: 5, sync: 5, fault: 5},
	}
	maxSched := r.Pick(400, 20000)
	// thorough: half of the budget for random schedules, the rest for the exhaustive ones
	randomUntil := r.Deadline
	if !r.Quick() {
		randomUntil = time.Now().Add(time.Until(r.Deadline) / 2)
	}
	for k := 0; k < maxSched && time.Now().Before(randomUntil) && violations == 0; k++ {
		n := 2 + r.Intn(3)
		steps := 8 + r.Intn(r.Pick(55, 120))
		batch := 0
		if r.Chance(40) {
			batch = []int{1, 300, 700, 1500}[r.Intn(4)]
			r.Count("schedule.smallbatch")
		}
		wt := profiles[r.Intn(len(profiles))]
		run(n, batch, func(w *world) { w.randomSchedule(steps, wt) })
		r.Count("schedule.random")
	}

	// 3. exhaustive short schedules, two replicas (thorough)
	if !r.Quick() && violations == 0 {
		exhaustive(r, run)
	}
}
