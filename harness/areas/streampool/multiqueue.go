package streampool

import (
	"context"
	"errors"
	"fmt"
	"sync"
	"time"

	"github.com/cheggaaa/mb/v3"

	"github.com/anyproto/any-sync/util/multiqueue"

	"verifharness/internal/corr"
)

// The receive side named by C19's anchors (util/multiqueue, used by commonspace/sync.HandleMessage)
// follows the same pattern: one bounded mb queue and one worker per thread id, non-blocking Add.
// It is checked by a direct oracle only (no model): Add never blocks while a handler is stuck, a
// thread buffers at most its size (+ the message being handled) and drops beyond that with
// ErrOverflowed, messages of a thread are handled in acceptance order, a stuck thread does not delay
// another thread, closed threads / queues are not targeted.

type mqMsg struct {
	thread string
	id     int
}

func (m mqMsg) MsgSize() uint64 { return 1 }

type mqUpdater struct{}

func (mqUpdater) UpdateQueueSize(size uint64, msgType int, add bool) {}

type mqWorld struct {
	mu      sync.Mutex
	gated   map[string]bool
	gates   map[string]chan struct{}
	handled map[string][]int // handler entered
	done    map[string][]int // handler returned
	stop    chan struct{}
}

func (w *mqWorld) handle(m mqMsg) {
	w.mu.Lock()
	w.handled[m.thread] = append(w.handled[m.thread], m.id)
	var g chan struct{}
	if w.gated[m.thread] {
		g = make(chan struct{})
		w.gates[m.thread] = g
	}
	w.mu.Unlock()
	if g != nil {
		select {
		case <-g:
		case <-w.stop:
		}
	}
	w.mu.Lock()
	w.done[m.thread] = append(w.done[m.thread], m.id)
	w.mu.Unlock()
}

func (w *mqWorld) waitHandled(thread string, n int) bool {
	deadline := time.Now().Add(awaitTimeout)
	for {
		w.mu.Lock()
		ok := len(w.handled[thread]) >= n
		w.mu.Unlock()
		if ok {
			return true
		}
		if time.Now().After(deadline) {
			return false
		}
		time.Sleep(50 * time.Microsecond)
	}
}

func (w *mqWorld) release(thread string) {
	w.mu.Lock()
	if g := w.gates[thread]; g != nil {
		close(g)
		w.gates[thread] = nil
	}
	w.mu.Unlock()
}

func callErr(fn func() error) (error, bool) {
	done := make(chan error, 1)
	go func() { done <- fn() }()
	select {
	case e := <-done:
		return e, true
	case <-time.After(hangTimeout):
		return nil, false
	}
}

func multiqueueCase(r *corr.Run, size int) {
	w := &mqWorld{gated: map[string]bool{"A": true}, gates: map[string]chan struct{}{}, handled: map[string][]int{}, done: map[string][]int{}, stop: make(chan struct{})}
	defer close(w.stop)
	q := multiqueue.New[mqMsg](w.handle, mqUpdater{}, 0, size)
	var ops []string
	bad := func(desc string) {
		r.Violate("C19", "", "multiqueue.oracle", desc, append([]string{fmt.Sprintf("multiqueue size=%d", size)}, ops...))
	}
	add := func(thread string, id int) (error, bool) {
		ops = append(ops, fmt.Sprintf("add %s %d", thread, id))
		e, ok := callErr(func() error { return q.Add(context.Background(), thread, mqMsg{thread, id}) })
		if !ok {
			bad(fmt.Sprintf("Add(%s,%d) did not return within %v while the handler of thread A is stuck", thread, id, hangTimeout))
		}
		return e, ok
	}
	id := 0
	// thread A: the first message reaches the (stuck) handler, `size` more are buffered, the rest dropped
	id++
	if e, ok := add("A", id); !ok || e != nil {
		if ok {
			bad(fmt.Sprintf("first Add returned %v", e))
		}
		return
	}
	if !w.waitHandled("A", 1) {
		bad("the first message of thread A never reached the handler")
		return
	}
	wantA := []int{1}
	for i := 0; i < size+3; i++ {
		id++
		e, ok := add("A", id)
		if !ok {
			return
		}
		if i < size {
			wantA = append(wantA, id)
			if e != nil {
				bad(fmt.Sprintf("Add %d to thread A dropped (%v) with %d of %d buffered", id, e, i, size))
				return
			}
		} else if !errors.Is(e, mb.ErrOverflowed) {
			bad(fmt.Sprintf("Add %d to the full thread A (size %d) returned %v, want ErrOverflowed", id, size, e))
			return
		}
		// a healthy thread is served at once although A is stuck
		id++
		if e, ok := add("B", id); !ok || e != nil {
			if ok {
				bad(fmt.Sprintf("Add to healthy thread B returned %v while A is stuck", e))
			}
			return
		}
		w.mu.Lock()
		nB := 0
		for _, op := range ops {
			if len(op) > 5 && op[:5] == "add B" {
				nB++
			}
		}
		w.mu.Unlock()
		if !w.waitHandled("B", nB) {
			bad("a message of healthy thread B was not handled while thread A is stuck")
			return
		}
	}
	// release A message by message: acceptance order
	for i := range wantA {
		if !w.waitHandled("A", i+1) {
			bad(fmt.Sprintf("thread A: message %d of the accepted ones never reached the handler", i+1))
			return
		}
		w.release("A")
		deadline := time.Now().Add(awaitTimeout)
		for {
			w.mu.Lock()
			n := len(w.done["A"])
			w.mu.Unlock()
			if n >= i+1 || time.Now().After(deadline) {
				break
			}
			time.Sleep(50 * time.Microsecond)
		}
	}
	time.Sleep(2 * time.Millisecond)
	w.mu.Lock()
	gotA := append([]int{}, w.handled["A"]...)
	w.mu.Unlock()
	if fmt.Sprint(gotA) != fmt.Sprint(wantA) {
		bad(fmt.Sprintf("thread A handled %v, accepted (in order) %v", gotA, wantA))
		return
	}
	// closed thread / closed queue are not targeted
	ops = append(ops, "closethread A")
	if e := q.CloseThread("A"); e != nil {
		bad(fmt.Sprintf("CloseThread(A) = %v", e))
	}
	if e := q.CloseThread("A"); !errors.Is(e, multiqueue.ErrThreadNotExists) {
		bad(fmt.Sprintf("second CloseThread(A) = %v, want ErrThreadNotExists", e))
	}
	ops = append(ops, "close")
	_ = q.Close()
	id++
	if e, ok := add("B", id); ok && !errors.Is(e, multiqueue.ErrClosed) {
		bad(fmt.Sprintf("Add after Close returned %v, want ErrClosed", e))
	}
	r.Count("multiqueue.case")
}
