package streampool

import (
	"context"
	"fmt"
	"time"

	"github.com/anyproto/any-sync/net/peer"

	"verifharness/internal/corr"
)

// Peers whose stream OPENING hangs (connection accepted, then silence; the handler's OpenStream does
// not look at the context). A Send to such a peer occupies a dial worker — but only until the send
// context is done: the pool waits for the pending opening OR the context. Direct oracle (no model):
// issue at least DialQueueWorkers sends to hanging peers, let their contexts end (cancel / deadline),
// then a Send to a HEALTHY peer must be accepted and delivered (generous hang detector), and a Send
// that lists a hanging peer first and a healthy one second must still reach the healthy one once its
// context is done. This is the "never delays delivery to other peers" half of C19 for the dial pool:
// delay by a stuck opening is bounded by the sender's own context.
func openHangCase(r *corr.Run, workers int, samePeer bool, viaDeadline bool) {
	w := newWorld(workers, workers+4, 1, 0)
	defer w.finish()
	var ops []string
	bad := func(desc string) {
		r.Violate("C19", "", "streampool.oracle.dialdelay", desc,
			append([]string{fmt.Sprintf("openhang workers=%d samePeer=%v deadline=%v", workers, samePeer, viaDeadline)}, ops...))
	}
	// one healthy stream of peer 1
	healthy := w.newFake(1, 4, false, 0, true)
	if res := w.call(func() string {
		if err := w.pool.AddStream(healthy, 4, "t0"); err != nil {
			return "err"
		}
		return "ok"
	}); res != "ok" {
		bad("AddStream of the healthy stream: " + res)
		return
	}
	ops = append(ops, "add healthy stream of peer 1")
	getterFor := func(peers ...int) func(ctx context.Context) ([]peer.Peer, error) {
		return func(ctx context.Context) ([]peer.Peer, error) {
			var ps []peer.Peer
			for _, p := range peers {
				ps = append(ps, &fakePeer{id: p})
			}
			return ps, nil
		}
	}
	w.mu.Lock()
	w.hangOpen = map[int]bool{}
	for i := 0; i < workers; i++ {
		w.hangOpen[10+i] = true
	}
	w.mu.Unlock()
	// `workers` sends to hanging peers, each with its own context; the last one also lists the healthy peer
	var cancels []context.CancelFunc
	var ctxs []context.Context
	msg := 100
	for i := 0; i < workers; i++ {
		var ctx context.Context
		var cancel context.CancelFunc
		if viaDeadline {
			ctx, cancel = context.WithTimeout(context.Background(), 40*time.Millisecond)
		} else {
			ctx, cancel = context.WithCancel(context.Background())
		}
		cancels = append(cancels, cancel)
		ctxs = append(ctxs, ctx)
		target := 10 + i
		if samePeer {
			target = 10 // all wait for the same pending opening
		}
		peers := []int{target}
		if i == workers-1 {
			peers = []int{target, 1}
		}
		msg++
		m := &plainMsg{id: msg}
		ops = append(ops, fmt.Sprintf("send %d to hanging peer(s) %v with a context that ends", msg, peers))
		g := getterFor(peers...)
		if res := w.call(func() string {
			if err := w.pool.Send(ctx, m, g); err != nil {
				return "err:" + err.Error()
			}
			return "ok"
		}); res != "ok" {
			bad(fmt.Sprintf("Send %d returned %s", msg, res))
			return
		}
	}
	lastStuckMsg := msg
	// wait until the opening(s) are really pending (the workers are inside getStreams)
	need := workers
	if samePeer {
		need = 1
	}
	deadline := time.Now().Add(awaitTimeout)
	for {
		w.mu.Lock()
		n := len(w.hangSeen)
		w.mu.Unlock()
		if n >= need {
			break
		}
		if time.Now().After(deadline) {
			bad("the handler's OpenStream was never called for the hanging peers")
			return
		}
		time.Sleep(100 * time.Microsecond)
	}
	// the senders give up: contexts end
	for i, c := range cancels {
		if !viaDeadline {
			c()
		}
		<-ctxs[i].Done()
	}
	defer func() {
		for _, c := range cancels {
			c()
		}
	}()
	ops = append(ops, "the contexts of all sends to hanging peers are done")
	arrived := func(id int) bool {
		w.mu.Lock()
		defer w.mu.Unlock()
		for _, a := range healthy.arrived {
			if a.msg == id {
				return true
			}
		}
		return false
	}
	waitArrived := func(id int) bool {
		dl := time.Now().Add(awaitTimeout)
		for !arrived(id) {
			if time.Now().After(dl) {
				return false
			}
			time.Sleep(100 * time.Microsecond)
		}
		return true
	}
	// the send that listed (hanging, healthy): the healthy peer is served once the context is done
	if !waitArrived(lastStuckMsg) {
		bad(fmt.Sprintf("message %d was sent to (hanging peer, healthy peer 1); its context is done, the opening of the hanging peer is still pending, and the healthy peer never received it within %v: a peer stuck in OpenStream delays delivery to another peer beyond the send context", lastStuckMsg, awaitTimeout))
		return
	}
	// fresh sends to the healthy peer are accepted and delivered: the dial workers are free again
	for i := 0; i < workers+2; i++ {
		msg++
		m := &plainMsg{id: msg}
		id := msg
		ops = append(ops, fmt.Sprintf("send %d to healthy peer 1", id))
		g := getterFor(1)
		res := w.call(func() string {
			if err := w.pool.Send(context.Background(), m, g); err != nil {
				return "err:" + err.Error()
			}
			return "ok"
		})
		if res != "ok" {
			bad(fmt.Sprintf("Send %d to the healthy peer returned %s although every send to a hanging peer has ended its context (dial workers / queue still occupied)", id, res))
			return
		}
		if !waitArrived(id) {
			bad(fmt.Sprintf("message %d for healthy peer 1 was accepted by Send but not delivered within %v: %d dial worker(s) are still held by sends to peers whose OpenStream hangs, although the contexts of those sends are done", id, awaitTimeout, workers))
			return
		}
	}
	r.Count("openhang.case")
}
