package streampool

import (
	"fmt"
	"sort"
	"strings"
)

// The direct oracle: C19 stated on what the fakes observed and on the harness's bookkeeping of its
// own inputs (which streams it created for which peer, which tags it asked to add / remove, which
// streams it ended). It does not use the Lean model.

func parseTagObs(s string) map[int][]int {
	out := map[int][]int{}
	for _, part := range strings.Fields(s) {
		kv := strings.SplitN(part, "=", 2)
		if len(kv) != 2 {
			continue
		}
		var t int
		fmt.Sscanf(kv[0], "%d", &t)
		var ids []int
		if kv[1] != "-" {
			for _, x := range strings.Split(kv[1], ",") {
				var n int
				if _, err := fmt.Sscanf(x, "%d", &n); err == nil {
					ids = append(ids, n)
				}
			}
		}
		sort.Ints(ids)
		out[t] = ids
	}
	return out
}

func count(l []int, x int) int {
	n := 0
	for _, v := range l {
		if v == x {
			n++
		}
	}
	return n
}

// stepOracle: caller-visible results and the tag index after one quiescent step.
func (c *caseRun) stepOracle(o op, res, tagObs string, step int) {
	switch o.kind {
	case "bcast":
		if res != "ok" {
			c.violate("streampool.oracle.result", "Broadcast returned "+res)
		}
	case "byid":
		rec := c.sent[o.msg]
		want := "ok"
		if len(rec.allowed) == 0 {
			want = "err:unable"
		}
		if res != want {
			c.violate("streampool.oracle.untargeted", fmt.Sprintf("%s returned %s but %d live streams exist for the listed peers (property: ended streams are not targeted, live ones are)", o.line(), res, len(rec.allowed)))
		}
	case "send":
		want := "ok"
		if c.qsize > 0 && c.queued >= c.qsize {
			want = "err:overflow"
		}
		if res != want {
			c.violate("streampool.oracle.dial", fmt.Sprintf("%s returned %s with %d of %d dial-queue slots taken (want %s)", o.line(), res, c.queued, c.qsize, want))
		}
	case "tag+", "tag-":
		want := "ok"
		if c.sh[o.sid].closeStep != 0 && c.sh[o.sid].closeStep < step {
			want = "err:notfound"
		}
		if res != want {
			c.violate("streampool.oracle.untargeted", fmt.Sprintf("%s returned %s, want %s (stream ended at step %d)", o.line(), res, want, c.sh[o.sid].closeStep))
		}
	case "add", "tagid-":
		if !strings.HasPrefix(res, "ok") {
			c.violate("streampool.oracle.result", o.line()+" returned "+res)
		}
	case "addnopeer":
		if res != "err:nopeer" {
			c.violate("streampool.oracle.result", "AddStream without a peer id returned "+res)
		}
	}
	// Streams(tag) must list exactly the live streams carrying the tag
	got := parseTagObs(tagObs)
	for t := 0; t < c.ntags; t++ {
		var want []int
		for sid := 1; sid <= len(c.w.fakes); sid++ {
			s := c.sh[sid]
			if s == nil || s.closeStep != 0 {
				continue
			}
			for i := 0; i < count(s.tags, t); i++ {
				want = append(want, sid)
			}
		}
		if fmt.Sprint(want) != fmt.Sprint(got[t]) {
			c.violate("streampool.oracle.indexes", fmt.Sprintf("after %s: Streams(t%d) = %v, the live streams carrying the tag are %v", o.line(), t, got[t], want))
			return
		}
	}
}

// endOracle: bounded buffer, FIFO, legitimacy of every delivery, nothing after the end of a stream,
// and (for streams that survived and were drained) no spurious drop.
func (c *caseRun) endOracle(drained bool) {
	w := c.w
	w.mu.Lock()
	defer w.mu.Unlock()
	last := w.stepNo
	sentStep := func(m int) int {
		if r := c.sent[m]; r != nil {
			return r.step
		}
		return 0
	}
	// buffered(f, t): accepted by step t and not yet handed to MsgSend after step t
	buffered := func(f *fake, t int) int {
		n := 0
		for _, a := range f.arrived {
			if sentStep(a.msg) <= t && t < a.step {
				n++
			}
		}
		return n
	}
	for _, f := range w.fakes {
		sh := c.sh[f.sid]
		if sh == nil {
			continue
		}
		cp := effCap(f.capRaw)
		// FIFO
		if len(f.delivered) > len(f.arrived) || len(f.arrived)-len(f.delivered) > 1 {
			c.violate("streampool.oracle.fifo", fmt.Sprintf("stream %d: %d writes started, %d completed", f.sid, len(f.arrived), len(f.delivered)))
			return
		}
		for i, a := range f.arrived {
			if i < len(f.delivered) && f.delivered[i] != a.msg {
				c.violate("streampool.oracle.fifo", fmt.Sprintf("stream %d: delivered %v, writes started %v", f.sid, f.delivered, f.arrived))
				return
			}
			if i > 0 && sentStep(a.msg) < sentStep(f.arrived[i-1].msg) {
				c.violate("streampool.oracle.fifo", fmt.Sprintf("stream %d wrote message %d after %d although it was accepted earlier", f.sid, a.msg, f.arrived[i-1].msg))
				return
			}
			rec := c.sent[a.msg]
			if rec == nil || !rec.allowed[f.sid] {
				c.violate("streampool.oracle.targets", fmt.Sprintf("stream %d (peer %d, tags %v) received message %d which was not addressed to it", f.sid, f.peer, sh.tags, a.msg))
				return
			}
			if sh.closeStep != 0 && (rec.step > sh.closeStep || a.step > sh.closeStep) {
				c.violate("streampool.oracle.untargeted", fmt.Sprintf("stream %d ended at step %d but message %d (sent at step %d) was written to it at step %d", f.sid, sh.closeStep, a.msg, rec.step, a.step))
				return
			}
		}
		// no spurious drop, decidable without a drain: a message addressed to this stream that never
		// arrived although a LATER one did was dropped (FIFO), and every message accepted before it has
		// arrived too, so the buffer level at that moment is known exactly: it must have been full
		lastSent := 0
		for _, a := range f.arrived {
			if s := sentStep(a.msg); s > lastSent {
				lastSent = s
			}
		}
		for m, rec := range c.sent {
			if !rec.allowed[f.sid] || rec.step >= lastSent {
				continue
			}
			got := false
			for _, a := range f.arrived {
				if a.msg == m {
					got = true
				}
			}
			if got {
				continue
			}
			if rec.kind == "bcast" {
				copies := 0
				for _, t := range c.tagsAt(f.sid, rec) {
					if has(rec.tags, t) {
						copies++
					}
				}
				if copies != 1 && len(rec.tags) == 1 {
					continue
				}
			} else {
				first := true
				for sid := range rec.allowed {
					if sid < f.sid && w.fakes[sid-1].peer == f.peer {
						first = false // an earlier stream of the peer may have taken it
					}
				}
				if !first || count(rec.peers, f.peer) != 1 {
					continue
				}
			}
			if n := buffered(f, rec.step-1); n < cp {
				c.violate("streampool.oracle.bounded", fmt.Sprintf("stream %d (queue size %d%s) dropped message %d with only %d messages buffered: it must buffer its configured number of messages and drop only beyond that", f.sid, cp, map[bool]string{true: " = the default for queueSize <= 0", false: ""}[f.capRaw <= 0], m, n))
				return
			}
		}
		// bounded buffer at every quiescent point
		for t := 1; t <= last; t++ {
			if n := buffered(f, t); n > cp {
				c.violate("streampool.oracle.bounded", fmt.Sprintf("stream %d (queue size %d) held %d buffered messages after step %d", f.sid, cp, n, t))
				return
			}
		}
	}
	if !drained {
		return
	}
	survivor := func(sid int) bool {
		s := c.sh[sid]
		f := w.fakes[sid-1]
		return s != nil && s.closeStep == 0 && !f.closed && f.ended == "" && f.ctx.Err() == nil
	}
	arrivedCount := func(f *fake, m int) int {
		n := 0
		for _, a := range f.arrived {
			if a.msg == m {
				n++
			}
		}
		return n
	}
	var msgs []int
	for m := range c.sent {
		msgs = append(msgs, m)
	}
	sort.Ints(msgs)
	for _, m := range msgs {
		rec := c.sent[m]
		switch rec.kind {
		case "bcast":
			for sid := range rec.allowed {
				if !survivor(sid) {
					continue
				}
				f := w.fakes[sid-1]
				copies := 0
				for _, t := range c.tagsAt(sid, rec) {
					if has(rec.tags, t) {
						copies++
					}
				}
				if copies != 1 && len(rec.tags) == 1 {
					continue // duplicate tags on the stream: several copies by design
				}
				room := buffered(f, rec.step-1) < effCap(f.capRaw)
				got := arrivedCount(f, m)
				if room && got == 0 {
					c.violate("streampool.oracle.delivery", fmt.Sprintf("message %d was broadcast to live stream %d which had room (%d of %d buffered) but it was never written", m, sid, buffered(f, rec.step-1), effCap(f.capRaw)))
					return
				}
				if !room && got > 0 {
					c.violate("streampool.oracle.bounded", fmt.Sprintf("message %d was accepted by stream %d although its queue was full", m, sid))
					return
				}
			}
		case "byid", "send":
			seen := map[int]bool{}
			for _, p := range rec.peers {
				if seen[p] {
					continue
				}
				seen[p] = true
				var sids []int
				for sid := range rec.allowed {
					if w.fakes[sid-1].peer == p {
						sids = append(sids, sid)
					}
				}
				sort.Ints(sids)
				ok := len(sids) > 0
				for _, sid := range sids {
					if !survivor(sid) {
						ok = false
					}
				}
				if !ok || count(rec.peers, p) != 1 {
					continue
				}
				want := 0
				for _, sid := range sids {
					f := w.fakes[sid-1]
					if buffered(f, rec.step-1) < effCap(f.capRaw) {
						want = sid
						break
					}
				}
				for _, sid := range sids {
					got := arrivedCount(w.fakes[sid-1], m)
					if (sid == want) != (got == 1) || got > 1 {
						c.violate("streampool.oracle.delivery", fmt.Sprintf("message %d for peer %d: stream %d received %d copies, the first stream of the peer with room is %d (streams %v)", m, p, sid, got, want, sids))
						return
					}
				}
			}
		}
	}
}

// tagsAt: the tags the stream carried when the call was made. The shadow keeps only the current
// tags, so the call record stores them for broadcasts.
func (c *caseRun) tagsAt(sid int, rec *sentRec) []int {
	if rec.tagsOf != nil {
		return rec.tagsOf[sid]
	}
	return nil
}
