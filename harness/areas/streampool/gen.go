package streampool

import (
	"fmt"
	"strings"

	"verifharness/internal/corr"
)

func newCase(r *corr.Run, workers, qsize, ntags int) *caseRun {
	// StreamConfig.SendQueueSize must not influence the per-stream bound (the default is the constant 100)
	cfgSendQueue := []int{0, 10, 3}[r.Intn(3)]
	c := &caseRun{r: r, workers: workers, qsize: qsize, ntags: ntags, sh: map[int]*shadow{}, sent: map[int]*sentRec{}, nextMsg: 10, nextTid: 1}
	c.w = newWorld(workers, qsize, ntags, cfgSendQueue)
	r.Count(fmt.Sprintf("cfg.sendqueue.%d", cfgSendQueue))
	c.step(op{kind: "new", peer: workers, capRaw: qsize, sid: ntags})
	return c
}

func (c *caseRun) msgId() int { c.nextMsg++; return c.nextMsg }

// drain releases every parked getter and every gated stream so that all accepted messages are
// written; afterwards the trace is complete and the end oracle can also check for spurious drops.
func (c *caseRun) drain() bool {
	for guard := 0; guard < 64; guard++ {
		w := c.w
		w.mu.Lock()
		tid := -1
		for _, t := range w.tasks {
			if t.started && !t.finished {
				tid = t.id
				break
			}
		}
		w.mu.Unlock()
		if tid < 0 {
			break
		}
		if !c.step(op{kind: "drel", tid: tid}) {
			return false
		}
	}
	for sid := 1; sid <= len(c.w.fakes); sid++ {
		c.w.mu.Lock()
		f := c.w.fakes[sid-1]
		need := f.gated && !f.hooked
		c.w.mu.Unlock()
		if need {
			if !c.step(op{kind: "gate", sid: sid, gated: false}) {
				return false
			}
		}
	}
	for sid := 1; sid <= len(c.w.fakes); sid++ {
		c.w.mu.Lock()
		f := c.w.fakes[sid-1]
		need := f.closeBlocks && !f.hooked
		c.w.mu.Unlock()
		if need {
			if !c.step(op{kind: "cblock", sid: sid, gated: false}) {
				return false
			}
		}
	}
	all := make([]int, c.ntags)
	for i := range all {
		all[i] = i
	}
	return c.step(op{kind: "streams", tags: all})
}

func (c *caseRun) end(sample bool) {
	drained := false
	if !c.failed {
		drained = c.drain()
	}
	if !c.failed || true {
		was := c.failed
		c.endOracle(drained && !was)
	}
	c.w.finish()
	// evidence
	nStreams, nClosed, nDropped := len(c.w.fakes), 0, 0
	for _, s := range c.sh {
		if s.closeStep != 0 {
			nClosed++
		}
	}
	for _, rec := range c.sent {
		for sid := range rec.allowed {
			got := false
			for _, a := range c.w.fakes[sid-1].arrived {
				if a.msg == rec.msg {
					got = true
				}
			}
			if !got && rec.kind == "bcast" {
				nDropped++
			}
		}
	}
	nontrivial := nStreams >= 2 && (nDropped > 0 || nClosed > 0) && c.nsteps >= 8
	c.r.Case(strings.Join(c.trace, ";"), nontrivial)
	if nDropped > 0 {
		c.r.Count("case.with-drop")
	}
	if nClosed > 0 {
		c.r.Count("case.with-close")
	}
	c.r.CountN("streams", nStreams)
	c.r.CountN("streams.closed", nClosed)
	c.r.CountN("writes.dropped", nDropped)
	if sample && nontrivial {
		c.r.Sample(map[string]any{"ops": c.trace})
	}
}

// ---- scripted, guard-directed cases -----------------------------------------------------------

// fillAndRelease: a blocked stream of queue size cp next to a healthy one; cp+3 broadcasts; the
// healthy stream gets all of them at once, the blocked one keeps 1+cp and drops the rest; then the
// blocked stream is released write by write.
func scriptFill(r *corr.Run, cp int, incoming bool, viaById bool) {
	c := newCase(r, 1, 2, 3)
	c.step(op{kind: "add", peer: 0, capRaw: cp, gated: true, tags: []int{0}, incoming: incoming, negCap: cp == 0 && viaById})
	c.step(op{kind: "add", peer: 1, capRaw: cp, gated: false, tags: []int{0, 1}})
	n := effCap(cp) + 3
	for i := 0; i < n; i++ {
		if viaById && i%2 == 1 {
			c.step(op{kind: "byid", msg: c.msgId(), peers: []int{0}})
		} else {
			c.step(op{kind: "bcast", msg: c.msgId(), tags: []int{0}, peerAware: i%3 == 0})
		}
	}
	for i := 0; i < 2; i++ {
		c.step(op{kind: "rel", sid: 1})
		c.step(op{kind: "bcast", msg: c.msgId(), tags: []int{0}})
		c.step(op{kind: "bcast", msg: c.msgId(), tags: []int{0}})
	}
	c.end(false)
}

// scriptCloseBlocked: the remote of a failing / cancelled / EOF'd stream hangs in Close(). The pool
// calls Close outside its mutex, so every call for OTHER peers (and even for the stuck one) returns.
func scriptCloseBlocked(r *corr.Run, how int) {
	c := newCase(r, 1, 2, 3)
	c.step(op{kind: "add", peer: 0, capRaw: 2, gated: true, tags: []int{0, 1}, failAt: map[bool]int{true: 1, false: 0}[how == 0]})
	c.step(op{kind: "cblock", sid: 1, gated: true})
	c.step(op{kind: "add", peer: 1, capRaw: 2, gated: false, tags: []int{0, 2}, incoming: true})
	c.step(op{kind: "add", peer: 0, capRaw: 1, gated: true, tags: []int{1}})
	c.step(op{kind: "bcast", msg: c.msgId(), tags: []int{0}})
	switch how {
	case 0: // write error → the writer goroutine is stuck in Close
		c.step(op{kind: "rel", sid: 1})
	case 1: // EOF → the reader goroutine is stuck in Close
		c.step(op{kind: "rclose", sid: 1})
	case 2: // handler error
		c.step(op{kind: "rclose", sid: 1, viaErr: true})
	case 3: // cancelled context, then the pending write returns
		c.step(op{kind: "cancel", sid: 1})
		c.step(op{kind: "rel", sid: 1})
	}
	// everything keeps working while Close() of stream 1 hangs
	c.step(op{kind: "bcast", msg: c.msgId(), tags: []int{0, 1}})
	c.step(op{kind: "byid", msg: c.msgId(), peers: []int{1}})
	c.step(op{kind: "byid", msg: c.msgId(), peers: []int{0, 1}})
	c.step(op{kind: "tag+", sid: 2, tags: []int{1}})
	c.step(op{kind: "tag-", sid: 2, tags: []int{2}})
	c.step(op{kind: "tag+", sid: 1, tags: []int{2}})
	c.step(op{kind: "tagid-", sid: 1, tags: []int{0}})
	c.step(op{kind: "streams", tags: []int{0, 1, 2}})
	c.nextTid++
	c.step(op{kind: "send", tid: c.nextTid, msg: c.msgId(), peers: []int{1, 0}})
	c.step(op{kind: "drel", tid: c.nextTid})
	c.step(op{kind: "add", peer: 2, capRaw: 1, gated: false, tags: []int{0}})
	c.step(op{kind: "bcast", msg: c.msgId(), tags: []int{0}})
	c.step(op{kind: "rclose", sid: 2})
	c.step(op{kind: "bcast", msg: c.msgId(), tags: []int{0, 1, 2}})
	c.step(op{kind: "cblock", sid: 1, gated: false}) // Close returns at last: now the stream is removed
	c.step(op{kind: "byid", msg: c.msgId(), peers: []int{0}})
	c.end(false)
}

// scriptClose: streams with tags end in every way (EOF, handler error, write error, cancelled
// context) while tag changes are interleaved; afterwards nothing targets them.
func scriptClose(r *corr.Run, how int) {
	c := newCase(r, 1, 2, 3)
	c.step(op{kind: "add", peer: 0, capRaw: 2, gated: how%2 == 0, tags: []int{0, 1}, failAt: map[bool]int{true: 2, false: 0}[how == 2]})
	c.step(op{kind: "add", peer: 0, capRaw: 2, gated: true, tags: []int{1}})
	c.step(op{kind: "add", peer: 1, capRaw: 1, gated: false, tags: []int{0, 1, 2}})
	c.step(op{kind: "tag+", sid: 1, tags: []int{2, 2, 0}})
	c.step(op{kind: "tag-", sid: 1, tags: []int{1}})
	c.step(op{kind: "bcast", msg: c.msgId(), tags: []int{0, 2}})
	c.step(op{kind: "bcast", msg: c.msgId(), tags: []int{2}})
	switch how {
	case 0:
		c.step(op{kind: "rclose", sid: 1})
	case 1:
		c.step(op{kind: "rclose", sid: 1, viaErr: true})
	case 2:
		c.step(op{kind: "rel", sid: 1})
		c.step(op{kind: "rel", sid: 1})
	case 3:
		c.step(op{kind: "cancel", sid: 1})
	case 4:
		c.step(op{kind: "cancel", sid: 1})
		c.step(op{kind: "rel", sid: 1})
	}
	c.step(op{kind: "streams", tags: []int{0, 1, 2}})
	c.step(op{kind: "tag+", sid: 1, tags: []int{1}})
	c.step(op{kind: "tag-", sid: 1, tags: []int{0}})
	c.step(op{kind: "tagid-", sid: 1, tags: []int{0}})
	c.step(op{kind: "byid", msg: c.msgId(), peers: []int{0}})
	c.step(op{kind: "bcast", msg: c.msgId(), tags: []int{0, 1, 2}})
	c.step(op{kind: "rclose", sid: 2})
	c.step(op{kind: "byid", msg: c.msgId(), peers: []int{0}})
	c.step(op{kind: "byid", msg: c.msgId(), peers: []int{0, 1}})
	c.end(false)
}

// scriptMultiPeer: SendById with several peers reaches every listed peer, whatever the state of
// the first one; two streams of one peer are alternatives (the second is used when the first is full).
func scriptMultiPeer(r *corr.Run, firstGated bool) {
	c := newCase(r, 1, 2, 2)
	c.step(op{kind: "add", peer: 0, capRaw: 1, gated: firstGated, tags: []int{0}})
	c.step(op{kind: "add", peer: 1, capRaw: 1, gated: false, tags: []int{0}})
	c.step(op{kind: "add", peer: 0, capRaw: 2, gated: true, tags: []int{1}})
	for i := 0; i < 5; i++ {
		c.step(op{kind: "byid", msg: c.msgId(), peers: []int{0, 1}})
	}
	c.step(op{kind: "byid", msg: c.msgId(), peers: []int{2, 1}})
	c.step(op{kind: "byid", msg: c.msgId(), peers: []int{2}})
	c.end(false)
}

// scriptDial: the dial pool is bounded too: Send never blocks, it overflows.
func scriptDial(r *corr.Run, workers, qsize int) {
	c := newCase(r, workers, qsize, 2)
	c.step(op{kind: "add", peer: 0, capRaw: 1, gated: true, tags: []int{0}})
	c.step(op{kind: "plan", peer: 2, capRaw: 2, gated: true, tags: []int{1}})
	for i := 0; i < workers+qsize+2; i++ {
		c.nextTid++
		c.step(op{kind: "send", tid: c.nextTid, msg: c.msgId(), peers: []int{0, 2, 3}, getterErr: i == 1})
	}
	c.end(false)
}

// ---- random cases -------------------------------------------------------------------------------

type genState struct {
	burst    int
	burstOp  op
	maxFakes int
}

func (c *caseRun) randTags(allowDup bool) []int {
	r := c.r
	n := r.Intn(4)
	if r.Chance(50) {
		n = 1
	}
	var out []int
	for i := 0; i < n; i++ {
		t := r.Intn(c.ntags + 1) // ntags itself = a tag outside the dumped universe
		if r.Chance(85) {
			t = r.Intn(c.ntags)
		}
		if !allowDup && has(out, t) {
			continue
		}
		out = append(out, t)
	}
	return out
}

func (c *caseRun) randPeers() []int {
	r := c.r
	n := 1 + r.Intn(3)
	if r.Chance(55) {
		n = 1
	}
	var out []int
	for i := 0; i < n; i++ {
		p := r.Intn(4)
		if !has(out, p) {
			out = append(out, p)
		}
	}
	return out
}

func (c *caseRun) randCap() int {
	r := c.r
	switch x := r.Intn(100); {
	case x < 30:
		return 1
	case x < 55:
		return 2
	case x < 72:
		return 3
	case x < 86:
		return 4
	case x < 96:
		return 5 + r.Intn(6)
	default:
		return 0 // → default 100
	}
}

func (c *caseRun) genOp(g *genState) op {
	r := c.r
	w := c.w
	if g.burst > 0 {
		g.burst--
		o := g.burstOp
		o.msg = c.msgId()
		return o
	}
	w.mu.Lock()
	var live, parked, gatedLive []int
	for _, f := range w.fakes {
		if f.hooked {
			continue
		}
		live = append(live, f.sid)
		if f.parked {
			parked = append(parked, f.sid)
		}
		if f.gated {
			gatedLive = append(gatedLive, f.sid)
		}
	}
	var running []int
	for _, t := range w.tasks {
		if t.started && !t.finished {
			running = append(running, t.id)
		}
	}
	nf := len(w.fakes)
	w.mu.Unlock()
	anySid := func() int { return 1 + r.Intn(nf) }
	for {
		x := r.Intn(114)
		switch {
		case x < 10:
			if nf >= g.maxFakes {
				continue
			}
			cp := c.randCap()
			o := op{kind: "add", peer: r.Intn(3), capRaw: cp, gated: r.Chance(60), incoming: r.Chance(40), negCap: cp == 0 && r.Chance(50)}
			// a tag listed twice makes Broadcast(tag) write twice in a row to the stream; that is
			// deterministic only when both writes fit whatever the writer goroutine is doing
			o.tags = c.randTags(false)
			if effCap(cp) >= 2 && len(o.tags) > 0 && r.Chance(15) {
				o.tags = append(o.tags, o.tags[r.Intn(len(o.tags))])
			}
			if r.Chance(25) {
				o.failAt = 1 + r.Intn(3)
			}
			return o
		case x < 32:
			return op{kind: "bcast", msg: c.msgId(), tags: c.randTags(true), peerAware: r.Chance(25)}
		case x < 46:
			return op{kind: "byid", msg: c.msgId(), peers: c.randPeers(), peerAware: r.Chance(25)}
		case x < 54:
			c.nextTid++
			return op{kind: "send", tid: c.nextTid, msg: c.msgId(), peers: c.randPeers(), getterErr: r.Chance(12)}
		case x < 64:
			if len(running) == 0 {
				continue
			}
			return op{kind: "drel", tid: running[r.Intn(len(running))]}
		case x < 67:
			if r.Chance(30) {
				return op{kind: "plan", peer: r.Intn(4), none: true}
			}
			cp := c.randCap()
			o := op{kind: "plan", peer: r.Intn(4), capRaw: cp, gated: r.Chance(60), tags: c.randTags(false)}
			if r.Chance(25) {
				o.failAt = 1 + r.Intn(2)
			}
			return o
		case x < 73:
			if nf == 0 {
				continue
			}
			return op{kind: "tag+", sid: anySid(), tags: c.randTags(true)}
		case x < 79:
			if nf == 0 {
				continue
			}
			return op{kind: "tag-", sid: anySid(), tags: c.randTags(true)}
		case x < 81:
			if nf == 0 {
				continue
			}
			return op{kind: "tagid-", sid: 1 + r.Intn(nf+1), tags: c.randTags(true)}
		case x < 84:
			return op{kind: "streams", tags: c.randTags(true)}
		case x < 96:
			if len(parked) == 0 {
				continue
			}
			return op{kind: "rel", sid: parked[r.Intn(len(parked))]}
		case x < 99:
			if len(live) == 0 {
				continue
			}
			return op{kind: "gate", sid: live[r.Intn(len(live))], gated: r.Chance(60)}
		case x < 103:
			if nf == 0 {
				continue
			}
			sid := anySid()
			if len(live) > 0 && r.Chance(80) {
				sid = live[r.Intn(len(live))]
			}
			return op{kind: "rclose", sid: sid, viaErr: r.Chance(35)}
		case x < 105:
			if len(live) == 0 {
				continue
			}
			return op{kind: "cancel", sid: live[r.Intn(len(live))]}
		case x < 108:
			if len(live) > 0 && r.Chance(75) {
				return op{kind: "cblock", sid: live[r.Intn(len(live))], gated: r.Chance(80)}
			}
			return op{kind: "addnopeer"}
		default:
			// burst: fill a gated stream beyond its queue size
			if len(gatedLive) == 0 {
				continue
			}
			sid := gatedLive[r.Intn(len(gatedLive))]
			f := w.fakes[sid-1]
			cp := effCap(f.capRaw)
			if cp > 12 && !r.Chance(40) {
				continue
			}
			sh := c.sh[sid]
			if sh != nil && len(sh.tags) > 0 && r.Chance(60) {
				g.burstOp = op{kind: "bcast", tags: []int{sh.tags[r.Intn(len(sh.tags))]}}
			} else {
				g.burstOp = op{kind: "byid", peers: []int{f.peer}}
			}
			g.burst = cp + 1 + r.Intn(3)
			o := g.burstOp
			o.msg = c.msgId()
			return o
		}
	}
}

func randomCase(r *corr.Run, sample bool) {
	workers := 1 + r.Intn(2)
	qsize := 1 + r.Intn(3)
	c := newCase(r, workers, qsize, 3)
	g := &genState{maxFakes: 3 + r.Intn(4)}
	n := 12 + r.Intn(r.Pick(30, 60))
	for i := 0; i < 2 && !c.failed; i++ {
		cp := c.randCap()
		c.step(op{kind: "add", peer: r.Intn(3), capRaw: cp, gated: r.Chance(70), tags: c.randTags(false), incoming: r.Chance(40)})
	}
	for i := 0; i < n && !c.failed; i++ {
		c.step(c.genOp(g))
	}
	c.end(sample)
}

// Run is the correspondence + oracle driver of area `streampool`.
func Run(r *corr.Run) {
	r.SetRule("a case is one pool driven through a generated schedule; it counts as non-trivial when at least two streams existed, at least one broadcast was dropped on a full queue or one stream ended, and at least 8 steps ran")
	scripts := []func(){
		func() { scriptFill(r, 1, false, false) },
		func() { scriptFill(r, 2, true, false) },
		func() { scriptFill(r, 3, false, true) },
		func() { scriptFill(r, 4, true, true) },
		func() { scriptFill(r, 7, false, true) },
		func() { scriptFill(r, 0, true, false) }, // default queue size (queueSize = 0)
		func() { scriptFill(r, 0, false, true) }, // default queue size (queueSize < 0)
		func() { scriptCloseBlocked(r, 0) },
		func() { scriptCloseBlocked(r, 1) },
		func() { scriptCloseBlocked(r, 2) },
		func() { scriptCloseBlocked(r, 3) },
		func() { scriptClose(r, 0) },
		func() { scriptClose(r, 1) },
		func() { scriptClose(r, 2) },
		func() { scriptClose(r, 3) },
		func() { scriptClose(r, 4) },
		func() { scriptMultiPeer(r, true) },
		func() { scriptMultiPeer(r, false) },
		func() { scriptDial(r, 1, 1) },
		func() { scriptDial(r, 2, 2) },
		func() { scriptDial(r, 1, 3) },
	}
	for _, sc := range scripts {
		if r.Issues() < 3 {
			sc()
		}
	}
	for size := 1; size <= 4 && r.Issues() < 3; size++ {
		multiqueueCase(r, size)
	}
	for i, wk := range []int{1, 2, 3, 2} {
		if r.Issues() < 3 {
			openHangCase(r, wk, i == 3, i%2 == 1)
		}
	}
	max := r.Pick(9000, 400000)
	for i := 0; i < max && r.TimeLeft() && r.Issues() < 3; i++ {
		randomCase(r, i%7 == 0)
	}
}
