package streampool

import (
	"context"
	"sort"
	"errors"
	"fmt"
	"strings"

	"github.com/cheggaaa/mb/v3"
	"storj.io/drpc"

	anynet "github.com/anyproto/any-sync/net"
	"github.com/anyproto/any-sync/net/peer"

	"verifharness/internal/corr"
)

func init() { corr.RegisterArea("streampool", Run) }

// ---- operations -----------------------------------------------------------------------------------

type op struct {
	kind      string
	peer      int
	capRaw    int
	failAt    int
	sid       int
	msg       int
	tid       int
	gated     bool
	getterErr bool
	incoming  bool // add through ReadStream instead of AddStream
	peerAware bool // message implements Copy/SetPeerId
	viaErr    bool // rclose realised as a handler error instead of EOF
	none      bool // plan: no stream can be opened
	negCap    bool // add: pass a negative queue size (the model sees 0: both mean "default")
	tags      []int
	peers     []int
}

func b01(b bool) string {
	if b {
		return "1"
	}
	return "0"
}

// line is the model's line-protocol form of the operation.
func (o op) line() string {
	switch o.kind {
	case "new":
		return fmt.Sprintf("new %d %d %d", o.peer, o.capRaw, o.sid)
	case "add":
		return fmt.Sprintf("add %d %d %s %d %s", o.peer, o.capRaw, b01(o.gated), o.failAt, showInts(o.tags))
	case "addnopeer":
		return "addnopeer"
	case "bcast":
		return fmt.Sprintf("bcast %d %s", o.msg, showInts(o.tags))
	case "byid":
		return fmt.Sprintf("byid %d %s", o.msg, showInts(o.peers))
	case "send":
		return fmt.Sprintf("send %d %d %s %s", o.tid, o.msg, b01(o.getterErr), showInts(o.peers))
	case "plan":
		if o.none {
			return fmt.Sprintf("plan %d none", o.peer)
		}
		return fmt.Sprintf("plan %d %d %s %d %s", o.peer, o.capRaw, b01(o.gated), o.failAt, showInts(o.tags))
	case "tag+", "tag-", "tagid-":
		return fmt.Sprintf("%s %d %s", o.kind, o.sid, showInts(o.tags))
	case "streams":
		return "streams " + showInts(o.tags)
	case "rel", "rclose", "cancel":
		return fmt.Sprintf("%s %d", o.kind, o.sid)
	case "gate":
		return fmt.Sprintf("gate %d %s", o.sid, b01(o.gated))
	case "cblock":
		return fmt.Sprintf("cblock %d %s", o.sid, b01(o.gated))
	case "drel":
		return fmt.Sprintf("drel %d", o.tid)
	}
	return "?"
}

// text is the replayable form: the model line plus the harness-only variations.
func (o op) text() string {
	s := o.line()
	if o.incoming {
		s += " #incoming"
	}
	if o.peerAware {
		s += " #peeraware"
	}
	if o.viaErr {
		s += " #handler-error"
	}
	if o.negCap {
		s += " #negative-queue-size"
	}
	return s
}

// ---- one case -----------------------------------------------------------------------------------------

type sentRec struct {
	kind    string
	msg     int
	step    int // step at which the writes happened (drel step for Send tasks)
	tags    []int
	peers   []int
	allowed map[int]bool // sids that the call may legitimately reach (harness bookkeeping of its own inputs)
	tagsOf  map[int][]int // broadcast: tags each allowed stream carried at call time
}

type shadow struct {
	tags      []int
	closeStep int // step during which the close hook fired (0 = live)
}

type caseRun struct {
	r       *corr.Run
	w       *world
	ops     []string
	workers int
	qsize   int
	ntags   int
	nextMsg int
	nextTid int
	sh      map[int]*shadow // by sid
	sent    map[int]*sentRec
	queued  int // Send tasks accepted and not yet started
	nSendOK int
	failed  bool
	nsteps  int
	trace   []string
}

func has(l []int, x int) bool {
	for _, v := range l {
		if v == x {
			return true
		}
	}
	return false
}

func (c *caseRun) violate(stream, desc string) {
	c.failed = true
	c.r.Violate("C19", "", stream, desc, append([]string{}, c.ops...))
}

func effCap(raw int) int {
	if raw <= 0 {
		return 100
	}
	return raw
}

func (c *caseRun) liveSids() []int {
	var out []int
	for sid := 1; sid <= len(c.w.fakes); sid++ {
		if s := c.sh[sid]; s != nil && s.closeStep == 0 {
			out = append(out, sid)
		}
	}
	return out
}

func (c *caseRun) mkMsg(o op) drpc.Message {
	if o.peerAware {
		return &peerAwareMsg{id: o.msg}
	}
	return &plainMsg{id: o.msg}
}

// exec performs the operation on the real pool and returns the caller-visible result.
func (c *caseRun) exec(o op) string {
	w := c.w
	ctx := context.Background()
	switch o.kind {
	case "add":
		f := w.newFake(o.peer, o.capRaw, o.gated, o.failAt, true)
		c.sh[f.sid] = &shadow{tags: append([]int{}, o.tags...)}
		qs := o.capRaw
		if o.negCap && qs == 0 {
			qs = -3
		}
		if o.incoming {
			go func() {
				defer func() { recover() }()
				_ = w.pool.ReadStream(f, qs, tagNames(o.tags)...)
			}()
			return fmt.Sprintf("ok:%d", f.sid)
		}
		return w.call(func() string {
			if err := w.pool.AddStream(f, qs, tagNames(o.tags)...); err != nil {
				return "err:other"
			}
			return fmt.Sprintf("ok:%d", f.sid)
		})
	case "addnopeer":
		f := w.newFake(0, 1, false, 0, false)
		return w.call(func() string {
			err := w.pool.AddStream(f, 1)
			switch {
			case err == nil:
				return "ok"
			case errors.Is(err, peer.ErrPeerIdNotFoundInContext):
				return "err:nopeer"
			}
			return "err:other"
		})
	case "bcast":
		m := c.mkMsg(o)
		return w.call(func() string {
			if err := w.pool.Broadcast(ctx, m, tagNames(o.tags)...); err != nil {
				return "err:other"
			}
			return "ok"
		})
	case "byid":
		m := c.mkMsg(o)
		ids := make([]string, len(o.peers))
		for i, p := range o.peers {
			ids[i] = peerName(p)
		}
		return w.call(func() string {
			err := w.pool.SendById(ctx, m, ids...)
			switch {
			case err == nil:
				return "ok"
			case errors.Is(err, anynet.ErrUnableToConnect):
				return "err:unable"
			}
			return "err:other"
		})
	case "send":
		t := &task{id: o.tid, msg: o.msg, peers: o.peers, getterErr: o.getterErr, gate: make(chan struct{})}
		w.mu.Lock()
		w.tasks = append(w.tasks, t)
		w.mu.Unlock()
		m := c.mkMsg(o)
		getter := func(ctx context.Context) ([]peer.Peer, error) {
			w.mu.Lock()
			t.started = true
			w.mu.Unlock()
			select {
			case <-t.gate:
			case <-w.teardown:
				return nil, errTeardown
			}
			if t.getterErr {
				w.mu.Lock()
				t.finished = true
				w.mu.Unlock()
				return nil, errGetter
			}
			var ps []peer.Peer
			for _, p := range t.peers {
				ps = append(ps, &fakePeer{id: p})
			}
			return append(ps, &fakePeer{id: -t.id, sentinel: t}), nil
		}
		return w.call(func() string {
			err := w.pool.Send(ctx, m, getter)
			switch {
			case err == nil:
				return "ok"
			case errors.Is(err, mb.ErrOverflowed):
				return "err:overflow"
			}
			return "err:other"
		})
	case "plan":
		w.mu.Lock()
		if o.none {
			delete(w.plans, o.peer)
		} else {
			w.plans[o.peer] = &spec{capRaw: o.capRaw, gated: o.gated, failAt: o.failAt, tags: append([]int{}, o.tags...)}
		}
		w.mu.Unlock()
		return "ok"
	case "tag+", "tag-":
		f := w.fakes[o.sid-1]
		w.mu.Lock()
		sctx := f.sctx
		w.mu.Unlock()
		return w.call(func() string {
			var err error
			if o.kind == "tag+" {
				err = w.pool.AddTagsCtx(sctx, tagNames(o.tags)...)
			} else {
				err = w.pool.RemoveTagsCtx(sctx, tagNames(o.tags)...)
			}
			switch {
			case err == nil:
				return "ok"
			case strings.Contains(err.Error(), "stream not found"):
				return "err:notfound"
			}
			return "err:other"
		})
	case "tagid-":
		return w.call(func() string {
			if err := w.pool.RemoveTagsById(uint32(o.sid), tagNames(o.tags)...); err != nil {
				return "err:other"
			}
			return "ok"
		})
	case "streams":
		return "ids:" + w.streamsCall(o.tags)
	case "rel":
		f := w.fakes[o.sid-1]
		w.mu.Lock()
		defer w.mu.Unlock()
		if f.parked && f.gate != nil {
			close(f.gate)
			f.gate = nil
			return "ok"
		}
		return "disabled"
	case "gate":
		f := w.fakes[o.sid-1]
		w.mu.Lock()
		defer w.mu.Unlock()
		f.gated = o.gated
		if !o.gated && f.parked && f.gate != nil {
			close(f.gate)
			f.gate = nil
		}
		return "ok"
	case "cblock":
		f := w.fakes[o.sid-1]
		w.mu.Lock()
		defer w.mu.Unlock()
		f.closeBlocks = o.gated
		if !o.gated && f.closeGate != nil {
			close(f.closeGate)
			f.closeGate = nil
		}
		return "ok"
	case "rclose":
		f := w.fakes[o.sid-1]
		if o.viaErr {
			select {
			case f.recv <- inMsg{f: f, kind: 1}:
			default:
			}
			return "ok"
		}
		w.mu.Lock()
		select {
		case <-f.eof:
		default:
			close(f.eof)
		}
		w.mu.Unlock()
		return "ok"
	case "cancel":
		f := w.fakes[o.sid-1]
		w.mu.Lock()
		if !f.parked && !f.hooked {
			f.ended = "peer context cancelled while the writer was idle"
		}
		w.mu.Unlock()
		f.cancel()
		return "ok"
	case "drel":
		w.mu.Lock()
		defer w.mu.Unlock()
		for _, t := range w.tasks {
			if t.id == o.tid && t.started && !t.finished {
				select {
				case <-t.gate:
					return "disabled"
				default:
				}
				close(t.gate)
				return "ok"
			}
		}
		return "disabled"
	}
	return "?"
}

// record keeps the harness's own bookkeeping of what it asked for (inputs only, no pool state).
func (c *caseRun) record(o op, res string, step int) {
	switch o.kind {
	case "tag+":
		if res == "ok" {
			s := c.sh[o.sid]
			for _, t := range o.tags {
				if !has(s.tags, t) {
					s.tags = append(s.tags, t)
				}
			}
		}
	case "tag-", "tagid-":
		if res == "ok" {
			if s := c.sh[o.sid]; s != nil && s.closeStep == 0 {
				var keep []int
				for _, t := range s.tags {
					if !has(o.tags, t) {
						keep = append(keep, t)
					}
				}
				s.tags = keep
			}
		}
	case "bcast":
		rec := &sentRec{kind: "bcast", msg: o.msg, step: step, tags: o.tags, allowed: map[int]bool{}, tagsOf: map[int][]int{}}
		for _, sid := range c.liveSids() {
			for _, t := range c.sh[sid].tags {
				if has(o.tags, t) {
					rec.allowed[sid] = true
					rec.tagsOf[sid] = append([]int{}, c.sh[sid].tags...)
				}
			}
		}
		c.sent[o.msg] = rec
	case "byid":
		rec := &sentRec{kind: "byid", msg: o.msg, step: step, peers: o.peers, allowed: map[int]bool{}}
		for _, sid := range c.liveSids() {
			if has(o.peers, c.w.fakes[sid-1].peer) {
				rec.allowed[sid] = true
			}
		}
		c.sent[o.msg] = rec
	}
}

// step runs one operation on model and implementation and compares the quiescent observations.
func (c *caseRun) step(o op) bool {
	if c.failed {
		return false
	}
	w := c.w
	w.mu.Lock()
	w.stepNo++
	step := w.stepNo
	nfakes := len(w.fakes)
	w.mu.Unlock()
	c.nsteps++
	c.ops = append(c.ops, o.text())
	c.trace = append(c.trace, o.line())
	c.r.Count("op." + o.kind)
	model := c.r.Ask(o.line())
	if o.kind == "new" {
		if model != "ok" {
			c.r.Fatal("model rejected " + o.line() + ": " + model)
		}
		return true
	}
	parts := strings.Split(model, " | ")
	if len(parts) != 4 {
		c.r.Fatal("unexpected model answer to " + o.line() + ": " + model)
	}
	// bookkeeping of drel: the task's writes happen during this step
	var relTask *task
	if o.kind == "drel" {
		w.mu.Lock()
		for _, t := range w.tasks {
			if t.id == o.tid {
				relTask = t
			}
		}
		w.mu.Unlock()
		if relTask != nil && !relTask.getterErr {
			rec := &sentRec{kind: "send", msg: relTask.msg, step: step, peers: relTask.peers, allowed: map[int]bool{}}
			for _, sid := range c.liveSids() {
				if has(relTask.peers, w.fakes[sid-1].peer) {
					rec.allowed[sid] = true
				}
			}
			c.sent[relTask.msg] = rec
		}
	}
	idle := c.idleHealthy()
	res := c.exec(o)
	c.record(o, res, step)
	expR := parts[3]
	if i := strings.IndexByte(expR, ' '); i >= 0 {
		expR = expR[:i]
	}
	var gotS, gotR string
	var ok bool
	if strings.HasPrefix(res, "HANG") || res == "GOEXIT" {
		gotS, gotR, _ = w.fakeObs(true) // the pool is stuck: do not wait for a state it will never reach
	} else {
		gotS, gotR, ok = w.await(parts[1], expR)
	}
	// streams opened by the handler during this step
	w.mu.Lock()
	for i := nfakes; i < len(w.fakes); i++ {
		f := w.fakes[i]
		if c.sh[f.sid] == nil {
			var tg []int
			if pl := w.plans[f.peer]; pl != nil {
				tg = append(tg, pl.tags...)
			}
			c.sh[f.sid] = &shadow{tags: tg}
			if relTask != nil {
				if rec := c.sent[relTask.msg]; rec != nil {
					rec.allowed[f.sid] = true
				}
			}
		}
	}
	for _, f := range w.fakes {
		if f.hooked && c.sh[f.sid] != nil && c.sh[f.sid].closeStep == 0 {
			c.sh[f.sid].closeStep = step
		}
	}
	fatal := w.fatal
	notes := append([]string{}, w.notes...)
	stale := ""
	if !ok {
		// the pool did not reach the predicted state: is a stream that has ended still in the pool?
		for _, f := range w.fakes {
			if f.ended != "" && !f.hooked && !f.closeBlocks {
				stale = fmt.Sprintf("stream %d ended (%s) but the pool never removed it: its index entries and tags stay, later sends still target it", f.sid, f.ended)
				break
			}
		}
	}
	w.mu.Unlock()
	if stale != "" {
		c.violate("streampool.oracle.untargeted", stale)
	}
	gotT := "?"
	if ok || !strings.HasPrefix(res, "HANG") {
		gotT = w.tagObs()
	}
	impl := res + " | " + gotS + " | " + gotT + " | " + gotR
	if fatal != "" {
		impl += " FATAL"
	}
	// direct oracle, immediate part
	switch {
	case strings.HasPrefix(res, "HANG"):
		c.violate("streampool.oracle.nonblocking", fmt.Sprintf("%s did not return within %v: the caller waits on a stream or on the pool", o.line(), hangTimeout))
	case strings.HasPrefix(res, "PANIC"):
		c.violate("streampool.oracle.panic", fmt.Sprintf("%s panicked: %s", o.line(), res))
	case res == "GOEXIT" || fatal != "":
		c.violate("streampool.oracle.indexes", fmt.Sprintf("%s reached log.Fatal (%q): the indexes are inconsistent", o.line(), fatal))
	case strings.Contains(gotT, "HANG"):
		c.violate("streampool.oracle.nonblocking", fmt.Sprintf("Streams(tag) after %s did not return within %v (%s): a pool call waits on a stream (e.g. on its Close()) or on the pool mutex held meanwhile", o.line(), hangTimeout, gotT))
	case strings.Contains(gotT, "PANIC") || strings.Contains(gotT, "GOEXIT"):
		c.violate("streampool.oracle.indexes", fmt.Sprintf("Streams(tag) after %s: %s", o.line(), gotT))
	}
	for _, n := range notes {
		c.violate("streampool.oracle.note", n)
		break
	}
	if !c.failed {
		c.stepOracle(o, res, gotT, step)
	}
	if !c.failed {
		c.healthyOracle(o, relTask, idle)
	}
	if !c.r.Check("C19", "streampool.step", append([]string{}, c.ops...), model, impl) {
		c.failed = true
	}
	if o.kind == "send" && res == "ok" {
		c.nSendOK++
	}
	// tasks that started during this step left the dial queue
	w.mu.Lock()
	started := 0
	for _, t := range w.tasks {
		if t.started {
			started++
		}
	}
	w.mu.Unlock()
	c.queued = c.nSendOK - started
	return !c.failed
}

// idleHealthy: live streams whose remote answers at once and whose writer is idle. At quiescence
// their queue is empty, so they have room for one more message whatever else happens.
func (c *caseRun) idleHealthy() map[int]bool {
	out := map[int]bool{}
	c.w.mu.Lock()
	defer c.w.mu.Unlock()
	for _, f := range c.w.fakes {
		if !f.hooked && !f.gated && !f.parked && !f.closed && f.ctx.Err() == nil {
			out[f.sid] = true
		}
	}
	return out
}

// healthyOracle: a healthy idle stream addressed by the call must have been handed the message by
// the time the pool is quiescent again, whatever the state of every other stream (the "stuck peer
// blocks nobody" half of C19, checked without any model).
func (c *caseRun) healthyOracle(o op, relTask *task, idle map[int]bool) {
	var rec *sentRec
	switch {
	case o.kind == "bcast" || o.kind == "byid":
		rec = c.sent[o.msg]
	case o.kind == "drel" && relTask != nil && !relTask.getterErr:
		rec = c.sent[relTask.msg]
	}
	if rec == nil {
		return
	}
	c.w.mu.Lock()
	defer c.w.mu.Unlock()
	firstOfPeer := map[int]int{}
	var sids []int
	for sid := range rec.allowed {
		sids = append(sids, sid)
	}
	sortInts(sids)
	for _, sid := range sids {
		p := c.w.fakes[sid-1].peer
		if _, ok := firstOfPeer[p]; !ok {
			firstOfPeer[p] = sid
		}
	}
	for _, sid := range sids {
		if !idle[sid] {
			continue
		}
		f := c.w.fakes[sid-1]
		if rec.kind != "bcast" && firstOfPeer[f.peer] != sid {
			continue // a later stream of the same peer is only a fallback
		}
		got := false
		for _, a := range f.arrived {
			if a.msg == rec.msg {
				got = true
			}
		}
		if !got {
			c.failed = true
			c.r.Violate("C19", "", "streampool.oracle.delivery", fmt.Sprintf("%s: healthy idle stream %d of peer %d was addressed but never received message %d", o.line(), sid, f.peer, rec.msg), append([]string{}, c.ops...))
			return
		}
	}
}

func sortInts(l []int) { sort.Ints(l) }
