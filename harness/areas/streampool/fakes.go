// Package streampool drives the REAL net/streampool pool against the Lean model (C19).
//
// Everything the pool talks to is a harness-controlled fake: drpc streams whose MsgSend parks on a
// harness channel ("gated") or returns at once ("auto"), may fail at the k-th write; peers; the
// stream handler (OpenStream / HandleMessage); peer getters of Send that park until released.
// One driver goroutine issues one public call at a time and then waits until the fakes report the
// quiescent state that the model predicts, so every observation is deterministic.
package streampool

import (
	"context"
	"errors"
	"fmt"
	"io"
	"runtime"
	"sort"
	"strings"
	"sync"
	"sync/atomic"
	"time"

	"go.uber.org/zap"
	"go.uber.org/zap/zapcore"
	"storj.io/drpc"

	"github.com/anyproto/any-sync/app"
	"github.com/anyproto/any-sync/app/logger"
	"github.com/anyproto/any-sync/net/peer"
	sp "github.com/anyproto/any-sync/net/streampool"
	"github.com/anyproto/any-sync/net/streampool/streamhandler"
)

const (
	hangTimeout  = 8 * time.Second  // a public call that takes longer than this hangs
	awaitTimeout = 10 * time.Second // the fakes never reached the predicted quiescent state
)

var (
	errFakeClosed = errors.New("fake stream closed")
	errFakeWrite  = errors.New("fake write error")
	errTeardown   = errors.New("harness teardown")
	errHandler    = errors.New("handler error")
	errOpen       = errors.New("cannot open stream")
	errGetter     = errors.New("peer getter error")
)

func peerName(p int) string { return fmt.Sprintf("p%d", p) }
func tagName(t int) string  { return fmt.Sprintf("t%d", t) }
func tagNames(ts []int) []string {
	out := make([]string, len(ts)) // always a fresh slice: the pool keeps (and mutates) it
	for i, t := range ts {
		out[i] = tagName(t)
	}
	return out
}

// ---- messages ---------------------------------------------------------------------------------

type plainMsg struct{ id int }

// peerAwareMsg takes the `peerMessage` branch of stream.write (Copy + SetPeerId).
type peerAwareMsg struct {
	id     int
	peerId string
	copied bool
}

func (m *peerAwareMsg) SetPeerId(p string) { m.peerId = p }
func (m *peerAwareMsg) Copy() drpc.Message { return &peerAwareMsg{id: m.id, copied: true} }

type inMsg struct {
	f    *fake
	kind int // 0 hello, 1 handler error
}

// ---- fake drpc stream -----------------------------------------------------------------------------

type fake struct {
	w      *world
	sid    int // stream id the pool must assign (streams are added one at a time)
	peer   int
	capRaw int
	ctx    context.Context
	cancel context.CancelFunc

	// guarded by w.mu
	gated     bool
	failAt    int
	sendCalls int
	parked    bool
	parkedMsg int
	gate      chan struct{}
	closed    bool
	closedCh  chan struct{}
	recv      chan inMsg
	eof       chan struct{}
	arrived   []arrival
	delivered []int
	reported  int // number of deliveries already shown in an observation
	hooked    bool
	hookShown bool
	hookPeer  string
	hookTags  []string
	sctx      context.Context // context the pool hands to HandleMessage for this stream
	gotId     uint32
	ended     string // why the harness knows the stream has ended ("" = it has not)
	closeBlocks bool         // Close() parks until released
	closeGate   chan struct{} // non-nil while Close() is parked
}

type arrival struct {
	msg  int
	step int
}

func (f *fake) Context() context.Context { return f.ctx }
func (f *fake) CloseSend() error         { return nil }

// Close marks the stream closed (a parked MsgSend / MsgRecv returns an error, as on a real stream) and
// then, for a stream whose remote is stuck, parks until the harness releases it (or teardown).
// The pool must call it WITHOUT holding its mutex: everything else has to keep working meanwhile.
func (f *fake) Close() error {
	w := f.w
	w.mu.Lock()
	var g chan struct{}
	if !f.closed {
		f.closed = true
		close(f.closedCh)
		if f.closeBlocks {
			g = make(chan struct{})
			f.closeGate = g
		}
	}
	w.mu.Unlock()
	if g != nil {
		select {
		case <-g:
		case <-w.teardown:
		}
		w.mu.Lock()
		f.closeGate = nil
		w.mu.Unlock()
	}
	return nil
}

func (f *fake) MsgSend(m drpc.Message, _ drpc.Encoding) error {
	w := f.w
	id := -1
	switch v := m.(type) {
	case *plainMsg:
		id = v.id
	case *peerAwareMsg:
		id = v.id
		if !v.copied || v.peerId != peerName(f.peer) {
			w.note("peer-aware message reached stream %d without Copy+SetPeerId (peerId=%q copied=%v)", f.sid, v.peerId, v.copied)
		}
	default:
		w.note("unknown message type %T", m)
	}
	w.mu.Lock()
	if f.closed {
		w.mu.Unlock()
		return errFakeClosed
	}
	f.sendCalls++
	k := f.sendCalls
	f.arrived = append(f.arrived, arrival{id, w.stepNo})
	f.parkedMsg = id
	f.parked = true
	if f.gated {
		g := make(chan struct{})
		f.gate = g
		w.mu.Unlock()
		select {
		case <-g:
		case <-f.closedCh:
		case <-w.teardown:
		}
		w.mu.Lock()
		f.gate = nil
	}
	defer w.mu.Unlock()
	f.parked = false
	select {
	case <-w.teardown:
		return errTeardown
	default:
	}
	if f.closed {
		return errFakeClosed
	}
	if f.failAt != 0 && k == f.failAt {
		f.ended = "MsgSend returned an error"
		return errFakeWrite
	}
	f.delivered = append(f.delivered, id)
	return nil
}

func (f *fake) MsgRecv(m drpc.Message, _ drpc.Encoding) error {
	// queued incoming messages first, so the hello is always handled
	select {
	case it := <-f.recv:
		*(m.(*inMsg)) = it
		return nil
	default:
	}
	select {
	case it := <-f.recv:
		*(m.(*inMsg)) = it
		return nil
	case <-f.eof:
		f.w.mu.Lock()
		f.ended = "MsgRecv returned EOF"
		f.w.mu.Unlock()
		return io.EOF
	case <-f.closedCh:
		return errFakeClosed
	case <-f.w.teardown:
		return errTeardown
	}
}

// ---- fake peer ----------------------------------------------------------------------------------------

type fakePeer struct {
	id       int
	sentinel *task // non-nil: the marker appended after the real peers of a task
}

func (p *fakePeer) Id() string {
	if p.sentinel != nil {
		return "sentinel"
	}
	return peerName(p.id)
}
func (p *fakePeer) Context() context.Context { return context.Background() }
func (p *fakePeer) AcquireDrpcConn(ctx context.Context) (drpc.Conn, error) {
	return nil, errors.New("not used")
}
func (p *fakePeer) ReleaseDrpcConn(ctx context.Context, conn drpc.Conn) {}
func (p *fakePeer) DoDrpc(ctx context.Context, do func(conn drpc.Conn) error) error {
	return errors.New("not used")
}
func (p *fakePeer) IsClosed() bool                               { return false }
func (p *fakePeer) CloseChan() <-chan struct{}                   { return nil }
func (p *fakePeer) SetTTL(ttl time.Duration)                     {}
func (p *fakePeer) TryClose(objectTTL time.Duration) (bool, error) { return false, nil }
func (p *fakePeer) Close() error                                 { return nil }

var _ peer.Peer = (*fakePeer)(nil)

// ---- dial tasks ---------------------------------------------------------------------------------------

type task struct {
	id        int
	msg       int
	peers     []int
	getterErr bool
	started   bool
	finished  bool
	gate      chan struct{}
}

type spec struct {
	capRaw int
	gated  bool
	failAt int
	tags   []int
}

// ---- world = one pool + its fakes ------------------------------------------------------------------

type world struct {
	mu       sync.Mutex
	pool     sp.StreamPool
	fakes    []*fake // index = sid-1
	tasks    []*task
	plans    map[int]*spec
	teardown chan struct{}
	stepNo   int
	notes    []string
	fatal    string
	ntags    int
	hangOpen map[int]bool // peers whose OpenStream parks until teardown, ignoring the context
	hangSeen map[int]bool // ... and has been entered
}

var curWorld atomic.Pointer[world]

func (w *world) note(format string, a ...any) {
	w.mu.Lock()
	if len(w.notes) < 8 {
		w.notes = append(w.notes, fmt.Sprintf(format, a...))
	}
	w.mu.Unlock()
}

type fatalHook struct{}

// OnWrite runs instead of os.Exit(1) when the pool reaches log.Fatal (index inconsistency).
func (fatalHook) OnWrite(ce *zapcore.CheckedEntry, _ []zapcore.Field) {
	if w := curWorld.Load(); w != nil {
		w.mu.Lock()
		if w.fatal == "" {
			w.fatal = ce.Message
		}
		w.mu.Unlock()
	}
	runtime.Goexit()
}

var hookOnce sync.Once

func installFatalHook() {
	hookOnce.Do(func() {
		l := logger.NewNamed(sp.CName)
		*l.Logger = *zap.NewNop().WithOptions(zap.WithFatalHook(fatalHook{}))
	})
}

// handler implements streamhandler.StreamHandler
type handler struct{ w *world }

func (h *handler) Init(a *app.App) error { return nil }
func (h *handler) Name() string          { return streamhandler.CName }
func (h *handler) NewReadMessage() drpc.Message {
	return &inMsg{}
}

func (h *handler) HandleMessage(ctx context.Context, peerId string, m drpc.Message) error {
	im := m.(*inMsg)
	if im.kind == 1 {
		h.w.mu.Lock()
		im.f.ended = "HandleMessage returned an error"
		h.w.mu.Unlock()
		return errHandler
	}
	w := h.w
	w.mu.Lock()
	im.f.sctx = ctx
	if id, ok := sp.CtxStreamId(ctx); ok {
		im.f.gotId = id
	}
	if peerId != peerName(im.f.peer) {
		w.mu.Unlock()
		w.note("HandleMessage got peer %q for a stream of %s", peerId, peerName(im.f.peer))
		return nil
	}
	w.mu.Unlock()
	return nil
}

func (h *handler) OpenStream(ctx context.Context, p peer.Peer) (drpc.Stream, []string, int, error) {
	fp := p.(*fakePeer)
	w := h.w
	if fp.sentinel != nil {
		w.mu.Lock()
		fp.sentinel.finished = true
		w.mu.Unlock()
		return nil, nil, 0, errOpen
	}
	w.mu.Lock()
	hang := w.hangOpen[fp.id]
	if hang {
		if w.hangSeen == nil {
			w.hangSeen = map[int]bool{}
		}
		w.hangSeen[fp.id] = true
	}
	s := w.plans[fp.id]
	w.mu.Unlock()
	if hang {
		// connection accepted, then silence: the opening never finishes and does not look at ctx
		<-w.teardown
		return nil, nil, 0, errOpen
	}
	if s == nil {
		return nil, nil, 0, errOpen
	}
	f := w.newFake(fp.id, s.capRaw, s.gated, s.failAt, true)
	return f, tagNames(s.tags), s.capRaw, nil
}

func (w *world) newFake(peerId, capRaw int, gated bool, failAt int, withPeer bool) *fake {
	ctx, cancel := context.WithCancel(context.Background())
	if withPeer {
		ctx = peer.CtxWithPeerId(ctx, peerName(peerId))
	}
	f := &fake{w: w, peer: peerId, capRaw: capRaw, ctx: ctx, cancel: cancel, gated: gated, failAt: failAt,
		closedCh: make(chan struct{}), recv: make(chan inMsg, 4), eof: make(chan struct{})}
	f.recv <- inMsg{f: f, kind: 0}
	if withPeer {
		w.mu.Lock()
		f.sid = len(w.fakes) + 1
		w.fakes = append(w.fakes, f)
		w.mu.Unlock()
	}
	return f
}

func newWorld(workers, qsize, ntags, cfgSendQueue int) *world {
	installFatalHook()
	w := &world{plans: map[int]*spec{}, teardown: make(chan struct{}), ntags: ntags}
	curWorld.Store(w)
	w.pool = sp.NewStreamPool(&handler{w}, sp.StreamConfig{SendQueueSize: cfgSendQueue, DialQueueWorkers: workers, DialQueueSize: qsize},
		sp.WithStreamCloseHook(w.onClose))
	_ = w.pool.Run(context.Background())
	return w
}

func (w *world) onClose(streamId uint32, peerId string, tags []string) {
	w.mu.Lock()
	defer w.mu.Unlock()
	i := int(streamId) - 1
	if i < 0 || i >= len(w.fakes) {
		if len(w.notes) < 8 {
			w.notes = append(w.notes, fmt.Sprintf("close hook for unknown stream id %d", streamId))
		}
		return
	}
	f := w.fakes[i]
	if f.hooked && len(w.notes) < 8 {
		w.notes = append(w.notes, fmt.Sprintf("close hook ran twice for stream %d", streamId))
	}
	f.hooked = true
	f.hookPeer = peerId
	f.hookTags = append([]string{}, tags...)
}

// finish releases every parked goroutine and closes the pool.
func (w *world) finish() {
	close(w.teardown)
	w.mu.Lock()
	for _, f := range w.fakes {
		f.cancel()
	}
	w.mu.Unlock()
	done := make(chan struct{})
	go func() {
		defer close(done)
		defer func() { recover() }()
		_ = w.pool.Close(context.Background())
	}()
	select {
	case <-done:
	case <-time.After(hangTimeout):
	}
}

// call runs one public pool call on its own goroutine: a hang, a panic and the Goexit of the fatal
// hook all become strings.
func (w *world) call(fn func() string) string {
	done := make(chan string, 1)
	go func() {
		finished := false
		defer func() {
			if r := recover(); r != nil {
				s := fmt.Sprint(r)
				if len(s) > 80 {
					s = s[:80]
				}
				done <- "PANIC:" + s
				return
			}
			if !finished {
				done <- "GOEXIT"
			}
		}()
		s := fn()
		finished = true
		done <- s
	}()
	select {
	case s := <-done:
		return s
	case <-time.After(hangTimeout):
		return "HANG"
	}
}

func showInts(l []int) string {
	if len(l) == 0 {
		return "-"
	}
	p := make([]string, len(l))
	for i, v := range l {
		p[i] = fmt.Sprint(v)
	}
	return strings.Join(p, ",")
}

func tagIds(tags []string) []int {
	out := []int{}
	for _, t := range tags {
		var n int
		fmt.Sscanf(t, "t%d", &n)
		out = append(out, n)
	}
	return out
}

// fakeObs renders what the fakes have seen, in the model's format. commit marks the shown
// deliveries / close hooks as reported.
func (w *world) fakeObs(commit bool) (streams, running string, ready bool) {
	w.mu.Lock()
	defer w.mu.Unlock()
	ready = true
	var parts []string
	for _, f := range w.fakes {
		if f.sctx == nil {
			ready = false
		} else if int(f.gotId) != f.sid {
			parts = append(parts, fmt.Sprintf("%d:WRONGID:%d", f.sid, f.gotId))
		}
		nd := showInts(f.delivered[f.reported:])
		if f.hooked {
			if f.hookShown {
				if f.reported != len(f.delivered) {
					parts = append(parts, fmt.Sprintf("%d:LATE:%s", f.sid, nd))
				}
				continue
			}
			var pid int
			fmt.Sscanf(f.hookPeer, "p%d", &pid)
			parts = append(parts, fmt.Sprintf("%d:X:%d:%s:%s", f.sid, pid, showInts(tagIds(f.hookTags)), nd))
			if commit {
				f.hookShown = true
			}
		} else {
			infl := "-"
			if f.parked {
				infl = fmt.Sprint(f.parkedMsg)
			}
			state := "L"
			if f.closed {
				state = "K" // Close() was called, the pool has not removed the stream (yet)
			}
			parts = append(parts, fmt.Sprintf("%d:%s:%s:%s", f.sid, state, infl, nd))
		}
		if commit {
			f.reported = len(f.delivered)
		}
	}
	streams = "-"
	if len(parts) > 0 {
		streams = strings.Join(parts, " ")
	}
	var run []int
	for _, t := range w.tasks {
		if t.started && !t.finished {
			run = append(run, t.id)
		}
	}
	sort.Ints(run)
	return streams, "R=" + showInts(run), ready
}

// await polls the fakes until they show the expected quiescent state (or the timeout passes).
func (w *world) await(expStreams, expRunning string) (string, string, bool) {
	deadline := time.Now().Add(awaitTimeout)
	for spin := 0; ; spin++ {
		s, r, ready := w.fakeObs(false)
		if ready && s == expStreams && r == expRunning {
			w.fakeObs(true)
			return s, r, true
		}
		if time.Now().After(deadline) {
			w.fakeObs(true)
			if !ready {
				s += " (stream context never captured)"
			}
			return s, r, false
		}
		switch {
		case spin < 200:
			runtime.Gosched()
		case spin < 2000:
			time.Sleep(20 * time.Microsecond)
		default:
			time.Sleep(time.Millisecond)
		}
	}
}

// tagObs = Streams(tag) for every tag of the universe.
func (w *world) tagObs() string {
	if w.ntags == 0 {
		return "-"
	}
	parts := make([]string, w.ntags)
	for t := 0; t < w.ntags; t++ {
		parts[t] = fmt.Sprintf("%d=%s", t, w.streamsCall([]int{t}))
	}
	return strings.Join(parts, " ")
}

func (w *world) streamsCall(tags []int) string {
	return w.call(func() string {
		sts := w.pool.Streams(tagNames(tags)...)
		ids := make([]int, len(sts))
		for i, s := range sts {
			f, ok := s.(*fake)
			if !ok {
				return "FOREIGN"
			}
			ids[i] = f.sid
		}
		return showInts(ids)
	})
}
