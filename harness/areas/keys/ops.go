package keys

import (
	"errors"
	"fmt"
	"strings"

	"github.com/anyproto/any-sync/commonspace/object/acl/aclrecordproto"
	"github.com/anyproto/any-sync/commonspace/object/acl/list"
	"github.com/anyproto/any-sync/consensus/consensusproto"
	"github.com/anyproto/any-sync/util/crypto"
)

// pendingOp is what an operation leaves for commit(): the raw record plus the secrets the harness must
// remember once the record is accepted (new read key, new invite keys).
type pendingOp struct {
	name    string
	author  int
	rec     *consensusproto.RawRecord
	newKey  crypto.SymKey    // read key introduced by this record (rotation), nil otherwise
	newKeys []crypto.SymKey  // composed records: the read keys of its rotations, in content order (newKey = the last)
	shape   string           // composed records: the kinds of its contents
	invKeys []crypto.PrivKey // private keys of the invites created by this record, in content order
}

func (h *hist) builder(a int) list.AclRecordBuilder {
	if h.r.Chance(50) {
		return h.cviews[a].RecordBuilder()
	}
	return h.views[a].RecordBuilder()
}

func newChange() list.ReadKeyChangePayload {
	priv, _, err := crypto.GenerateRandomEd25519KeyPair()
	if err != nil {
		panic(err)
	}
	return list.ReadKeyChangePayload{MetadataKey: priv, ReadKey: crypto.NewAES()}
}

func (h *hist) start() error {
	owner := h.accs[0]
	ch := newChange()
	master, _, _ := crypto.GenerateRandomEd25519KeyPair()
	b := list.NewAclRecordBuilder("", crypto.NewKeyStorage(), owner, nil)
	root, err := b.BuildRoot(list.RootContent{
		PrivKey: owner.SignKey, MasterKey: master, SpaceId: fmt.Sprintf("space-%d", h.id),
		Change: ch, Metadata: []byte("owner"),
	})
	if err != nil {
		return err
	}
	h.raw = []*consensusproto.RawRecordWithId{root}
	h.gens = []gen{{recId: root.Id, key: ch.ReadKey, at: 0}}
	h.perm[0] = pOwner
	node := must(newNodeKeys())
	acc, err := h.buildView(node, false)
	if err != nil {
		return err
	}
	h.acceptor = acc
	// symbolic content of the root: the read key encrypted to the owner
	rr := &consensusproto.RawRecord{}
	if err := rr.UnmarshalVT(root.Payload); err != nil {
		return err
	}
	ar := &aclrecordproto.AclRoot{}
	if err := ar.UnmarshalVT(rr.Payload); err != nil {
		return err
	}
	t, _ := h.asymTerm(ar.Identity, ar.EncryptedReadKey, 0)
	h.ops = append(h.ops, fmt.Sprintf("root %d %s", h.accByProto(ar.Identity), t))
	h.trace = append(h.trace, "root")
	return h.rebuildViews()
}

var errSkip = errors.New("skip")

// ---- operations (each returns a record built by the REAL builder from the author's own view) ----

func (h *hist) opInvite(author int, open bool, perm list.AclPermissions) (*pendingOp, error) {
	b := h.builder(author)
	var res list.InviteResult
	var err error
	if open {
		res, err = b.BuildInviteAnyone(perm)
	} else {
		res, err = b.BuildInvite()
	}
	if err != nil {
		return nil, err
	}
	return &pendingOp{name: fmt.Sprintf("invite(by=%d,open=%v,%s)", author, open, permName(perm)), author: author, rec: res.InviteRec, invKeys: []crypto.PrivKey{res.InviteKey}}, nil
}

func (h *hist) opRequestJoin(a int, v *invite) (*pendingOp, error) {
	rec, err := h.builder(a).BuildRequestJoin(list.RequestJoinPayload{InviteKey: v.priv, Metadata: []byte("m")})
	return &pendingOp{name: fmt.Sprintf("reqjoin(%d,inv%d)", a, v.idx), author: a, rec: rec}, err
}

func (h *hist) opAccept(author, a int, perm list.AclPermissions) (*pendingOp, error) {
	rec, err := h.builder(author).BuildRequestAccept(list.RequestAcceptPayload{RequestRecordId: h.pendJoin[a], Permissions: perm})
	return &pendingOp{name: fmt.Sprintf("accept(by=%d,%d,%s)", author, a, permName(perm)), author: author, rec: rec}, err
}

func (h *hist) opDecline(author, a int) (*pendingOp, error) {
	rec, err := h.builder(author).BuildRequestDecline(h.pendJoin[a])
	return &pendingOp{name: fmt.Sprintf("decline(by=%d,%d)", author, a), author: author, rec: rec}, err
}

func (h *hist) opCancel(a int) (*pendingOp, error) {
	id := h.pendJoin[a]
	if id == "" {
		id = h.pendRemove[a]
	}
	rec, err := h.builder(a).BuildRequestCancel(id)
	return &pendingOp{name: fmt.Sprintf("cancel(%d)", a), author: a, rec: rec}, err
}

func (h *hist) opInviteJoin(a int, v *invite, perm list.AclPermissions) (*pendingOp, error) {
	rec, err := h.builder(a).BuildInviteJoinWithoutApprove(list.InviteJoinPayload{InviteKey: v.priv, Permissions: perm, Metadata: []byte("m")})
	return &pendingOp{name: fmt.Sprintf("invjoin(%d,inv%d,%s)", a, v.idx, permName(perm)), author: a, rec: rec}, err
}

func (h *hist) opAdd(author int, who []int, perms []list.AclPermissions) (*pendingOp, error) {
	var adds []list.AccountAdd
	for i, a := range who {
		adds = append(adds, list.AccountAdd{Identity: h.accs[a].SignKey.GetPublic(), Permissions: perms[i], Metadata: []byte("m")})
	}
	rec, err := h.builder(author).BuildAccountsAdd(list.AccountsAddPayload{Additions: adds})
	return &pendingOp{name: fmt.Sprintf("add(by=%d,%s)", author, ints(who)), author: author, rec: rec}, err
}

func (h *hist) pubs(who []int) []crypto.PubKey {
	var r []crypto.PubKey
	for _, a := range who {
		r = append(r, h.accs[a].SignKey.GetPublic())
	}
	return r
}

func (h *hist) opRemove(author int, who []int) (*pendingOp, error) {
	ch := newChange()
	rec, err := h.builder(author).BuildAccountRemove(list.AccountRemovePayload{Identities: h.pubs(who), Change: ch})
	return &pendingOp{name: fmt.Sprintf("remove(by=%d,%s)", author, ints(who)), author: author, rec: rec, newKey: ch.ReadKey}, err
}

func (h *hist) opRequestRemove(a int) (*pendingOp, error) {
	rec, err := h.builder(a).BuildRequestRemove()
	return &pendingOp{name: fmt.Sprintf("reqremove(%d)", a), author: a, rec: rec}, err
}

func (h *hist) opRotate(author int) (*pendingOp, error) {
	ch := newChange()
	rec, err := h.builder(author).BuildReadKeyChange(ch)
	return &pendingOp{name: fmt.Sprintf("rotate(by=%d)", author), author: author, rec: rec, newKey: ch.ReadKey}, err
}

func (h *hist) opRevoke(author int, v *invite) (*pendingOp, error) {
	rec, err := h.builder(author).BuildInviteRevoke(v.recId)
	return &pendingOp{name: fmt.Sprintf("revoke(by=%d,inv%d)", author, v.idx), author: author, rec: rec}, err
}

func (h *hist) opRevokeRotate(author int, vs []*invite, declines []int) (*pendingOp, error) {
	ch := newChange()
	var ids, names []string
	for _, v := range vs {
		ids = append(ids, v.recId)
		names = append(names, fmt.Sprint(v.idx))
	}
	var decl []string
	for _, a := range declines {
		decl = append(decl, h.pendJoin[a])
	}
	res, err := h.builder(author).BuildBatchRequest(list.BatchRequestPayload{InviteRevokes: ids, Declines: decl, ReadKeyChange: &ch})
	return &pendingOp{name: fmt.Sprintf("revoke+rotate(by=%d,inv%s,decl=%s)", author, strings.Join(names, ","), ints(declines)), author: author, rec: res.Rec, newKey: ch.ReadKey}, err
}

func (h *hist) opPerm(author, a int, perm list.AclPermissions) (*pendingOp, error) {
	rec, err := h.builder(author).BuildPermissionChange(list.PermissionChangePayload{Identity: h.accs[a].SignKey.GetPublic(), Permissions: perm})
	return &pendingOp{name: fmt.Sprintf("perm(by=%d,%d,%s)", author, a, permName(perm)), author: author, rec: rec}, err
}

// opBatch: removal (with its rotation) together with additions, approvals and new invites in one record
func (h *hist) opBatch(author int, remove, add []int, addPerm []list.AclPermissions, approve []int, newInv []list.AclPermissions, revoke []*invite) (*pendingOp, error) {
	ch := newChange()
	p := list.BatchRequestPayload{}
	p.Removals = list.AccountRemovePayload{Identities: h.pubs(remove), Change: ch}
	for i, a := range add {
		p.Additions = append(p.Additions, list.AccountAdd{Identity: h.accs[a].SignKey.GetPublic(), Permissions: addPerm[i], Metadata: []byte("m")})
	}
	for _, a := range approve {
		p.Approvals = append(p.Approvals, list.RequestAcceptPayload{RequestRecordId: h.pendJoin[a], Permissions: pReader})
	}
	for _, v := range revoke {
		p.InviteRevokes = append(p.InviteRevokes, v.recId)
	}
	p.NewInvites = newInv
	res, err := h.builder(author).BuildBatchRequest(p)
	if err != nil {
		return nil, err
	}
	return &pendingOp{name: fmt.Sprintf("batch(by=%d,rm=%s,add=%s,appr=%s,newinv=%d,revoke=%d)", author, ints(remove), ints(add), ints(approve), len(newInv), len(revoke)),
		author: author, rec: res.Rec, newKey: ch.ReadKey, invKeys: res.Invites}, nil
}

// ---- hand-crafted records (the real builder never produces these): re-signed tamperings of an honest
// rotation; every one of them must be rejected by a validating list ----

type tamper struct {
	name string
	f    func(h *hist, rkc *aclrecordproto.AclReadKeyChange, removed [][]byte, newKey crypto.SymKey) bool
}

func encTo(pk crypto.PubKey, k crypto.SymKey) *aclrecordproto.AclEncryptedReadKey {
	return &aclrecordproto.AclEncryptedReadKey{Identity: must(pk.Marshall()), EncryptedReadKey: must(pk.Encrypt(must(k.Marshall())))}
}

var tampers = []tamper{
	{"omit-member", func(h *hist, rkc *aclrecordproto.AclReadKeyChange, _ [][]byte, _ crypto.SymKey) bool {
		if len(rkc.AccountKeys) < 2 {
			return false
		}
		i := h.r.Intn(len(rkc.AccountKeys))
		rkc.AccountKeys = append(append([]*aclrecordproto.AclEncryptedReadKey{}, rkc.AccountKeys[:i]...), rkc.AccountKeys[i+1:]...)
		return true
	}},
	{"extra-nonmember", func(h *hist, rkc *aclrecordproto.AclReadKeyChange, removed [][]byte, k crypto.SymKey) bool {
		// the account removed by this very record if any, else any account without permission
		if len(removed) > 0 {
			a := h.accByProto(removed[h.r.Intn(len(removed))])
			rkc.AccountKeys = append(rkc.AccountKeys, encTo(h.accs[a].SignKey.GetPublic(), k))
			return true
		}
		for _, a := range h.r.Perm(h.n()) {
			if h.perm[a] == pNone {
				rkc.AccountKeys = append(rkc.AccountKeys, encTo(h.accs[a].SignKey.GetPublic(), k))
				return true
			}
		}
		return false
	}},
	{"swap-member-for-nonmember", func(h *hist, rkc *aclrecordproto.AclReadKeyChange, removed [][]byte, k crypto.SymKey) bool {
		if len(rkc.AccountKeys) == 0 {
			return false
		}
		for _, a := range h.r.Perm(h.n()) {
			if h.perm[a] == pNone {
				rkc.AccountKeys[h.r.Intn(len(rkc.AccountKeys))] = encTo(h.accs[a].SignKey.GetPublic(), k)
				return true
			}
		}
		return false
	}},
	{"duplicate-member", func(h *hist, rkc *aclrecordproto.AclReadKeyChange, _ [][]byte, k crypto.SymKey) bool {
		if len(rkc.AccountKeys) < 2 {
			return false
		}
		rkc.AccountKeys[0] = rkc.AccountKeys[1]
		return true
	}},
	{"omit-open-invite", func(h *hist, rkc *aclrecordproto.AclReadKeyChange, _ [][]byte, _ crypto.SymKey) bool {
		if len(rkc.InviteKeys) == 0 {
			return false
		}
		rkc.InviteKeys = rkc.InviteKeys[1:]
		return true
	}},
	{"extra-dead-invite", func(h *hist, rkc *aclrecordproto.AclReadKeyChange, _ [][]byte, k crypto.SymKey) bool {
		// a revoked invite key, a request-to-join invite key, or a key that never was an invite
		var cands []crypto.PubKey
		for _, v := range h.invs {
			if !v.live || !v.open {
				cands = append(cands, v.priv.GetPublic())
			}
		}
		_, pub, _ := crypto.GenerateRandomEd25519KeyPair()
		cands = append(cands, pub)
		rkc.InviteKeys = append(rkc.InviteKeys, encTo(cands[h.r.Intn(len(cands))], k))
		return true
	}},
	{"swap-open-invite-for-dead", func(h *hist, rkc *aclrecordproto.AclReadKeyChange, _ [][]byte, k crypto.SymKey) bool {
		if len(rkc.InviteKeys) == 0 {
			return false
		}
		_, pub, _ := crypto.GenerateRandomEd25519KeyPair()
		for _, v := range h.invs {
			if !v.live {
				pub = v.priv.GetPublic()
			}
		}
		rkc.InviteKeys[0] = encTo(pub, k)
		return true
	}},
	{"no-old-key", func(h *hist, rkc *aclrecordproto.AclReadKeyChange, _ [][]byte, _ crypto.SymKey) bool {
		rkc.EncryptedOldReadKey = nil
		return true
	}},
	{"no-metadata-key", func(h *hist, rkc *aclrecordproto.AclReadKeyChange, _ [][]byte, _ crypto.SymKey) bool {
		rkc.EncryptedMetadataPrivKey = nil
		return true
	}},
}

// craft re-signs a tampered copy of the honest record op.rec (which must contain a rotation).
func (h *hist) craft(op *pendingOp, t tamper) (*consensusproto.RawRecordWithId, bool) {
	rec := &consensusproto.Record{}
	if err := rec.UnmarshalVT(op.rec.Payload); err != nil {
		return nil, false
	}
	d := &aclrecordproto.AclData{}
	if err := d.UnmarshalVT(rec.Data); err != nil {
		return nil, false
	}
	done := false
	for _, c := range d.AclContent {
		if rm := c.GetAccountRemove(); rm != nil && rm.ReadKeyChange != nil {
			done = t.f(h, rm.ReadKeyChange, rm.Identities, op.newKey)
			break
		}
		if rk := c.GetReadKeyChange(); rk != nil {
			done = t.f(h, rk, nil, op.newKey)
			break
		}
	}
	if !done {
		return nil, false
	}
	rec.Data = must(d.MarshalVT())
	payload := must(rec.MarshalVT())
	sig := must(h.accs[op.author].SignKey.Sign(payload))
	return h.wrap(&consensusproto.RawRecord{Payload: payload, Signature: sig}), true
}
