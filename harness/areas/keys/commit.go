package keys

import (
	"fmt"
	"sort"
	"strings"

	"github.com/anyproto/any-sync/commonspace/object/accountdata"
	"github.com/anyproto/any-sync/commonspace/object/acl/aclrecordproto"
	"github.com/anyproto/any-sync/commonspace/object/acl/list"
	"github.com/anyproto/any-sync/util/crypto"
)

func newNodeKeys() (*accountdata.AccountKeys, error) { return accountdata.NewRandom() }

func (h *hist) violate(stream, desc string) {
	h.r.Violate("C05", h.sig, stream, desc+" | history: "+strings.Join(h.trace, " ; "), append([]string{}, h.ops...))
}

// commit offers the record to the acceptor; on acceptance it appends it to the raw log, derives the
// symbolic model line FROM THE RAW BYTES, updates the membership shadow, rebuilds every view and runs the
// oracle. It returns the acceptor's error (nil = accepted) and whether the history can go on.
func (h *hist) commit(op *pendingOp) (err error, alive bool) {
	raw := h.wrap(op.rec)
	func() {
		defer func() {
			if p := recover(); p != nil {
				err = fmt.Errorf("panic in AddRawRecord: %v", p)
			}
		}()
		err = h.acceptor.AddRawRecord(raw)
	}()
	if err != nil {
		return err, true
	}
	h.raw = append(h.raw, raw)
	idx := len(h.raw) - 1
	h.feedAcl(raw, idx)
	h.trace = append(h.trace, fmt.Sprintf("%d:%s", idx, op.name))
	data, _, derr := decodeData(raw)
	if derr != nil {
		h.r.Fatal("cannot decode an accepted record: " + derr.Error())
	}
	// the read keys this record introduces, one per rotation content, in content order
	h.pendKeys = op.newKeys
	if len(h.pendKeys) == 0 && op.newKey != nil {
		h.pendKeys = []crypto.SymKey{op.newKey}
	}
	h.composed = op.shape != ""
	invNo := 0
	var items []string
	for ci, c := range data.AclContent {
		h.ci = ci
		switch {
		case c.GetInvite() != nil:
			iv := c.GetInvite()
			v := &invite{idx: len(h.invs), open: iv.InviteType == aclrecordproto.AclInviteType_AnyoneCanJoin, perm: list.AclPermissions(iv.Permissions),
				recId: raw.Id, live: true, createdAt: idx, revokedAt: -1, revokedPos: -1, pubProto: iv.InviteKey}
			if invNo < len(op.invKeys) {
				v.priv = op.invKeys[invNo]
			}
			invNo++
			if v.priv == nil {
				h.r.Fatal("invite record without a remembered key")
			}
			h.invs = append(h.invs, v)
			t := "-"
			if v.open {
				t, _ = h.asymTerm(iv.InviteKey, iv.EncryptedReadKey, idx)
			}
			items = append(items, fmt.Sprintf("inv %d %s %s", v.idx, b01(v.open), t))
		case c.GetInviteRevoke() != nil:
			id := c.GetInviteRevoke().InviteRecordId
			found := false
			for _, v := range h.invs {
				if v.recId == id && v.live {
					v.live, v.revokedAt, v.revokedPos, v.revokedComposed = false, idx, idx*100+h.ci, h.composed
					items = append(items, fmt.Sprintf("revoke %d", v.idx))
					found = true
					// NB: several invites created by one batch record share the record id; the real state keys invites
					// by record id, so one revoke retires the id. The harness never creates two invites in one record.
					break
				}
			}
			if !found {
				items = append(items, "nop")
			}
		case c.GetAccountsAdd() != nil:
			for _, ad := range c.GetAccountsAdd().Additions {
				a := h.accByProto(ad.Identity)
				t, _ := h.asymTerm(ad.Identity, ad.EncryptedReadKey, idx)
				h.admit(a, list.AclPermissions(ad.Permissions), idx)
				items = append(items, fmt.Sprintf("enter %d %s", a, t))
			}
		case c.GetRequestAccept() != nil:
			ra := c.GetRequestAccept()
			a := h.accByProto(ra.Identity)
			t, _ := h.asymTerm(ra.Identity, ra.EncryptedReadKey, idx)
			h.admit(a, list.AclPermissions(ra.Permissions), idx)
			delete(h.pendJoin, a)
			delete(h.pendRemove, a)
			items = append(items, fmt.Sprintf("enter %d %s", a, t))
		case c.GetInviteJoin() != nil:
			ij := c.GetInviteJoin()
			a := h.accByProto(ij.Identity)
			t, _ := h.asymTerm(ij.Identity, ij.EncryptedReadKey, idx)
			p := list.AclPermissions(ij.Permissions)
			if p == pNone {
				for _, v := range h.invs {
					if v.recId == ij.InviteRecordId {
						p = v.perm
					}
				}
			}
			h.admit(a, p, idx)
			delete(h.pendJoin, a)
			delete(h.pendRemove, a) // applyInviteJoinWithoutApprove drops the joiner's pending request of any type
			items = append(items, fmt.Sprintf("enter %d %s", a, t))
		case c.GetRequestJoin() != nil:
			a := h.accByProto(c.GetRequestJoin().InviteIdentity)
			h.pendJoin[a] = raw.Id
			items = append(items, "nop")
		case c.GetAccountRequestRemove() != nil:
			h.pendRemove[op.author] = raw.Id
			items = append(items, "nop")
		case c.GetRequestDecline() != nil:
			for a, id := range h.pendJoin {
				if id == c.GetRequestDecline().RequestRecordId {
					delete(h.pendJoin, a)
				}
			}
			items = append(items, "nop")
		case c.GetRequestCancel() != nil:
			id := c.GetRequestCancel().RecordId
			for a, x := range h.pendJoin {
				if x == id {
					delete(h.pendJoin, a)
				}
			}
			for a, x := range h.pendRemove {
				if x == id {
					delete(h.pendRemove, a)
				}
			}
			items = append(items, "nop")
		case c.GetPermissionChange() != nil:
			items = append(items, h.permChange(c.GetPermissionChange(), idx))
		case c.GetPermissionChanges() != nil:
			for _, pc := range c.GetPermissionChanges().Changes {
				items = append(items, h.permChange(pc, idx))
			}
		case c.GetAccountRemove() != nil:
			rm := c.GetAccountRemove()
			var removed []int
			for _, id := range rm.Identities {
				a := h.accByProto(id)
				removed = append(removed, a)
				h.perm[a], h.lostAt[a], h.lostPos[a] = pNone, idx, idx*100+h.ci
				delete(h.pendJoin, a)
				delete(h.pendRemove, a)
			}
			h.newGen(raw.Id, idx)
			items = append(items, h.rotation(rm.ReadKeyChange, removed, idx))
		case c.GetReadKeyChange() != nil:
			h.newGen(raw.Id, idx)
			items = append(items, h.rotation(c.GetReadKeyChange(), nil, idx))
		default:
			items = append(items, "nop")
		}
	}
	h.ops = append(h.ops, "rec "+strings.Join(items, " ; "))
	if verr := h.rebuildViews(); verr != nil {
		h.violate("keys.view-build", verr.Error())
		return nil, false
	}
	h.oracle()
	return nil, true
}

// newGen registers the generation the rotation content being interpreted introduces.
func (h *hist) newGen(recId string, idx int) {
	if len(h.pendKeys) == 0 {
		h.r.Fatal("a rotation content without a remembered read key")
	}
	h.gens = append(h.gens, gen{recId: recId, key: h.pendKeys[0], at: idx, pos: idx*100 + h.ci})
	h.pendKeys = h.pendKeys[1:]
}

func b01(b bool) string {
	if b {
		return "1"
	}
	return "0"
}

func (h *hist) admit(a int, p list.AclPermissions, idx int) {
	h.perm[a] = p
	if p == pNone {
		h.lostAt[a], h.lostPos[a] = idx, idx*100+h.ci
	}
}

func (h *hist) permChange(pc *aclrecordproto.AclAccountPermissionChange, idx int) string {
	a := h.accByProto(pc.Identity)
	old, nw := h.perm[a], list.AclPermissions(pc.Permissions)
	h.perm[a] = nw
	switch {
	case old != pNone && nw == pNone:
		h.lostAt[a], h.lostPos[a] = idx, idx*100+h.ci
		return fmt.Sprintf("drop %d", a)
	case old == pNone && nw != pNone:
		return fmt.Sprintf("grant %d", a)
	}
	return "nop"
}

// rotation names the content of a read key change and checks, on the raw record, that its ciphertext
// recipients are exactly the accounts holding a permission and the live anyone-can-join invites.
func (h *hist) rotation(rkc *aclrecordproto.AclReadKeyChange, removed []int, idx int) string {
	var ak, ik []string
	var gotAcc, gotInv []int
	for _, e := range rkc.AccountKeys {
		t, _ := h.asymTerm(e.Identity, e.EncryptedReadKey, idx)
		a := h.accByProto(e.Identity)
		gotAcc = append(gotAcc, a)
		ak = append(ak, fmt.Sprintf("%d:%s", a, t))
	}
	for _, e := range rkc.InviteKeys {
		t, _ := h.asymTerm(e.Identity, e.EncryptedReadKey, idx)
		v := h.invByProto(e.Identity)
		gotInv = append(gotInv, v)
		ik = append(ik, fmt.Sprintf("%d:%s", v, t))
	}
	sort.Strings(ak)
	sort.Strings(ik)
	old := "J"
	if rkc.EncryptedOldReadKey != nil {
		old = h.symTerm(rkc.EncryptedOldReadKey, idx)
	}
	var wantInv []int
	for _, v := range h.liveInvites(true) {
		wantInv = append(wantInv, v.idx)
	}
	if ints(sortedCopy(gotAcc)) != ints(h.members()) {
		h.violate("keys.rotation-recipients", fmt.Sprintf("record %d: rotation carries account ciphertexts for [%s], accounts holding a permission are [%s]", idx, ints(sortedCopy(gotAcc)), ints(h.members())))
	}
	if ints(sortedCopy(gotInv)) != ints(wantInv) {
		h.violate("keys.rotation-recipients", fmt.Sprintf("record %d: rotation carries invite ciphertexts for [%s], live anyone-can-join invites are [%s]", idx, ints(sortedCopy(gotInv)), ints(wantInv)))
	}
	newG := len(h.gens) - 1
	for i, a := range gotAcc {
		want := fmt.Sprintf("%d:A%d.%d", a, a, newG)
		if !contains(ak, want) {
			h.violate("keys.rotation-recipients", fmt.Sprintf("record %d: ciphertext #%d labelled for account %d does not decrypt (with that account's key) to the new read key", idx, i, a))
		}
	}
	for i, v := range gotInv {
		want := fmt.Sprintf("%d:I%d.%d", v, v, newG)
		if !contains(ik, want) {
			h.violate("keys.rotation-recipients", fmt.Sprintf("record %d: ciphertext #%d labelled for invite %d does not decrypt (with the invite key) to the new read key", idx, i, v))
		}
	}
	join := func(l []string) string {
		if len(l) == 0 {
			return "-"
		}
		return strings.Join(l, ",")
	}
	return fmt.Sprintf("rot rm=%s ak=%s ik=%s old=%s", ints(sortedCopy(removed)), join(ak), join(ik), old)
}

func contains(l []string, s string) bool {
	for _, x := range l {
		if x == s {
			return true
		}
	}
	return false
}

// oracle: C05 stated directly on the real views and the real bytes.
func (h *hist) oracle() {
	cur := len(h.gens) - 1
	last := len(h.raw) - 1
	for a := range h.accs {
		vrow, crow := h.keyRow(h.views[a]), h.keyRow(h.cviews[a])
		if vrow != crow {
			h.violate("keys.view-modes", fmt.Sprintf("after record %d account %d: validating view holds %s, client view holds %s", last, a, vrow, crow))
		}
		for _, l := range []list.AclList{h.views[a], h.cviews[a], h.acceptor} {
			if id := l.AclState().CurrentReadKeyId(); id != h.gens[cur].recId {
				h.violate("keys.current-id", fmt.Sprintf("after record %d account %d: CurrentReadKeyId is not the latest rotation record", last, a))
			}
		}
		if h.tree != nil {
			// the long-lived AclList of the account (fed record by record) must agree with a fresh build
			if lrow := h.keyRow(h.tree.reps[a].acl); lrow != crow {
				h.violate("keys.live-acl", fmt.Sprintf("after record %d account %d: its long-lived AclList holds %s, a fresh build from the raw log holds %s", last, a, lrow, crow))
			}
		}
		clos := boolRow(h.closure([]int{a}))
		if h.perm[a] != pNone {
			h.r.Count("oracle.member")
			if strings.Trim(crow, "1") != "" {
				h.violate("keys.member-has-all", fmt.Sprintf("after record %d account %d holds %s but its view has read keys %s (generations 0..%d)", last, a, permName(h.perm[a]), crow, cur))
			}
		} else {
			h.r.Count("oracle.nonmember")
			for g, gn := range h.gens {
				if gn.pos < h.lostPos[a] {
					// introduced while the account still held a permission (-1: never admitted). Positions are
					// record*100 + content index: a rotation that precedes the drop inside one record came first; the
					// rotation nested in the AccountRemove that removes the account has the same position: denied
					continue
				}
				if crow[g] != '0' || clos[g] != '0' {
					h.violate("keys.nonmember-cannot", fmt.Sprintf("after record %d account %d holds no permission since record %d but obtains generation %d (introduced by record %d): view=%s derivable=%s", last, a, h.lostAt[a], g, gn.at, crow, clos))
					break
				}
			}
		}
		// the view is exactly what is derivable from the raw log and the account's private key
		if strings.ReplaceAll(crow, "x", "0") != clos {
			h.violate("keys.view-vs-derivable", fmt.Sprintf("after record %d account %d: view holds %s, derivable from the raw log with its private key: %s", last, a, crow, clos))
		}
	}
	for _, v := range h.invs {
		clos := h.closure([]int{h.n() + v.idx})
		if v.live {
			h.r.Count("oracle.invite-live")
			continue
		}
		h.r.Count("oracle.invite-revoked")
		for g, gn := range h.gens {
			// record granular for records of the real builder (it emits revokes before the rotation); for a record the
			// harness signed itself only the order of the contents is demanded
			after := gn.at > v.revokedAt || (gn.at == v.revokedAt && (!v.revokedComposed || gn.pos > v.revokedPos))
			if after && clos[g] {
				if gn.at == v.revokedAt && h.sig == "" {
					// the rotation and the revoke sit in the same record (finding F-keys-batch-revoke-keeps-key, fixed)
					h.sig = "F-keys-batch-revoke-keeps-key"
				}
				h.violate("keys.revoked-invite", fmt.Sprintf("after record %d the key of invite %d (revoked by record %d) still opens generation %d introduced by record %d", last, v.idx, v.revokedAt, g, gn.at))
				break
			}
		}
	}
}

// table renders the implementation's observation compared with the model after every record.
func (h *hist) table() string {
	var rows []string
	for a := range h.accs {
		rows = append(rows, fmt.Sprintf("%d:%s", a, h.keyRow(h.cviews[a])))
	}
	var inv []int
	for _, v := range h.invs {
		if v.live {
			inv = append(inv, v.idx)
		}
	}
	var mem []int
	for a, k := range h.accs {
		if !h.acceptor.AclState().Permissions(k.SignKey.GetPublic()).NoPermissions() {
			mem = append(mem, a)
		}
	}
	if ints(mem) != ints(h.members()) {
		h.violate("keys.membership", fmt.Sprintf("after record %d the acceptor state has permission holders [%s], the history means [%s]", len(h.raw)-1, ints(mem), ints(h.members())))
	}
	return fmt.Sprintf("cur=%d mem=%s inv=%s keys=%s", len(h.gens)-1, ints(mem), ints(inv), strings.Join(rows, ","))
}
