package keys

import (
	"bytes"
	"context"
	"errors"
	"fmt"
	"os"
	"path/filepath"
	"sync/atomic"

	anystore "github.com/anyproto/any-store"

	"github.com/anyproto/any-sync/commonspace/headsync/headstorage"
	"github.com/anyproto/any-sync/commonspace/object/acl/list"
	"github.com/anyproto/any-sync/commonspace/object/tree/objecttree"
	"github.com/anyproto/any-sync/commonspace/object/tree/treechangeproto"
	"github.com/anyproto/any-sync/util/crypto"

	"verifharness/internal/corr"
)

// treeCtx: one real object tree (any-store backed) living in the space of the history. The storage is
// shared; every account looks at it through its OWN tree object built over its OWN AclList view.
type treeCtx struct {
	dir     string
	db      anystore.DB
	st      objecttree.Storage
	root    *treechangeproto.RawTreeChangeWithId
	written []content
	n       int

	// the owner's long-lived replica: its own storage, a tree object that lives through the whole history over
	// an AclList that receives every accepted record incrementally (AddRawRecord). It gets every change of the
	// other writers as transmitted raw bytes (AddRawChanges) and must decrypt all of them: this exercises the
	// lazy key refresh of readKeysFromAclState on a live tree, which fresh trees never reach.
	liveDb   anystore.DB
	liveAcl  list.AclList
	liveTree objecttree.ObjectTree
	liveGot  map[string][]byte
}

type content struct {
	id    string
	plain []byte
	gen   int
}

var marker = []byte("PLAINTEXT-MARKER-c05-")

func (h *hist) closeTree() {
	if h.tree == nil {
		return
	}
	if h.tree.db != nil {
		h.tree.db.Close()
	}
	if h.tree.liveDb != nil {
		h.tree.liveDb.Close()
	}
	os.RemoveAll(h.tree.dir)
	h.tree = nil
}

func (h *hist) openTree(creator int) error {
	ctx := context.Background()
	base := ""
	if st, serr := os.Stat("/dev/shm"); serr == nil && st.IsDir() {
		base = "/dev/shm" // memory backed: the SQLite fsyncs of any-store dominate the wall time otherwise
	}
	dir, err := os.MkdirTemp(base, "verif-keys-*")
	if err != nil && base != "" {
		dir, err = os.MkdirTemp("", "verif-keys-*")
	}
	if err != nil {
		return err
	}
	t := &treeCtx{dir: dir}
	h.tree = t
	t.db, err = anystore.Open(ctx, filepath.Join(dir, "db"), nil)
	if err != nil {
		return err
	}
	t.root, err = objecttree.CreateObjectTreeRoot(objecttree.ObjectTreeCreatePayload{
		PrivKey: h.accs[creator].SignKey, ChangeType: "t", SpaceId: fmt.Sprintf("space-%d", h.id), IsEncrypted: true,
		Seed: []byte(fmt.Sprint(h.id)), Timestamp: 1700000000,
	}, h.views[creator])
	if err != nil {
		return err
	}
	hs, err := headstorage.New(ctx, t.db)
	if err != nil {
		return err
	}
	t.st, err = objecttree.CreateStorage(ctx, t.root, hs, t.db)
	if err != nil {
		return err
	}
	if s, ok := t.st.(interface{ SetAddSeq(*atomic.Uint64) }); ok {
		s.SetAddSeq(&atomic.Uint64{})
	}
	// live replica of the owner
	t.liveDb, err = anystore.Open(ctx, filepath.Join(dir, "live"), nil)
	if err != nil {
		return err
	}
	hs2, err := headstorage.New(ctx, t.liveDb)
	if err != nil {
		return err
	}
	st2, err := objecttree.CreateStorage(ctx, t.root, hs2, t.liveDb)
	if err != nil {
		return err
	}
	if s, ok := st2.(interface{ SetAddSeq(*atomic.Uint64) }); ok {
		s.SetAddSeq(&atomic.Uint64{})
	}
	t.liveAcl, err = h.buildView(h.accs[creator], true)
	if err != nil {
		return err
	}
	t.liveTree, err = objecttree.BuildObjectTree(st2, t.liveAcl)
	if err != nil {
		return err
	}
	t.liveGot = map[string][]byte{}
	return nil
}

// liveSync hands the owner's live replica the raw bytes of freshly written changes and checks that it
// reads every change written so far.
func (h *hist) liveSync(res objecttree.AddResult) {
	t := h.tree
	ctx := context.Background()
	if _, err := t.liveTree.AddRawChanges(ctx, objecttree.RawChangesPayload{NewHeads: res.Heads, RawChanges: res.RawChanges()}); err != nil {
		h.violate("keys.tree-live", fmt.Sprintf("the owner's live replica rejects a transmitted change: %v", err))
		return
	}
	h.liveCheck()
}

func (h *hist) liveCheck() {
	t := h.tree
	ierr := t.liveTree.IterateRoot(func(ch *objecttree.Change, decrypted []byte) (any, error) {
		t.liveGot[ch.Id] = append([]byte{}, decrypted...)
		return "m", nil
	}, func(ch *objecttree.Change) bool { return true })
	h.r.Count("tree.live-read")
	if ierr != nil {
		h.violate("keys.tree-live", fmt.Sprintf("the owner's live replica cannot iterate its tree after record %d: %v", len(h.raw)-1, ierr))
		return
	}
	for _, c := range t.written {
		if !bytes.Equal(t.liveGot[c.id], c.plain) {
			h.violate("keys.tree-live", fmt.Sprintf("the owner's live replica does not read back a change written under generation %d", c.gen))
			return
		}
	}
}

// liveWrite: the owner writes on its live tree (key of the current generation must have been picked up
// lazily) and the change is transmitted to the shared storage.
func (h *hist) liveWrite() {
	t := h.tree
	ctx := context.Background()
	t.n++
	plain := append(append([]byte{}, marker...), []byte(fmt.Sprintf("live-%d-%d-%d", h.id, t.n, h.r.Intn(1<<30)))...)
	owner := h.owner()
	res, err := t.liveTree.AddContent(ctx, objecttree.SignableChangeContent{Data: plain, Key: h.accs[owner].SignKey, ShouldBeEncrypted: true, DataType: "d", Timestamp: int64(1700000000 + t.n)})
	h.r.Count("tree.live-add")
	if err != nil || len(res.Added) != 1 {
		h.violate("keys.tree-live", fmt.Sprintf("the owner cannot add encrypted content on its live tree after record %d: %v", len(h.raw)-1, err))
		return
	}
	cur := len(h.gens) - 1
	rc := &treechangeproto.RawTreeChange{}
	tc := &treechangeproto.TreeChange{}
	if rc.UnmarshalVT(res.Added[0].RawChange) != nil || tc.UnmarshalVT(rc.Payload) != nil {
		h.r.Fatal("cannot decode a change")
	}
	if tc.ReadKeyId != h.gens[cur].recId || bytes.Contains(res.Added[0].RawChange, marker) {
		h.violate("keys.tree-live", fmt.Sprintf("a change written on the live tree after record %d names a stale read key id or carries plaintext", len(h.raw)-1))
	}
	h.wrote[owner] = true
	t.written = append(t.written, content{id: res.Added[0].Id, plain: plain, gen: cur})
	ft, err := objecttree.BuildObjectTree(t.st, h.cviews[owner])
	if err != nil {
		h.violate("keys.tree", fmt.Sprintf("owner cannot build the tree over its view: %v", err))
		return
	}
	if _, err := ft.AddRawChanges(ctx, objecttree.RawChangesPayload{NewHeads: res.Heads, RawChanges: res.RawChanges()}); err != nil {
		h.violate("keys.tree-live", fmt.Sprintf("a fresh tree rejects the change transmitted from the live tree: %v", err))
	}
}

// treeRound: a writer adds encrypted content under the current key generation; the raw bytes returned,
// and the raw bytes in storage, must not contain the plaintext; every current member must read back the
// plaintext of every change (whatever generation it was written under) through its own tree object; an
// account that lacks the generation of a change must fail to decrypt it.
func (h *hist) treeRound() {
	ctx := context.Background()
	var writers []int
	for a, p := range h.perm {
		if p.CanWrite() {
			writers = append(writers, a)
		}
	}
	if len(writers) == 0 {
		return
	}
	if h.tree == nil {
		if err := h.openTree(h.owner()); err != nil {
			h.r.Fatal("cannot create the tree storage: " + err.Error())
		}
	}
	t := h.tree
	w := h.pick(writers)
	wl := h.views[w]
	if h.r.Chance(50) {
		wl = h.cviews[w]
	}
	wt, err := objecttree.BuildObjectTree(t.st, wl)
	if err != nil {
		h.violate("keys.tree", fmt.Sprintf("writer %d cannot build the tree over its view: %v", w, err))
		return
	}
	t.n++
	plain := append(append([]byte{}, marker...), []byte(fmt.Sprintf("%d-%d-%d", h.id, t.n, h.r.Intn(1<<30)))...)
	res, err := wt.AddContent(ctx, objecttree.SignableChangeContent{Data: plain, Key: h.accs[w].SignKey, ShouldBeEncrypted: true, DataType: "d", Timestamp: int64(1700000000 + t.n)})
	h.r.Count("tree.add")
	cur := len(h.gens) - 1
	if err != nil {
		h.violate("keys.tree", fmt.Sprintf("account %d (%s) cannot add encrypted content after record %d: %v", w, permName(h.perm[w]), len(h.raw)-1, err))
		return
	}
	if len(res.Added) != 1 {
		h.r.Fatal("AddContent returned an unexpected number of changes")
	}
	id := res.Added[0].Id
	h.wrote[w] = true
	t.written = append(t.written, content{id: id, plain: plain, gen: cur})
	h.liveSync(res)
	if h.r.Chance(40) {
		h.liveWrite()
	}
	// transmitted bytes and stored bytes
	stored, gerr := t.st.Get(ctx, id)
	if gerr != nil {
		h.violate("keys.tree", "added change is not in storage: "+gerr.Error())
		return
	}
	for what, rawb := range map[string][]byte{"returned (transmitted)": res.Added[0].RawChange, "stored": stored.RawChange} {
		if bytes.Contains(rawb, marker) {
			h.violate("keys.tree-plaintext", fmt.Sprintf("%s raw bytes of an encrypted change contain the plaintext", what))
		}
		rc := &treechangeproto.RawTreeChange{}
		tc := &treechangeproto.TreeChange{}
		if rc.UnmarshalVT(rawb) != nil || tc.UnmarshalVT(rc.Payload) != nil {
			h.r.Fatal("cannot decode a stored change")
		}
		if tc.ReadKeyId != h.gens[cur].recId {
			h.violate("keys.tree-keyid", fmt.Sprintf("%s change names read key id of a generation other than the current one (%d)", what, cur))
		}
		// ciphertext under the tree key derived from the generation the id names
		tk, derr := crypto.NewKeyDeriver(fmt.Sprintf(crypto.AnysyncTreePath, t.root.Id)).DeriveKey(must(h.gens[cur].key.Raw()))
		if derr != nil {
			h.r.Fatal(derr.Error())
		}
		dec, derr := tk.Decrypt(tc.ChangesData)
		if derr != nil || !bytes.Equal(dec, plain) {
			h.violate("keys.tree-ciphertext", fmt.Sprintf("%s change data is not the plaintext encrypted under the tree key of generation %d", what, cur))
		}
	}
	// every account reads through its own tree object
	for a := range h.accs {
		al := h.cviews[a]
		at, err := objecttree.BuildObjectTree(t.st, al)
		if err != nil {
			if h.perm[a] != pNone {
				h.violate("keys.tree", fmt.Sprintf("member %d cannot build the tree over its view: %v", a, err))
			}
			h.r.Count("tree.reader-build-failed")
			continue
		}
		got := map[string][]byte{}
		ierr := at.IterateRoot(func(ch *objecttree.Change, decrypted []byte) (any, error) {
			got[ch.Id] = append([]byte{}, decrypted...)
			return "m", nil
		}, func(ch *objecttree.Change) bool { return true })
		row := h.keyRow(al)
		if h.perm[a] != pNone {
			h.r.Count("tree.member-read")
			if ierr != nil {
				h.violate("keys.tree-member-decrypt", fmt.Sprintf("member %d cannot iterate the tree: %v", a, ierr))
				continue
			}
			for _, c := range t.written {
				if !bytes.Equal(got[c.id], c.plain) {
					h.violate("keys.tree-member-decrypt", fmt.Sprintf("member %d does not read back the plaintext of a change written under generation %d", a, c.gen))
					break
				}
			}
		} else {
			h.r.Count("tree.nonmember-read")
			for _, c := range t.written {
				if row[c.gen] == '0' {
					if g, ok := got[c.id]; ok && bytes.Equal(g, c.plain) {
						h.violate("keys.tree-nonmember-decrypt", fmt.Sprintf("account %d has no key of generation %d but its tree decrypts a change written under it", a, c.gen))
					}
					if ierr == nil {
						h.violate("keys.tree-nonmember-decrypt", fmt.Sprintf("account %d has no key of generation %d but iterating the tree with decryption succeeds", a, c.gen))
					} else if !errors.Is(ierr, list.ErrNoReadKey) {
						h.r.Count("tree.nonmember-other-error")
					}
					break
				}
			}
		}
	}
}

// buildWithoutKey: the change builder must refuse to build an encrypted change without a key, and must
// never put the plaintext into the change when a key is given.
func buildWithoutKey(r *corr.Run) {
	priv, _, _ := crypto.GenerateRandomEd25519KeyPair()
	cb := objecttree.NewChangeBuilder(crypto.NewKeyStorage(), nil)
	for i := 0; i < 8; i++ {
		data := append(append([]byte{}, marker...), byte('a'+i))
		pc := objecttree.BuilderContent{TreeHeadIds: []string{"h"}, AclHeadId: "a", SnapshotBaseId: "s", ReadKeyId: "k", PrivKey: priv, Content: data, Timestamp: 1, DataType: "d",
			IsSnapshot: i%2 == 0}
		ch, raw, err := cb.Build(pc)
		r.Count("build.nokey")
		if !errors.Is(err, objecttree.ErrMissingEncryptKey) {
			desc := fmt.Sprintf("Build(Unencrypted=false, ReadKey=nil) returned err=%v", err)
			if raw != nil && bytes.Contains(raw.RawChange, marker) {
				desc += " and emitted the plaintext"
			}
			_ = ch
			r.Violate("C05", "", "keys.build-without-key", desc, []string{"build nokey"})
		}
		k := crypto.NewAES()
		pc.ReadKey = k
		_, raw, err = cb.Build(pc)
		r.Count("build.withkey")
		if err != nil || raw == nil || bytes.Contains(raw.RawChange, marker) {
			r.Violate("C05", "", "keys.build-with-key", fmt.Sprintf("Build with a key: err=%v, plaintext visible=%v", err, raw != nil && bytes.Contains(raw.RawChange, marker)), []string{"build key"})
		}
		pc.Unencrypted = true
		_, raw, err = cb.Build(pc)
		if err != nil || raw == nil || !bytes.Contains(raw.RawChange, marker) {
			r.Violate("C05", "", "keys.build-unencrypted", fmt.Sprintf("Build(Unencrypted=true) does not carry the content as is: err=%v", err), []string{"build plain"})
		}
		r.Case(fmt.Sprintf("build %d", i), false)
	}
}
