package keys

import (
	"bytes"
	"context"
	"errors"
	"fmt"
	"os"
	"path/filepath"
	"strings"
	"sync/atomic"

	anystore "github.com/anyproto/any-store"

	"github.com/anyproto/any-sync/commonspace/headsync/headstorage"
	"github.com/anyproto/any-sync/commonspace/object/acl/list"
	"github.com/anyproto/any-sync/commonspace/object/tree/objecttree"
	"github.com/anyproto/any-sync/commonspace/object/tree/treechangeproto"
	"github.com/anyproto/any-sync/consensus/consensusproto"
	"github.com/anyproto/any-sync/util/crypto"

	"verifharness/internal/corr"
)

// treeCtx: one real object tree (any-store backed) living in the space of the history.
//   * a shared "main" storage: every account looks at it through a FRESH tree object built over its fresh view;
//   * one long-lived replica per account (own storage, a tree object that stays open through the whole history,
//     over the account's own long-lived AclList fed record by record with AddRawRecord). Replicas receive the
//     changes of the others as transmitted raw bytes (AddRawChanges), possibly late, also while the account is
//     out of the space; writers may write on their long-lived tree. This is what exercises the per-tree key
//     cache (readKeysFromAclState) across membership changes.
type treeCtx struct {
	dir     string
	db      anystore.DB
	st      objecttree.Storage
	root    *treechangeproto.RawTreeChangeWithId
	written []content
	n       int
	reps    []*replica
}

type payload struct {
	heads []string
	raws  []*treechangeproto.RawTreeChangeWithId
	ids   []string
}

type replica struct {
	acc     int
	db      anystore.DB
	acl     list.AclList
	tree    objecttree.ObjectTree
	pending []payload
	has     map[string]bool   // change ids delivered to (or written by) this replica
	got     map[string][]byte // plaintexts this replica's tree produced
	touches int
}

type content struct {
	id     string
	plain  []byte
	gen    int
	author int
}

var marker = []byte("PLAINTEXT-MARKER-c05-")

func (h *hist) closeTree() {
	if h.tree == nil {
		return
	}
	for _, rp := range h.tree.reps {
		if rp.db != nil {
			rp.db.Close()
		}
	}
	if h.tree.db != nil {
		h.tree.db.Close()
	}
	os.RemoveAll(h.tree.dir)
	h.tree = nil
}

func newTreeStorage(ctx context.Context, dir, name string, root *treechangeproto.RawTreeChangeWithId) (anystore.DB, objecttree.Storage, error) {
	db, err := anystore.Open(ctx, filepath.Join(dir, name), nil)
	if err != nil {
		return nil, nil, err
	}
	hs, err := headstorage.New(ctx, db)
	if err != nil {
		return db, nil, err
	}
	st, err := objecttree.CreateStorage(ctx, root, hs, db)
	if err != nil {
		return db, nil, err
	}
	if s, ok := st.(interface{ SetAddSeq(*atomic.Uint64) }); ok {
		s.SetAddSeq(&atomic.Uint64{})
	}
	return db, st, nil
}

// openTree is called right after the root: the tree and every account's replica live through the whole history.
func (h *hist) openTree(creator int) error {
	ctx := context.Background()
	base := ""
	if st, serr := os.Stat("/dev/shm"); serr == nil && st.IsDir() {
		base = "/dev/shm" // memory backed: the SQLite fsyncs of any-store dominate the wall time otherwise
	}
	dir, err := os.MkdirTemp(base, "verif-keys-*")
	if err != nil && base != "" {
		dir, err = os.MkdirTemp("", "verif-keys-*")
	}
	if err != nil {
		return err
	}
	t := &treeCtx{dir: dir}
	h.tree = t
	t.root, err = objecttree.CreateObjectTreeRoot(objecttree.ObjectTreeCreatePayload{
		PrivKey: h.accs[creator].SignKey, ChangeType: "t", SpaceId: fmt.Sprintf("space-%d", h.id), IsEncrypted: true,
		Seed: []byte(fmt.Sprint(h.id)), Timestamp: 1700000000,
	}, h.views[creator])
	if err != nil {
		return err
	}
	t.db, t.st, err = newTreeStorage(ctx, dir, "main", t.root)
	if err != nil {
		return err
	}
	for a := range h.accs {
		rp := &replica{acc: a, has: map[string]bool{}, got: map[string][]byte{}}
		t.reps = append(t.reps, rp)
		var st objecttree.Storage
		rp.db, st, err = newTreeStorage(ctx, dir, fmt.Sprintf("rep%d", a), t.root)
		if err != nil {
			return err
		}
		rp.acl, err = h.buildView(h.accs[a], true)
		if err != nil {
			return err
		}
		rp.tree, err = objecttree.BuildObjectTree(st, rp.acl)
		if err != nil {
			return fmt.Errorf("account %d cannot open its long-lived tree: %w", a, err)
		}
		rp.touches++
	}
	return nil
}

// feedAcl gives every long-lived AclList the accepted record (the incremental path of a running client).
func (h *hist) feedAcl(raw *consensusproto.RawRecordWithId, idx int) {
	if h.tree == nil {
		return
	}
	for _, rp := range h.tree.reps {
		var err error
		func() {
			defer func() {
				if p := recover(); p != nil {
					err = fmt.Errorf("panic: %v", p)
				}
			}()
			err = rp.acl.AddRawRecord(raw)
		}()
		if err != nil {
			h.violate("keys.live-acl", fmt.Sprintf("the long-lived AclList of account %d rejects accepted record %d: %v", rp.acc, idx, err))
		}
	}
}

// deliver hands a replica the raw changes it has not seen yet (transmission). Every call that carries a new
// change makes the tree re-validate, i.e. touches its key cache.
func (h *hist) deliver(rp *replica) {
	ctx := context.Background()
	for _, p := range rp.pending {
		_, err := rp.tree.AddRawChanges(ctx, objecttree.RawChangesPayload{NewHeads: p.heads, RawChanges: p.raws})
		rp.touches++
		h.r.Count("tree.deliver")
		if err != nil {
			if h.perm[rp.acc] != pNone {
				h.violate("keys.tree-live", fmt.Sprintf("the long-lived tree of member %d rejects a transmitted change after record %d: %v", rp.acc, len(h.raw)-1, err))
			}
			h.r.Count("tree.deliver-error")
			continue
		}
		for _, id := range p.ids {
			rp.has[id] = true
		}
	}
	rp.pending = nil
}

// canRead probes ONE change through the tree's own decrypting iteration.
func canRead(tr objecttree.ObjectTree, got map[string][]byte, c content) (bool, error) {
	if _, ok := got[c.id]; ok {
		return true, nil // converted earlier: the tree keeps the model and dropped the ciphertext
	}
	seen := false
	err := tr.IterateFrom(c.id, func(ch *objecttree.Change, decrypted []byte) (any, error) {
		if ch.Id == c.id {
			got[c.id] = append([]byte{}, decrypted...)
		}
		return "m", nil
	}, func(ch *objecttree.Change) bool {
		if ch.Id == c.id {
			seen = true
		}
		return false
	})
	_, ok := got[c.id]
	return ok && seen && err == nil, err
}

func (h *hist) checkRaw(what string, rawb, plain []byte, cur int) {
	t := h.tree
	if bytes.Contains(rawb, marker) {
		h.violate("keys.tree-plaintext", fmt.Sprintf("%s raw bytes of an encrypted change contain the plaintext", what))
	}
	rc := &treechangeproto.RawTreeChange{}
	tc := &treechangeproto.TreeChange{}
	if rc.UnmarshalVT(rawb) != nil || tc.UnmarshalVT(rc.Payload) != nil {
		h.r.Fatal("cannot decode a stored change")
	}
	if tc.ReadKeyId != h.gens[cur].recId {
		h.violate("keys.tree-keyid", fmt.Sprintf("%s change names read key id of a generation other than the current one (%d)", what, cur))
	}
	// ciphertext under the tree key derived from the generation the id names
	tk, derr := crypto.NewKeyDeriver(fmt.Sprintf(crypto.AnysyncTreePath, t.root.Id)).DeriveKey(must(h.gens[cur].key.Raw()))
	if derr != nil {
		h.r.Fatal(derr.Error())
	}
	dec, derr := tk.Decrypt(tc.ChangesData)
	if derr != nil || !bytes.Equal(dec, plain) {
		h.violate("keys.tree-ciphertext", fmt.Sprintf("%s change data is not the plaintext encrypted under the tree key of generation %d (the generation its read key id names)", what, cur))
	}
}

type roundOpts struct {
	writer      int   // -1: any account that can write
	live        int   // 1: write on the long-lived tree, 0: on a fresh tree, -1: random
	deliverTo   []int // accounts that must receive everything in this round (besides the random choice)
	deliverAll  bool
	keepPending []int // accounts that must NOT receive anything in this round
}

// treeRound: a writer adds encrypted content under the current key generation, on its long-lived tree or on a
// fresh one; the raw bytes returned and stored must not contain the plaintext and must be the ciphertext under
// the tree key of the generation the change names; the change is transmitted to the replicas (to some of them
// late). Then every account is probed, through its long-lived tree and through a fresh tree over its fresh
// view: a current member that received everything decrypts every piece of content written so far; an account
// whose key map lacks a generation decrypts nothing written under it.
func (h *hist) treeRound(o roundOpts) {
	ctx := context.Background()
	t := h.tree
	if t == nil {
		return
	}
	var writers []int
	for a, p := range h.perm {
		if p.CanWrite() {
			writers = append(writers, a)
		}
	}
	if len(writers) == 0 {
		return
	}
	w := o.writer
	if w < 0 || !h.perm[w].CanWrite() {
		w = h.pick(writers)
	}
	live := o.live == 1 || (o.live < 0 && h.r.Chance(60))
	t.n++
	plain := append(append([]byte{}, marker...), []byte(fmt.Sprintf("%d-%d-%d", h.id, t.n, h.r.Intn(1<<30)))...)
	sc := objecttree.SignableChangeContent{Data: plain, Key: h.accs[w].SignKey, ShouldBeEncrypted: true, DataType: "d", Timestamp: int64(1700000000 + t.n)}
	cur := len(h.gens) - 1
	var res objecttree.AddResult
	var err error
	wrp := t.reps[w]
	if live {
		if h.r.Chance(70) {
			h.deliver(wrp)
		}
		res, err = wrp.tree.AddContent(ctx, sc)
		wrp.touches++
		h.r.Count("tree.add-live")
	} else {
		wl := h.views[w]
		if h.r.Chance(50) {
			wl = h.cviews[w]
		}
		var wt objecttree.ObjectTree
		wt, err = objecttree.BuildObjectTree(t.st, wl)
		if err != nil {
			h.violate("keys.tree", fmt.Sprintf("writer %d cannot build the tree over its view: %v", w, err))
			return
		}
		res, err = wt.AddContent(ctx, sc)
		h.r.Count("tree.add-fresh")
	}
	if err != nil {
		h.violate("keys.tree", fmt.Sprintf("account %d (%s) cannot add encrypted content after record %d (long-lived tree: %v): %v", w, permName(h.perm[w]), len(h.raw)-1, live, err))
		return
	}
	if len(res.Added) != 1 {
		h.r.Fatal("AddContent returned an unexpected number of changes")
	}
	id := res.Added[0].Id
	h.wrote[w] = true
	c := content{id: id, plain: plain, gen: cur, author: w}
	t.written = append(t.written, c)
	h.checkRaw("returned (transmitted)", res.Added[0].RawChange, plain, cur)
	pl := payload{heads: res.Heads, raws: res.RawChanges(), ids: []string{id}}
	if live {
		wrp.has[id] = true
		// into the shared storage through a fresh tree of the writer
		ft, ferr := objecttree.BuildObjectTree(t.st, h.cviews[w])
		if ferr != nil {
			h.violate("keys.tree", fmt.Sprintf("writer %d cannot build the tree over its view: %v", w, ferr))
			return
		}
		if _, ferr = ft.AddRawChanges(ctx, objecttree.RawChangesPayload{NewHeads: pl.heads, RawChanges: pl.raws}); ferr != nil {
			h.violate("keys.tree-live", fmt.Sprintf("a fresh tree rejects the change transmitted from the long-lived tree of %d: %v", w, ferr))
			return
		}
	}
	stored, gerr := t.st.Get(ctx, id)
	if gerr != nil {
		h.violate("keys.tree", "added change is not in the shared storage: "+gerr.Error())
		return
	}
	h.checkRaw("stored", stored.RawChange, plain, cur)
	// transmission
	inList := func(l []int, a int) bool {
		for _, x := range l {
			if x == a {
				return true
			}
		}
		return false
	}
	for _, rp := range t.reps {
		if !(live && rp.acc == w) {
			rp.pending = append(rp.pending, pl)
		}
		switch {
		case inList(o.keepPending, rp.acc):
		case o.deliverAll || inList(o.deliverTo, rp.acc) || h.r.Chance(70):
			h.deliver(rp)
		}
	}
	h.probeAll()
}

// probeAll reads, for every account, every change through the long-lived tree and through a fresh tree.
func (h *hist) probeAll() {
	t := h.tree
	for a := range h.accs {
		rp := t.reps[a]
		row := h.keyRow(h.cviews[a])
		member := h.perm[a] != pNone
		complete := len(rp.pending) == 0
		// long-lived tree: only what was delivered can be asked for; a member is entitled to everything, but its
		// tree refreshes its key cache only when it is touched, so the demand is made when it has just received
		// everything (the last delivery happened after the last ACL record)
		var cache []byte
		for g := range h.gens {
			cache = append(cache, '?')
			_ = g
		}
		for _, c := range t.written {
			if !rp.has[c.id] {
				continue
			}
			ok, rerr := canRead(rp.tree, rp.got, c)
			if ok && !bytes.Equal(rp.got[c.id], c.plain) {
				h.violate("keys.tree-live", fmt.Sprintf("the long-lived tree of account %d decrypts a change to something else than the original", a))
			}
			if ok {
				cache[c.gen] = '1'
			} else if cache[c.gen] == '?' {
				cache[c.gen] = '0'
			}
			if member && complete && !ok {
				h.violate("keys.tree-live", fmt.Sprintf("after record %d member %d (%s, key map %s) cannot read, through its long-lived tree, a change written by %d under generation %d: %v", len(h.raw)-1, a, permName(h.perm[a]), row, c.author, c.gen, rerr))
				break
			}
			if row[c.gen] == '0' && ok {
				h.violate("keys.tree-nonmember-decrypt", fmt.Sprintf("account %d has no key of generation %d but its long-lived tree decrypts a change written under it", a, c.gen))
				break
			}
		}
		if member {
			h.r.Count("tree.live-member-probe")
		} else {
			h.r.Count("tree.live-nonmember-probe")
		}
		h.cacheCorr(a, string(cache))
		// fresh tree over the shared storage and the fresh client view
		at, err := objecttree.BuildObjectTree(t.st, h.cviews[a])
		if err != nil {
			if member {
				h.violate("keys.tree", fmt.Sprintf("member %d cannot build the tree over its view: %v", a, err))
			}
			h.r.Count("tree.reader-build-failed")
			continue
		}
		got := map[string][]byte{}
		for _, c := range t.written {
			ok, rerr := canRead(at, got, c)
			if ok && !bytes.Equal(got[c.id], c.plain) {
				h.violate("keys.tree-member-decrypt", fmt.Sprintf("a fresh tree of account %d decrypts a change to something else than the original", a))
			}
			if member && !ok {
				h.violate("keys.tree-member-decrypt", fmt.Sprintf("after record %d member %d does not read back, through a fresh tree, a change written by %d under generation %d: %v", len(h.raw)-1, a, c.author, c.gen, rerr))
				break
			}
			if ok != (row[c.gen] == '1') {
				h.violate("keys.tree-nonmember-decrypt", fmt.Sprintf("account %d key map %s, but a fresh tree reads a change of generation %d: %v", a, row, c.gen, ok))
				break
			}
		}
		if member {
			h.r.Count("tree.member-read")
		} else {
			h.r.Count("tree.nonmember-read")
		}
		h.noKeyProbe(a, at, rp, row)
	}
}

// noKeyProbe: "building an encrypted change without a key fails instead of emitting plaintext", asked of the
// trees whose ACL view knows the current generation id but holds no read key for it (removed, dropped before a
// rotation, never admitted accounts). The change is signed with the key of a legitimate writer (the owner), so
// the permission check passes and only the missing key can stop it. A fresh tree over such a view has no
// current tree key; the long-lived tree is asked only when its account never held any key (a removed member's
// long-lived tree still carries the derived key of its last generation, see notes O-3).
func (h *hist) noKeyProbe(a int, fresh objecttree.ObjectTree, rp *replica, row string) {
	cur := len(h.gens) - 1
	if row[cur] != '0' {
		return
	}
	ctx := context.Background()
	t := h.tree
	t.n++
	plain := append(append([]byte{}, marker...), []byte(fmt.Sprintf("nokey-%d-%d", h.id, t.n))...)
	sc := objecttree.SignableChangeContent{Data: plain, Key: h.accs[h.owner()].SignKey, ShouldBeEncrypted: true, DataType: "d", Timestamp: int64(1700000000 + t.n)}
	judge := func(what string, raw []byte, err error) {
		h.r.Count("tree.nokey-probe")
		if err != nil {
			return
		}
		desc := fmt.Sprintf("after record %d the %s of account %d (key map %s: no read key for the current generation %d) builds a change requested as encrypted instead of refusing it", len(h.raw)-1, what, a, row, cur)
		if bytes.Contains(raw, marker) {
			desc += "; its raw bytes contain the PLAINTEXT"
		}
		h.violate("keys.tree-build-without-key", desc)
	}
	raw, err := fresh.PrepareChange(sc)
	var rb []byte
	if raw != nil {
		rb = raw.RawChange
	}
	judge("fresh tree (PrepareChange)", rb, err)
	if strings.Trim(row, "0") != "" {
		return
	}
	res, err := rp.tree.AddContent(ctx, sc)
	rp.touches++
	h.cacheTouch(a) // the model's cache must see this touch now, not after later records
	rb = nil
	if err == nil && len(res.Added) > 0 {
		rb = res.Added[0].RawChange
		if st, gerr := rp.tree.Storage().Get(ctx, res.Added[0].Id); gerr == nil {
			rb = append(append([]byte{}, rb...), st.RawChange...) // returned and stored bytes
		}
	}
	judge("long-lived tree (AddContent, returned and stored bytes)", rb, err)
}

// buildWithoutKey: the change builder must refuse to build an encrypted change without a key, and must
// never put the plaintext into the change when a key is given.
func buildWithoutKey(r *corr.Run) {
	priv, _, _ := crypto.GenerateRandomEd25519KeyPair()
	cb := objecttree.NewChangeBuilder(crypto.NewKeyStorage(), nil)
	for i := 0; i < 8; i++ {
		data := append(append([]byte{}, marker...), byte('a'+i))
		pc := objecttree.BuilderContent{TreeHeadIds: []string{"h"}, AclHeadId: "a", SnapshotBaseId: "s", ReadKeyId: "k", PrivKey: priv, Content: data, Timestamp: 1, DataType: "d",
			IsSnapshot: i%2 == 0}
		ch, raw, err := cb.Build(pc)
		r.Count("build.nokey")
		if !errors.Is(err, objecttree.ErrMissingEncryptKey) {
			desc := fmt.Sprintf("Build(Unencrypted=false, ReadKey=nil) returned err=%v", err)
			if raw != nil && bytes.Contains(raw.RawChange, marker) {
				desc += " and emitted the plaintext"
			}
			_ = ch
			r.Violate("C05", "", "keys.build-without-key", desc, []string{"build nokey"})
		}
		k := crypto.NewAES()
		pc.ReadKey = k
		_, raw, err = cb.Build(pc)
		r.Count("build.withkey")
		if err != nil || raw == nil || bytes.Contains(raw.RawChange, marker) {
			r.Violate("C05", "", "keys.build-with-key", fmt.Sprintf("Build with a key: err=%v, plaintext visible=%v", err, raw != nil && bytes.Contains(raw.RawChange, marker)), []string{"build key"})
		}
		pc.Unencrypted = true
		_, raw, err = cb.Build(pc)
		if err != nil || raw == nil || !bytes.Contains(raw.RawChange, marker) {
			r.Violate("C05", "", "keys.build-unencrypted", fmt.Sprintf("Build(Unencrypted=true) does not carry the content as is: err=%v", err), []string{"build plain"})
		}
		r.Case(fmt.Sprintf("build %d", i), false)
	}
}
