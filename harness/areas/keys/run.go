package keys

import (
	"fmt"
	"os"
	"runtime/pprof"
	"strings"

	"github.com/anyproto/any-sync/commonspace/object/acl/list"

	"verifharness/internal/corr"
)

func init() { corr.RegisterArea("keys", Run) }


func oneHistory(r *corr.Run, id, nAcc, steps int) {
	h := newHist(r, id, nAcc)
	defer func() {
		if p := recover(); p != nil {
			h.violate("keys.panic", fmt.Sprintf("panic: %v", p))
		}
		h.closeTree()
	}()
	if err := h.start(); err != nil {
		r.Fatal("cannot start a history: " + err.Error())
	}
	if err := h.openTree(0); err != nil {
		r.Fatal("cannot create the tree storages: " + err.Error())
	}
	h.oracle()
	h.modelStep()
	cycleAt := -1
	if r.Chance(60) {
		cycleAt = 2 + r.Intn(6)
	}
	composeAt := -1
	if r.Chance(75) {
		composeAt = 1 + r.Intn(5)
	}
	for s := 0; s < steps && r.TimeLeft() && r.Issues() == 0; s++ {
		if s == composeAt || r.Chance(7) {
			if !h.composedStep() {
				break
			}
			continue
		}
		if s == cycleAt || r.Chance(6) {
			if !h.readmitCycle() {
				break
			}
			continue
		}
		c := h.choose(h.candidates())
		op, err := c.f()
		if !h.submit(c.kind, op, err) {
			break
		}
		if op != nil && ((op.newKey != nil && r.Chance(50)) || r.Chance(15)) {
			h.treeRound(roundOpts{writer: -1, live: -1})
		}
	}
	if r.Issues() == 0 {
		h.treeRound(roundOpts{writer: -1, live: -1, deliverAll: true})
	}
	r.Case(strings.Join(h.ops, "|"), len(h.gens) >= 2 && len(h.raw) >= 6)
	r.CountN("records", len(h.raw))
	r.CountN("generations", len(h.gens))
	if len(h.raw) >= 10 {
		r.Sample(map[string]any{"history": h.trace, "final": h.table()})
	}
}

// submit offers one built operation; false = the history cannot go on.
func (h *hist) submit(kind string, op *pendingOp, err error) bool {
	r := h.r
	if kind == "perm-grant-from-none" {
		// probe (finding F-keys-permchange-readmit, fixed): a bare permission change must not re-admit an account
		// that holds no permission; both the builder's preflight and the acceptor have to refuse it
		if err == nil && op != nil && op.rec != nil {
			r.Count("probe.grant-from-none.built")
			h.sig = "F-keys-permchange-readmit"
			if aerr, alive := h.commit(op); aerr != nil {
				r.Count("probe.grant-from-none.rejected-by-acceptor")
				h.sig = ""
			} else if !alive {
				return false
			} else {
				h.modelStep()
			}
		} else {
			r.Count("probe.grant-from-none.rejected-by-builder")
		}
		return true
	}
	if err != nil || op == nil || op.rec == nil {
		r.Count("op.build-failed." + kind)
		h.violate("keys.honest-op-refused", fmt.Sprintf("the real builder refused %s after record %d: %v", kind, len(h.raw)-1, err))
		return false
	}
	// before submitting an honest rotation, offer re-signed tamperings of it: all must be rejected
	if op.newKey != nil && r.Chance(60) {
		h.tamperRound(op)
	}
	aerr, alive := h.commit(op)
	if aerr != nil {
		r.Count("op.rejected." + kind)
		h.violate("keys.honest-op-refused", fmt.Sprintf("the acceptor rejected %s (%s) after record %d: %v", kind, op.name, len(h.raw)-1, aerr))
		return false
	}
	r.Count("op." + kind)
	if !alive {
		return false
	}
	h.modelStep()
	return true
}

// readmitCycle is the directed scenario for the per-tree key cache: a member is removed (rotation), its
// long-lived tree is touched while it is out (a change written under the new generation reaches it), it is
// re-admitted under that same generation (direct add / open-invite join / request + accept: no rotation in
// between), and then everybody must read everything through long-lived and fresh trees, the re-admitted member
// included, and what the re-admitted member writes on its long-lived tree must be readable by all.
func (h *hist) readmitCycle() bool {
	r := h.r
	mgr := h.owner()
	rm := h.removable(mgr)
	if len(rm) == 0 {
		// nobody to remove yet: admit somebody first
		nm := h.nonMembers(true)
		if len(nm) == 0 {
			return true
		}
		b := h.pick(nm)
		op, err := h.opAdd(mgr, []int{b}, []list.AclPermissions{pWriter})
		if !h.submit("add-new", op, err) {
			return false
		}
		h.treeRound(roundOpts{writer: -1, live: -1, deliverAll: true})
		rm = h.removable(mgr)
		if len(rm) == 0 {
			return true
		}
	}
	b := h.pick(rm)
	r.Count("scenario.readmit-cycle")
	op, err := h.opRemove(mgr, []int{b})
	if !h.submit("remove", op, err) {
		return false
	}
	// touched while out: sometimes by a change under the new generation, sometimes only by a late change
	if r.Chance(70) {
		h.treeRound(roundOpts{writer: -1, live: -1, deliverTo: []int{b}})
	} else {
		h.deliver(h.tree.reps[b])
	}
	if r.Issues() > 0 {
		return false
	}
	perm := pWriter
	if r.Chance(30) {
		perm = pReader
	}
	open, req := h.liveInvites(true), h.liveInvites(false)
	_, dangling := h.pendRemove[b]
	switch x := r.Intn(3); {
	case x == 0 && len(open) > 0:
		op, err = h.opInviteJoin(b, open[r.Intn(len(open))], pNone)
		if !h.submit("invite-join-again", op, err) {
			return false
		}
	case x == 1 && len(req) > 0 && !dangling:
		op, err = h.opRequestJoin(b, req[r.Intn(len(req))])
		if !h.submit("request-join", op, err) {
			return false
		}
		if r.Chance(40) {
			h.treeRound(roundOpts{writer: -1, live: -1, deliverTo: []int{b}})
		}
		op, err = h.opAccept(mgr, b, perm)
		if !h.submit("accept", op, err) {
			return false
		}
	default:
		op, err = h.opAdd(mgr, []int{b}, []list.AclPermissions{perm})
		if !h.submit("add-again", op, err) {
			return false
		}
	}
	if r.Issues() > 0 {
		return false
	}
	// somebody else writes, everybody (b included) receives and reads
	h.treeRound(roundOpts{writer: mgr, live: -1, deliverAll: true})
	// the re-admitted member writes on its long-lived tree
	if r.Issues() == 0 && h.perm[b].CanWrite() {
		h.treeRound(roundOpts{writer: b, live: 1, deliverAll: true})
	}
	return r.Issues() == 0
}

func (h *hist) tamperRound(op *pendingOp) {
	for _, ti := range h.r.Perm(len(tampers))[:3] {
		t := tampers[ti]
		raw, ok := h.craft(op, t)
		if !ok {
			continue
		}
		var err error
		func() {
			defer func() {
				if p := recover(); p != nil {
					err = fmt.Errorf("panic: %v", p)
				}
			}()
			err = h.acceptor.AddRawRecord(raw)
		}()
		h.r.Count("tamper." + t.name)
		if err == nil {
			h.trace = append(h.trace, "TAMPERED:"+t.name+":"+op.name)
			h.violate("keys.tampered-rotation-accepted", fmt.Sprintf("a validating list accepted a rotation tampered by %q (derived from %s) after record %d", t.name, op.name, len(h.raw)-1))
			// the acceptor has diverged from the log: rebuild it
			h.acceptor, _ = h.buildView(must(newNodeKeys()), false)
		}
	}
}

func (h *hist) modelStep() {
	impl := "wf=1 " + h.table()
	if len(h.r.ModelCmd) == 0 {
		return
	}
	line := h.ops[len(h.ops)-1]
	if len(h.ops) == 1 {
		if a := h.r.Ask(fmt.Sprintf("reset %d", h.n())); a != "ok" {
			h.r.Fatal("model refused reset: " + a)
		}
	}
	model := h.r.Ask(line)
	h.r.Check("C05", "keys.table", append([]string{fmt.Sprintf("reset %d", h.n())}, h.ops...), model, impl)
}

// cacheCorr compares what a long-lived tree can decrypt, generation by generation ('?' where no delivered
// content tells), with the model's per-tree key cache after the same touches.
func (h *hist) cacheCorr(a int, impl string) {
	rp := h.tree.reps[a]
	if len(h.r.ModelCmd) == 0 {
		return
	}
	q := fmt.Sprintf("peek %d", a)
	if rp.touches > 0 {
		q = fmt.Sprintf("touch %d", a) // the real tree ran readKeysFromAclState since the last report
		h.ops = append(h.ops, q)
	}
	model := h.r.Ask(q)
	rp.touches = 0
	if strings.HasPrefix(model, "cache=") && len(model) == len("cache=")+len(impl) {
		mb := []byte(model[len("cache="):])
		for i := range mb {
			if impl[i] == '?' {
				mb[i] = '?'
			}
		}
		model = "cache=" + string(mb)
	}
	h.r.Check("C05", "keys.tree-cache", append(append([]string{fmt.Sprintf("reset %d", h.n())}, h.ops...), q), model, "cache="+impl)
}

// cacheTouch reports a touch of the long-lived tree of account a to the model at once.
func (h *hist) cacheTouch(a int) {
	rp := h.tree.reps[a]
	if len(h.r.ModelCmd) == 0 || rp.touches == 0 {
		return
	}
	q := fmt.Sprintf("touch %d", a)
	h.ops = append(h.ops, q)
	h.r.Ask(q)
	rp.touches = 0
}

func Run(r *corr.Run) {
	if pf := os.Getenv("KEYS_PROF"); pf != "" {
		f, _ := os.Create(pf)
		pprof.StartCPUProfile(f)
		defer pprof.StopCPUProfile()
	}
	r.SetRule("one case = one membership history of a shareable space built with the real record builder and real keys (5-7 accounts; request-join/accept, open-invite join, direct add, remove with rotation, leave request + approval, invite revoke with and without rotation, stand-alone rotation, re-add, permission changes incl. to none, batch records), every record followed by fresh per-account views (validating and client mode) and the derivability closure on the raw bytes; tampered rotations are offered before honest ones; non-trivial = at least 2 key generations and 6 records")
	buildWithoutKey(r)
	id := 0
	for r.TimeLeft() {
		id++
		nAcc := 5 + r.Intn(3)
		steps := 10 + r.Intn(r.Pick(14, 30))
		oneHistory(r, id, nAcc, steps)
		if r.Issues() > 0 {
			break
		}
		if id >= r.Pick(400, 20000) {
			break
		}
	}
}
