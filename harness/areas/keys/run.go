package keys

import (
	"fmt"
	"os"
	"runtime/pprof"
	"strings"

	"verifharness/internal/corr"
)

func init() { corr.RegisterArea("keys", Run) }


func oneHistory(r *corr.Run, id, nAcc, steps int) {
	h := newHist(r, id, nAcc)
	defer func() {
		if p := recover(); p != nil {
			h.violate("keys.panic", fmt.Sprintf("panic: %v", p))
		}
		h.closeTree()
	}()
	if err := h.start(); err != nil {
		r.Fatal("cannot start a history: " + err.Error())
	}
	h.oracle()
	h.modelStep()
	for s := 0; s < steps && r.TimeLeft(); s++ {
		c := h.choose(h.candidates())
		op, err := c.f()
		if c.kind == "perm-grant-from-none" {
			// probe (finding F-keys-permchange-readmit, fixed): a bare permission change must not re-admit an account
			// that holds no permission; both the builder's preflight and the acceptor have to refuse it
			if err == nil && op != nil && op.rec != nil {
				r.Count("probe.grant-from-none.built")
				h.sig = "F-keys-permchange-readmit"
				if aerr, alive := h.commit(op); aerr != nil {
					r.Count("probe.grant-from-none.rejected-by-acceptor")
					h.sig = ""
				} else if !alive {
					break
				} else {
					h.modelStep()
				}
			} else {
				r.Count("probe.grant-from-none.rejected-by-builder")
			}
			continue
		}
		if err != nil || op == nil || op.rec == nil {
			r.Count("op.build-failed." + c.kind)
			h.violate("keys.honest-op-refused", fmt.Sprintf("the real builder refused %s after record %d: %v", c.kind, len(h.raw)-1, err))
			break
		}
		// before submitting an honest rotation, offer re-signed tamperings of it: all must be rejected
		if op.newKey != nil && r.Chance(60) {
			h.tamperRound(op)
		}
		aerr, alive := h.commit(op)
		if aerr != nil {
			r.Count("op.rejected." + c.kind)
			h.violate("keys.honest-op-refused", fmt.Sprintf("the acceptor rejected %s (%s) after record %d: %v", c.kind, op.name, len(h.raw)-1, aerr))
			break
		}
		r.Count("op." + c.kind)
		if !alive {
			break
		}
		h.modelStep()
		if (op.newKey != nil && r.Chance(50)) || r.Chance(10) {
			h.treeRound()
		}
	}
	h.treeRound()
	r.Case(strings.Join(h.ops, "|"), len(h.gens) >= 2 && len(h.raw) >= 6)
	r.CountN("records", len(h.raw))
	r.CountN("generations", len(h.gens))
	if len(h.raw) >= 10 {
		r.Sample(map[string]any{"history": h.trace, "final": h.table()})
	}
}

func (h *hist) tamperRound(op *pendingOp) {
	for _, ti := range h.r.Perm(len(tampers))[:3] {
		t := tampers[ti]
		raw, ok := h.craft(op, t)
		if !ok {
			continue
		}
		var err error
		func() {
			defer func() {
				if p := recover(); p != nil {
					err = fmt.Errorf("panic: %v", p)
				}
			}()
			err = h.acceptor.AddRawRecord(raw)
		}()
		h.r.Count("tamper." + t.name)
		if err == nil {
			h.trace = append(h.trace, "TAMPERED:"+t.name+":"+op.name)
			h.violate("keys.tampered-rotation-accepted", fmt.Sprintf("a validating list accepted a rotation tampered by %q (derived from %s) after record %d", t.name, op.name, len(h.raw)-1))
			// the acceptor has diverged from the log: rebuild it
			h.acceptor, _ = h.buildView(must(newNodeKeys()), false)
		}
	}
}

func (h *hist) modelStep() {
	impl := "wf=1 " + h.table()
	if len(h.r.ModelCmd) == 0 {
		return
	}
	line := h.ops[len(h.ops)-1]
	if len(h.ops) == 1 {
		if a := h.r.Ask(fmt.Sprintf("reset %d", h.n())); a != "ok" {
			h.r.Fatal("model refused reset: " + a)
		}
	}
	model := h.r.Ask(line)
	h.r.Check("C05", "keys.table", append([]string{fmt.Sprintf("reset %d", h.n())}, h.ops...), model, impl)
}

func Run(r *corr.Run) {
	if pf := os.Getenv("KEYS_PROF"); pf != "" {
		f, _ := os.Create(pf)
		pprof.StartCPUProfile(f)
		defer pprof.StopCPUProfile()
	}
	r.SetRule("one case = one membership history of a shareable space built with the real record builder and real keys (5-7 accounts; request-join/accept, open-invite join, direct add, remove with rotation, leave request + approval, invite revoke with and without rotation, stand-alone rotation, re-add, permission changes incl. to none, batch records), every record followed by fresh per-account views (validating and client mode) and the derivability closure on the raw bytes; tampered rotations are offered before honest ones; non-trivial = at least 2 key generations and 6 records")
	buildWithoutKey(r)
	id := 0
	for r.TimeLeft() {
		id++
		nAcc := 5 + r.Intn(3)
		steps := 10 + r.Intn(r.Pick(14, 30))
		oneHistory(r, id, nAcc, steps)
		if r.Issues() > 0 {
			break
		}
		if id >= r.Pick(400, 20000) {
			break
		}
	}
}
