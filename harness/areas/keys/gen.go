package keys

import (
	"github.com/anyproto/any-sync/commonspace/object/acl/list"
)

type cand struct {
	w    int
	kind string
	f    func() (*pendingOp, error)
}

func (h *hist) pick(l []int) int { return l[h.r.Intn(len(l))] }

func (h *hist) nonMembers(noPending bool) []int {
	var res []int
	for a, p := range h.perm {
		if p != pNone {
			continue
		}
		if _, pj := h.pendJoin[a]; pj && noPending {
			continue
		}
		res = append(res, a)
	}
	return res
}

// removable: members the author may remove (not itself, not the owner, an admin only by the owner)
func (h *hist) removable(author int) []int {
	var res []int
	for a, p := range h.perm {
		if a == author || p == pNone || p == pOwner {
			continue
		}
		if p == pAdmin && h.perm[author] != pOwner {
			continue
		}
		res = append(res, a)
	}
	return res
}

func (h *hist) somePerm(author int) list.AclPermissions {
	switch x := h.r.Intn(10); {
	case x < 4:
		return pReader
	case x < 8:
		return pWriter
	default:
		if h.perm[author] == pOwner {
			return pAdmin
		}
		return pWriter
	}
}

func (h *hist) subset(l []int, max int) []int {
	if len(l) == 0 {
		return nil
	}
	k := 1 + h.r.Intn(max)
	if k > len(l) {
		k = len(l)
	}
	var res []int
	for _, i := range h.r.Perm(len(l))[:k] {
		res = append(res, l[i])
	}
	return res
}

// candidates lists every operation the membership shadow says is valid now; all of them are expected
// to be built by the real builder and accepted by the acceptor.
func (h *hist) candidates() []cand {
	var cs []cand
	mgrs := h.managers()
	mgr := h.pick(mgrs)
	owner := h.owner()
	liveReq, liveOpen := h.liveInvites(false), h.liveInvites(true)
	if len(liveReq) < 2 {
		cs = append(cs, cand{2, "invite-request", func() (*pendingOp, error) { return h.opInvite(mgr, false, pNone) }})
	}
	if len(liveOpen) < 2 {
		p := h.somePerm(mgr)
		cs = append(cs, cand{3, "invite-open", func() (*pendingOp, error) { return h.opInvite(mgr, true, p) }})
	}
	if nm := h.nonMembers(true); len(nm) > 0 {
		a := h.pick(nm)
		// a dangling leave request (the account was dropped to none while it was pending) still counts as a
		// pending request in the real state: RequestJoin is refused with ErrPendingRequest until it is cancelled
		if _, dangling := h.pendRemove[a]; len(liveReq) > 0 && !dangling {
			v := liveReq[h.r.Intn(len(liveReq))]
			cs = append(cs, cand{5, "request-join", func() (*pendingOp, error) { return h.opRequestJoin(a, v) }})
		}
		who := h.subset(nm, 2)
		var perms []list.AclPermissions
		for range who {
			perms = append(perms, h.somePerm(mgr))
		}
		kind := "add-new"
		for _, x := range who {
			if h.lostAt[x] >= 0 {
				kind = "add-again"
			}
		}
		cs = append(cs, cand{3, kind, func() (*pendingOp, error) { return h.opAdd(mgr, who, perms) }})
	}
	if nm := h.nonMembers(false); len(nm) > 0 && len(liveOpen) > 0 {
		a := h.pick(nm)
		v := liveOpen[h.r.Intn(len(liveOpen))]
		p := pNone
		if h.r.Chance(40) {
			p = pReader
		}
		kind := "invite-join"
		if h.lostAt[a] >= 0 {
			kind = "invite-join-again"
		}
		cs = append(cs, cand{5, kind, func() (*pendingOp, error) { return h.opInviteJoin(a, v, p) }})
	}
	var pend []int
	for a := range h.accs {
		if _, ok := h.pendJoin[a]; ok && h.perm[a] == pNone {
			pend = append(pend, a)
		}
	}
	if len(pend) > 0 {
		a := h.pick(pend)
		p := h.somePerm(mgr)
		cs = append(cs, cand{14, "accept", func() (*pendingOp, error) { return h.opAccept(mgr, a, p) }})
		cs = append(cs, cand{1, "decline", func() (*pendingOp, error) { return h.opDecline(mgr, a) }})
		cs = append(cs, cand{1, "cancel-join", func() (*pendingOp, error) { return h.opCancel(a) }})
	}
	if rm := h.removable(mgr); len(rm) > 0 {
		who := h.subset(rm, 2)
		// prefer approving a leave request when there is one
		for _, a := range rm {
			if _, ok := h.pendRemove[a]; ok && h.r.Chance(70) {
				who = []int{a}
			}
		}
		kind := "remove"
		if _, ok := h.pendRemove[who[0]]; ok {
			kind = "remove-approving-leave"
		}
		cs = append(cs, cand{5, kind, func() (*pendingOp, error) { return h.opRemove(mgr, who) }})
		// batch: removal + additions + approvals + a new invite + revokes in one record
		add := h.subset(h.nonMembers(true), 2)
		var perms []list.AclPermissions
		for range add {
			perms = append(perms, h.somePerm(mgr))
		}
		var appr []int
		if len(pend) > 0 && h.r.Chance(85) {
			appr = []int{h.pick(pend)}
			var add2 []int
			var perms2 []list.AclPermissions
			for i, x := range add {
				if x != appr[0] {
					add2, perms2 = append(add2, x), append(perms2, perms[i])
				}
			}
			add, perms = add2, perms2
		}
		var ninv []list.AclPermissions
		if h.r.Chance(40) {
			// only request-to-join invites here: an anyone-can-join invite created by a record that also rotates
			// is handed the pre-rotation key by the builder (see notes, observation O-1)
			ninv = []list.AclPermissions{pNone}
			if tryOpenInviteInBatch {
				ninv = []list.AclPermissions{[]list.AclPermissions{pNone, pReader, pWriter}[h.r.Intn(3)]}
			}
		}
		var rev []*invite
		if all := append(append([]*invite{}, liveReq...), liveOpen...); len(all) > 0 && h.r.Chance(40) {
			rev = []*invite{all[h.r.Intn(len(all))]}
		}
		rm2 := h.subset(rm, 2)
		bw, bkind := 3, "batch-remove"
		if len(appr) > 0 {
			// the approval inside a removal batch must carry the NEW key (the batch rotates first): keep it frequent
			bw, bkind = 7, "batch-remove-approve"
		}
		cs = append(cs, cand{bw, bkind, func() (*pendingOp, error) { return h.opBatch(mgr, rm2, add, perms, appr, ninv, rev) }})
	}
	var leavers []int
	for a, p := range h.perm {
		_, pr := h.pendRemove[a]
		if p != pNone && p != pOwner && !pr {
			leavers = append(leavers, a)
		}
	}
	if len(leavers) > 0 {
		a := h.pick(leavers)
		cs = append(cs, cand{2, "request-remove", func() (*pendingOp, error) { return h.opRequestRemove(a) }})
	}
	for a := range h.pendRemove {
		a := a
		cs = append(cs, cand{1, "cancel-leave", func() (*pendingOp, error) { return h.opCancel(a) }})
		break
	}
	cs = append(cs, cand{3, "rotate", func() (*pendingOp, error) { return h.opRotate(mgr) }})
	if all := append(append([]*invite{}, liveReq...), liveOpen...); len(all) > 0 {
		v := all[h.r.Intn(len(all))]
		cs = append(cs, cand{1, "revoke-plain", func() (*pendingOp, error) { return h.opRevoke(mgr, v) }})
		var vs []*invite
		for _, i := range h.r.Perm(len(all))[:1+h.r.Intn(len(all))] {
			vs = append(vs, all[i])
		}
		var decl []int
		if len(pend) > 0 && h.r.Chance(30) {
			decl = []int{h.pick(pend)}
		}
		cs = append(cs, cand{4, "revoke-rotate", func() (*pendingOp, error) { return h.opRevokeRotate(mgr, vs, decl) }})
	}
	// permission changes among members (to none included: no rotation follows)
	var targets []int
	for a, p := range h.perm {
		if p == pNone || p == pOwner || a == mgr {
			continue
		}
		if p == pAdmin && mgr != owner {
			continue
		}
		targets = append(targets, a)
	}
	if len(targets) > 0 {
		a := h.pick(targets)
		p := h.somePerm(mgr)
		kind := "perm-change"
		if h.r.Chance(35) {
			p, kind = pNone, "perm-to-none"
		}
		if p != h.perm[a] || true {
			cs = append(cs, cand{3, kind, func() (*pendingOp, error) { return h.opPerm(mgr, a, p) }})
		}
	}
	if tryGrantFromNone {
		var former []int
		for a, p := range h.perm {
			_, pj := h.pendJoin[a]
			if p == pNone && (h.lostAt[a] >= 0 || pj) {
				former = append(former, a)
			}
		}
		if len(former) > 0 {
			a := h.pick(former)
			p := h.somePerm(mgr)
			cs = append(cs, cand{3, "perm-grant-from-none", func() (*pendingOp, error) { return h.opPerm(mgr, a, p) }})
		}
	}
	return cs
}

// experiment switches (see notes/areas/keys.md)
var (
	tryGrantFromNone     = true
	tryOpenInviteInBatch = false
)

func (h *hist) choose(cs []cand) cand {
	tot := 0
	for _, c := range cs {
		tot += c.w
	}
	x := h.r.Intn(tot)
	for _, c := range cs {
		if x < c.w {
			return c
		}
		x -= c.w
	}
	return cs[len(cs)-1]
}
