package keys

import (
	"fmt"
	"strings"

	"github.com/anyproto/any-sync/commonspace/object/acl/aclrecordproto"
	"github.com/anyproto/any-sync/commonspace/object/acl/list"
	"github.com/anyproto/any-sync/consensus/consensusproto"
	"github.com/anyproto/any-sync/util/crypto"
)

// Hand-signed multi-content records. The stock builder emits only a few content combinations; a member
// with CanManageAccounts can sign ANY list of contents. A composed record is made of honest contents: every
// content is produced by the REAL builder against a scratch copy of the log to which the previous contents
// of the same record have already been applied (so recipients, the chained old key, the ciphertext of an
// admission all are what an honest sequential application needs), then the contents are put into ONE record
// signed by the author. Whether the acceptor takes such a record is its business (the unchanged tree refuses a
// record with two rotations: keys are indexed by record id); if it takes it, the record is part of the
// accepted log and everything the property says must hold afterwards — in particular for accounts admitted
// later, on their own fresh views.

type subOp struct {
	kind string
	f    func() (*pendingOp, error)
}

// composeShapes: the kinds of contents of a composed record, rotations and removals in every order first
var composeShapes = []struct {
	w     int
	kinds []string
}{
	// a single content, as the builder would emit it, but with member identities in a non-canonical encoding
	{3, []string{"rot"}}, {3, []string{"rm"}},
	{4, []string{"rot", "rm"}}, {4, []string{"rm", "rot"}}, {3, []string{"rot", "rot"}}, {3, []string{"rm", "rm"}},
	{2, []string{"rot", "rm", "add"}}, {2, []string{"rm", "rot", "add"}}, {1, []string{"rot", "add", "rm"}},
	{2, []string{"add", "rot"}}, {2, []string{"rot", "add"}}, {1, []string{"add", "rm"}}, {1, []string{"rm", "add"}},
	{1, []string{"inv", "rot"}}, {1, []string{"rot", "inv"}}, {1, []string{"drop", "rot"}}, {1, []string{"rot", "drop"}},
	{1, []string{"revoke", "rm"}}, {1, []string{"rm", "revoke"}}, {1, []string{"revoke", "rot"}}, {1, []string{"rot", "revoke"}},
	{1, []string{"accept", "rot"}}, {1, []string{"rot", "accept"}}, {1, []string{"accept", "rm"}}, {1, []string{"rm", "accept"}},
	{1, []string{"add", "rot", "drop"}}, {1, []string{"rm", "inv", "add"}}, {1, []string{"rot", "rot", "add"}},
}

// compose builds one hand-signed record of the given shape; nil when the current state offers no parameters
// for it (nobody to remove, …) or the real builder refuses one of the contents on the scratch log.
func (h *hist) compose(kinds []string) *pendingOp {
	author := h.owner()
	used := map[int]bool{author: true}
	usedInv := map[int]bool{}
	takeFrom := func(l []int) int {
		var c []int
		for _, a := range l {
			if !used[a] {
				c = append(c, a)
			}
		}
		if len(c) == 0 {
			return -1
		}
		a := h.pick(c)
		used[a] = true
		return a
	}
	var pend []int
	for a := range h.accs {
		if _, ok := h.pendJoin[a]; ok && h.perm[a] == pNone {
			pend = append(pend, a)
		}
	}
	// parameters are fixed up front from the current shadow; no account / invite appears twice in one record
	var subs []subOp
	for _, k := range kinds {
		switch k {
		case "rot":
			subs = append(subs, subOp{k, func() (*pendingOp, error) { return h.opRotate(author) }})
		case "rm":
			a := takeFrom(h.removable(author))
			if a < 0 {
				return nil
			}
			subs = append(subs, subOp{k, func() (*pendingOp, error) { return h.opRemove(author, []int{a}) }})
		case "add":
			a := takeFrom(h.nonMembers(true))
			if a < 0 {
				return nil
			}
			p := h.somePerm(author)
			subs = append(subs, subOp{k, func() (*pendingOp, error) { return h.opAdd(author, []int{a}, []list.AclPermissions{p}) }})
		case "accept":
			a := takeFrom(pend)
			if a < 0 {
				return nil
			}
			subs = append(subs, subOp{k, func() (*pendingOp, error) { return h.opAccept(author, a, pReader) }})
		case "drop":
			a := takeFrom(h.removable(author))
			if a < 0 {
				return nil
			}
			subs = append(subs, subOp{k, func() (*pendingOp, error) { return h.opPerm(author, a, pNone) }})
		case "inv":
			subs = append(subs, subOp{k, func() (*pendingOp, error) { return h.opInvite(author, true, pReader) }})
		case "revoke":
			var v *invite
			for _, x := range h.invs {
				if x.live && !usedInv[x.idx] {
					v = x
				}
			}
			if v == nil {
				return nil
			}
			usedInv[v.idx] = true
			subs = append(subs, subOp{k, func() (*pendingOp, error) { return h.opRevoke(author, v) }})
		}
	}
	// build content by content on a scratch log, through the author's scratch view
	scratch := append([]*consensusproto.RawRecordWithId{}, h.raw...)
	saveV, saveC := h.views[author], h.cviews[author]
	defer func() { h.views[author], h.cviews[author] = saveV, saveC }()
	res := &pendingOp{author: author, shape: strings.Join(kinds, "+")}
	var contents []*aclrecordproto.AclContentValue
	for _, sb := range subs {
		v, err := h.buildViewFrom(scratch, h.accs[author], false)
		if err != nil {
			return nil
		}
		h.views[author], h.cviews[author] = v, v
		op, err := sb.f()
		if err != nil || op == nil || op.rec == nil {
			h.r.Count("compose.content-refused." + sb.kind)
			return nil
		}
		rec := &consensusproto.Record{}
		d := &aclrecordproto.AclData{}
		if rec.UnmarshalVT(op.rec.Payload) != nil || d.UnmarshalVT(rec.Data) != nil {
			h.r.Fatal("cannot decode a record of the real builder")
		}
		contents = append(contents, d.AclContent...)
		if op.newKey != nil {
			res.newKeys = append(res.newKeys, op.newKey)
			res.newKey = op.newKey
		}
		res.invKeys = append(res.invKeys, op.invKeys...)
		scratch = append(scratch, h.wrap(op.rec))
	}
	// identities inside rotations may be written in a byte-different but valid protobuf encoding of the same
	// public key (encoders that do not elide defaults, non-minimal varints, …): validator, decoder and state
	// must agree on whom a ciphertext is for
	if len(kinds) == 1 || h.r.Chance(50) {
		n := 0
		for _, c := range contents {
			rk := c.GetReadKeyChange()
			if rm := c.GetAccountRemove(); rm != nil {
				rk = rm.ReadKeyChange
			}
			if rk == nil {
				continue
			}
			for _, e := range rk.AccountKeys {
				if h.r.Chance(60) {
					e.Identity = h.nonCanonical(e.Identity)
					n++
				}
			}
			for _, e := range rk.InviteKeys {
				if h.r.Chance(40) {
					e.Identity = h.nonCanonical(e.Identity)
					n++
				}
			}
		}
		if n > 0 {
			res.shape += "~nc"
		} else if len(kinds) == 1 {
			return nil // would be exactly what the builder emits
		}
	}
	rec := &consensusproto.Record{
		PrevId:    h.raw[len(h.raw)-1].Id,
		Identity:  h.accProto[author],
		Data:      must((&aclrecordproto.AclData{AclContent: contents}).MarshalVT()),
		Timestamp: int64(1700000000 + len(h.raw)),
	}
	payload := must(rec.MarshalVT())
	res.rec = &consensusproto.RawRecord{Payload: payload, Signature: must(h.accs[author].SignKey.Sign(payload))}
	res.name = fmt.Sprintf("hand-signed[%s](by=%d)", res.shape, author)
	return res
}

// nonCanonical renders cryptoproto.Key{Type: Ed25519Public (= 0), Data: raw} in a byte-different but
// equivalent wire encoding (same variants as harness/areas/acl):
//	1: the default-valued Type written explicitly (08 00) before Data   2: Data first, then explicit Type
//	3: the length of Data as a non-minimal varint                       4: explicit Type as non-minimal varint
//	5: Data written twice (last one wins), first copy garbage
func (h *hist) nonCanonical(id []byte) []byte {
	pk, err := crypto.UnmarshalEd25519PublicKeyProto(id)
	if err != nil {
		return id
	}
	raw, err := pk.Raw()
	if err != nil || len(raw) != 32 {
		return id
	}
	data := func(lenBytes ...byte) []byte { return append(append([]byte{0x12}, lenBytes...), raw...) }
	switch 1 + h.r.Intn(5) {
	case 1:
		return append([]byte{0x08, 0x00}, data(0x20)...)
	case 2:
		return append(data(0x20), 0x08, 0x00)
	case 3:
		return data(0xa0, 0x00)
	case 4:
		return append([]byte{0x08, 0x80, 0x00}, data(0x20)...)
	default:
		junk := append([]byte{0x12, 0x20}, make([]byte, 32)...)
		return append(junk, data(0x20)...)
	}
}

func (h *hist) pickShape() []string {
	tot := 0
	for _, s := range composeShapes {
		tot += s.w
	}
	x := h.r.Intn(tot)
	for _, s := range composeShapes {
		if x < s.w {
			return s.kinds
		}
		x -= s.w
	}
	return composeShapes[0].kinds
}

// composedStep offers one hand-signed record. Refusal by the acceptor is not a violation; if the record is
// accepted, an admission follows at once (direct add / open-invite join / accept), so that the oracle looks at
// an account admitted AFTER the unusual record through its own fresh view. false = the history cannot go on.
func (h *hist) composedStep() bool {
	r := h.r
	if len(h.removable(h.owner())) == 0 {
		// nobody could be removed by the record: admit somebody first
		if nm := h.nonMembers(true); len(nm) > 0 {
			a := h.pick(nm)
			aop, err := h.opAdd(h.owner(), []int{a}, []list.AclPermissions{pWriter})
			if !h.submit("add-new", aop, err) {
				return false
			}
		}
	}
	var op *pendingOp
	for try := 0; try < 4 && op == nil; try++ {
		op = h.compose(h.pickShape())
	}
	if op == nil {
		r.Count("compose.no-parameters")
		return true
	}
	aerr, alive := h.commit(op)
	if aerr != nil {
		r.Count("compose.refused." + op.shape)
		return true
	}
	r.Count("compose.accepted." + op.shape)
	if !alive {
		return false
	}
	h.modelStep()
	// even if the oracle already complained, go on to the admission: what the property promises to an account
	// admitted after the unusual record is the consequence worth having in the replay
	return h.admissionStep() && r.Issues() == 0
}

// admissionStep admits somebody right now, by whatever admission path the state offers.
func (h *hist) admissionStep() bool {
	r := h.r
	mgr := h.owner()
	var cands []cand
	if nm := h.nonMembers(true); len(nm) > 0 {
		a := h.pick(nm)
		p := h.somePerm(mgr)
		kind := "add-new"
		if h.lostAt[a] >= 0 {
			kind = "add-again"
		}
		cands = append(cands, cand{3, kind, func() (*pendingOp, error) { return h.opAdd(mgr, []int{a}, []list.AclPermissions{p}) }})
	}
	if nm, open := h.nonMembers(false), h.liveInvites(true); len(nm) > 0 && len(open) > 0 {
		a := h.pick(nm)
		v := open[r.Intn(len(open))]
		cands = append(cands, cand{3, "invite-join", func() (*pendingOp, error) { return h.opInviteJoin(a, v, pNone) }})
	}
	for a := range h.accs {
		if _, ok := h.pendJoin[a]; ok && h.perm[a] == pNone {
			a := a
			cands = append(cands, cand{3, "accept", func() (*pendingOp, error) { return h.opAccept(mgr, a, pWriter) }})
			break
		}
	}
	if len(cands) == 0 {
		return true
	}
	c := h.choose(cands)
	op, err := c.f()
	if !h.submit(c.kind, op, err) {
		return false
	}
	h.treeRound(roundOpts{writer: -1, live: -1, deliverAll: true})
	return r.Issues() == 0
}

