// Package keys drives the real ACL key distribution (acl/list) and the real object tree encryption
// against the Lean model AnySync.Keys (property C05).
//
// One history = one shareable space: a root built by the owner, then membership records produced by
// the REAL record builder with real Ed25519/X25519/AES keys, accepted by a fully validating acceptor
// list. After every accepted record every principal of the cast (accounts, never-admitted accounts,
// holders of invite keys) gets a fresh AclList built from the raw log with its own key, the way a
// client would, and the harness reads which read-key generations that view holds.
package keys

import (
	"bytes"
	"fmt"
	"sort"
	"strings"

	"github.com/anyproto/any-sync/commonspace/object/accountdata"
	"github.com/anyproto/any-sync/commonspace/object/acl/aclrecordproto"
	"github.com/anyproto/any-sync/commonspace/object/acl/list"
	"github.com/anyproto/any-sync/commonspace/object/acl/recordverifier"
	"github.com/anyproto/any-sync/consensus/consensusproto"
	"github.com/anyproto/any-sync/util/cidutil"
	"github.com/anyproto/any-sync/util/crypto"

	"verifharness/internal/corr"
)

const (
	pNone   = list.AclPermissionsNone
	pReader = list.AclPermissionsReader
	pWriter = list.AclPermissionsWriter
	pAdmin  = list.AclPermissionsAdmin
	pOwner  = list.AclPermissionsOwner
)

func permName(p list.AclPermissions) string {
	switch p {
	case pNone:
		return "none"
	case pReader:
		return "r"
	case pWriter:
		return "rw"
	case pAdmin:
		return "adm"
	case pOwner:
		return "own"
	}
	return fmt.Sprintf("p%d", int(p))
}

type invite struct {
	idx       int
	priv      crypto.PrivKey
	pubProto  []byte
	open      bool // AnyoneCanJoin
	perm      list.AclPermissions
	recId     string
	live      bool
	createdAt int // record index
	revokedAt int // record index of the revoke, -1 while live
	revokedPos      int  // position (record*100 + content index) of the revoke
	revokedComposed bool // revoked by a hand-signed (composed) record: only content order is demanded there
}

type gen struct {
	recId string
	key   crypto.SymKey
	at    int // index of the record that introduced it (0 = root)
	pos   int // record*100 + index of the introducing content within the record
}

// one asymmetric ciphertext published in the raw log
type asymItem struct {
	ct    []byte
	label []byte // identity it is addressed to (marshalled pub key)
	rec   int
}

type symItem struct {
	ct  []byte
	rec int
}

type hist struct {
	r      *corr.Run
	id     int
	net    crypto.PrivKey
	netId  []byte
	netPub crypto.PubKey

	accs     []*accountdata.AccountKeys
	accProto [][]byte
	invs     []*invite

	raw      []*consensusproto.RawRecordWithId
	acceptor list.AclList
	views    []list.AclList // fully validating view per account (rebuilt from the raw log after every record)
	cviews   []list.AclList // client view per account: non-validating verifier (keep-only-ours decode)

	// shadow of the membership history, derived from the meaning of the operations issued
	perm       []list.AclPermissions
	lostPos    []int // like lostAt, as a position record*100 + content index (a content later in the same record comes after)
	pendKeys   []crypto.SymKey
	ci         int   // index of the content being interpreted by commit()
	composed   bool  // the record being interpreted was hand-signed by the harness
	lostAt     []int // index of the record after which the account holds no permission (-1: never admitted); meaningful while perm == none
	pendJoin   map[int]string
	pendRemove map[int]string
	gens       []gen
	wrote      map[int]bool // accounts that authored tree changes

	asym []asymItem
	sym  []symItem
	// caches: principal index (account i, invite n+j) x ciphertext index -> generation (-1 nothing, -2 unknown key)
	asymCache map[[2]int]int
	symCache  map[[2]int]int

	ops   []string // model lines, one per accepted record
	trace []string // human readable
	tree  *treeCtx
	sig   string // finding signature attached to violations of this history (set when a known-defect probe got through)
}

func (h *hist) n() int { return len(h.accs) }

func must[T any](v T, err error) T {
	if err != nil {
		panic(err)
	}
	return v
}

func newHist(r *corr.Run, id, nAcc int) *hist {
	h := &hist{r: r, id: id, pendJoin: map[int]string{}, pendRemove: map[int]string{}, wrote: map[int]bool{}, asymCache: map[[2]int]int{}, symCache: map[[2]int]int{}}
	h.net = must(accountdata.NewRandom()).SignKey
	h.netPub = h.net.GetPublic()
	h.netId = must(h.netPub.Marshall())
	for i := 0; i < nAcc; i++ {
		k := must(accountdata.NewRandom())
		h.accs = append(h.accs, k)
		h.accProto = append(h.accProto, must(k.SignKey.GetPublic().Marshall()))
		h.perm = append(h.perm, pNone)
		h.lostAt = append(h.lostAt, -1)
		h.lostPos = append(h.lostPos, -1)
	}
	return h
}

// ---- raw log plumbing ----

// accept plays the consensus node: it countersigns the raw record, gives it its CID, and offers it to the
// fully validating acceptor list.
func (h *hist) wrap(rec *consensusproto.RawRecord) *consensusproto.RawRecordWithId {
	rec.AcceptorIdentity = h.netId
	rec.AcceptorSignature = must(h.net.Sign(rec.Payload))
	rec.AcceptorTimestamp = int64(1700000000 + len(h.raw))
	payload := must(rec.MarshalVT())
	id := must(cidutil.NewCidFromBytes(payload))
	return &consensusproto.RawRecordWithId{Payload: payload, Id: id}
}

func (h *hist) buildView(acc *accountdata.AccountKeys, client bool) (l list.AclList, err error) {
	return h.buildViewFrom(h.raw, acc, client)
}

// buildViewFrom builds a fresh AclList of the account from the given raw log.
func (h *hist) buildViewFrom(raws []*consensusproto.RawRecordWithId, acc *accountdata.AccountKeys, client bool) (l list.AclList, err error) {
	defer func() {
		if p := recover(); p != nil {
			err = fmt.Errorf("panic: %v", p)
		}
	}()
	cp := make([]*consensusproto.RawRecordWithId, len(raws))
	copy(cp, raws)
	st, err := list.NewInMemoryStorage(raws[0].Id, cp)
	if err != nil {
		return nil, err
	}
	var v recordverifier.AcceptorVerifier = recordverifier.NewValidateFull()
	if client {
		v = recordverifier.New(h.netPub)
	}
	return list.BuildAclListWithIdentity(acc, st, v)
}

func (h *hist) rebuildViews() error {
	h.views = make([]list.AclList, h.n())
	h.cviews = make([]list.AclList, h.n())
	for i, a := range h.accs {
		v, err := h.buildView(a, false)
		if err != nil {
			return fmt.Errorf("account %d cannot build its validating view: %w", i, err)
		}
		c, err := h.buildView(a, true)
		if err != nil {
			return fmt.Errorf("account %d cannot build its client view: %w", i, err)
		}
		h.views[i], h.cviews[i] = v, c
	}
	return nil
}

// ---- principals and symbolic naming of real ciphertexts ----

func (h *hist) accByProto(id []byte) int {
	for i, p := range h.accProto {
		if bytes.Equal(p, id) {
			return i
		}
	}
	// a byte-different but valid encoding of the same public key (hand-signed records use them)
	if pk, err := crypto.UnmarshalEd25519PublicKeyProto(id); err == nil {
		for i, a := range h.accs {
			if a.SignKey.GetPublic().Equals(pk) {
				return i
			}
		}
	}
	return -1
}

func (h *hist) invByProto(id []byte) int {
	for i, v := range h.invs {
		if bytes.Equal(v.pubProto, id) {
			return i
		}
	}
	if pk, err := crypto.UnmarshalEd25519PublicKeyProto(id); err == nil {
		for i, v := range h.invs {
			if v.priv != nil && v.priv.GetPublic().Equals(pk) {
				return i
			}
		}
	}
	return -1
}

func (h *hist) genOfKeyBytes(plain []byte) int {
	k, err := crypto.UnmarshallAESKeyProto(plain)
	if err != nil {
		return -1
	}
	for g, gn := range h.gens {
		if gn.key.Equals(k) {
			return g
		}
	}
	return -2
}

func (h *hist) privOf(p int) crypto.PrivKey {
	if p < h.n() {
		return h.accs[p].SignKey
	}
	return h.invs[p-h.n()].priv
}

// tryAsym: what principal p obtains by decrypting published ciphertext #it with its private key
func (h *hist) tryAsym(p, it int) int {
	k := [2]int{p, it}
	if g, ok := h.asymCache[k]; ok {
		return g
	}
	g := -1
	func() {
		defer func() { recover() }()
		plain, err := h.privOf(p).Decrypt(h.asym[it].ct)
		if err == nil {
			g = h.genOfKeyBytes(plain)
		}
	}()
	h.asymCache[k] = g
	return g
}

func (h *hist) trySym(g, it int) int {
	k := [2]int{g, it}
	if r, ok := h.symCache[k]; ok {
		return r
	}
	res := -1
	plain, err := h.gens[g].key.Decrypt(h.sym[it].ct)
	if err == nil {
		res = h.genOfKeyBytes(plain)
	}
	h.symCache[k] = res
	return res
}

// closure computes, on the real bytes, which read-key generations are derivable from the given private
// keys and everything published in the raw log: every asymmetric ciphertext is tried with every private
// key (whatever its label says), every chained old-key ciphertext with every read key already obtained.
func (h *hist) closure(privs []int) []bool {
	known := make([]bool, len(h.gens))
	for it := range h.asym {
		for _, p := range privs {
			if g := h.tryAsym(p, it); g >= 0 {
				known[g] = true
			}
		}
	}
	for changed := true; changed; {
		changed = false
		for it := range h.sym {
			for g := range known {
				if !known[g] {
					continue
				}
				if g2 := h.trySym(g, it); g2 >= 0 && !known[g2] {
					known[g2] = true
					changed = true
				}
			}
		}
	}
	return known
}

// term names a real asymmetric ciphertext symbolically: A<acc>.<g> / I<inv>.<g> (decrypted with the key of the
// principal it is labelled for), J when it is not a read key of this space or the label is unknown.
func (h *hist) asymTerm(label, ct []byte, rec int) (string, int) {
	h.asym = append(h.asym, asymItem{ct: ct, label: label, rec: rec})
	it := len(h.asym) - 1
	if a := h.accByProto(label); a >= 0 {
		if g := h.tryAsym(a, it); g >= 0 {
			return fmt.Sprintf("A%d.%d", a, g), a
		}
		return "J", a
	}
	if v := h.invByProto(label); v >= 0 {
		if g := h.tryAsym(h.n()+v, it); g >= 0 {
			return fmt.Sprintf("I%d.%d", v, g), -1
		}
	}
	return "J", -1
}

// symTerm names a chained ciphertext: S<g1>.<g2> = old key g2 encrypted under read key g1
func (h *hist) symTerm(ct []byte, rec int) string {
	h.sym = append(h.sym, symItem{ct: ct, rec: rec})
	it := len(h.sym) - 1
	for g := range h.gens {
		if g2 := h.trySym(g, it); g2 >= 0 {
			return fmt.Sprintf("S%d.%d", g, g2)
		}
	}
	return "J"
}

// ---- views ----

// keyRow renders which generations a view holds: '1' correct key, 'x' a key that is not the generation's
// key, '0' none.
func (h *hist) keyRow(l list.AclList) string {
	st := l.AclState()
	var b strings.Builder
	for _, g := range h.gens {
		k, ok := st.Keys()[g.recId]
		switch {
		case !ok || k.ReadKey == nil:
			b.WriteByte('0')
		case k.ReadKey.Equals(g.key):
			b.WriteByte('1')
		default:
			b.WriteByte('x')
		}
	}
	return b.String()
}

func boolRow(k []bool) string {
	var b strings.Builder
	for _, x := range k {
		if x {
			b.WriteByte('1')
		} else {
			b.WriteByte('0')
		}
	}
	return b.String()
}

func (h *hist) members() []int {
	var m []int
	for i, p := range h.perm {
		if p != pNone {
			m = append(m, i)
		}
	}
	return m
}

func (h *hist) managers() []int {
	var m []int
	for i, p := range h.perm {
		if p == pOwner || p == pAdmin {
			m = append(m, i)
		}
	}
	return m
}

func (h *hist) owner() int {
	for i, p := range h.perm {
		if p == pOwner {
			return i
		}
	}
	return -1
}

func (h *hist) liveInvites(open bool) []*invite {
	var res []*invite
	for _, v := range h.invs {
		if v.live && v.open == open {
			res = append(res, v)
		}
	}
	return res
}

func ints(l []int) string {
	if len(l) == 0 {
		return "-"
	}
	s := make([]string, len(l))
	for i, x := range l {
		s[i] = fmt.Sprint(x)
	}
	return strings.Join(s, ",")
}

func sortedCopy(l []int) []int {
	c := append([]int{}, l...)
	sort.Ints(c)
	return c
}

// decode the AclData of a raw record (full decode, independent of any view)
func decodeData(raw *consensusproto.RawRecordWithId) (*aclrecordproto.AclData, []byte, error) {
	rr := &consensusproto.RawRecord{}
	if err := rr.UnmarshalVT(raw.Payload); err != nil {
		return nil, nil, err
	}
	rec := &consensusproto.Record{}
	if err := rec.UnmarshalVT(rr.Payload); err != nil {
		return nil, nil, err
	}
	d := &aclrecordproto.AclData{}
	if err := d.UnmarshalVT(rec.Data); err != nil {
		return nil, nil, err
	}
	return d, rec.Identity, nil
}
