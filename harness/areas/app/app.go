// Package app drives the real app.App container against the Lean model (C20).
package app

import (
	"context"
	"errors"
	"fmt"
	"strings"

	realapp "github.com/anyproto/any-sync/app"

	"verifharness/internal/corr"
)

type comp struct {
	id        int
	runnable  bool
	failInit  bool
	failRun   bool
	failClose bool
}

func (c comp) wire() string {
	b := func(x bool) string {
		if x {
			return "1"
		}
		return "0"
	}
	return fmt.Sprintf("%d:%s:%s:%s:%s", c.id, b(c.runnable), b(c.failInit), b(c.failRun), b(c.failClose))
}

type recorder struct{ evs []string }

type plain struct {
	c   comp
	rec *recorder
}

func (p *plain) Init(a *realapp.App) error {
	p.rec.evs = append(p.rec.evs, fmt.Sprintf("i%d", p.c.id))
	if p.c.failInit {
		return errors.New("init failed")
	}
	return nil
}
func (p *plain) Name() string { return fmt.Sprintf("c%d", p.c.id) }

type runnable struct{ plain }

func (p *runnable) Run(ctx context.Context) error {
	p.rec.evs = append(p.rec.evs, fmt.Sprintf("r%d", p.c.id))
	if p.c.failRun {
		return errors.New("run failed")
	}
	return nil
}
func (p *runnable) Close(ctx context.Context) error {
	p.rec.evs = append(p.rec.evs, fmt.Sprintf("c%d", p.c.id))
	if p.c.failClose {
		return errors.New("close failed")
	}
	return nil
}

func build(cs []comp, rec *recorder) *realapp.App {
	a := new(realapp.App)
	for _, c := range cs {
		if c.runnable {
			a.Register(&runnable{plain{c, rec}})
		} else {
			a.Register(&plain{c, rec})
		}
	}
	return a
}

func evs(l []string) string {
	if len(l) == 0 {
		return "-"
	}
	return strings.Join(l, " ")
}

func wireAll(cs []comp) string {
	p := make([]string, len(cs))
	for i, c := range cs {
		p[i] = c.wire()
	}
	return strings.Join(p, " ")
}

// oracleStart states C20 directly on the observed log.
func oracleStart(cs []comp, log []string, err error) string {
	// expected failure point
	failKind, failIdx := "", -1
	for i, c := range cs {
		if c.failInit {
			failKind, failIdx = "init", i
			break
		}
	}
	if failKind == "" {
		for i, c := range cs {
			if c.runnable && c.failRun {
				failKind, failIdx = "run", i
				break
			}
		}
	}
	var want []string
	switch failKind {
	case "":
		for _, c := range cs {
			want = append(want, fmt.Sprintf("i%d", c.id))
		}
		for _, c := range cs {
			if c.runnable {
				want = append(want, fmt.Sprintf("r%d", c.id))
			}
		}
		if err != nil {
			return "start returned an error although nothing failed"
		}
	case "init":
		for _, c := range cs[:failIdx+1] {
			want = append(want, fmt.Sprintf("i%d", c.id))
		}
	case "run":
		for _, c := range cs {
			want = append(want, fmt.Sprintf("i%d", c.id))
		}
		for _, c := range cs[:failIdx+1] {
			if c.runnable {
				want = append(want, fmt.Sprintf("r%d", c.id))
			}
		}
	}
	if failKind != "" {
		if err == nil {
			return "failure of " + failKind + " not reported"
		}
		for i := failIdx; i >= 0; i-- {
			if cs[i].runnable {
				want = append(want, fmt.Sprintf("c%d", cs[i].id))
			}
		}
	}
	if evs(want) != evs(log) {
		return fmt.Sprintf("start log %q, property requires %q", evs(log), evs(want))
	}
	return ""
}

func oneStart(r *corr.Run, cs []comp) {
	rec := &recorder{}
	a := build(cs, rec)
	// a container may be started and closed repeatedly: the property must hold in every cycle
	for cycle := 0; cycle < 3; cycle++ {
		rec.evs = nil
		if !oneCycle(r, cs, a, rec, cycle) {
			return
		}
	}
}

// oneCycle runs Start (+ Close when Start succeeded) once; it reports whether the app was fully
// started and closed, i.e. whether another cycle makes sense.
func oneCycle(r *corr.Run, cs []comp, a *realapp.App, rec *recorder, cycle int) bool {
	// the property does not depend on the caller's context: a cancelled / expired context must not cut
	// the start-failure cleanup or the shutdown short
	startCtx, closeCtx := context.Background(), context.Background()
	if r.Chance(30) {
		c, cancel := context.WithCancel(context.Background())
		cancel()
		closeCtx = c
		r.Count("ctx.close.cancelled")
	}
	if r.Chance(15) {
		c, cancel := context.WithCancel(context.Background())
		cancel()
		startCtx = c
		r.Count("ctx.start.cancelled")
	}
	err := a.Start(startCtx)
	op := "start " + wireAll(cs)
	if len(cs) == 0 {
		op = "start"
	}
	outcome := "ok"
	if err != nil {
		switch {
		case strings.Contains(err.Error(), "can't init service"):
			outcome = "initfail"
		case strings.Contains(err.Error(), "can't run service"):
			outcome = "runfail"
		default:
			outcome = "err"
		}
		// index of the named service
		for i, c := range cs {
			if strings.Contains(err.Error(), fmt.Sprintf("'c%d'", c.id)) {
				outcome += fmt.Sprintf(":%d", i)
			}
		}
	}
	impl := outcome + " " + evs(rec.evs)
	model := r.Ask(op)
	r.Check("C20", "app.start", []string{op}, model, impl)
	if msg := oracleStart(cs, rec.evs, err); msg != "" {
		r.Violate("C20", "", "app.start.oracle", fmt.Sprintf("cycle %d: %s", cycle, msg), []string{op})
	}
	nontrivial := len(cs) >= 2
	r.Case(fmt.Sprintf("%d/%s", cycle, op), nontrivial)
	r.Count("start." + strings.SplitN(outcome, ":", 2)[0])
	if len(cs) >= 4 && outcome != "ok" {
		r.Sample(map[string]string{"op": op, "impl": impl})
	}

	// Close on a fully started app
	if err == nil {
		rec.evs = nil
		cerr := a.Close(closeCtx)
		cop := "close " + wireAll(cs)
		if len(cs) == 0 {
			cop = "close"
		}
		m := r.Ask(cop)
		cres := "ok"
		wantErr := false
		for _, c := range cs {
			if c.runnable && c.failClose {
				wantErr = true
			}
		}
		if cerr != nil {
			cres = "err"
		}
		r.Check("C20", "app.close", []string{cop}, m, cres+" "+evs(rec.evs))
		var want []string
		for i := len(cs) - 1; i >= 0; i-- {
			if cs[i].runnable {
				want = append(want, fmt.Sprintf("c%d", cs[i].id))
			}
		}
		if evs(want) != evs(rec.evs) || (cerr != nil) != wantErr {
			r.Violate("C20", "", "app.close.oracle", fmt.Sprintf("cycle %d: close log %q, property requires %q (err=%v)", cycle, evs(rec.evs), evs(want), cerr), []string{cop})
		}
		r.Case(fmt.Sprintf("%d/%s", cycle, cop), len(cs) >= 2)
		r.Count("close")
		return true
	}
	return false
}

// enumerate all component lists of length n with every kind mix and every single failure point
func enumStart(r *corr.Run, n int) {
	for mask := 0; mask < 1<<n; mask++ {
		base := make([]comp, n)
		for i := range base {
			base[i] = comp{id: i, runnable: mask>>i&1 == 1}
		}
		oneStart(r, base)
		for i := 0; i < n; i++ {
			cs := append([]comp{}, base...)
			cs[i].failInit = true
			oneStart(r, cs)
			if base[i].runnable {
				cs = append([]comp{}, base...)
				cs[i].failRun = true
				oneStart(r, cs)
			}
		}
	}
}

type named struct {
	name, tag int
}

type nameComp struct {
	named
}

func (n *nameComp) Init(a *realapp.App) error { return nil }
func (n *nameComp) Name() string              { return fmt.Sprintf("n%d", n.name) }

func oneLookup(r *corr.Run, chain [][]named, name int) {
	// chain[0] is the child, chain[len-1] the root: build root first
	var a *realapp.App
	for i := len(chain) - 1; i >= 0; i-- {
		if a == nil {
			a = new(realapp.App)
		} else {
			a = a.ChildApp()
		}
		for _, n := range chain[i] {
			a.Register(&nameComp{n})
		}
	}
	parts := make([]string, len(chain))
	for i, c := range chain {
		if len(c) == 0 {
			parts[i] = "-"
			continue
		}
		p := make([]string, len(c))
		for j, n := range c {
			p[j] = fmt.Sprintf("%d:%d", n.name, n.tag)
		}
		parts[i] = strings.Join(p, ",")
	}
	op := fmt.Sprintf("lookup %d %s", name, strings.Join(parts, "/"))
	got := a.Component(fmt.Sprintf("n%d", name))
	impl := "notfound"
	if got != nil {
		impl = fmt.Sprintf("found:%d", got.(*nameComp).tag)
	}
	model := r.Ask(op)
	r.Check("C20", "app.lookup", []string{op}, model, impl)
	// oracle: first container (child first) that has the name
	want := "notfound"
outer:
	for _, c := range chain {
		for _, n := range c {
			if n.name == name {
				want = fmt.Sprintf("found:%d", n.tag)
				break outer
			}
		}
	}
	if want != impl {
		r.Violate("C20", "", "app.lookup.oracle", fmt.Sprintf("lookup gave %s, property requires %s", impl, want), []string{op})
	}
	r.Case(op, len(chain) >= 2)
	r.Count("lookup." + strings.SplitN(impl, ":", 2)[0])
}

// --- lookup by interface: GetComponent[T] -------------------------------------------------------

type ifaceA interface{ A() }
type ifaceB interface{ B() }

type tcomp struct {
	kind int // bit 0: implements A, bit 1: implements B
	tag  int
}

type tNone struct{ tcomp }
type tA struct{ tcomp }
type tB struct{ tcomp }
type tAB struct{ tcomp }

func (c *tcomp) Init(a *realapp.App) error { return nil }
func (c *tcomp) Name() string              { return fmt.Sprintf("t%d", c.tag) }
func (c *tA) A()                           {}
func (c *tB) B()                           {}
func (c *tAB) A()                          {}
func (c *tAB) B()                          {}

func mkT(c tcomp) realapp.Component {
	switch c.kind {
	case 1:
		return &tA{c}
	case 2:
		return &tB{c}
	case 3:
		return &tAB{c}
	}
	return &tNone{c}
}

func tagOf(c any) int {
	switch v := c.(type) {
	case *tA:
		return v.tag
	case *tB:
		return v.tag
	case *tAB:
		return v.tag
	case *tNone:
		return v.tag
	}
	return -1
}

func oneLookupT(r *corr.Run, chain [][]tcomp, ty int) {
	var a *realapp.App
	for i := len(chain) - 1; i >= 0; i-- {
		if a == nil {
			a = new(realapp.App)
		} else {
			a = a.ChildApp()
		}
		for _, c := range chain[i] {
			a.Register(mkT(c))
		}
	}
	parts := make([]string, len(chain))
	for i, cs := range chain {
		if len(cs) == 0 {
			parts[i] = "-"
			continue
		}
		p := make([]string, len(cs))
		for j, c := range cs {
			ts := []string{}
			if c.kind&1 != 0 {
				ts = append(ts, "1")
			}
			if c.kind&2 != 0 {
				ts = append(ts, "2")
			}
			t := strings.Join(ts, "+")
			if t == "" {
				t = "_"
			}
			p[j] = fmt.Sprintf("%s:%d", t, c.tag)
		}
		parts[i] = strings.Join(p, ",")
	}
	op := fmt.Sprintf("lookupT %d %s", ty, strings.Join(parts, "/"))
	impl := "notfound"
	if ty == 1 {
		if v, err := realapp.GetComponent[ifaceA](a); err == nil {
			impl = fmt.Sprintf("found:%d", tagOf(v))
		}
	} else {
		if v, err := realapp.GetComponent[ifaceB](a); err == nil {
			impl = fmt.Sprintf("found:%d", tagOf(v))
		}
	}
	model := r.Ask(op)
	r.Check("C20", "app.lookupT", []string{op}, model, impl)
	want := "notfound"
outer:
	for _, cs := range chain {
		for _, c := range cs {
			if c.kind&ty != 0 {
				want = fmt.Sprintf("found:%d", c.tag)
				break outer
			}
		}
	}
	if want != impl {
		r.Violate("C20", "", "app.lookupT.oracle", fmt.Sprintf("GetComponent gave %s, property requires %s", impl, want), []string{op})
	}
	r.Case(op, len(chain) >= 2)
	r.Count("lookupT." + strings.SplitN(impl, ":", 2)[0])
}

// lookupSession: lookups (by name and by interface) from every level of a chain of containers,
// interleaved with Register calls that shadow or add components — every lookup must reflect the
// containers as they are NOW (local first, then parents).
func lookupSession(r *corr.Run, depth int, tag *int) {
	apps := make([]*realapp.App, depth) // apps[0] = innermost child
	for i := depth - 1; i >= 0; i-- {
		if i == depth-1 {
			apps[i] = new(realapp.App)
		} else {
			apps[i] = apps[i+1].ChildApp()
		}
	}
	type ent struct {
		name, kind, tag int
	}
	chain := make([][]ent, depth)
	render := func(from int, byType bool) string {
		parts := []string{}
		for _, cs := range chain[from:] {
			if len(cs) == 0 {
				parts = append(parts, "-")
				continue
			}
			p := make([]string, len(cs))
			for j, c := range cs {
				if byType {
					t := "_"
					switch c.kind {
					case 1:
						t = "1"
					case 2:
						t = "2"
					case 3:
						t = "1+2"
					}
					p[j] = fmt.Sprintf("%s:%d", t, c.tag)
				} else {
					p[j] = fmt.Sprintf("%d:%d", c.name, c.tag)
				}
			}
			parts = append(parts, strings.Join(p, ","))
		}
		return strings.Join(parts, "/")
	}
	var trace []string
	steps := 4 + r.Intn(8)
	for st := 0; st < steps; st++ {
		d := r.Intn(depth)
		if r.Chance(40) {
			// register into container d (names unique per container, as Register demands)
			name := r.Intn(4)
			dup := false
			for _, c := range chain[d] {
				if c.name == name {
					dup = true
				}
			}
			if dup {
				continue
			}
			*tag++
			e := ent{name, r.Intn(4), *tag}
			apps[d].Register(mkSess(e.name, e.kind, e.tag))
			chain[d] = append(chain[d], e)
			trace = append(trace, fmt.Sprintf("register d=%d name=%d kind=%d tag=%d", d, e.name, e.kind, e.tag))
			continue
		}
		if r.Chance(50) {
			name := r.Intn(5)
			op := fmt.Sprintf("lookup %d %s", name, render(d, false))
			impl := "notfound"
			if got := apps[d].Component(fmt.Sprintf("s%d", name)); got != nil {
				impl = fmt.Sprintf("found:%d", got.(interface{ tagv() int }).tagv())
			}
			want := "notfound"
		outerN:
			for _, cs := range chain[d:] {
				for _, c := range cs {
					if c.name == name {
						want = fmt.Sprintf("found:%d", c.tag)
						break outerN
					}
				}
			}
			trace = append(trace, op)
			r.Check("C20", "app.session.lookup", trace, r.Ask(op), impl)
			if want != impl {
				r.Violate("C20", "", "app.session.lookup.oracle", fmt.Sprintf("Component gave %s, property requires %s", impl, want), trace)
			}
		} else {
			ty := 1 + r.Intn(2)
			op := fmt.Sprintf("lookupT %d %s", ty, render(d, true))
			impl := "notfound"
			if ty == 1 {
				if v, err := realapp.GetComponent[ifaceA](apps[d]); err == nil {
					impl = fmt.Sprintf("found:%d", v.(interface{ tagv() int }).tagv())
				}
			} else {
				if v, err := realapp.GetComponent[ifaceB](apps[d]); err == nil {
					impl = fmt.Sprintf("found:%d", v.(interface{ tagv() int }).tagv())
				}
			}
			want := "notfound"
		outerT:
			for _, cs := range chain[d:] {
				for _, c := range cs {
					if c.kind&ty != 0 {
						want = fmt.Sprintf("found:%d", c.tag)
						break outerT
					}
				}
			}
			trace = append(trace, op)
			r.Check("C20", "app.session.lookupT", trace, r.Ask(op), impl)
			if want != impl {
				r.Violate("C20", "", "app.session.lookupT.oracle", fmt.Sprintf("GetComponent gave %s, property requires %s", impl, want), trace)
			}
		}
	}
	r.Case(strings.Join(trace, ";"), depth >= 2)
	r.Count("session")
}

// session components: a chosen name plus one of the four interface kinds
type sessBase struct {
	name, tag int
}

func (c *sessBase) Init(a *realapp.App) error { return nil }
func (c *sessBase) Name() string              { return fmt.Sprintf("s%d", c.name) }
func (c *sessBase) tagv() int                 { return c.tag }

type sessNone struct{ sessBase }
type sessA struct{ sessBase }
type sessB struct{ sessBase }
type sessAB struct{ sessBase }

func (*sessA) A()  {}
func (*sessB) B()  {}
func (*sessAB) A() {}
func (*sessAB) B() {}

func mkSess(name, kind, tag int) realapp.Component {
	b := sessBase{name, tag}
	switch kind {
	case 1:
		return &sessA{b}
	case 2:
		return &sessB{b}
	case 3:
		return &sessAB{b}
	}
	return &sessNone{b}
}

func Run(r *corr.Run) {
	r.SetRule("start/close: every component list of length 0..N (N=5 quick, 7 thorough) x every runnable mask x every single failure point (init of i, run of runnable i) plus random multi-failure lists; lookup: random container chains of depth 1..4 with shadowed names; a case is non-trivial when it has >= 2 components / containers; distinct = distinct op lines")
	maxN := r.Pick(5, 7)
	for n := 0; n <= maxN; n++ {
		enumStart(r, n)
	}
	r.SetExhaustive(true)
	// random multi-failure lists
	for k := 0; k < r.Pick(2000, 50000); k++ {
		n := 1 + r.Intn(8)
		cs := make([]comp, n)
		for i := range cs {
			cs[i] = comp{id: i, runnable: r.Chance(60), failInit: r.Chance(8), failRun: r.Chance(12), failClose: r.Chance(20)}
		}
		oneStart(r, cs)
	}
	// lookups
	tag := 0
	for k := 0; k < r.Pick(3000, 60000); k++ {
		depth := 1 + r.Intn(4)
		chain := make([][]named, depth)
		for d := range chain {
			used := map[int]bool{}
			for j := r.Intn(4); j > 0; j-- {
				nm := r.Intn(5)
				if used[nm] {
					continue
				}
				used[nm] = true
				tag++
				chain[d] = append(chain[d], named{nm, tag})
			}
		}
		oneLookup(r, chain, r.Intn(6))
	}
	for k := 0; k < r.Pick(2000, 40000); k++ {
		depth := 1 + r.Intn(4)
		chain := make([][]tcomp, depth)
		for d := range chain {
			for j := r.Intn(4); j > 0; j-- {
				tag++
				kind := 0
				if r.Chance(35) {
					kind = 1 + r.Intn(3)
				}
				chain[d] = append(chain[d], tcomp{kind, tag})
			}
		}
		oneLookupT(r, chain, 1+r.Intn(2))
	}
	for k := 0; k < r.Pick(1500, 30000); k++ {
		lookupSession(r, 1+r.Intn(4), &tag)
	}
}
