package kv

import (
	"fmt"

	"github.com/cespare/xxhash"

	"github.com/anyproto/any-sync/commonspace/spacesyncproto"
	"os"
	"strings"
	"time"

	"verifharness/internal/corr"
)

var keysPool = []string{"k0", "k1", "note.read", "k0x", "k0-old", "old-k0", "k0-"}

// Run is the correspondence + oracle driver of area kv.
func Run(r *corr.Run) {
	t0 := time.Now()
	w, err := buildWorld()
	if err != nil {
		r.Fatal("world: " + err.Error())
	}
	c := &cases{r: r, w: w, slots: map[string]int{}, byWire: map[string]*rawValue{}, tsSeq: 1_000_000}
	defer func() {
		for _, e := range c.envs {
			e.close()
		}
	}()
	r.SetRule("a case counts when at least two values competed for one slot or an unacceptable value / storage fault / exchange was part of it")
	r.Note("world built in %.2fs", time.Since(t0).Seconds())

	c.genMutators()
	c.genGuards()
	c.genFaultSweep()
	c.genPermutations()
	c.genExchangeFixed()
	c.genExchangeBig()
	c.genExchangeDeep()
	c.genInflight()
	c.genBigRepeat()
	for i := 0; r.TimeLeft(); i++ {
		switch i % 4 {
		case 0:
			c.genRandomMultiset()
		case 1:
			c.genExchangeRandom()
		case 2:
			c.genPermutationsRandom()
		case 3:
			c.genRandomFaults()
			if i%8 == 3 {
				c.genInflight()
			}
		}
		if r.Issues() >= 12 {
			break
		}
	}
	if os.Getenv("VERIF_KV_DEBUG") != "" {
		fmt.Fprintf(os.Stderr, "kv: %d stores, %d values, %.1fs\n", c.nstore, c.nvid, time.Since(t0).Seconds())
	}
}

// ---- helpers ----------------------------------------------------------------------------------

func (c *cases) dev(acc string, i int) *device { return c.w.accounts[acc].devices[i] }

func (c *cases) anyWriterStoreOwner() *device {
	return c.dev([]string{"o", "w", "o", "p"}[c.r.Intn(4)], c.r.Intn(2))
}

// nextTs hands out run-unique small timestamps (distinct per slot a fortiori).
func (c *cases) nextTs() int64 {
	c.tsSeq += 1 + int64(c.r.Intn(5))
	return c.tsSeq
}

// randomAcceptable: a valid value by an account that may write at the record it cites.
func (c *cases) randomAcceptable(key string, d *device, ts int64) *rawValue {
	type ar struct {
		acc string
		rec int
	}
	opts := []ar{{"o", recRoot}, {"o", recAdd}, {"o", recPromote}, {"w", recAdd}, {"w", recRemove}, {"w", recPromote}, {"m", recAdd}, {"p", recPromote}}
	o := opts[c.r.Intn(len(opts))]
	if d == nil {
		d = c.w.devices[c.r.Intn(len(c.w.devices))]
	}
	return c.valid(o.acc, d, key, ts, o.rec)
}

// randomUnauthorised: correctly signed, correctly enveloped, but the account may not write there.
func (c *cases) randomUnauthorised(key string, d *device, ts int64) *rawValue {
	type ar struct {
		acc string
		rec int
	}
	opts := []ar{{"r", recAdd}, {"r", recPromote}, {"m", recRemove}, {"m", recPromote}, {"m", recRoot}, {"x", recRoot}, {"x", recPromote},
		{"p", recAdd}, {"p", recRemove}, {"w", recRoot}, {"o", recUnknown}, {"w", recUnknown}}
	o := opts[c.r.Intn(len(opts))]
	if d == nil {
		d = c.w.devices[c.r.Intn(len(c.w.devices))]
	}
	return c.valid(o.acc, d, key, ts, o.rec)
}

func (c *cases) randomMutant(base *rawValue) *rawValue {
	return c.mutate(mutators[c.r.Intn(len(mutators))], base)
}

// batchings of one arrival order
func (c *cases) randomBatching(vals []*rawValue) [][]*rawValue {
	switch c.r.Intn(3) {
	case 0:
		return [][]*rawValue{vals}
	case 1:
		out := make([][]*rawValue, 0, len(vals))
		for _, v := range vals {
			out = append(out, []*rawValue{v})
		}
		return out
	}
	var out [][]*rawValue
	for i := 0; i < len(vals); {
		n := 1 + c.r.Intn(len(vals)-i)
		out = append(out, vals[i:i+n])
		i += n
	}
	return out
}

func (c *cases) path() string {
	if c.r.Chance(30) {
		return "msg"
	}
	return "raw"
}

func (c *cases) apply(s *sut, batches [][]*rawValue) {
	for _, b := range batches {
		c.raw(s, c.path(), fault{}, b)
	}
}

func trace(s *sut) string { return strings.Join(s.ops, ";") }

// ---- generators --------------------------------------------------------------------------------

// every mutator, alone and between two valid neighbours (skip, not abort), on an empty store and on
// a store that already holds an older value of the victim slot.
func (c *cases) genMutators() {
	for _, m := range mutators {
		d := c.dev("w", c.r.Intn(2))
		old := c.valid("w", d, "k0", c.nextTs(), recAdd)
		base := c.valid("w", d, "k0", c.nextTs(), recAdd)
		mut := c.mutate(m, base)
		// honest values of keys that share a prefix / suffix with the victim key, same device: their slots
		// are what a partial slot comparison would confuse with the victim's
		longer := c.valid("w", d, "k0-old", old.ts-10, recAdd)
		shorter := c.valid("w", d, "k", old.ts-11, recAdd)
		sfx := c.valid("w", d, "old-k0", old.ts-12, recAdd)
		n1 := c.valid("o", c.dev("o", 0), "k1", c.nextTs(), recPromote)
		n2 := c.valid("o", c.dev("o", 1), "k1", c.nextTs(), recRoot)
		for variant := 0; variant < 4; variant++ {
			s := c.newSut(c.anyWriterStoreOwner())
			switch variant {
			case 0:
				c.raw(s, "raw", fault{}, []*rawValue{mut})
			case 1:
				c.raw(s, c.path(), fault{}, []*rawValue{n1, mut, n2})
			case 3:
				c.raw(s, "raw", fault{}, []*rawValue{longer, shorter, sfx, old})
				c.raw(s, c.path(), fault{}, []*rawValue{mut})
				c.raw(s, "raw", fault{}, []*rawValue{n1, mut, base})
			case 2:
				c.raw(s, "raw", fault{}, []*rawValue{old})
				c.raw(s, c.path(), fault{}, []*rawValue{mut, n1})
				c.raw(s, "raw", fault{}, []*rawValue{base, mut})
			}
			c.r.Case(trace(s), true)
			c.r.Count("gen.mutator")
		}
		if len(c.r.Res.Samples) < 2 {
			c.r.Sample(map[string]string{"gen": "mutator", "mutator": m.name, "value": mut.wire(c)})
		}
	}
}

// permission / ACL-record guards, both sides of each.
func (c *cases) genGuards() {
	type ar struct {
		acc string
		rec int
	}
	var all []ar
	for _, a := range accountNames {
		for rec := 0; rec < numRecs; rec++ {
			all = append(all, ar{a, rec})
		}
	}
	for _, x := range all {
		d := c.dev(x.acc, c.r.Intn(2))
		v := c.valid(x.acc, d, "k0", c.nextTs(), x.rec)
		prev := c.valid("o", d, "k0", c.nextTs()-100000, recRoot) // older, acceptable, same slot
		s := c.newSut(c.anyWriterStoreOwner())
		c.raw(s, "raw", fault{}, []*rawValue{prev})
		c.raw(s, c.path(), fault{}, []*rawValue{v})
		c.r.Case(trace(s), true)
		c.r.Count(fmt.Sprintf("gen.guard.write=%v", v.acceptable()))
	}
	// local Set on stores of every account kind
	for _, a := range []string{"o", "w", "r", "m", "p"} {
		s := c.newSut(c.dev(a, 0))
		c.set(s, fault{}, "k0")
		c.set(s, fault{}, "k0")
		c.set(s, fault{}, "k1")
		// a harness-made future value for the store's own slot beats the next local Set
		fut := c.valid("o", s.owner, "k0", time.Now().UnixMicro()+1e13+c.nextTs(), recRoot)
		c.raw(s, "raw", fault{}, []*rawValue{fut})
		c.set(s, fault{}, "k0")
		c.r.Case(trace(s), true)
		c.r.Count("gen.localset." + a)
	}
	// timestamp guards on one slot: ascending, descending, repeated, equal (tie: correspondence only),
	// and the corners the index (uint64 big-endian) and the store (int64 / float64) order differently
	d := c.dev("w", 0)
	mk := func(ts int64) *rawValue { return c.valid("w", d, "k1", ts, recAdd) }
	base := c.nextTs() + 1000
	seqs := [][]int64{
		{base, base + 1, base + 2},
		{base + 12, base + 11, base + 10},
		{base + 20, base + 20, base + 21, base + 20},
		{0, 1, 0},
		{-1, 5}, {5, -1}, {-5, -3}, {-3, -5}, {-9223372036854775808, 1}, {1, -9223372036854775808},
		{1 << 53, 1<<53 - 1}, {1<<53 - 1, 1 << 53}, {1<<53 + 3, 1<<53 + 4}, {1<<53 + 4, 1<<53 + 3}, {1<<53 - 2, 1<<53 - 1},
		{9223372036854775807, 7}, {7, 9223372036854775807},
	}
	for _, seq := range seqs {
		vals := make([]*rawValue, len(seq))
		for i, ts := range seq {
			vals[i] = mk(ts)
		}
		for _, oneBatch := range []bool{false, true} {
			s := c.newSut(c.anyWriterStoreOwner())
			if oneBatch {
				c.raw(s, "raw", fault{}, vals)
			} else {
				for _, v := range vals {
					c.raw(s, "raw", fault{}, []*rawValue{v})
				}
			}
			c.r.Case(trace(s), true)
			c.r.Count("gen.tsguard")
		}
	}
	// equal timestamp, different bytes: outside the property, model mirrors first-wins
	t := c.nextTs() + 50
	a1 := c.valid("w", d, "k1", t, recAdd)
	a2 := c.valid("o", d, "k1", t, recRoot)
	for _, order := range [][]*rawValue{{a1, a2}, {a2, a1}} {
		s := c.newSut(c.anyWriterStoreOwner())
		c.raw(s, "raw", fault{}, order[:1])
		c.raw(s, "raw", fault{}, order[1:])
		s2 := c.newSut(c.anyWriterStoreOwner())
		c.raw(s2, "raw", fault{}, order)
		c.r.Case(trace(s), true)
		c.r.Count("gen.tie")
	}
}

// every fault position of a batch over a store that already holds some of the slots.
func (c *cases) genFaultSweep() {
	d0, d1 := c.dev("w", 0), c.dev("o", 1)
	pre := []*rawValue{c.valid("w", d0, "k0", c.nextTs(), recAdd), c.valid("o", d1, "k1", c.nextTs(), recRoot)}
	batch := []*rawValue{
		c.valid("w", d0, "k0", c.nextTs(), recAdd),   // update
		c.valid("o", d1, "k0", c.nextTs(), recRoot),  // insert
		c.valid("w", d0, "k0", c.nextTs(), recAdd),   // second update of the same slot in one batch
		c.valid("o", d1, "k1", pre[1].ts-1, recRoot), // loses
		c.valid("o", d1, "k0", c.nextTs(), recRoot),  // update of an id inserted by this batch
		c.valid("w", d0, "note.read", c.nextTs(), recAdd),
	}
	faults := []fault{{"begin", 0}, {"head", 0}, {"commit", 0}}
	for k := 0; k <= len(batch); k++ {
		faults = append(faults, fault{"find", k}, fault{"upsert", k})
	}
	for _, f := range faults {
		s := c.newSut(c.anyWriterStoreOwner())
		c.raw(s, "raw", fault{}, pre)
		c.raw(s, "raw", f, batch)
		if c.r.Chance(50) {
			c.raw(s, "raw", f, batch[:3]) // fail again on a prefix
		}
		c.raw(s, c.path(), fault{}, batch) // retry succeeds
		c.r.Case(trace(s), true)
		c.r.Count("gen.faultsweep")
	}
	// local Set under every fault
	for _, f := range []fault{{"begin", 0}, {"find", 0}, {"upsert", 0}, {"head", 0}, {"commit", 0}} {
		s := c.newSut(c.dev("w", 1))
		c.set(s, fault{}, "k0")
		c.set(s, f, "k0")
		c.set(s, f, "k1")
		c.set(s, fault{}, "k1")
		c.r.Case(trace(s), true)
		c.r.Count("gen.faultsweep.set")
	}
}

func permutations(n int) [][]int {
	if n == 0 {
		return [][]int{{}}
	}
	var out [][]int
	for _, p := range permutations(n - 1) {
		for i := 0; i <= len(p); i++ {
			q := append(append(append([]int{}, p[:i]...), n-1), p[i:]...)
			out = append(out, q)
		}
	}
	return out
}

// a pool of n values over few slots (acceptable, unauthorised and mutated ones mixed)
func (c *cases) smallPool(n int) []*rawValue {
	devs := []*device{c.w.devices[c.r.Intn(len(c.w.devices))], c.w.devices[c.r.Intn(len(c.w.devices))]}
	keys := []string{keysPool[c.r.Intn(len(keysPool))], keysPool[c.r.Intn(len(keysPool))]}
	var pool []*rawValue
	for len(pool) < n {
		d, k := devs[c.r.Intn(2)], keys[c.r.Intn(2)]
		switch x := c.r.Intn(10); {
		case x < 6:
			pool = append(pool, c.randomAcceptable(k, d, c.nextTs()))
		case x < 8:
			pool = append(pool, c.randomUnauthorised(k, d, c.nextTs()))
		default:
			pool = append(pool, c.randomMutant(c.randomAcceptable(k, d, c.nextTs())))
		}
	}
	return pool
}

func (c *cases) runOrders(pool []*rawValue, perms [][]int) {
	first := ""
	for _, p := range perms {
		if !c.r.TimeLeft() {
			return
		}
		vals := make([]*rawValue, len(p))
		for i, j := range p {
			vals[i] = pool[j]
		}
		s := c.newSut(c.anyWriterStoreOwner())
		c.apply(s, c.randomBatching(vals))
		if c.r.Chance(30) { // repetition changes nothing
			c.apply(s, c.randomBatching(vals))
		}
		// order independence stated directly: same final state string for every order (slot ids are
		// interned per run, so the strings are comparable)
		if first == "" {
			first = s.lastState
		} else if s.lastState != first {
			c.r.Violate(prop, "", "kv.order", "two arrival orders of the same values end in different stores: "+first+" vs "+s.lastState, s.ops)
		}
		c.r.Case(trace(s), len(vals) >= 2)
		c.r.Count(fmt.Sprintf("gen.perm.n=%d", len(vals)))
	}
}

// all arrival orders of a small pool (exhaustive up to 4 in quick, 6 in thorough)
func (c *cases) genPermutations() {
	maxN := c.r.Pick(4, 6)
	for n := 2; n <= maxN; n++ {
		reps := 1
		if n <= 3 {
			reps = 3
		}
		for i := 0; i < reps; i++ {
			c.runOrders(c.smallPool(n), permutations(n))
		}
	}
	c.r.SetExhaustive(false)
}

// sampled orders of pools of 5–6 (quick) / 7–8 (thorough)
func (c *cases) genPermutationsRandom() {
	n := c.r.Pick(5, 7) + c.r.Intn(2)
	pool := c.smallPool(n)
	var perms [][]int
	for i := 0; i < c.r.Pick(6, 24); i++ {
		perms = append(perms, c.r.Perm(n))
	}
	c.runOrders(pool, perms)
}

// a larger multiset with repetitions, all three write paths, occasionally a fault
func (c *cases) genRandomMultiset() {
	s := c.newSut(c.anyWriterStoreOwner())
	n := 8 + c.r.Intn(c.r.Pick(25, 60))
	var pool []*rawValue
	for len(pool) < n {
		k := keysPool[c.r.Intn(len(keysPool))]
		switch x := c.r.Intn(10); {
		case x < 6:
			pool = append(pool, c.randomAcceptable(k, nil, c.nextTs()))
		case x < 8:
			pool = append(pool, c.randomUnauthorised(k, nil, c.nextTs()))
		default:
			pool = append(pool, c.randomMutant(c.randomAcceptable(k, nil, c.nextTs())))
		}
	}
	// the arrival sequence: a random walk over the pool with repetitions
	var seq []*rawValue
	for i := 0; i < n*2; i++ {
		seq = append(seq, pool[c.r.Intn(len(pool))])
	}
	for i := 0; i < len(seq); {
		m := 1 + c.r.Intn(6)
		if i+m > len(seq) {
			m = len(seq) - i
		}
		if c.r.Chance(10) {
			c.set(s, fault{}, keysPool[c.r.Intn(len(keysPool))])
		}
		c.raw(s, c.path(), fault{}, seq[i:i+m])
		i += m
	}
	c.r.Case(trace(s), true)
	c.r.Count("gen.multiset")
	if len(c.r.Res.Samples) < 4 {
		c.r.Sample(map[string]any{"gen": "multiset", "ops": s.ops[:min(len(s.ops), 4)], "final": s.lastState})
	}
}

func (c *cases) randomFault(batchLen int) fault {
	switch c.r.Intn(6) {
	case 0:
		return fault{"begin", 0}
	case 1:
		return fault{"find", c.r.Intn(batchLen + 1)}
	case 2:
		return fault{"upsert", c.r.Intn(batchLen + 1)}
	case 3:
		return fault{"head", 0}
	case 4:
		return fault{"commit", 0}
	}
	return fault{}
}

// random writes where about every second one is hit by a storage fault
func (c *cases) genRandomFaults() {
	s := c.newSut(c.anyWriterStoreOwner())
	devs := []*device{c.w.devices[c.r.Intn(len(c.w.devices))], c.w.devices[c.r.Intn(len(c.w.devices))], s.owner}
	for step := 0; step < 6+c.r.Intn(10); step++ {
		m := 1 + c.r.Intn(6)
		var batch []*rawValue
		for i := 0; i < m; i++ {
			d, k := devs[c.r.Intn(len(devs))], keysPool[c.r.Intn(3)]
			v := c.randomAcceptable(k, d, c.nextTs())
			switch c.r.Intn(8) {
			case 0:
				v = c.randomMutant(v)
			case 1:
				v = c.randomUnauthorised(k, d, c.nextTs())
			case 2:
				if len(s.received) > 0 { // an old one again
					v = s.received[c.r.Intn(len(s.received))]
				}
			}
			batch = append(batch, v)
		}
		f := c.randomFault(m)
		if c.r.Chance(15) {
			c.set(s, f, keysPool[c.r.Intn(3)])
		} else {
			c.raw(s, c.path(), f, batch)
			if f.kind != "" && c.r.Chance(60) {
				c.raw(s, c.path(), fault{}, batch)
			}
		}
	}
	c.r.Case(trace(s), true)
	c.r.Count("gen.randomfaults")
}

func (c *cases) fill(s *sut, slots []slotRef, n int) {
	var batch []*rawValue
	for i := 0; i < n; i++ {
		sr := slots[c.r.Intn(len(slots))]
		v := c.randomAcceptable(sr.key, sr.d, c.nextTs())
		if c.r.Chance(12) {
			v = c.randomUnauthorised(sr.key, sr.d, c.nextTs())
		}
		batch = append(batch, v)
		if len(batch) >= 1+c.r.Intn(8) {
			c.raw(s, c.path(), fault{}, batch)
			batch = nil
		}
	}
	if len(batch) > 0 {
		c.raw(s, "raw", fault{}, batch)
	}
}

type slotRef struct {
	key string
	d   *device
}

// directed exchanges: disjoint, identical, ours newer, theirs newer, one side empty
func (c *cases) genExchangeFixed() {
	d0, d1 := c.dev("w", 0), c.dev("o", 0)
	mk := func(d *device, key string) *rawValue {
		return c.valid(map[bool]string{true: "w", false: "o"}[d == d0], d, key, c.nextTs(), recAdd)
	}
	a1, a2, a3 := mk(d0, "k0"), mk(d0, "k0"), mk(d0, "k0")
	b1, b2 := mk(d1, "k1"), mk(d1, "k1")
	cshared := mk(d1, "note.read")
	shapes := []struct {
		name string
		a, b []*rawValue
	}{
		{"both-empty", nil, nil},
		{"a-empty", nil, []*rawValue{a1, b1}},
		{"b-empty", []*rawValue{a1, b1}, nil},
		{"disjoint", []*rawValue{a1}, []*rawValue{b1}},
		{"identical", []*rawValue{a2, b2, cshared}, []*rawValue{cshared, b2, a2}},
		{"ours-newer", []*rawValue{a3, cshared}, []*rawValue{a1, cshared}},
		{"theirs-newer", []*rawValue{a1, cshared}, []*rawValue{a3, cshared}},
		{"mixed", []*rawValue{a3, b1}, []*rawValue{a2, b2, cshared}},
	}
	for _, sh := range shapes {
		a, b := c.newSut(c.dev("o", 1)), c.newSut(c.dev("w", 1))
		if len(sh.a) > 0 {
			c.raw(a, "raw", fault{}, sh.a)
		}
		if len(sh.b) > 0 {
			c.raw(b, "raw", fault{}, sh.b)
		}
		c.exchange(a, b)
		c.exchange(b, a) // a second exchange in the other direction must change nothing
		c.r.Case(trace(a), true)
		c.r.Count("gen.exchange." + sh.name)
	}
	// the server's write fails at every kind of boundary; the next exchange equalises
	for _, f := range []fault{{"begin", 0}, {"find", 0}, {"find", 1}, {"upsert", 0}, {"upsert", 1}, {"head", 0}, {"commit", 0}} {
		a, b := c.newSut(c.dev("o", 1)), c.newSut(c.dev("w", 1))
		c.raw(a, "raw", fault{}, []*rawValue{a3, b1, cshared})
		c.raw(b, "raw", fault{}, []*rawValue{a1, b2})
		c.exchangeF(a, b, f)
		c.exchange(a, b)
		c.r.Case(trace(a), true)
		c.r.Count("gen.exchange.serverfault")
	}
}

// pulls / pushes larger than one apply batch (applyBatchSize = 100): 100, 101, 230 values
func (c *cases) genExchangeBig() {
	for _, n := range []int{100, 101, 230} {
		var batch []*rawValue
		for i := 0; i < n; i++ {
			batch = append(batch, c.randomAcceptable(fmt.Sprintf("big%d", i), c.w.devices[i%len(c.w.devices)], c.nextTs()))
		}
		for _, pull := range []bool{true, false} {
			a, b := c.newSut(c.dev("o", 0)), c.newSut(c.dev("w", 0))
			older := c.randomAcceptable("big0", c.w.devices[0], batch[0].ts-500000)
			if pull {
				c.raw(b, "raw", fault{}, batch)
				c.raw(a, "raw", fault{}, []*rawValue{older})
			} else {
				c.raw(a, "raw", fault{}, batch)
				c.raw(b, "raw", fault{}, []*rawValue{older})
			}
			c.exchange(a, b)
			c.r.Case(trace(a), true)
			c.r.Count("gen.exchange.big")
		}
	}
}

func (c *cases) genExchangeRandom() {
	owners := []*device{c.anyWriterStoreOwner(), c.anyWriterStoreOwner()}
	if c.r.Chance(15) {
		owners[1] = c.dev("r", 0) // a reader's store still relays what writers wrote
	}
	a, b := c.newSut(owners[0]), c.newSut(owners[1])
	var slots []slotRef
	nslots := 2 + c.r.Intn(c.r.Pick(10, 30))
	big := c.r.Chance(c.r.Pick(4, 15))
	if big { // more than one pull batch (applyBatchSize = 100)
		nslots = 120 + c.r.Intn(130)
	}
	for i := 0; i < nslots; i++ {
		slots = append(slots, slotRef{fmt.Sprintf("e%d", c.r.Intn(nslots)), c.w.devices[c.r.Intn(len(c.w.devices))]})
	}
	if big {
		var batch []*rawValue
		for _, sr := range slots {
			batch = append(batch, c.randomAcceptable(sr.key, sr.d, c.nextTs()))
		}
		c.raw(b, "raw", fault{}, batch)
		c.fill(a, slots, 20)
	} else {
		c.fill(a, slots, c.r.Intn(3*nslots))
		c.fill(b, slots, c.r.Intn(3*nslots))
		if c.r.Chance(40) {
			shared := c.randomAcceptable(slots[0].key, slots[0].d, c.nextTs())
			c.raw(a, "raw", fault{}, []*rawValue{shared})
			c.raw(b, "raw", fault{}, []*rawValue{shared})
		}
		if c.r.Chance(30) && writes[a.owner.acc][recPromote] {
			c.set(a, fault{}, slots[0].key)
		}
	}
	if !big && c.r.Chance(25) {
		// the server's write of what we push fails; a later fault-free exchange repairs it
		c.exchangeF(a, b, c.randomFault(4))
		c.exchange(a, b)
		c.r.Count("gen.exchange.serverfault")
	} else {
		c.exchange(a, b)
	}
	if c.r.Chance(50) {
		c.exchange(b, a)
	}
	c.r.Case(trace(a), true)
	c.r.Count("gen.exchange.random")
	if big {
		c.r.Count("gen.exchange.big")
	}
}

// one batch that updates the same slot more often than the ldiff compare threshold (256): the
// situation in which app/ldiff's Set-on-existing-id accounting (F-ldiff-update) would split a leaf
func (c *cases) genBigRepeat() {
	d := c.dev("w", 1)
	var batch []*rawValue
	for i := 0; i < 300; i++ {
		batch = append(batch, c.valid("w", d, "k0", c.nextTs(), recAdd))
	}
	s := c.newSut(c.dev("o", 0))
	c.raw(s, "raw", fault{}, batch[:20])
	c.raw(s, "raw", fault{}, batch)
	s2 := c.newSut(c.dev("o", 0))
	c.raw(s2, "raw", fault{"commit", 0}, batch)
	c.raw(s2, "raw", fault{}, batch[:280])
	c.raw(s2, "raw", fault{"head", 0}, batch)
	c.r.Case(trace(s), true)
	c.r.Count("gen.bigrepeat")
}

// sameBucketKeys: keys for device d whose slot ids hash (xxhash64, as app/ldiff does) into the same
// ldiff range at the given level (level 1 = one of the 32 children of the top range, level 2 = one of
// its 32 children: with df = 32 the ranges are exactly the top 5·level bits). One sub-range of that
// range is reserved: `in` (n keys) avoids it, `reserved` (m keys) lies inside it.
func (c *cases) sameBucketKeys(d *device, level, n, m int) (in, reserved []string) {
	shift := uint(64 - 5*level)
	target := uint64(c.r.Intn(1 << uint(5*level)))
	sub := uint64(c.r.Intn(32))
	for i := 0; len(in) < n || len(reserved) < m; i++ {
		k := fmt.Sprintf("deep%d.%d", level, i)
		h := xxhash.Sum64String(k + "-" + d.peerId)
		if h>>shift != target {
			continue
		}
		if (h>>(shift-5))&31 == sub {
			if len(reserved) < m {
				reserved = append(reserved, k)
			}
		} else if len(in) < n {
			in = append(in, k)
		}
	}
	return
}

// exchanges in which ONE side's ldiff tree is divided below the top (more than compareThreshold = 256
// ids inside one range, one and two levels down) and the other side's is not — the recursion through
// the real remotediff adapter has to descend on one side only. The small side also owns a few ids in
// a sub-range that is EMPTY on the big side (the nil-hash corner of the diff).
func (c *cases) genExchangeDeep() {
	levels := []int{1, 2}
	if !c.r.Quick() {
		levels = []int{1, 2, 3}
	}
	for _, level := range levels {
		d := c.w.devices[c.r.Intn(len(c.w.devices))]
		keys, reserved := c.sameBucketKeys(d, level, 280, 6)
		for _, bigIsServer := range []bool{true, false} {
			var all, some []*rawValue
			for i, k := range keys {
				v := c.randomAcceptable(k, d, c.nextTs())
				all = append(all, v)
				switch {
				case i%3 == 0: // both have it
					some = append(some, v)
				case i%10 == 1: // the small side has a newer one
					some = append(some, c.randomAcceptable(k, d, c.nextTs()+1000000))
				case i%10 == 2: // the small side has an older one
					some = append(some, c.randomAcceptable(k, d, v.ts-900000))
				}
			}
			for _, k := range reserved { // only the small side, in a sub-range the big side has nothing in
				some = append(some, c.randomAcceptable(k, d, c.nextTs()))
			}
			a, b := c.newSut(c.dev("o", 0)), c.newSut(c.dev("w", 0))
			big, small := b, a
			if !bigIsServer {
				big, small = a, b
			}
			c.raw(big, "raw", fault{}, all)
			c.raw(small, "raw", fault{}, some)
			c.exchange(a, b)
			c.r.Case(trace(a), true)
			c.r.Count(fmt.Sprintf("gen.exchange.deep.level=%d", level))
		}
	}
}

// values arriving while an exchange is in flight: new writes land on the server before it answers the
// first range request, and on both sides after the client has computed its diff. During that exchange
// neither store may go back or hold anything that was not sent; afterwards ONE quiescent exchange must
// equalise. Oracle only (the model has no such schedule).
func (c *cases) genInflight() {
	a, b := c.newSut(c.dev("o", 1)), c.newSut(c.dev("w", 1))
	a.noModel, b.noModel = true, true
	var slots []slotRef
	for i := 0; i < 4+c.r.Intn(8); i++ {
		slots = append(slots, slotRef{fmt.Sprintf("f%d", i), c.w.devices[c.r.Intn(len(c.w.devices))]})
	}
	c.fill(a, slots, c.r.Intn(2*len(slots)))
	c.fill(b, slots, c.r.Intn(2*len(slots)))
	known := map[int]*rawValue{}
	for _, v := range append(append([]*rawValue(nil), a.received...), b.received...) {
		known[v.vid] = v
	}
	a.known, b.known = known, known
	inject := func(s *sut, n int) {
		var batch []*rawValue
		for i := 0; i < n; i++ {
			sr := slots[c.r.Intn(len(slots))]
			ts := c.nextTs()
			if c.r.Chance(30) {
				ts -= 400000 // an old value arriving late
			}
			v := c.randomAcceptable(sr.key, sr.d, ts)
			known[v.vid] = v
			batch = append(batch, v)
		}
		protos := make([]*spacesyncproto.StoreKeyValue, 0, len(batch))
		for _, v := range batch {
			protos = append(protos, cloneProto(v.proto))
		}
		if err := s.st.SetRaw(bg, protos...); err != nil {
			c.r.Violate(prop, "", "kv.inflight", "SetRaw during an exchange failed: "+err.Error(), s.ops)
			return
		}
		s.received = append(s.received, batch...)
		s.ops = append(s.ops, fmt.Sprintf("# in-flight arrival of %d values on store %d", len(batch), s.mid))
		c.r.Count("inflight.arrivals")
	}
	where := c.r.Intn(3)
	onDiff := func(n int) {
		if n == 1 && where != 1 {
			inject(b, 1+c.r.Intn(3))
		}
	}
	onElements := func() {
		if where != 0 {
			inject(a, 1+c.r.Intn(3))
			inject(b, 1+c.r.Intn(3))
		}
	}
	a.loose, b.loose = true, true
	err := syncOnceHooked(a.store, b.store, onDiff, onElements)
	if err != nil {
		c.r.Violate(prop, "", "kv.inflight", "exchange with in-flight arrivals failed: "+err.Error(), a.ops)
	}
	a.cap.take()
	b.cap.take()
	op := fmt.Sprintf("# exchange %d %d with in-flight arrivals (schedule %d)", a.mid, b.mid, where)
	a.ops = append(a.ops, op)
	b.ops = append(b.ops, op)
	c.observe(a, "new", "")
	c.observe(b, "new", "")
	a.loose, b.loose = false, false
	// one quiescent exchange equalises (what the interrupted one missed is now in the diff)
	c.exchange(a, b)
	c.r.Case(trace(a), true)
	c.r.Count("gen.inflight")
}
