package kv

import (
	"context"
	"encoding/binary"
	"errors"
	"fmt"
	"os"
	"path/filepath"
	"sort"
	"sync"

	anystore "github.com/anyproto/any-store"
	"github.com/anyproto/any-store/anyenc"

	"github.com/anyproto/any-sync/app/ldiff"
	"github.com/anyproto/any-sync/commonspace/headsync/headstorage"
	"github.com/anyproto/any-sync/commonspace/object/keyvalue/keyvaluestorage"
	"github.com/anyproto/any-sync/commonspace/object/keyvalue/keyvaluestorage/innerstorage"
)

var bg = context.Background()

var errInjected = errors.New("verif: injected storage fault")

// fault plan for ONE storage operation. kinds: "" (none), begin, find, upsert, head, commit.
type faultPlan struct {
	mu      sync.Mutex
	kind    string
	k       int
	finds   int
	upserts int
	fired   bool
}

func (p *faultPlan) arm(kind string, k int) {
	p.mu.Lock()
	p.kind, p.k, p.finds, p.upserts, p.fired = kind, k, 0, 0, false
	p.mu.Unlock()
}

func (p *faultPlan) hit(kind string) bool {
	p.mu.Lock()
	defer p.mu.Unlock()
	n := 0
	switch kind {
	case "find":
		n = p.finds
		p.finds++
	case "upsert":
		n = p.upserts
		p.upserts++
	}
	if p.kind == kind && (kind == "begin" || kind == "head" || kind == "commit" || n == p.k) {
		p.fired = true
		return true
	}
	return false
}

// faultDB / faultColl / faultTx / faultHeads wrap the real any-store objects; everything not
// overridden goes to the real SQLite-backed implementation.
type faultDB struct {
	anystore.DB
	plan *faultPlan
}

func (d *faultDB) Collection(ctx context.Context, name string) (anystore.Collection, error) {
	c, err := d.DB.Collection(ctx, name)
	if err != nil {
		return nil, err
	}
	return &faultColl{Collection: c, plan: d.plan}, nil
}

type faultColl struct {
	anystore.Collection
	plan *faultPlan
}

func (c *faultColl) WriteTx(ctx context.Context) (anystore.WriteTx, error) {
	if c.plan.hit("begin") {
		return nil, errInjected
	}
	tx, err := c.Collection.WriteTx(ctx)
	if err != nil {
		return nil, err
	}
	return &faultTx{WriteTx: tx, plan: c.plan}, nil
}

func (c *faultColl) FindIdWithParser(ctx context.Context, p *anyenc.Parser, id any) (anystore.Doc, error) {
	if c.plan.hit("find") {
		return nil, errInjected
	}
	return c.Collection.FindIdWithParser(ctx, p, id)
}

func (c *faultColl) UpsertOne(ctx context.Context, doc *anyenc.Value) error {
	if c.plan.hit("upsert") {
		return errInjected
	}
	return c.Collection.UpsertOne(ctx, doc)
}

type faultTx struct {
	anystore.WriteTx
	plan *faultPlan
}

func (t *faultTx) Commit() error {
	if t.plan.hit("commit") {
		_ = t.WriteTx.Rollback()
		return errInjected
	}
	return t.WriteTx.Commit()
}

type faultHeads struct {
	headstorage.HeadStorage
	plan *faultPlan
}

func (h *faultHeads) UpdateEntry(ctx context.Context, u headstorage.HeadsUpdate) error {
	if h.plan.hit("head") {
		return errInjected
	}
	return h.HeadStorage.UpdateEntry(ctx, u)
}

// capture records what the store hands to its sync client.
type capture struct {
	mu   sync.Mutex
	last []innerstorage.KeyValue
	n    int
}

func (c *capture) Broadcast(ctx context.Context, objectId string, kvs ...innerstorage.KeyValue) error {
	c.mu.Lock()
	c.last = append([]innerstorage.KeyValue(nil), kvs...)
	c.n++
	c.mu.Unlock()
	return nil
}

func (c *capture) take() []innerstorage.KeyValue {
	c.mu.Lock()
	defer c.mu.Unlock()
	l := c.last
	c.last = nil
	return l
}

// env is one temp directory with one real any-store DB; every store of a case lives in it as its
// own collection + heads entry.
type env struct {
	dir   string
	db    anystore.DB
	heads headstorage.HeadStorage
	n     int
}

func newEnv() (*env, error) {
	dir, err := os.MkdirTemp("", "verif-kv-*")
	if err != nil {
		return nil, err
	}
	db, err := anystore.Open(bg, filepath.Join(dir, "kv.db"), nil)
	if err != nil {
		os.RemoveAll(dir)
		return nil, err
	}
	hs, err := headstorage.New(bg, db)
	if err != nil {
		db.Close()
		os.RemoveAll(dir)
		return nil, err
	}
	return &env{dir: dir, db: db, heads: hs}, nil
}

func (e *env) close() {
	if e.db != nil {
		e.db.Close()
	}
	os.RemoveAll(e.dir)
}

type store struct {
	env   *env
	w     *world
	id    string
	owner *device
	st    keyvaluestorage.Storage
	plan  *faultPlan
	cap   *capture
	heads headstorage.HeadStorage
}

func (e *env) newStore(w *world, owner *device) (*store, error) {
	e.n++
	s := &store{env: e, w: w, id: fmt.Sprintf("kv.store.%d", e.n), owner: owner, plan: &faultPlan{}, cap: &capture{}, heads: e.heads}
	acl := w.accounts[owner.acc].acl
	st, err := keyvaluestorage.New(bg, s.id, &faultDB{DB: e.db, plan: s.plan}, &faultHeads{HeadStorage: e.heads, plan: s.plan},
		owner.keys, s.cap, acl, keyvaluestorage.NoOpIndexer{})
	if err != nil {
		return nil, err
	}
	if err = st.Prepare(); err != nil {
		return nil, err
	}
	s.st = st
	return s, nil
}

// stored is one row as the public Iterate hands it out.
type stored struct {
	kv    innerstorage.KeyValue
	group string // the key Iterate filed it under
}

func (s *store) contents() (rows []stored, err error) {
	err = s.st.Iterate(bg, func(_ keyvaluestorage.Decryptor, key string, values []innerstorage.KeyValue) (bool, error) {
		for _, kv := range values {
			rows = append(rows, stored{kv: kv, group: key})
		}
		return true, nil
	})
	sort.SliceStable(rows, func(i, j int) bool { return rows[i].kv.KeyPeerId < rows[j].kv.KeyPeerId })
	return
}

func headOf(ts int64) string {
	b := make([]byte, 8)
	binary.BigEndian.PutUint64(b, uint64(ts))
	return string(b)
}

// rebuiltHash: hash of a fresh index filled from the given rows (what a restart would compute).
func rebuiltHash(rows []stored) string {
	d := ldiff.New(32, 256)
	els := make([]ldiff.Element, 0, len(rows))
	for _, r := range rows {
		els = append(els, ldiff.Element{Id: r.kv.KeyPeerId, Head: headOf(r.kv.TimestampMicro)})
	}
	d.Set(els...)
	return d.Hash()
}

func (s *store) index() (els []ldiff.Element, hash string) {
	d := s.st.InnerStorage().Diff()
	els = d.Elements()
	sort.Slice(els, func(i, j int) bool { return els[i].Id < els[j].Id })
	return els, d.Hash()
}

func (s *store) headsEntry() (string, error) {
	e, err := s.heads.GetEntry(bg, s.id)
	if err != nil {
		return "", err
	}
	if len(e.Heads) != 1 {
		return "", fmt.Errorf("heads entry has %d heads", len(e.Heads))
	}
	return e.Heads[0], nil
}

// reopenedHash opens the same collection again with the real constructor (what a restart does:
// innerstorage.New rebuilds the index from the stored documents) and returns that index' hash.
func (s *store) reopenedHash() (string, int, error) {
	st, err := keyvaluestorage.New(bg, s.id, s.env.db, s.env.heads, s.owner.keys, &capture{}, s.w.accounts[s.owner.acc].acl, keyvaluestorage.NoOpIndexer{})
	if err != nil {
		return "", 0, err
	}
	d := st.InnerStorage().Diff()
	return d.Hash(), d.Len(), nil
}
