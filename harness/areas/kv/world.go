package kv

import (
	"fmt"
	"os"

	"github.com/anyproto/any-sync/commonspace/object/accountdata"
	"github.com/anyproto/any-sync/commonspace/object/acl/list"
	"github.com/anyproto/any-sync/commonspace/spacesyncproto"
	"github.com/anyproto/any-sync/util/crypto"
)

// The ACL world is built once per run from the repo's own ACL executor (real records, real
// signatures, real state machine):
//
//	r0  root (owner o)
//	r1  o adds w (writer), r (reader), m (writer), p (reader)
//	r2  o removes m
//	r3  o promotes p to writer
//
// x is an account that never appears in the ACL. The table `writes` below is the property's
// ground truth ("held write permission at the cited record"), written down by construction
// and cross-checked once against AclState.PermissionsAtRecord.
const (
	recRoot = iota
	recAdd
	recRemove
	recPromote
	recUnknown // an id no ACL list knows
	numRecs
)

var accountNames = []string{"o", "w", "r", "m", "p", "x"}

var writes = map[string][numRecs]bool{
	"o": {true, true, true, true, false},
	"w": {false, true, true, true, false},
	"r": {false, false, false, false, false},
	"m": {false, true, false, false, false},
	"p": {false, false, false, true, false},
	"x": {false, false, false, false, false},
}

type device struct {
	acc    string
	idx    int
	keys   *accountdata.AccountKeys
	peerPb []byte // marshalled public peer key
	peerId string
}

type account struct {
	name    string
	sign    crypto.PrivKey
	signPb  []byte
	acl     list.AclList // this account's view of the (shared) ACL log; nil for x
	devices []*device
}

type world struct {
	accounts map[string]*account
	devices  []*device // all devices, fixed order
	recIds   [numRecs]string
}

func buildWorld() (*world, error) {
	ex := list.NewAclExecutor("verif-kv-space")
	w := &world{accounts: map[string]*account{}}
	step := func(cmd string) (string, error) {
		if err := ex.Execute(cmd); err != nil {
			return "", fmt.Errorf("acl %q: %w", cmd, err)
		}
		return ex.ActualAccounts()["o"].Acl.Head().Id, nil
	}
	var err error
	if w.recIds[recRoot], err = step("o.init::o"); err != nil {
		return nil, err
	}
	if w.recIds[recAdd], err = step("o.add::w,rw,mw;r,r,mr;m,rw,mm;p,r,mp"); err != nil {
		return nil, err
	}
	if w.recIds[recRemove], err = step("o.remove::m"); err != nil {
		return nil, err
	}
	if w.recIds[recPromote], err = step("o.changes::p,rw"); err != nil {
		return nil, err
	}
	w.recIds[recUnknown] = "bafyreiunknownunknownunknownunknownunknownunknownunknownunkn"
	for _, name := range accountNames {
		a := &account{name: name}
		if name == "x" {
			k, err := accountdata.NewRandom()
			if err != nil {
				return nil, err
			}
			a.sign = k.SignKey
		} else {
			st := ex.ActualAccounts()[name]
			a.sign = st.Keys.SignKey
			a.acl = st.Acl
		}
		if a.signPb, err = a.sign.GetPublic().Marshall(); err != nil {
			return nil, err
		}
		for i := 0; i < 2; i++ {
			pk, _, err := crypto.GenerateRandomEd25519KeyPair()
			if err != nil {
				return nil, err
			}
			d := &device{acc: name, idx: i, keys: accountdata.New(pk, a.sign)}
			d.peerId = d.keys.PeerId
			if d.peerPb, err = pk.GetPublic().Marshall(); err != nil {
				return nil, err
			}
			a.devices = append(a.devices, d)
			w.devices = append(w.devices, d)
		}
		w.accounts[name] = a
	}
	// all views must have the same head, and the by-construction table must be what the ACL says
	head := w.recIds[recPromote]
	for _, name := range accountNames {
		a := w.accounts[name]
		if a.acl == nil {
			continue
		}
		// the removed account's own view stops at its removal (it cannot read later records'
		// keys) but still holds the records themselves
		if a.acl.Head().Id != head {
			return nil, fmt.Errorf("acl view of %s has head %s, want %s", name, a.acl.Head().Id, head)
		}
	}
	st := w.accounts["o"].acl.AclState()
	for _, name := range accountNames {
		for rec := 0; rec < recUnknown; rec++ {
			perm, perr := st.PermissionsAtRecord(w.recIds[rec], w.accounts[name].sign.GetPublic())
			got := perr == nil && perm.CanWrite()
			if got != writes[name][rec] {
				return nil, fmt.Errorf("permission table mismatch: %s at r%d: acl says %v (err %v), table says %v", name, rec, got, perr, writes[name][rec])
			}
		}
	}
	return w, nil
}

// rawValue is one wire value (what a peer could send) together with the harness' ground truth.
type rawValue struct {
	vid   int
	proto *spacesyncproto.StoreKeyValue
	// ground truth by construction
	envSlot   string // envelope KeyPeerId
	innerSlot string // key + "-" + peer id named in the signed bytes ("" if the bytes do not decode)
	ts        int64
	decodes   bool
	idSigOk   bool
	peerSigOk bool
	aclKnown  bool
	canWrite  bool
	kind      string // generator / mutator name
	acc       string
	rec       int
}

func (v *rawValue) acceptable() bool {
	return v.decodes && v.idSigOk && v.peerSigOk && v.envSlot == v.innerSlot && v.aclKnown && v.canWrite &&
		(noRange || (v.ts >= 0 && v.ts < 1<<53))
}

// noRange (env VERIF_KV_NORANGE, triage only — never set by ./check): treat timestamps outside
// [0, 2^53) as acceptable, i.e. state the LWW oracle over the full int64 range. This is how
// F-kv-tsrange is demonstrated on a tree without fix-kv-tsrange.
var noRange = os.Getenv("VERIF_KV_NORANGE") != ""

// sign builds a correctly signed value exactly as storage.Set does (same inner message, same
// two signatures over the marshalled inner bytes, same envelope id).
func (w *world) sign(acc string, d *device, key string, ts int64, rec int, payload []byte) (*rawValue, error) {
	a := w.accounts[acc]
	inner := spacesyncproto.StoreKeyInner{
		Peer:           d.peerPb,
		Identity:       a.signPb,
		Value:          payload,
		TimestampMicro: ts,
		AclHeadId:      w.recIds[rec],
		Key:            key,
	}
	ib, err := inner.MarshalVT()
	if err != nil {
		return nil, err
	}
	ps, err := d.keys.PeerKey.Sign(ib)
	if err != nil {
		return nil, err
	}
	is, err := a.sign.Sign(ib)
	if err != nil {
		return nil, err
	}
	slot := key + "-" + d.peerId
	return &rawValue{
		proto:     &spacesyncproto.StoreKeyValue{KeyPeerId: slot, Value: ib, PeerSignature: ps, IdentitySignature: is},
		envSlot:   slot,
		innerSlot: slot,
		ts:        ts,
		decodes:   true, idSigOk: true, peerSigOk: true,
		aclKnown: rec != recUnknown,
		canWrite: writes[acc][rec],
		kind:     "valid", acc: acc, rec: rec,
	}, nil
}
