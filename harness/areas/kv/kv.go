// Package kv drives the real keyvaluestorage.Storage (real ACL list, real any-store, real
// signatures, real ldiff + remotediff adapters) against the Lean model AnySync.KV and states C12
// directly on what the store exposes (Iterate, Diff(), heads entry).
package kv

import (
	"encoding/binary"
	"errors"
	"fmt"
	"sort"
	"strings"
	"time"

	"github.com/anyproto/any-sync/commonspace/object/acl/list"
	"github.com/anyproto/any-sync/commonspace/spacesyncproto"

	"verifharness/internal/corr"
)

func init() { corr.RegisterArea("kv", Run) }

const prop = "C12"

type cases struct {
	r      *corr.Run
	w      *world
	env    *env
	envs   []*env
	envUse int
	slots  map[string]int
	nvid   int
	byWire map[string]*rawValue
	nstore int
	tsSeq  int64
}

func wireKey(p *spacesyncproto.StoreKeyValue) string {
	return p.KeyPeerId + "\x00" + string(p.Value) + "\x00" + string(p.PeerSignature) + "\x00" + string(p.IdentitySignature)
}

func (c *cases) slot(s string) int {
	if n, ok := c.slots[s]; ok {
		return n
	}
	n := len(c.slots) + 1
	c.slots[s] = n
	return n
}

// register gives a wire value its identity (vid) and its ground truth.
func (c *cases) register(p *spacesyncproto.StoreKeyValue, kind string) *rawValue {
	k := wireKey(p)
	if v, ok := c.byWire[k]; ok {
		return v
	}
	v := c.w.classify(p)
	c.nvid++
	v.vid = c.nvid
	v.kind = kind
	c.byWire[k] = &v
	return &v
}

func (c *cases) valid(acc string, d *device, key string, ts int64, rec int) *rawValue {
	v, err := c.w.sign(acc, d, key, ts, rec, []byte(fmt.Sprintf("payload-%d", c.nvid)))
	if err != nil {
		c.r.Fatal("sign: " + err.Error())
	}
	got := c.register(v.proto, "valid")
	// self-check of the harness: classification from the wire bytes == construction
	if got.decodes != true || !got.idSigOk || !got.peerSigOk || got.envSlot != v.envSlot || got.innerSlot != v.innerSlot ||
		got.ts != ts || got.aclKnown != v.aclKnown || got.canWrite != v.canWrite {
		c.r.Fatal(fmt.Sprintf("harness self-check: classify disagrees with construction for %v", got))
	}
	return got
}

func (c *cases) mutate(m mutator, base *rawValue) *rawValue {
	p := m.fn(c, base)
	v := c.register(p, m.name)
	if v.acceptable() {
		// e.g. a bit flip inside a signature that still verifies cannot happen; anything here is a harness bug
		c.r.Fatal(fmt.Sprintf("harness self-check: mutator %s produced an acceptable value from %v", m.name, base))
	}
	return v
}

func (v *rawValue) wire(c *cases) string {
	b := func(x bool) byte {
		if x {
			return '1'
		}
		return '0'
	}
	isl := 0
	if v.decodes {
		isl = c.slot(v.innerSlot)
	}
	return fmt.Sprintf("%d:%d:%d:%d:%s", v.vid, c.slot(v.envSlot), isl, v.ts,
		string([]byte{b(v.decodes), b(v.idSigOk), b(v.peerSigOk), b(v.aclKnown), b(v.canWrite)}))
}

// ---------------------------------------------------------------------------------------------
// one store under test + the oracle's bookkeeping

type sut struct {
	*store
	mid       int         // model store id
	received  []*rawValue // acceptable values of writes that were not hit by an injected fault
	ops       []string    // model op lines so far (replay)
	lastRows  []stored
	lastState string
	noModel   bool              // oracle-only store (schedules the model cannot express)
	loose     bool              // an exchange with in-flight arrivals is running: contents need only dominate what this store received
	known     map[int]*rawValue // loose mode: every acceptable value either store may legitimately hold
}

func (c *cases) newSut(owner *device) *sut {
	c.envUse++
	if c.env == nil || c.envUse > 400 {
		// older environments stay open until the end of the run: stores of the current case may live in them
		e, err := newEnv()
		if err != nil {
			c.r.Fatal("env: " + err.Error())
		}
		c.env, c.envUse = e, 0
		c.envs = append(c.envs, e)
	}
	st, err := c.env.newStore(c.w, owner)
	if err != nil {
		c.r.Fatal("new store: " + err.Error())
	}
	c.nstore++
	s := &sut{store: st, mid: c.nstore}
	op := fmt.Sprintf("new %d", s.mid)
	s.ops = append(s.ops, op)
	if got := c.r.Ask(op); got != "ok" {
		c.r.Fatal("model: " + got)
	}
	// a fresh store advertises the hash of the empty index
	c.observe(s, "new", "ok")
	return s
}

type fault struct {
	kind string
	k    int
}

func (f fault) wire() string {
	switch f.kind {
	case "":
		return "none"
	case "find", "upsert":
		return fmt.Sprintf("%s.%d", f.kind, f.k)
	}
	return f.kind
}

func resOf(err error, fwd []int) string {
	switch {
	case err == nil:
		if len(fwd) == 0 {
			return "ok:-"
		}
		p := make([]string, len(fwd))
		for i, v := range fwd {
			p[i] = fmt.Sprint(v)
		}
		return "ok:" + strings.Join(p, ",")
	case errors.Is(err, errInjected):
		return "err"
	case errors.Is(err, list.ErrInsufficientPermissions):
		return "perm"
	}
	return "err:" + strings.SplitN(err.Error(), ":", 2)[0]
}

// raw applies one batch through SetRaw (path "raw") or through the broadcast handler (path "msg").
func (c *cases) raw(s *sut, path string, f fault, vals []*rawValue) {
	protos := make([]*spacesyncproto.StoreKeyValue, len(vals))
	wires := make([]string, len(vals))
	for i, v := range vals {
		protos[i] = cloneProto(v.proto)
		wires[i] = v.wire(c)
		c.r.Count("value." + v.kind)
		if v.acceptable() {
			c.r.Count("value.acceptable")
		} else {
			c.r.Count("value.unacceptable")
		}
	}
	s.cap.take()
	s.plan.arm(f.kind, f.k)
	var err error
	func() {
		defer func() {
			if p := recover(); p != nil {
				err = fmt.Errorf("panic: %v", p)
			}
		}()
		if path == "msg" {
			err = s.pushMessage(protos)
		} else {
			err = s.st.SetRaw(bg, protos...)
		}
	}()
	fired := s.plan.fired
	s.plan.arm("", 0)
	var fwd []int
	for _, kv := range s.cap.take() {
		if v, ok := c.byWire[wireKey(kv.Proto())]; ok {
			fwd = append(fwd, v.vid)
		} else {
			fwd = append(fwd, 0)
		}
	}
	op := strings.TrimSpace(fmt.Sprintf("raw %d %s %s", s.mid, f.wire(), strings.Join(wires, " ")))
	s.ops = append(s.ops, op)
	if !(fired && err != nil) {
		for _, v := range vals {
			if v.acceptable() {
				s.received = append(s.received, v)
			}
		}
	}
	c.r.Count("op." + path)
	c.r.Count("fault." + f.wire()[:min(len(f.wire()), 4)] + map[bool]string{true: ".fired", false: ".idle"}[fired])
	if err != nil && !fired {
		c.r.Violate(prop, "", "kv.skip-not-abort", fmt.Sprintf("SetRaw returned %q although no storage fault was injected: an unacceptable element must only poison itself", err.Error()), s.ops)
	}
	if err == nil && fired {
		c.r.Count("fault.swallowed")
	}
	c.observe(s, op, resOf(err, fwd))
}

// set performs a local Set on the store (timestamp chosen by the implementation).
func (c *cases) set(s *sut, f fault, key string) {
	s.cap.take()
	s.plan.arm(f.kind, f.k)
	payload := []byte(fmt.Sprintf("local-%d", c.nvid))
	var err error
	func() {
		defer func() {
			if p := recover(); p != nil {
				err = fmt.Errorf("panic: %v", p)
			}
		}()
		err = s.st.Set(bg, key, payload)
	}()
	fired := s.plan.fired
	s.plan.arm("", 0)
	own := writes[s.owner.acc][recPromote] // the store's account at the current head
	var v *rawValue
	var fwd []int
	if kvs := s.cap.take(); len(kvs) == 1 {
		v = c.register(kvs[0].Proto(), "local")
		fwd = []int{v.vid}
		if err == nil {
			s.received = append(s.received, v)
			if !v.acceptable() {
				c.r.Violate(prop, "", "kv.local-set-authentic", fmt.Sprintf("local Set produced a value that is not acceptable: %v", v), s.ops)
			}
		}
	}
	wire := "0:0:0:0:00000"
	if v != nil {
		wire = v.wire(c)
	} else if err == nil && own {
		c.r.Violate(prop, "", "kv.local-set", "local Set returned nil but handed nothing to the sync client", s.ops)
	} else if err != nil && own {
		// failed before broadcasting: the model needs the slot to mirror the failed write
		c.nvid++
		wire = fmt.Sprintf("%d:%d:%d:%d:11111", c.nvid, c.slot(key+"-"+s.owner.peerId), c.slot(key+"-"+s.owner.peerId), c.tsNow())
	}
	ownBit := "0"
	if own {
		ownBit = "1"
	}
	op := fmt.Sprintf("set %d %s %s %s", s.mid, f.wire(), ownBit, wire)
	s.ops = append(s.ops, op)
	c.r.Count("op.set")
	if !own && err == nil {
		c.r.Violate(prop, "F-kv-noperm", "kv.local-set-perm", fmt.Sprintf("local Set on a store of account %q (no write permission) succeeded", s.owner.acc), s.ops)
	}
	if err != nil && !fired && own {
		c.r.Violate(prop, "", "kv.local-set", "local Set failed without an injected fault: "+err.Error(), s.ops)
	}
	c.observe(s, op, resOf(err, fwd))
}

// tsNow: a timestamp near the implementation's clock, only used for writes that failed before a
// value existed (the model then needs some in-range number; it never reaches the contents).
func (c *cases) tsNow() int64 { return time.Now().UnixMicro() }

// observe: correspondence (model vs implementation) + the direct oracle, after one operation.
func (c *cases) observe(s *sut, op, res string) {
	rows, err := s.contents()
	if err != nil {
		c.r.Violate(prop, "", "kv.iterate", "Iterate failed: "+err.Error(), s.ops)
		return
	}
	s.lastRows = rows
	els, hash := s.index()
	entry, herr := s.headsEntry()

	// ---- correspondence string ----
	stParts := make([]string, 0, len(rows))
	type ent struct {
		slot int
		txt  string
	}
	var se []ent
	for _, r := range rows {
		vid := 0
		if v, ok := c.byWire[wireKey(r.kv.Proto())]; ok {
			vid = v.vid
		}
		se = append(se, ent{c.slot(r.kv.KeyPeerId), fmt.Sprintf("%d:%d:%d", c.slot(r.kv.KeyPeerId), r.kv.TimestampMicro, vid)})
	}
	sort.Slice(se, func(i, j int) bool { return se[i].slot < se[j].slot })
	for _, e := range se {
		stParts = append(stParts, e.txt)
	}
	var ie []ent
	for _, e := range els {
		h := uint64(0)
		if len(e.Head) == 8 {
			h = binary.BigEndian.Uint64([]byte(e.Head))
		}
		ie = append(ie, ent{c.slot(e.Id), fmt.Sprintf("%d:%d", c.slot(e.Id), h)})
	}
	sort.Slice(ie, func(i, j int) bool { return ie[i].slot < ie[j].slot })
	ixParts := make([]string, 0, len(ie))
	for _, e := range ie {
		ixParts = append(ixParts, e.txt)
	}
	join := func(p []string) string {
		if len(p) == 0 {
			return "-"
		}
		return strings.Join(p, ",")
	}
	adv := "0"
	if herr == nil && entry == hash {
		adv = "1"
	}
	state := fmt.Sprintf("st=%s ix=%s adv=%s", join(stParts), join(ixParts), adv)
	if op != "new" && !strings.HasPrefix(op, "exch") && !s.noModel {
		model := c.r.Ask(op)
		c.r.Check(prop, "kv.step", s.ops, model, res+" "+state)
	}
	s.lastState = state
	c.oracle(s, rows, els, hash, entry, herr)
}
