package kv

import (
	"bytes"
	"fmt"

	"github.com/anyproto/any-sync/commonspace/spacesyncproto"
	"github.com/anyproto/any-sync/util/crypto"
)

// classify is the harness' own statement of "authentic": it looks only at the wire bytes and at the
// by-construction permission table, never at what the store decided.
func (w *world) classify(p *spacesyncproto.StoreKeyValue) (v rawValue) {
	v.proto = p
	v.envSlot = p.KeyPeerId
	v.rec = recUnknown
	inner := &spacesyncproto.StoreKeyInner{}
	if err := inner.UnmarshalVT(p.Value); err != nil {
		return
	}
	identity, err := crypto.UnmarshalEd25519PublicKeyProto(inner.Identity)
	if err != nil {
		return
	}
	peerKey, err := crypto.UnmarshalEd25519PublicKeyProto(inner.Peer)
	if err != nil {
		return
	}
	v.decodes = true
	v.ts = inner.TimestampMicro
	v.innerSlot = inner.Key + "-" + peerKey.PeerId()
	v.idSigOk, _ = identity.Verify(p.Value, p.IdentitySignature)
	v.peerSigOk, _ = peerKey.Verify(p.Value, p.PeerSignature)
	for i := 0; i < recUnknown; i++ {
		if w.recIds[i] == inner.AclHeadId {
			v.rec = i
			v.aclKnown = true
		}
	}
	for _, name := range accountNames {
		if bytes.Equal(w.accounts[name].signPb, inner.Identity) {
			v.acc = name
			v.canWrite = writes[name][v.rec]
		}
	}
	return
}

func cloneProto(p *spacesyncproto.StoreKeyValue) *spacesyncproto.StoreKeyValue {
	return &spacesyncproto.StoreKeyValue{
		KeyPeerId:         p.KeyPeerId,
		Value:             append([]byte(nil), p.Value...),
		PeerSignature:     append([]byte(nil), p.PeerSignature...),
		IdentitySignature: append([]byte(nil), p.IdentitySignature...),
	}
}

// mutators: every one takes a VALID value and returns a wire value that must not be stored.
// `expect` names the conjunct the mutant is meant to break (checked against classify: a mutator
// that accidentally produces an acceptable value is a harness bug, not a finding).
type mutator struct {
	name string
	fn   func(c *cases, base *rawValue) *spacesyncproto.StoreKeyValue
}

var mutators = []mutator{
	{"relabel-key", func(c *cases, b *rawValue) *spacesyncproto.StoreKeyValue {
		p := cloneProto(b.proto)
		p.KeyPeerId = "other" + p.KeyPeerId // another key, same peer
		return p
	}},
	{"relabel-peer", func(c *cases, b *rawValue) *spacesyncproto.StoreKeyValue {
		p := cloneProto(b.proto)
		inner := &spacesyncproto.StoreKeyInner{}
		_ = inner.UnmarshalVT(p.Value)
		for _, d := range c.w.devices { // same key, another device's slot
			if inner.Key+"-"+d.peerId != b.envSlot {
				p.KeyPeerId = inner.Key + "-" + d.peerId
				break
			}
		}
		return p
	}},
	// re-labellings that keep parts of the genuine slot string: the signed key stays a prefix and the
	// signing device's peer id stays a suffix (arbitrary middle), key / peer id only as prefix or only as
	// suffix, the two parts swapped, a shortened key, an empty id
	{"relabel-longer-key", func(c *cases, b *rawValue) *spacesyncproto.StoreKeyValue {
		// key "k" of device P filed under the slot of the longer key "k-old" of the same device
		p := cloneProto(b.proto)
		key, peer := splitSlot(b)
		p.KeyPeerId = key + "-old-" + peer
		return p
	}},
	{"relabel-middle", func(c *cases, b *rawValue) *spacesyncproto.StoreKeyValue {
		p := cloneProto(b.proto)
		key, peer := splitSlot(b)
		mid := []string{"x", "-", "--", "old", "-" + peer + "-", key + "-", "12D3KooW"}[c.r.Intn(7)]
		p.KeyPeerId = key + "-" + mid + peer
		return p
	}},
	{"relabel-key-as-prefix", func(c *cases, b *rawValue) *spacesyncproto.StoreKeyValue {
		p := cloneProto(b.proto)
		key, peer := splitSlot(b)
		p.KeyPeerId = key + []string{"x", "0", "-", "."}[c.r.Intn(4)] + "-" + peer
		return p
	}},
	{"relabel-key-as-suffix", func(c *cases, b *rawValue) *spacesyncproto.StoreKeyValue {
		p := cloneProto(b.proto)
		key, peer := splitSlot(b)
		p.KeyPeerId = []string{"x", "old-", "-"}[c.r.Intn(3)] + key + "-" + peer
		return p
	}},
	{"relabel-peer-as-prefix", func(c *cases, b *rawValue) *spacesyncproto.StoreKeyValue {
		p := cloneProto(b.proto)
		key, peer := splitSlot(b)
		p.KeyPeerId = key + "-" + peer + []string{"x", "-", "-" + peer}[c.r.Intn(3)]
		return p
	}},
	{"relabel-shorter-key", func(c *cases, b *rawValue) *spacesyncproto.StoreKeyValue {
		p := cloneProto(b.proto)
		key, peer := splitSlot(b)
		p.KeyPeerId = key[:len(key)-1] + "-" + peer
		return p
	}},
	{"relabel-swapped", func(c *cases, b *rawValue) *spacesyncproto.StoreKeyValue {
		p := cloneProto(b.proto)
		key, peer := splitSlot(b)
		p.KeyPeerId = peer + "-" + key
		return p
	}},
	{"relabel-no-dash", func(c *cases, b *rawValue) *spacesyncproto.StoreKeyValue {
		p := cloneProto(b.proto)
		key, peer := splitSlot(b)
		p.KeyPeerId = key + peer
		return p
	}},
	{"relabel-fake", func(c *cases, b *rawValue) *spacesyncproto.StoreKeyValue {
		p := cloneProto(b.proto)
		p.KeyPeerId = "fake-slot"
		return p
	}},
	{"flip-value", func(c *cases, b *rawValue) *spacesyncproto.StoreKeyValue {
		p := cloneProto(b.proto)
		p.Value[c.r.Intn(len(p.Value))] ^= byte(1 << c.r.Intn(8))
		return p
	}},
	{"flip-idsig", func(c *cases, b *rawValue) *spacesyncproto.StoreKeyValue {
		p := cloneProto(b.proto)
		p.IdentitySignature[c.r.Intn(len(p.IdentitySignature))] ^= byte(1 << c.r.Intn(8))
		return p
	}},
	{"flip-peersig", func(c *cases, b *rawValue) *spacesyncproto.StoreKeyValue {
		p := cloneProto(b.proto)
		p.PeerSignature[c.r.Intn(len(p.PeerSignature))] ^= byte(1 << c.r.Intn(8))
		return p
	}},
	{"swap-sigs", func(c *cases, b *rawValue) *spacesyncproto.StoreKeyValue {
		p := cloneProto(b.proto)
		p.PeerSignature, p.IdentitySignature = p.IdentitySignature, p.PeerSignature
		return p
	}},
	{"idsig-as-peersig", func(c *cases, b *rawValue) *spacesyncproto.StoreKeyValue {
		// the account signature is genuine, the device signature is a copy of it
		p := cloneProto(b.proto)
		p.PeerSignature = append([]byte(nil), p.IdentitySignature...)
		return p
	}},
	{"peersig-as-idsig", func(c *cases, b *rawValue) *spacesyncproto.StoreKeyValue {
		p := cloneProto(b.proto)
		p.IdentitySignature = append([]byte(nil), p.PeerSignature...)
		return p
	}},
	{"empty-idsig", func(c *cases, b *rawValue) *spacesyncproto.StoreKeyValue {
		p := cloneProto(b.proto)
		p.IdentitySignature = nil
		return p
	}},
	{"empty-peersig", func(c *cases, b *rawValue) *spacesyncproto.StoreKeyValue {
		p := cloneProto(b.proto)
		p.PeerSignature = nil
		return p
	}},
	{"truncate-value", func(c *cases, b *rawValue) *spacesyncproto.StoreKeyValue {
		p := cloneProto(b.proto)
		p.Value = p.Value[:1+c.r.Intn(len(p.Value)-1)]
		return p
	}},
	{"sigs-of-other-value", func(c *cases, b *rawValue) *spacesyncproto.StoreKeyValue {
		// both signatures are genuine signatures of the same keys, but over different bytes
		p := cloneProto(b.proto)
		inner := &spacesyncproto.StoreKeyInner{}
		_ = inner.UnmarshalVT(p.Value)
		inner.Value = append(append([]byte(nil), inner.Value...), 'x')
		p.Value, _ = inner.MarshalVT()
		return p
	}},
	{"resigned-newer-by-stranger", func(c *cases, b *rawValue) *spacesyncproto.StoreKeyValue {
		// a non-member re-signs the same slot with a later timestamp using ITS account key and the
		// original device key is replaced by one of its own devices; envelope stays the victim's slot
		inner := &spacesyncproto.StoreKeyInner{}
		_ = inner.UnmarshalVT(b.proto.Value)
		x := c.w.accounts["x"]
		v, err := c.w.sign("x", x.devices[0], inner.Key, inner.TimestampMicro+1000, b.rec, []byte("evil"))
		if err != nil {
			panic(err)
		}
		p := cloneProto(v.proto)
		p.KeyPeerId = b.envSlot
		return p
	}},
}

func (v *rawValue) String() string {
	return fmt.Sprintf("v%d[%s %s r%d ts=%d slot=%q]", v.vid, v.kind, v.acc, v.rec, v.ts, v.envSlot)
}

// splitSlot: the key and the peer id named in the signed bytes of a valid value
func splitSlot(b *rawValue) (key, peer string) {
	inner := &spacesyncproto.StoreKeyInner{}
	_ = inner.UnmarshalVT(b.proto.Value)
	return inner.Key, b.innerSlot[len(inner.Key)+1:]
}
