package kv

import (
	"context"
	"errors"
	"time"

	"github.com/anyproto/any-sync/commonspace/object/keyvalue"
	"github.com/anyproto/any-sync/commonspace/object/keyvalue/kvinterfaces"
	"github.com/anyproto/any-sync/commonspace/spacesyncproto"
	"github.com/anyproto/any-sync/commonspace/sync/objectsync/objectmessages"
	"github.com/anyproto/any-sync/net/peer"
	"github.com/anyproto/any-sync/net/rpc/rpctest"
)

const spaceId = "verif-kv-space"

// rpcServer exposes one store's real key-value service over the in-memory drpc transport of the
// repo's rpctest package (the same wiring as keyvalue_test.go).
type rpcServer struct {
	spacesyncproto.DRPCSpaceSyncUnimplementedServer
	svc kvinterfaces.KeyValueService
}

func (t *rpcServer) StoreDiff(ctx context.Context, req *spacesyncproto.StoreDiffRequest) (*spacesyncproto.StoreDiffResponse, error) {
	return t.svc.HandleStoreDiffRequest(ctx, req)
}

func (t *rpcServer) StoreElements(stream spacesyncproto.DRPCSpaceSync_StoreElementsStream) error {
	msg, err := stream.Recv()
	if err != nil {
		return err
	}
	if msg.SpaceId == "" {
		return errors.New("verif: first stream message carries no space id")
	}
	return t.svc.HandleStoreElementsRequest(stream.Context(), stream)
}

func (s *store) service() kvinterfaces.KeyValueService {
	return keyvalue.VerifNewService(spaceId, s.id, s.st)
}

// pushMessage delivers a broadcast head update the way the object-sync layer does.
func (s *store) pushMessage(kvs []*spacesyncproto.StoreKeyValue) error {
	b, err := (&spacesyncproto.StoreKeyValues{KeyValues: kvs}).MarshalVT()
	if err != nil {
		return err
	}
	return s.service().HandleMessage(bg, &objectmessages.HeadUpdate{Bytes: b})
}

// syncOnce: store a (client) runs one real syncWithPeer against store b (server).
func syncOnce(a, b *store) error {
	svcA, svcB := a.service(), b.service()
	srvA, srvB := rpctest.NewTestServer(), rpctest.NewTestServer()
	if err := spacesyncproto.DRPCRegisterSpaceSync(srvA, &rpcServer{svc: svcA}); err != nil {
		return err
	}
	if err := spacesyncproto.DRPCRegisterSpaceSync(srvB, &rpcServer{svc: svcB}); err != nil {
		return err
	}
	serverConn, clientConn := rpctest.MultiConnPair(a.owner.peerId, b.owner.peerId+"-srv")
	serverPeer, err := peer.NewPeer(serverConn, srvA)
	if err != nil {
		return err
	}
	clientPeer, err := peer.NewPeer(clientConn, srvB)
	if err != nil {
		serverPeer.Close()
		return err
	}
	defer func() {
		serverPeer.Close()
		clientPeer.Close()
		svcA.Close(bg)
		svcB.Close(bg)
	}()
	ctx, cancel := context.WithTimeout(bg, 60*time.Second)
	defer cancel()
	return keyvalue.VerifSyncWithPeer(ctx, svcA, serverPeer)
}
