package kv

import (
	"context"
	"errors"
	"time"

	"github.com/anyproto/any-sync/commonspace/object/keyvalue"
	"github.com/anyproto/any-sync/commonspace/object/keyvalue/kvinterfaces"
	"github.com/anyproto/any-sync/commonspace/spacesyncproto"
	"github.com/anyproto/any-sync/commonspace/sync/objectsync/objectmessages"
	"github.com/anyproto/any-sync/net/peer"
	"github.com/anyproto/any-sync/net/rpc/rpctest"
)

const spaceId = "verif-kv-space"

// rpcServer exposes one store's real key-value service over the in-memory drpc transport of the
// repo's rpctest package (the same wiring as keyvalue_test.go).
type rpcServer struct {
	spacesyncproto.DRPCSpaceSyncUnimplementedServer
	svc  kvinterfaces.KeyValueService
	done chan error // one entry per finished StoreElements handler
	// schedule points (run in the server goroutine while the client is blocked in the RPC)
	onDiff     func(n int) // before answering the n-th StoreDiff request (n = 1, 2, …)
	onElements func()      // the client has computed its diff and opened the element stream
	ndiff      int
}

func (t *rpcServer) StoreDiff(ctx context.Context, req *spacesyncproto.StoreDiffRequest) (*spacesyncproto.StoreDiffResponse, error) {
	t.ndiff++
	if t.onDiff != nil {
		t.onDiff(t.ndiff)
	}
	return t.svc.HandleStoreDiffRequest(ctx, req)
}

func (t *rpcServer) StoreElements(stream spacesyncproto.DRPCSpaceSync_StoreElementsStream) error {
	msg, err := stream.Recv()
	if err != nil {
		return err
	}
	if msg.SpaceId == "" {
		return errors.New("verif: first stream message carries no space id")
	}
	if t.onElements != nil {
		t.onElements()
	}
	// Background context, as in the repo's own fixture: the server persists the pushed values after it
	// has sent its terminator, and the client's ReleaseDrpcConn closes a connection whose stream is not
	// finished within 200 ms — with the stream's context a slow server write would then be interrupted
	// (timing-dependent; outside C12, reported in notes/areas/kv.md as an observation).
	err = t.svc.HandleStoreElementsRequest(bg, stream)
	if t.done != nil {
		t.done <- err
	}
	return err
}

func (s *store) service() kvinterfaces.KeyValueService {
	return keyvalue.VerifNewService(spaceId, s.id, s.st)
}

// pushMessage delivers a broadcast head update the way the object-sync layer does.
func (s *store) pushMessage(kvs []*spacesyncproto.StoreKeyValue) error {
	b, err := (&spacesyncproto.StoreKeyValues{KeyValues: kvs}).MarshalVT()
	if err != nil {
		return err
	}
	return s.service().HandleMessage(bg, &objectmessages.HeadUpdate{Bytes: b})
}

// syncOnce: store a (client) runs one real syncWithPeer against store b (server).
func syncOnce(a, b *store) error { return syncOnceHooked(a, b, nil, nil) }

// syncOnceHooked: as syncOnce, with actions injected at the two schedule points of the server.
func syncOnceHooked(a, b *store, onDiff func(n int), onElements func()) error {
	svcA, svcB := a.service(), b.service()
	srvA, srvB := rpctest.NewTestServer(), rpctest.NewTestServer()
	if err := spacesyncproto.DRPCRegisterSpaceSync(srvA, &rpcServer{svc: svcA}); err != nil {
		return err
	}
	handlerDone := make(chan error, 4)
	if err := spacesyncproto.DRPCRegisterSpaceSync(srvB, &rpcServer{svc: svcB, done: handlerDone, onDiff: onDiff, onElements: onElements}); err != nil {
		return err
	}
	serverConn, clientConn := rpctest.MultiConnPair(a.owner.peerId, b.owner.peerId+"-srv")
	serverPeer, err := peer.NewPeer(serverConn, srvA)
	if err != nil {
		return err
	}
	clientPeer, err := peer.NewPeer(clientConn, srvB)
	if err != nil {
		serverPeer.Close()
		return err
	}
	defer func() {
		serverPeer.Close()
		clientPeer.Close()
		svcA.Close(bg)
		svcB.Close(bg)
	}()
	ctx, cancel := context.WithTimeout(bg, 60*time.Second)
	defer cancel()
	err = keyvalue.VerifSyncWithPeer(ctx, svcA, serverPeer)
	// The server persists what was pushed to it AFTER it has sent its terminator, i.e. possibly after
	// the client's call has returned: the exchange is complete when the server's handler is done.
	// (Closing the connection before that would cancel the handler's context mid-write.)
	select {
	case herr := <-handlerDone:
		if err == nil && herr != nil {
			err = errors.New("server handler: " + herr.Error())
		}
	case <-time.After(60 * time.Second):
		if err == nil {
			err = errors.New("server handler did not finish")
		}
	}
	return err
}
