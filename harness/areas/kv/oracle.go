package kv

import (
	"fmt"
	"sort"
	"strings"

	"github.com/anyproto/any-sync/app/ldiff"
)

// expected: per slot, the acceptable received value with the greatest timestamp. A slot where two
// different acceptable values carry the same timestamp is outside the property ("distinct
// timestamps per slot"): there either of the tied values is accepted by the oracle.
type want struct {
	best []*rawValue // one entry, or all tied entries
}

func lww(received []*rawValue) map[string]*want {
	m := map[string]*want{}
	for _, v := range received {
		w := m[v.envSlot]
		switch {
		case w == nil:
			m[v.envSlot] = &want{best: []*rawValue{v}}
		case v.ts > w.best[0].ts:
			w.best = []*rawValue{v}
		case v.ts == w.best[0].ts:
			dup := false
			for _, b := range w.best {
				if b.vid == v.vid {
					dup = true
				}
			}
			if !dup {
				w.best = append(w.best, v)
			}
		}
	}
	return m
}

func (c *cases) oracle(s *sut, rows []stored, els []ldiff.Element, hash, entry string, herr error) {
	if s.loose {
		c.oracleLoose(s, rows)
	} else {
		c.oracleContents(s, rows)
	}
	c.oracleRest(s, rows, els, hash, entry, herr)
}

// oracleLoose: while values arrive during an exchange the store need not equal the merge of
// anything in particular, but it must never go back (per slot: at least the best value it had
// received itself) and may only hold values that exist.
func (c *cases) oracleLoose(s *sut, rows []stored) {
	exp := lww(s.received)
	got := map[string]stored{}
	for _, r := range rows {
		got[r.kv.KeyPeerId] = r
		v := c.byWire[wireKey(r.kv.Proto())]
		if v == nil || s.known[v.vid] == nil {
			c.r.Violate(prop, "", "kv.inflight", fmt.Sprintf("slot %q holds a value nobody sent (%v)", r.kv.KeyPeerId, v), s.ops)
		}
	}
	for k, w := range exp {
		r, ok := got[k]
		if !ok || r.kv.TimestampMicro < w.best[0].ts {
			c.r.Violate(prop, "", "kv.inflight", fmt.Sprintf("slot %q went back: the store had received %v", k, w.best[0]), s.ops)
		}
	}
}

func (c *cases) oracleContents(s *sut, rows []stored) {
	// (1) contents == per-slot max-by-timestamp of the acceptable values received
	exp := lww(s.received)
	got := map[string]stored{}
	for _, r := range rows {
		if _, dup := got[r.kv.KeyPeerId]; dup {
			c.r.Violate(prop, "", "kv.contents", "two rows for slot "+r.kv.KeyPeerId, s.ops)
		}
		got[r.kv.KeyPeerId] = r
	}
	var slots []string
	for k := range exp {
		slots = append(slots, k)
	}
	for k := range got {
		if _, ok := exp[k]; !ok {
			slots = append(slots, k)
		}
	}
	sort.Strings(slots)
	for _, k := range slots {
		w, r := exp[k], got[k]
		_, have := got[k]
		switch {
		case w == nil:
			cl := c.w.classify(r.kv.Proto())
			c.r.Violate(prop, sigOf(&cl), "kv.contents", fmt.Sprintf("slot %q holds a value although no acceptable value for it was received (%s)", k, why(&cl)), s.ops)
		case !have:
			c.r.Violate(prop, "", "kv.contents", fmt.Sprintf("slot %q is empty; property requires %v", k, w.best[0]), s.ops)
		default:
			v := c.byWire[wireKey(r.kv.Proto())]
			ok := false
			for _, b := range w.best {
				if v != nil && b.vid == v.vid {
					ok = true
				}
			}
			if !ok {
				sig := ""
				if v != nil && !v.acceptable() {
					sig = sigOf(v)
				}
				c.r.Violate(prop, sig, "kv.contents", fmt.Sprintf("slot %q holds %v; property requires %v", k, v, w.best[0]), s.ops)
			}
			if len(w.best) > 1 {
				c.r.Count("oracle.tie-slot")
			}
		}
	}

}

func (c *cases) oracleRest(s *sut, rows []stored, els []ldiff.Element, hash, entry string, herr error) {
	// (2) authentic entries only — restated from the stored bytes alone
	for _, r := range rows {
		cl := c.w.classify(r.kv.Proto())
		if !cl.acceptable() {
			c.r.Violate(prop, sigOf(&cl), "kv.authentic", fmt.Sprintf("stored row %q is not authentic: %s", r.kv.KeyPeerId, why(&cl)), s.ops)
			continue
		}
		if r.kv.TimestampMicro != cl.ts {
			c.r.Violate(prop, "F-kv-tsrange", "kv.authentic", fmt.Sprintf("row %q reports timestamp %d, signed bytes say %d", r.kv.KeyPeerId, r.kv.TimestampMicro, cl.ts), s.ops)
		}
		if r.group+"-"+r.kv.PeerId != cl.innerSlot || r.kv.Key != r.group {
			c.r.Violate(prop, "", "kv.authentic", fmt.Sprintf("row %q filed by Iterate under key %q / peer %q, signed bytes name %q", r.kv.KeyPeerId, r.group, r.kv.PeerId, cl.innerSlot), s.ops)
		}
	}

	// (3) advertised index == index rebuilt from the stored contents; heads entry == its hash
	idx := map[string]string{}
	for _, e := range els {
		idx[e.Id] = e.Head
	}
	bad := len(idx) != len(rows) || len(els) != len(rows)
	for _, r := range rows {
		if h, ok := idx[r.kv.KeyPeerId]; !ok || h != headOf(r.kv.TimestampMicro) {
			bad = true
		}
	}
	if bad {
		c.r.Violate(prop, "", "kv.index", fmt.Sprintf("index elements %d differ from the %d stored rows (id/head mismatch)", len(els), len(rows)), s.ops)
	} else if rb := rebuiltHash(rows); rb != hash {
		c.r.Violate(prop, "F-ldiff-update", "kv.index-hash", "Diff().Hash() differs from the hash of an index rebuilt from the stored rows although the elements agree", s.ops)
	}
	if c.r.Chance(12) {
		// the same statement through the real rebuild code path (a restart)
		if rh, n, err := s.reopenedHash(); err != nil {
			c.r.Violate(prop, "", "kv.reopen", "reopening the store failed: "+err.Error(), s.ops)
		} else if rh != hash || n != len(els) {
			c.r.Violate(prop, "F-ldiff-update", "kv.reopen", fmt.Sprintf("a reopened store advertises a different index (%d elements) than the live one (%d elements)", n, len(els)), s.ops)
		}
		c.r.Count("oracle.reopen")
	}
	if herr != nil {
		c.r.Violate(prop, "", "kv.heads", "heads entry unreadable: "+herr.Error(), s.ops)
	} else if rb := rebuiltHash(rows); entry != rb {
		c.r.Violate(prop, "", "kv.heads", "heads entry differs from the hash of an index rebuilt from the stored rows", s.ops)
	}
}

func sigOf(v *rawValue) string {
	switch {
	case !v.decodes || !v.idSigOk || !v.peerSigOk:
		return ""
	case v.envSlot != v.innerSlot:
		return "F-kv-relabel"
	case !v.aclKnown:
		return ""
	case !v.canWrite:
		return "F-kv-noperm"
	case v.ts < 0 || v.ts >= 1<<53:
		return "F-kv-tsrange"
	}
	return ""
}

func why(v *rawValue) string {
	var p []string
	if !v.decodes {
		return "bytes do not decode"
	}
	if !v.idSigOk {
		p = append(p, "account signature does not verify over the stored bytes")
	}
	if !v.peerSigOk {
		p = append(p, "device signature does not verify over the stored bytes")
	}
	if v.envSlot != v.innerSlot {
		p = append(p, fmt.Sprintf("filed under %q but the signed bytes name %q", v.envSlot, v.innerSlot))
	}
	if !v.aclKnown {
		p = append(p, "cites an unknown ACL record")
	} else if !v.canWrite {
		p = append(p, fmt.Sprintf("account %q had no write permission at record r%d", v.acc, v.rec))
	}
	if v.ts < 0 || v.ts >= 1<<53 {
		p = append(p, fmt.Sprintf("timestamp %d outside [0, 2^53)", v.ts))
	}
	if len(p) == 0 {
		return "acceptable"
	}
	return strings.Join(p, "; ")
}

// exchange: a (client) syncs once with b (server) through the real service, remotediff adapter and
// ldiff; afterwards both must hold the LWW merge of everything either had received.
func (c *cases) exchange(a, b *sut) { c.exchangeF(a, b, fault{}) }

// exchangeF: as exchange, with a storage fault armed on the SERVER's store for the duration of the
// exchange (it can only hit the server's single SetRaw of the pushed values). The client still
// receives and applies what it pulled; the server must keep index == store.
func (c *cases) exchangeF(a, b *sut, f fault) {
	op := fmt.Sprintf("exch %d %d %s", a.mid, b.mid, f.wire())
	b.plan.arm(f.kind, f.k)
	err := syncOnce(a.store, b.store)
	fired := b.plan.fired
	b.plan.arm("", 0)
	a.ops = append(append(a.ops, "# other store:"), append(b.ops, op)...)
	b.ops = a.ops
	if err != nil && !fired {
		c.r.Violate(prop, "", "kv.exchange", "one sync exchange failed: "+err.Error(), a.ops)
	}
	union := append(append([]*rawValue(nil), a.received...), b.received...)
	if !fired {
		b.received = append([]*rawValue(nil), union...)
	} else {
		c.r.Count("exch.server-fault.fired")
	}
	a.received = union
	a.cap.take()
	b.cap.take()
	c.observe(a, op, "")
	c.observe(b, op, "")
	if !a.noModel {
		model := c.r.Ask(op)
		c.r.Check(prop, "kv.exchange", a.ops, model, a.lastState+" | "+b.lastState)
	}
	if !fired && a.lastState != b.lastState {
		c.r.Violate(prop, "", "kv.exchange", "after one exchange the two stores differ: "+a.lastState+" vs "+b.lastState, a.ops)
	}
	c.r.Count("op.exch")
	c.r.Count("exch.rows." + bucket(len(a.lastRows)))
}

func bucket(n int) string {
	switch {
	case n == 0:
		return "0"
	case n <= 3:
		return "1-3"
	case n <= 10:
		return "4-10"
	case n <= 100:
		return "11-100"
	}
	return ">100"
}
