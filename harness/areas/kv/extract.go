package kv

import (
	"fmt"
	"go/ast"
	"os"
	"path/filepath"
	"strconv"
	"strings"

	"verifharness/internal/corr"
	"verifharness/internal/goast"
)

func init() { corr.RegisterExtractor("kv", extract) }

// extract renders the table-like facts of the key-value code the C12 theorems rest on as Lean
// definitions (Generated/KVShape.lean). Only exact shapes are recognised; anything else yields
// `false` / shapeOk := false and thereby breaks theorem `shape_ok`.
func extract(repo, out string) error {
	base := filepath.Join(repo, "commonspace/object/keyvalue")
	svc, err := goast.Parse(filepath.Join(base, "keyvalue.go"))
	if err != nil {
		return err
	}
	st, err := goast.Parse(filepath.Join(base, "keyvaluestorage/storage.go"))
	if err != nil {
		return err
	}
	el, err := goast.Parse(filepath.Join(base, "keyvaluestorage/innerstorage/element.go"))
	if err != nil {
		return err
	}
	in, err := goast.Parse(filepath.Join(base, "keyvaluestorage/innerstorage/keyvaluestorage.go"))
	if err != nil {
		return err
	}
	ok := true

	// const applyBatchSize = 100
	batch := 0
	for _, d := range svc.F.Decls {
		gd, isG := d.(*ast.GenDecl)
		if !isG {
			continue
		}
		for _, sp := range gd.Specs {
			vs, isV := sp.(*ast.ValueSpec)
			if isV && len(vs.Names) == 1 && vs.Names[0].Name == "applyBatchSize" && len(vs.Values) == 1 {
				if n, err := strconv.Atoi(svc.Str(vs.Values[0])); err == nil {
					batch = n
				}
			}
		}
	}
	if batch == 0 {
		ok = false
	}

	// ifBody returns the body of the first `if <cond>` inside fn whose condition prints exactly as cond
	ifBody := func(g *goast.File, fn *ast.FuncDecl, cond string) *ast.BlockStmt {
		var res *ast.BlockStmt
		if fn == nil {
			return nil
		}
		ast.Inspect(fn.Body, func(n ast.Node) bool {
			if is, isIf := n.(*ast.IfStmt); isIf && res == nil && g.Str(is.Cond) == cond {
				res = is.Body
			}
			return res == nil
		})
		return res
	}
	lastIs := func(g *goast.File, b *ast.BlockStmt, stmt string) bool {
		return b != nil && len(b.List) > 0 && g.Str(b.List[len(b.List)-1]) == stmt
	}

	// updateValues: `if int64(doc.Value().GetFloat64("t")) >= value.TimestampMicro { continue }`
	upd := in.Fn("storage", "updateValues")
	updGE := lastIs(in, ifBody(in, upd, `int64(doc.Value().GetFloat64("t")) >= value.TimestampMicro`), "continue")
	// SetRaw: `if el.Head >= string(s.byteRepr) { keyValues[i].KeyPeerId = ""; continue }`
	setRaw := st.Fn("storage", "SetRaw")
	fb := ifBody(st, setRaw, `el.Head >= string(s.byteRepr)`)
	filterGE := lastIs(st, fb, "continue") && fb != nil && st.Str(fb.List[0]) == `keyValues[i].KeyPeerId = ""`
	// SetRaw: an element that fails KeyValueFromProto is skipped, the loop goes on
	skipInvalid := false
	if setRaw != nil {
		ast.Inspect(setRaw.Body, func(n ast.Node) bool {
			rs, isR := n.(*ast.RangeStmt)
			if !isR || st.Str(rs.X) != "keyValue" {
				return true
			}
			for i, s := range rs.Body.List {
				if strings.Contains(st.Str(s), "innerstorage.KeyValueFromProto(kv, true)") && i+1 < len(rs.Body.List) {
					if is, isIf := rs.Body.List[i+1].(*ast.IfStmt); isIf && st.Str(is.Cond) == "err != nil" {
						skipInvalid = lastIs(st, is.Body, "continue") && !goast.Contains(st, is.Body, "return")
					}
				}
			}
			return false
		})
	}
	// SetRaw: unknown ACL record and missing write permission are skipped
	aclSkip := false
	if b := ifBody(st, setRaw, "err != nil"); b != nil {
		_ = b
	}
	if setRaw != nil {
		src := st.Str(setRaw.Body)
		aclSkip = strings.Contains(src, `keyValues[i].ReadKeyId, err = state.ReadKeyForAclId(keyValues[i].AclId) if err != nil { keyValues[i].KeyPeerId = "" continue }`)
	}
	pb := ifBody(st, setRaw, "!canWriteAtRecord(state, keyValues[i])")
	permSkip := lastIs(st, pb, "continue") && pb != nil && st.Str(pb.List[0]) == `keyValues[i].KeyPeerId = ""`
	permFn := st.Fn("", "canWriteAtRecord")
	permAtRecord := permFn != nil && strings.Contains(st.Str(permFn.Body), "perms, err := state.PermissionsAtRecord(kv.AclId, identity) return err == nil && perms.CanWrite()")
	// local Set: own write permission
	setFn := st.Fn("storage", "Set")
	localPerm := false
	if b := ifBody(st, setFn, "!s.aclList.AclState().Permissions(state.Identity()).CanWrite()"); b != nil {
		localPerm = lastIs(st, b, "return list.ErrInsufficientPermissions")
	}

	// KeyValueFromProto: range, envelope, both signatures — each guards a return with an error
	from := el.Fn("", "KeyValueFromProto")
	retErr := func(cond string) bool {
		b := ifBody(el, from, cond)
		return b != nil && len(b.List) == 1 && strings.HasPrefix(el.Str(b.List[0]), "return kv, Err")
	}
	tsRange := retErr("kv.TimestampMicro < 0 || kv.TimestampMicro >= MaxTimestampMicro")
	envelope := retErr(`proto.KeyPeerId != kv.Key+"-"+kv.PeerId`)
	idSig := retErr("verify, _ = identity.Verify(proto.Value, proto.IdentitySignature); !verify") || retErrInit(el, from, "verify, _ = identity.Verify(proto.Value, proto.IdentitySignature)", "!verify")
	peerSig := retErr("verify, _ = peerId.Verify(proto.Value, proto.PeerSignature); !verify") || retErrInit(el, from, "verify, _ = peerId.Verify(proto.Value, proto.PeerSignature)", "!verify")
	maxTs := ""
	for _, d := range el.F.Decls {
		if gd, isG := d.(*ast.GenDecl); isG {
			for _, sp := range gd.Specs {
				if vs, isV := sp.(*ast.ValueSpec); isV && len(vs.Names) == 1 && vs.Names[0].Name == "MaxTimestampMicro" && len(vs.Values) == 1 {
					maxTs = el.Str(vs.Values[0])
				}
			}
		}
	}
	maxOk := maxTs == "int64(1) << 53"

	// innerstorage.Set: undo loop shapes
	setIn := in.Fn("storage", "Set")
	undoRev, undoRemoves, undoGuard := false, false, false
	if setIn != nil {
		ast.Inspect(setIn.Body, func(n ast.Node) bool {
			switch l := n.(type) {
			case *ast.ForStmt:
				if in.Str(l.Init)+"; "+in.Str(l.Cond)+"; "+in.Str(l.Post) == "i := len(prior) - 1; i >= 0; i--" && in.Str(l.Body) == "{ s.diff.Set(prior[i]) }" {
					undoRev = true
				}
			case *ast.RangeStmt:
				if in.Str(l.X) == "added" && in.Str(l.Body) == "{ _ = s.diff.RemoveId(id) }" {
					undoRemoves = true
				}
			case *ast.IfStmt:
				if in.Str(l.Cond) == "err != nil && diffUpdated" {
					undoGuard = true
				}
			}
			return true
		})
		if !strings.Contains(in.Str(setIn.Body), "diffUpdated = len(elements) > 0") {
			undoGuard = false
		}
	}
	// ldiff.New(32, 256) in both constructors
	df, thr := 0, 0
	nNew := 0
	ast.Inspect(in.F, func(n ast.Node) bool {
		if ce, isC := n.(*ast.CallExpr); isC && in.Str(ce.Fun) == "ldiff.New" && len(ce.Args) == 2 {
			a, e1 := strconv.Atoi(in.Str(ce.Args[0]))
			b, e2 := strconv.Atoi(in.Str(ce.Args[1]))
			if e1 == nil && e2 == nil && (nNew == 0 || (a == df && b == thr)) {
				df, thr = a, b
				nNew++
			} else {
				ok = false
			}
		}
		return true
	})
	if nNew == 0 {
		ok = false
	}

	var b strings.Builder
	b.WriteString("-- GENERATED by `verifharness extract` from /repo/commonspace/object/keyvalue — do not edit\n")
	b.WriteString("namespace AnySync.Generated.KV\n")
	w := func(doc, name string, v bool) {
		fmt.Fprintf(&b, "/-- %s -/\ndef %s : Bool := %s\n", doc, name, goast.LeanBool(v))
	}
	w("every constant below was found in the expected shape", "shapeOk", ok)
	fmt.Fprintf(&b, "/-- `const applyBatchSize` (keyvalue.go) -/\ndef applyBatchSize : Nat := %d\n", batch)
	fmt.Fprintf(&b, "/-- `ldiff.New(divideFactor, compareThreshold)` of the key-value index -/\ndef ldiffDivideFactor : Nat := %d\ndef ldiffCompareThreshold : Nat := %d\n", df, thr)
	w("`updateValues`: `if int64(doc…\"t\") >= value.TimestampMicro { continue }`", "updateSkipsOnGE", updGE)
	w("`SetRaw`: `if el.Head >= string(s.byteRepr) { drop; continue }`", "filterSkipsOnGE", filterGE)
	w("`SetRaw`: an element failing `KeyValueFromProto` is skipped with `continue`, never a `return`", "invalidElementSkipped", skipInvalid)
	w("`SetRaw`: `ReadKeyForAclId` error ⇒ element dropped", "unknownAclSkipped", aclSkip)
	w("`SetRaw`: `!canWriteAtRecord(state, kv)` ⇒ element dropped, and it asks `PermissionsAtRecord(kv.AclId, identity).CanWrite()`", "noWritePermissionSkipped", permSkip && permAtRecord)
	w("`Set`: own `Permissions(identity).CanWrite()` else `ErrInsufficientPermissions`", "localSetChecksPermission", localPerm)
	w("`KeyValueFromProto`: timestamp outside [0, MaxTimestampMicro) ⇒ error, MaxTimestampMicro = 1<<53", "checksTimestampRange", tsRange && maxOk)
	w("`KeyValueFromProto`: envelope id ≠ key+\"-\"+peer of the signed bytes ⇒ error", "checksEnvelopeSlot", envelope)
	w("`KeyValueFromProto`: identity signature over proto.Value", "verifiesIdentitySig", idSig)
	w("`KeyValueFromProto`: peer signature over proto.Value", "verifiesPeerSig", peerSig)
	w("`innerstorage.Set` undo: `if err != nil && diffUpdated`, `diffUpdated = len(elements) > 0`", "undoGuarded", undoGuard)
	w("undo: `for i := len(prior) - 1; i >= 0; i-- { s.diff.Set(prior[i]) }`", "undoRestoresInReverse", undoRev)
	w("undo: `for _, id := range added { _ = s.diff.RemoveId(id) }`", "undoRemovesAdded", undoRemoves)
	b.WriteString("end AnySync.Generated.KV\n")
	return os.WriteFile(filepath.Join(out, "KVShape.lean"), []byte(b.String()), 0o644)
}

// retErrInit recognises `if <init>; <cond> { return kv, Err… }`
func retErrInit(g *goast.File, fn *ast.FuncDecl, init, cond string) bool {
	found := false
	if fn == nil {
		return false
	}
	ast.Inspect(fn.Body, func(n ast.Node) bool {
		if is, isIf := n.(*ast.IfStmt); isIf && is.Init != nil && g.Str(is.Init) == init && g.Str(is.Cond) == cond {
			if len(is.Body.List) == 1 && strings.HasPrefix(g.Str(is.Body.List[0]), "return kv, Err") {
				found = true
			}
		}
		return true
	})
	return found
}
