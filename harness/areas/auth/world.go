// Package auth drives the REAL verifying object tree (real change builder, real validator, real
// AclList with full validation, real Ed25519 keys, any-store storage) against the Lean model of
// the acceptance predicate (C02), with a direct oracle that recomputes the acceptance conditions
// from the raw ACL record log on its own.
package auth

import (
	"context"
	"errors"
	"fmt"
	"strings"

	"github.com/anyproto/any-sync/commonspace/object/accountdata"
	"github.com/anyproto/any-sync/commonspace/object/acl/aclrecordproto"
	"github.com/anyproto/any-sync/commonspace/object/acl/list"
	"github.com/anyproto/any-sync/commonspace/object/acl/list/listtest"
	"github.com/anyproto/any-sync/commonspace/object/acl/recordverifier"
	"github.com/anyproto/any-sync/consensus/consensusproto"
	"github.com/anyproto/any-sync/util/crypto"
	"github.com/anyproto/any-sync/util/crypto/cryptoproto"

	"verifharness/internal/corr"
)

// permission enum values (aclrecordproto.AclUserPermissions); the oracle's own notion of "can write"
const (
	pNone   = 0
	pOwner  = 1
	pAdmin  = 2
	pWriter = 3
	pReader = 4
	pGuest  = 5
)

func oracleCanWrite(p int) bool { return p == pOwner || p == pAdmin || p == pWriter }

type acct struct {
	name string
	idx  int
	keys *accountdata.AccountKeys
	pub  []byte // raw ed25519 public key
	prot []byte // marshalled identity (cryptoproto.Key)
}

// effect of one ACL record on one account's permission, decoded by the harness from the raw record
type effect struct {
	kind byte // 'a' = set (history appended), 'r' = set by AccountsAdd, 't' = account state touched (request join), no permission effect
	acc  int
	perm int
}

type world struct {
	r      *corr.Run
	exec   *list.AclTestExecutor
	accts  []*acct
	byName map[string]*acct
	byPub  map[string]*acct
	recs   []*consensusproto.RawRecordWithId
	effs   [][]effect
	cmds   []string
	// interesting record positions (indices into recs)
	marks    []int
	hasReadd bool // some AccountsAdd re-added a previously known account
}

func newWorld(r *corr.Run) *world {
	return &world{r: r, exec: list.NewAclExecutor("spaceId"), byName: map[string]*acct{}, byPub: map[string]*acct{}}
}

func (w *world) register(name string, keys *accountdata.AccountKeys) *acct {
	if a, ok := w.byName[name]; ok {
		return a
	}
	raw, _ := keys.SignKey.GetPublic().Raw()
	prot, _ := keys.SignKey.GetPublic().Marshall()
	a := &acct{name: name, idx: len(w.accts), keys: keys, pub: raw, prot: prot}
	w.accts = append(w.accts, a)
	w.byName[name] = a
	w.byPub[string(raw)] = a
	return a
}

// outsider creates an account that never appears in the ACL.
func (w *world) outsider(name string) *acct {
	keys, err := accountdata.NewRandom()
	if err != nil {
		w.r.Fatal("keygen: " + err.Error())
	}
	return w.register(name, keys)
}

func (w *world) owner() *list.TestAclState { return w.exec.ActualAccounts()["o"] }

// do executes one executor command; returns false when the ACL rejected it.
func (w *world) do(cmd string) bool {
	before := 0
	if o := w.owner(); o != nil {
		before = len(o.Acl.Records())
	}
	if err := w.execute(cmd); err != nil {
		w.r.Count("acl.cmd.rejected")
		return false
	}
	for name, st := range w.exec.ActualAccounts() {
		w.register(name, st.Keys)
	}
	w.cmds = append(w.cmds, cmd)
	if len(w.owner().Acl.Records()) > before {
		w.marks = append(w.marks, len(w.owner().Acl.Records())-1)
	}
	w.r.Count("acl.cmd." + strings.SplitN(strings.SplitN(cmd, "::", 2)[0], ".", 2)[1])
	return true
}

// execute guards the test executor: it dereferences unknown account names.
func (w *world) execute(cmd string) (err error) {
	parts := strings.SplitN(cmd, "::", 2)
	verb := strings.SplitN(parts[0], ".", 2)[1]
	switch verb {
	case "remove", "changes", "approve", "ownership_change":
		for _, g := range strings.Split(parts[1], ";") {
			for _, n := range strings.Split(strings.SplitN(g, ",", 2)[0], ",") {
				if _, ok := w.exec.ActualAccounts()[n]; !ok {
					return fmt.Errorf("unknown account %s", n)
				}
			}
		}
	case "batch":
		for _, g := range strings.Split(parts[1], ";") {
			kv := strings.SplitN(g, ":", 2)
			if kv[0] == "changes" || kv[0] == "remove" {
				for _, it := range strings.Split(kv[1], "|") {
					if _, ok := w.exec.ActualAccounts()[strings.SplitN(it, ",", 2)[0]]; !ok {
						return fmt.Errorf("unknown account")
					}
				}
			}
		}
	}
	defer func() {
		if rec := recover(); rec != nil {
			err = fmt.Errorf("executor panic: %v", rec)
		}
	}()
	return w.exec.Execute(cmd)
}

// accountsAdd issues a direct AccountsAdd of an EXISTING key pair (the executor's `add` always
// makes fresh keys), signed by the owner, and feeds it to every account's list like the executor.
func (w *world) accountsAdd(name string, perm list.AclPermissions) bool {
	a := w.byName[name]
	if a == nil {
		return false
	}
	o := w.owner()
	rec, err := o.Acl.RecordBuilder().BuildAccountsAdd(list.AccountsAddPayload{Additions: []list.AccountAdd{
		{Identity: a.keys.SignKey.GetPublic(), Permissions: perm, Metadata: []byte(name)}}})
	if err != nil {
		w.r.Count("acl.cmd.rejected")
		return false
	}
	wrapped := listtest.WrapAclRecord(rec)
	if err := o.Acl.AddRawRecord(wrapped); err != nil {
		w.r.Count("acl.cmd.rejected")
		return false
	}
	for n, st := range w.exec.ActualAccounts() {
		if n == "o" {
			continue
		}
		_ = st.Acl.AddRawRecord(wrapped) // stale lists of removed accounts are rebuilt by the executor on their next command
	}
	w.cmds = append(w.cmds, fmt.Sprintf("o.accountsadd::%s,%d", name, int(perm)))
	w.marks = append(w.marks, len(o.Acl.Records())-1)
	w.r.Count("acl.cmd.accountsadd-existing")
	return true
}

// finish reads the record log back from the owner's list and decodes the permission effects of
// every record from its RAW bytes (independent of AclState).
func (w *world) finish() {
	o := w.owner()
	ctx := context.Background()
	root := o.Acl.Root()
	rest, err := o.Acl.RecordsAfter(ctx, "")
	if err != nil {
		w.r.Fatal("RecordsAfter: " + err.Error())
	}
	w.recs = nil
	if len(rest) == 0 || rest[0].Id != root.Id {
		w.recs = append(w.recs, root)
	}
	// the executor's `add` command shares the owner's in-memory storage with the new account's list,
	// so that storage can hold a record twice: keep first occurrences only
	seen := map[string]bool{}
	for _, x := range w.recs {
		seen[x.Id] = true
	}
	for _, x := range rest {
		if !seen[x.Id] {
			seen[x.Id] = true
			w.recs = append(w.recs, x)
		}
	}
	for i, rec := range o.Acl.Records() {
		if i >= len(w.recs) || w.recs[i].Id != rec.Id {
			w.r.Fatal("record log read-back: order differs from the list's records")
		}
	}
	if len(w.recs) != len(o.Acl.Records()) {
		w.r.Fatal(fmt.Sprintf("record log read-back: %d raw vs %d records", len(w.recs), len(o.Acl.Records())))
	}
	w.effs = make([][]effect, len(w.recs))
	invitePerm := map[string]int{}
	known := map[int]bool{}
	for i, rr := range w.recs {
		raw := &consensusproto.RawRecord{}
		if err := raw.UnmarshalVT(rr.Payload); err != nil {
			w.r.Fatal("raw record decode: " + err.Error())
		}
		if i == 0 {
			rootM := &aclrecordproto.AclRoot{}
			if err := rootM.UnmarshalVT(raw.Payload); err != nil {
				w.r.Fatal("root decode: " + err.Error())
			}
			a := w.acctOfProto(rootM.Identity)
			w.effs[0] = []effect{{'a', a.idx, pOwner}}
			known[a.idx] = true
			continue
		}
		rec := &consensusproto.Record{}
		if err := rec.UnmarshalVT(raw.Payload); err != nil {
			w.r.Fatal("record decode: " + err.Error())
		}
		data := &aclrecordproto.AclData{}
		if err := data.UnmarshalVT(rec.Data); err != nil {
			w.r.Fatal("acl data decode: " + err.Error())
		}
		author := w.acctOfProto(rec.Identity)
		var es []effect
		set := func(a *acct, p int) { es = append(es, effect{'a', a.idx, p}); known[a.idx] = true }
		for _, c := range data.AclContent {
			switch {
			case c.GetInvite() != nil:
				invitePerm[rr.Id] = int(c.GetInvite().Permissions)
			case c.GetInviteChange() != nil:
				invitePerm[c.GetInviteChange().InviteRecordId] = int(c.GetInviteChange().Permissions)
			case c.GetPermissionChange() != nil:
				set(w.acctOfProto(c.GetPermissionChange().Identity), int(c.GetPermissionChange().Permissions))
			case c.GetPermissionChanges() != nil:
				for _, pc := range c.GetPermissionChanges().Changes {
					set(w.acctOfProto(pc.Identity), int(pc.Permissions))
				}
			case c.GetOwnershipChange() != nil:
				set(author, int(c.GetOwnershipChange().OldOwnerPermissions))
				set(w.acctOfProto(c.GetOwnershipChange().NewOwnerIdentity), pOwner)
			case c.GetRequestJoin() != nil:
				es = append(es, effect{'t', author.idx, 0})
			case c.GetRequestAccept() != nil:
				set(w.acctOfProto(c.GetRequestAccept().Identity), int(c.GetRequestAccept().Permissions))
			case c.GetInviteJoin() != nil:
				p := int(c.GetInviteJoin().Permissions)
				if p == pNone {
					p = invitePerm[c.GetInviteJoin().InviteRecordId]
				}
				set(w.acctOfProto(c.GetInviteJoin().Identity), p)
			case c.GetAccountsAdd() != nil:
				for _, ad := range c.GetAccountsAdd().Additions {
					a := w.acctOfProto(ad.Identity)
					if known[a.idx] {
						w.hasReadd = true
					}
					es = append(es, effect{'r', a.idx, int(ad.Permissions)})
					known[a.idx] = true
				}
			case c.GetAccountRemove() != nil:
				for _, id := range c.GetAccountRemove().Identities {
					set(w.acctOfProto(id), pNone)
				}
			}
		}
		w.effs[i] = es
	}
	// harness self-check: the decoded effects must reproduce the list's current permissions
	for _, a := range w.accts {
		want := int(o.Acl.AclState().Permissions(a.keys.SignKey.GetPublic()))
		if got := w.permAt(len(w.recs)-1, a.idx); got != want {
			w.r.Fatal(fmt.Sprintf("harness effect decoding is wrong: account %s final perm %d, list says %d (cmds %v)", a.name, got, want, w.cmds))
		}
	}
}

func (w *world) acctOfProto(prot []byte) *acct {
	k := &cryptoproto.Key{}
	if err := k.UnmarshalVT(prot); err != nil {
		w.r.Fatal("identity decode: " + err.Error())
	}
	if a, ok := w.byPub[string(k.Data)]; ok {
		return a
	}
	// an identity that appears in the ACL but was not registered (should not happen)
	pk, err := crypto.UnmarshalEd25519PublicKeyProto(prot)
	if err != nil {
		w.r.Fatal("identity decode: " + err.Error())
	}
	raw, _ := pk.Raw()
	a := &acct{name: fmt.Sprintf("x%d", len(w.accts)), idx: len(w.accts), pub: raw, prot: prot}
	w.accts = append(w.accts, a)
	w.byName[a.name] = a
	w.byPub[string(raw)] = a
	return a
}

// permAt is the oracle's slow, obvious permission function: replay the effects of records
// 0..rec (inclusive) and report the account's permission.
func (w *world) permAt(rec int, acc int) int {
	p := pNone
	for i := 0; i <= rec && i < len(w.effs); i++ {
		for _, e := range w.effs[i] {
			if e.acc == acc && e.kind != 't' {
				p = e.perm
			}
		}
	}
	return p
}

func (w *world) recIndex(id string, upto int) int {
	for i := 0; i < upto && i < len(w.recs); i++ {
		if w.recs[i].Id == id {
			return i
		}
	}
	return -1
}

// receiver builds a fresh, fully validating AclList over the first k records.
func (w *world) receiver(k int, keys *accountdata.AccountKeys) (list.AclList, *faultyAclStorage, error) {
	st, err := list.NewInMemoryStorage(w.recs[0].Id, w.recs[:k])
	if err != nil {
		return nil, nil, err
	}
	fs := &faultyAclStorage{Storage: st}
	acl, err := list.BuildAclListWithIdentity(keys, fs, recordverifier.NewValidateFull())
	return acl, fs, err
}

// faultyAclStorage is the receiver's ACL record storage with an injectable write fault (disk full,
// failed transaction): "a record exists locally" means it was STORED and APPLIED.
type faultyAclStorage struct {
	list.Storage
	failAdd bool
	failed  int
}

var errAclDiskFull = errors.New("verif: acl storage write refused (disk is full)")

func (f *faultyAclStorage) AddAll(ctx context.Context, records []list.StorageRecord) error {
	if f.failAdd {
		f.failed++
		return errAclDiskFull
	}
	return f.Storage.AddAll(ctx, records)
}

// ---- ACL histories ----

var permNames = map[int]string{pAdmin: "adm", pWriter: "rw", pReader: "r"}

// buildHistory creates one of the named ACL histories followed by a random tail.
func buildHistory(r *corr.Run, kind int) *world {
	w := newWorld(r)
	must := func(cmd string) {
		if !w.do(cmd) {
			r.Fatal("history command failed: " + cmd + " after " + strings.Join(w.cmds, " ; "))
		}
	}
	must("o.init::o")
	must("o.invite_anyone::ia,rw")
	must("o.invite::ir")
	must("a.invite_join::ia") // a: writer
	switch kind % 8 {
	case 0: // writer demoted to reader (and possibly promoted again)
		must("o.changes::a,r")
		if r.Chance(50) {
			must("o.changes::a,rw")
		}
	case 1: // writer removed
		must("o.remove::a")
	case 2: // removed then re-added by request/accept
		must("o.remove::a")
		must("a.join::ir")
		must("o.approve::a,rw")
	case 3: // removed then re-added by invite join
		must("o.remove::a")
		must("a.invite_join::ia")
	case 4: // removed then re-added directly by AccountsAdd
		must("o.remove::a")
		if !w.accountsAdd("a", list.AclPermissionsWriter) {
			r.Fatal("AccountsAdd of a removed account was rejected")
		}
	case 5: // second member via request/accept as reader, later promoted
		must("b.join::ir")
		must("o.approve::b,r")
		must("o.changes::b,rw")
	case 6: // admin + ownership change
		must("b.join::ir")
		must("o.approve::b,adm")
		if !w.do("o.ownership_change::b,rw") {
			w.do("o.changes::b,rw")
		}
	case 7: // batch add with fresh keys, then remove, then re-add by AccountsAdd as reader, then promote
		must("o.add::c,rw,m")
		must("o.remove::c")
		w.accountsAdd("c", list.AclPermissionsReader)
		w.do("o.changes::c,rw")
	}
	// random tail
	n := r.Intn(5)
	names := []string{"a", "b", "c"}
	for i := 0; i < n; i++ {
		x := names[r.Intn(len(names))]
		switch r.Intn(8) {
		case 0:
			w.do("o.changes::" + x + "," + permNames[[]int{pAdmin, pWriter, pReader}[r.Intn(3)]])
		case 1:
			w.do("o.remove::" + x)
		case 2:
			w.do(x + ".invite_join::ia")
		case 3:
			if w.do(x + ".join::ir") {
				w.do("o.approve::" + x + "," + permNames[[]int{pWriter, pReader}[r.Intn(2)]])
			}
		case 4:
			if w.byName[x] != nil {
				w.accountsAdd(x, []list.AclPermissions{list.AclPermissionsWriter, list.AclPermissionsReader}[r.Intn(2)])
			}
		case 5:
			w.do("o.invite_change::ia," + []string{"r", "rw"}[r.Intn(2)])
		case 6:
			w.do("o.add::" + fmt.Sprintf("d%d", i) + ",rw,m")
		case 7:
			w.do("o.batch::changes:" + x + ",r|a,rw")
		}
	}
	w.outsider("z") // never a member
	w.finish()
	return w
}
