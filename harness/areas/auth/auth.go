package auth

import (
	"fmt"
	"os"
	"strings"
	"time"

	"github.com/ipfs/go-cid"
	"github.com/multiformats/go-multibase"
	"github.com/multiformats/go-multicodec"
	mh "github.com/multiformats/go-multihash"

	"github.com/anyproto/any-sync/commonspace/object/tree/objecttree"
	"github.com/anyproto/any-sync/commonspace/object/tree/treechangeproto"
	"github.com/anyproto/any-sync/util/crypto"

	"verifharness/internal/corr"
)

func init() {
	corr.RegisterArea("auth", Run)
	corr.RegisterExtractor("auth", extract)
}

// ---- mutators (applied to the RAW change) ----

type mutator struct {
	name string
	// make returns nil when not applicable
	make func(tc *treeCase, v *parsed, fixId bool) *rawCh
}

func (tc *treeCase) finishMut(v *parsed, payload, sig []byte, fixId bool, label string) *rawCh {
	body := wrap(payload, sig)
	id := v.id
	if fixId {
		id = realCid(body)
		label += "/fixid"
	} else {
		label += "/keepid"
	}
	return &rawCh{id: id, body: body, label: label}
}

func flip(tc *treeCase, b []byte) []byte {
	c := append([]byte(nil), b...)
	if len(c) == 0 {
		return []byte{1}
	}
	i := tc.r.Intn(len(c))
	c[i] ^= byte(1 << uint(tc.r.Intn(8)))
	return c
}

func (tc *treeCase) otherAcct(not int) *acct {
	for tries := 0; tries < 20; tries++ {
		a := tc.w.accts[tc.r.Intn(len(tc.w.accts))]
		if a.idx != not && a.keys != nil {
			return a
		}
	}
	return nil
}

func reTree(v *parsed, f func(ch *treechangeproto.TreeChange)) []byte {
	ch := &treechangeproto.TreeChange{}
	if err := ch.UnmarshalVT(v.payload); err != nil {
		return nil
	}
	f(ch)
	b, _ := ch.MarshalVT()
	return b
}

var mutators = []mutator{
	{"payload-flip", func(tc *treeCase, v *parsed, fix bool) *rawCh {
		return tc.finishMut(v, flip(tc, v.payload), v.sig, fix, "payload-flip")
	}},
	{"sig-flip", func(tc *treeCase, v *parsed, fix bool) *rawCh {
		return tc.finishMut(v, v.payload, flip(tc, v.sig), fix, "sig-flip")
	}},
	{"body-flip", func(tc *treeCase, v *parsed, fix bool) *rawCh {
		body := flip(tc, v.body)
		id, l := v.id, "body-flip/keepid"
		if fix {
			id, l = realCid(body), "body-flip/fixid"
		}
		return &rawCh{id: id, body: body, label: l}
	}},
	{"id-replace", func(tc *treeCase, v *parsed, fix bool) *rawCh {
		id := realCid([]byte(fmt.Sprint("other", tc.nextTs())))
		if fix { // use the id of another known change
			for k := range tc.attached {
				if k != v.id {
					id = k
					break
				}
			}
		}
		return &rawCh{id: id, body: v.body, label: "id-replace"}
	}},
	{"ident-swap-keepsig", func(tc *treeCase, v *parsed, fix bool) *rawCh {
		y := tc.otherAcct(v.acc)
		if y == nil {
			return nil
		}
		pl := reTree(v, func(ch *treechangeproto.TreeChange) { ch.Identity = y.prot })
		return tc.finishMut(v, pl, v.sig, fix, "ident-swap-keepsig")
	}},
	{"ident-swap-resign-other", func(tc *treeCase, v *parsed, fix bool) *rawCh {
		// name Y as the author, sign with somebody else's key (the attacker's own)
		y := tc.otherAcct(v.acc)
		if y == nil {
			return nil
		}
		signer := tc.otherAcct(y.idx)
		if signer == nil {
			return nil
		}
		pl := reTree(v, func(ch *treechangeproto.TreeChange) { ch.Identity = y.prot })
		return tc.finishMut(v, pl, tc.sign(signer, pl), fix, "ident-swap-resign-other")
	}},
	{"ident-swap-resign-named", func(tc *treeCase, v *parsed, fix bool) *rawCh {
		// a genuine change by Y with the same content: authentic iff Y could write
		y := tc.otherAcct(v.acc)
		if y == nil {
			return nil
		}
		pl := reTree(v, func(ch *treechangeproto.TreeChange) { ch.Identity = y.prot })
		return tc.finishMut(v, pl, tc.sign(y, pl), true, "ident-swap-resign-named")
	}},
	{"aclhead-keepsig", func(tc *treeCase, v *parsed, fix bool) *rawCh {
		pl := reTree(v, func(ch *treechangeproto.TreeChange) { ch.AclHeadId = tc.pickRecord(0, true) })
		return tc.finishMut(v, pl, v.sig, fix, "aclhead-keepsig")
	}},
	{"aclhead-resign-author", func(tc *treeCase, v *parsed, fix bool) *rawCh {
		if v.acc >= 1000 || tc.w.accts[v.acc].keys == nil {
			return nil
		}
		pl := reTree(v, func(ch *treechangeproto.TreeChange) { ch.AclHeadId = tc.pickRecord(0, true) })
		return tc.finishMut(v, pl, tc.sign(tc.w.accts[v.acc], pl), true, "aclhead-resign-author")
	}},
	{"parents-keepsig", func(tc *treeCase, v *parsed, fix bool) *rawCh {
		pl := reTree(v, func(ch *treechangeproto.TreeChange) { ch.TreeHeadIds = tc.otherParents(v) })
		return tc.finishMut(v, pl, v.sig, fix, "parents-keepsig")
	}},
	{"parents-resign-author", func(tc *treeCase, v *parsed, fix bool) *rawCh {
		if v.acc >= 1000 || tc.w.accts[v.acc].keys == nil {
			return nil
		}
		pl := reTree(v, func(ch *treechangeproto.TreeChange) { ch.TreeHeadIds = tc.otherParents(v) })
		return tc.finishMut(v, pl, tc.sign(tc.w.accts[v.acc], pl), true, "parents-resign-author")
	}},
	{"snapshot-keepsig", func(tc *treeCase, v *parsed, fix bool) *rawCh {
		pl := reTree(v, func(ch *treechangeproto.TreeChange) { ch.SnapshotBaseId = v.id })
		return tc.finishMut(v, pl, v.sig, fix, "snapshot-keepsig")
	}},
	{"reencode-wrapper", func(tc *treeCase, v *parsed, fix bool) *rawCh {
		body := wrapSwapped(v.payload, v.sig)
		id, l := v.id, "reencode-wrapper/keepid"
		if fix {
			id, l = realCid(body), "reencode-wrapper/fixid"
		}
		return &rawCh{id: id, body: body, label: l}
	}},
	{"reencode-payload", func(tc *treeCase, v *parsed, fix bool) *rawCh {
		// append an unknown varint field (tag 15): decodes to the same fields, other bytes
		pl := append(append([]byte(nil), v.payload...), 0x78, 0x01)
		return tc.finishMut(v, pl, v.sig, fix, "reencode-payload")
	}},
	{"nosig", func(tc *treeCase, v *parsed, fix bool) *rawCh {
		return tc.finishMut(v, v.payload, nil, fix, "nosig")
	}},
	{"truncate", func(tc *treeCase, v *parsed, fix bool) *rawCh {
		body := v.body[:1+tc.r.Intn(len(v.body)-1)]
		id, l := v.id, "truncate/keepid"
		if fix {
			id, l = realCid(body), "truncate/fixid"
		}
		return &rawCh{id: id, body: body, label: l}
	}},
	{"data-change-keepsig", func(tc *treeCase, v *parsed, fix bool) *rawCh {
		pl := reTree(v, func(ch *treechangeproto.TreeChange) { ch.ChangesData = append([]byte("evil"), ch.ChangesData...) })
		return tc.finishMut(v, pl, v.sig, fix, "data-change-keepsig")
	}},
}

// wrapperMutators alter the STRUCTURE of the RawTreeChange wrapper (which fields are present, how
// often, in which order). They matter most right after the change they were derived from went
// through the same change builder (decoder state reused across calls).
var wrapperMutators = []mutator{}

func bodyMut(tc *treeCase, v *parsed, fix bool, label string, body []byte) *rawCh {
	id := v.id
	if fix {
		id, label = realCid(body), label+"/fixid"
	} else {
		label += "/keepid"
	}
	return &rawCh{id: id, body: body, label: label}
}

func init() {
	evil := func(tc *treeCase, v *parsed) []byte {
		return reTree(v, func(ch *treechangeproto.TreeChange) { ch.ChangesData = append([]byte("evil"), ch.ChangesData...) })
	}
	wrapperMutators = []mutator{
		{"wrap-sig-only", func(tc *treeCase, v *parsed, fix bool) *rawCh {
			return bodyMut(tc, v, fix, "wrap-sig-only", wrapFields(pbField{0x12, v.sig}))
		}},
		{"wrap-empty-payload", func(tc *treeCase, v *parsed, fix bool) *rawCh {
			return bodyMut(tc, v, fix, "wrap-empty-payload", wrapFields(pbField{0x0a, nil}, pbField{0x12, v.sig}))
		}},
		{"wrap-unknown-only", func(tc *treeCase, v *parsed, fix bool) *rawCh {
			return bodyMut(tc, v, fix, "wrap-unknown-only", wrapFields(pbField{0, []byte{0x18, byte(1 + tc.r.Intn(100))}}))
		}},
		{"wrap-payload-only", func(tc *treeCase, v *parsed, fix bool) *rawCh {
			return bodyMut(tc, v, fix, "wrap-payload-only", wrapFields(pbField{0x0a, v.payload}))
		}},
		{"wrap-dup-payload-last-genuine", func(tc *treeCase, v *parsed, fix bool) *rawCh {
			return bodyMut(tc, v, fix, "wrap-dup-payload-last-genuine", wrapFields(pbField{0x0a, evil(tc, v)}, pbField{0x12, v.sig}, pbField{0x0a, v.payload}))
		}},
		{"wrap-dup-payload-last-evil", func(tc *treeCase, v *parsed, fix bool) *rawCh {
			return bodyMut(tc, v, fix, "wrap-dup-payload-last-evil", wrapFields(pbField{0x0a, v.payload}, pbField{0x12, v.sig}, pbField{0x0a, evil(tc, v)}))
		}},
		{"wrap-dup-sig-last-genuine", func(tc *treeCase, v *parsed, fix bool) *rawCh {
			return bodyMut(tc, v, fix, "wrap-dup-sig-last-genuine", wrapFields(pbField{0x0a, v.payload}, pbField{0x12, flip(tc, v.sig)}, pbField{0x12, v.sig}))
		}},
		{"wrap-dup-sig-last-evil", func(tc *treeCase, v *parsed, fix bool) *rawCh {
			return bodyMut(tc, v, fix, "wrap-dup-sig-last-evil", wrapFields(pbField{0x0a, v.payload}, pbField{0x12, v.sig}, pbField{0x12, flip(tc, v.sig)}))
		}},
		{"wrap-unknown-field", func(tc *treeCase, v *parsed, fix bool) *rawCh {
			return bodyMut(tc, v, fix, "wrap-unknown-field", wrapFields(pbField{0x0a, v.payload}, pbField{0x12, v.sig}, pbField{0, []byte{0x18, 0x01}}))
		}},
		{"wrap-reordered", func(tc *treeCase, v *parsed, fix bool) *rawCh {
			return bodyMut(tc, v, fix, "wrap-reordered", wrapFields(pbField{0x12, v.sig}, pbField{0x0a, v.payload}))
		}},
		{"wrap-sig-only-of-other", func(tc *treeCase, v *parsed, fix bool) *rawCh {
			// a signature-only wrapper replaying the signature of ANOTHER attached change
			for _, k := range sortedKeys(tc.attached) {
				if o := tc.attached[k]; k != v.id && len(o.sig) > 0 {
					return bodyMut(tc, v, fix, "wrap-sig-only-of-other", wrapFields(pbField{0x12, o.sig}))
				}
			}
			return nil
		}},
	}
}

func sortedKeys(m map[string]*parsed) []string {
	ks := make([]string, 0, len(m))
	for k := range m {
		ks = append(ks, k)
	}
	return sortedCopy(ks)
}

// aliasId spells a hash of the same bytes differently: another multibase, another codec, another
// hash function, CIDv0. None of them is THE content id (CIDv1, dag-cbor, sha2-256, base32 lower).
func aliasId(kind int, body []byte) string {
	sum := func(code uint64) mh.Multihash { h, _ := mh.Sum(body, code, -1); return h }
	canon := cid.NewCidV1(uint64(multicodec.DagCbor), sum(mh.SHA2_256))
	enc := func(c cid.Cid, b multibase.Encoding) string { s, _ := c.StringOfBase(b); return s }
	switch kind % 8 {
	case 0:
		return enc(canon, multibase.Base32Upper)
	case 1:
		return enc(canon, multibase.Base58BTC)
	case 2:
		return enc(canon, multibase.Base16)
	case 3:
		return cid.NewCidV1(uint64(multicodec.Raw), sum(mh.SHA2_256)).String()
	case 4:
		return cid.NewCidV1(uint64(multicodec.DagCbor), sum(mh.SHA2_512)).String()
	case 5:
		return cid.NewCidV0(sum(mh.SHA2_256)).String()
	case 6:
		return cid.NewCidV1(uint64(multicodec.DagPb), sum(mh.SHA2_256)).String()
	default:
		return enc(canon, multibase.Base64url)
	}
}

func init() {
	// genuine changes (re-signed by their author) that name an ACL record / a parent by a
	// NON-canonical spelling of its id: the record / parent "exists" only under its one id
	mutators = append(mutators,
		mutator{"aclhead-alias-resign-author", func(tc *treeCase, v *parsed, fix bool) *rawCh {
			if v.acc >= 1000 || tc.w.accts[v.acc].keys == nil || tc.recvK == 0 {
				return nil
			}
			rec := tc.w.recs[tc.r.Intn(tc.recvK)]
			pl := reTree(v, func(ch *treechangeproto.TreeChange) { ch.AclHeadId = aliasId(tc.r.Intn(3), rec.Payload) })
			return tc.finishMut(v, pl, tc.sign(tc.w.accts[v.acc], pl), true, "aclhead-alias-resign-author")
		}},
		mutator{"parent-alias-resign-author", func(tc *treeCase, v *parsed, fix bool) *rawCh {
			if v.acc >= 1000 || tc.w.accts[v.acc].keys == nil {
				return nil
			}
			for _, k := range sortedKeys(tc.attached) {
				par := tc.attached[k]
				pl := reTree(v, func(ch *treechangeproto.TreeChange) { ch.TreeHeadIds = []string{aliasId(tc.r.Intn(3), par.body)} })
				return tc.finishMut(v, pl, tc.sign(tc.w.accts[v.acc], pl), true, "parent-alias-resign-author")
			}
			return nil
		}})
	names := []string{"base32upper", "base58btc", "base16", "raw-codec", "sha2-512", "cidv0", "dag-pb", "base64url"}
	for k := range names {
		k := k
		// a GENUINE signed change (bytes untouched) offered under a non-canonical id
		mutators = append(mutators, mutator{"id-alias-" + names[k], func(tc *treeCase, v *parsed, fix bool) *rawCh {
			return &rawCh{id: aliasId(k, v.body), body: v.body, label: "id-alias-" + names[k]}
		}})
	}
}

func (tc *treeCase) otherParents(v *parsed) []string {
	var ids []string
	for k := range tc.attached {
		ids = append(ids, k)
	}
	ids = sortedCopy(ids)
	if len(ids) == 0 {
		return []string{tc.rootId}
	}
	out := []string{ids[tc.r.Intn(len(ids))]}
	if strings.Join(out, ",") == strings.Join(v.prev, ",") {
		out = append(out, tc.rootId)
	}
	return out
}

// pickRecord chooses the ACL record a change cites. Guard-directed: records right before / at /
// after every permission event, the first and the last record, records the receiver does not have,
// and ids that are no record at all.
func (tc *treeCase) pickRecord(min int, any bool) string {
	n := len(tc.w.recs)
	x := tc.r.Intn(100)
	var i int
	switch {
	case x < 3:
		tc.r.Count("cite.fake-id")
		return realCid([]byte(fmt.Sprint("norec", tc.nextTs())))
	case x < 45 && len(tc.w.marks) > 0:
		i = tc.w.marks[tc.r.Intn(len(tc.w.marks))] - 1 + tc.r.Intn(3)
	case x < 55:
		i = n - 1
	case x < 62:
		i = 0
	default:
		i = tc.r.Intn(n)
	}
	if i < 0 {
		i = 0
	}
	if i >= n {
		i = n - 1
	}
	if !any && i < min && tc.r.Chance(85) {
		i = min + tc.r.Intn(n-min)
	}
	return tc.w.recs[i].Id
}

func (tc *treeCase) pickAuthor() *acct {
	x := tc.r.Intn(100)
	switch {
	case x < 42:
		if a := tc.w.byName["a"]; a != nil {
			return a
		}
	case x < 75:
		return tc.w.byName["o"]
	}
	for {
		a := tc.w.accts[tc.r.Intn(len(tc.w.accts))]
		if a.keys != nil {
			return a
		}
	}
}

type poolCh struct {
	raw  *rawCh
	p    *parsed
	good bool
}

// genPool builds a DAG of really-signed changes over the root; `good` marks the ones the oracle
// predicts to be authentic given authentic parents. Returns the pool and the heads of the good DAG.
func (tc *treeCase) genPool(rootP *parsed) ([]*poolCh, []string) {
	r, w := tc.r, tc.w
	n := len(w.recs)
	// pool of really-signed changes forming a DAG
	goodEnv := map[string]*parsed{tc.rootId: rootP}
	goodHeads := []string{tc.rootId}
	var goodAll []string = []string{tc.rootId}
	var pool []*poolCh
	lastSnap := ""
	np := 3 + r.Intn(6)
	for i := 0; i < np; i++ {
		var prev []string
		switch x := r.Intn(100); {
		case x < 70:
			prev = append(prev, goodHeads[r.Intn(len(goodHeads))])
			if len(goodHeads) > 1 && r.Chance(40) {
				o := goodHeads[r.Intn(len(goodHeads))]
				if o != prev[0] {
					prev = append(prev, o)
				}
			}
		case x < 90:
			prev = append(prev, goodAll[r.Intn(len(goodAll))])
		case x < 95 && len(pool) > 0:
			prev = append(prev, pool[r.Intn(len(pool))].raw.id)
		default:
			prev = append(prev, realCid([]byte(fmt.Sprint("nochange", tc.nextTs()))))
		}
		minIdx := 0
		for _, pid := range prev {
			if pp, ok := goodEnv[pid]; ok && !(pp.isRoot && pp.derived) {
				if j := w.recIndex(pp.aclHead, n); j > minIdx {
					minIdx = j
				}
			}
		}
		author := tc.pickAuthor()
		snap := tc.rootId
		var bo buildOpts
		if tc.exotic {
			if lastSnap != "" && r.Chance(80) {
				snap = lastSnap // changes after a snapshot name it
			}
			switch x := r.Intn(100); {
			case x < 12:
				// a snapshot change: honestly it merges all heads
				bo.isSnapshot = true
				if r.Chance(70) {
					prev = append([]string(nil), goodHeads...)
				}
				r.Count("pool.snapshot")
			case x < 17:
				prev = nil // no previous ids at all
				r.Count("pool.no-prev")
			}
		}
		if tc.keyFilter {
			switch x := r.Intn(100); {
			case x < 80 && len(tc.keyIds) > 0:
				bo.readKeyId = tc.keyIds[r.Intn(len(tc.keyIds))]
			case x < 90:
				bo.readKeyId = realCid([]byte(fmt.Sprint("nokey", tc.nextTs())))
			}
		}
		if len(goodAll) > 1 && r.Chance(4) {
			// a writer-signed change whose snapshot id names an ordinary (non-snapshot) change
			snap = goodAll[1+r.Intn(len(goodAll)-1)]
			r.Count("pool.foreign-snapshot")
		}
		raw := tc.buildChange(author, tc.pickRecord(minIdx, false), prev, snap, bo)
		p := tc.parseRaw(raw.id, raw.body, tc.rootId)
		p.label = raw.label
		pc := &poolCh{raw: raw, p: p}
		if ok, _ := tc.authentic(p, goodEnv); ok && (snap == tc.rootId || snap == lastSnap) {
			pc.good = true
			if bo.isSnapshot {
				lastSnap = p.id
			}
			goodEnv[p.id] = p
			goodAll = append(goodAll, p.id)
			var nh []string
			for _, hd := range goodHeads {
				keep := true
				for _, pid := range prev {
					if pid == hd {
						keep = false
					}
				}
				if keep {
					nh = append(nh, hd)
				}
			}
			goodHeads = append(nh, p.id)
			r.Count("pool.predicted-authentic")
		} else {
			r.Count("pool.predicted-inauthentic")
		}
		pool = append(pool, pc)
	}

	return pool, goodHeads
}

// directedMerge: MERGE changes (two or three parents) whose parents cite ACL records on both sides
// of the record the merge itself cites — the monotonicity clause quantifies over ALL parents,
// whatever their order by id. The author can write at the cited record (preferably an account that
// lost the permission later), so only the ACL-head order decides.
func (tc *treeCase) directedMerge(deliver func([]*rawCh, string)) {
	r, w := tc.r, tc.w
	type cand struct {
		id  string
		idx int
	}
	collect := func() []cand {
		var cs []cand
		for _, id := range sortedKeys(tc.attached) {
			p := tc.attached[id]
			if p.isRoot && p.derived {
				continue
			}
			if i := w.recIndex(p.aclHead, tc.recvK); i >= 0 {
				cs = append(cs, cand{id, i})
			}
		}
		return cs
	}
	writerAt := func(i int, notAt int) *acct {
		var any *acct
		for _, a := range w.accts {
			if a.keys == nil || !oracleCanWrite(w.permAt(i, a.idx)) {
				continue
			}
			if notAt >= 0 && !oracleCanWrite(w.permAt(notAt, a.idx)) {
				return a // could write at the older record, cannot at the newer one: the demoted / removed writer
			}
			any = a
		}
		return any
	}
	cs := collect()
	distinct := func() bool {
		for _, c := range cs {
			if c.idx != cs[0].idx {
				return true
			}
		}
		return false
	}
	if len(cs) > 0 && !distinct() && tc.recvK > 1 {
		// every attached change cites the same record: grow a branch that cites a later one
		hi := cs[0].idx
		if hi+1 < tc.recvK {
			j := hi + 1 + r.Intn(tc.recvK-hi-1)
			if a := writerAt(j, -1); a != nil {
				deliver([]*rawCh{tc.buildChange(a, w.recs[j].Id, tc.tree.Heads(), tc.rootId)}, "merge.grow-branch")
				cs = collect()
			}
		}
	}
	if len(cs) < 2 || !distinct() || tc.dead {
		return
	}
	for tries := 0; tries < 2 && r.TimeLeft(); tries++ {
		a, b := cs[r.Intn(len(cs))], cs[r.Intn(len(cs))]
		if a.idx == b.idx {
			continue
		}
		if a.idx > b.idx {
			a, b = b, a
		}
		author := writerAt(a.idx, b.idx)
		if author == nil {
			continue
		}
		prev := []string{a.id, b.id}
		if r.Chance(30) && len(cs) > 2 {
			prev = append(prev, cs[r.Intn(len(cs))].id)
		}
		if r.Chance(50) {
			prev[0], prev[1] = prev[1], prev[0]
		}
		order := "older-parent-first"
		if a.id > b.id {
			order = "newer-parent-first"
		}
		r.Count("directed.merge." + order)
		// cites the OLDER parent's record: one parent cites the same record, another a later one
		m1 := tc.buildChange(author, w.recs[a.idx].Id, prev, tc.rootId)
		m1.label = "valid.merge-cites-older-parents-record"
		deliver([]*rawCh{m1}, "merge.cites-older")
		// cites a record strictly between the two
		if b.idx-a.idx > 1 {
			if au := writerAt(a.idx+1, -1); au != nil {
				m := tc.buildChange(au, w.recs[a.idx+1+r.Intn(b.idx-a.idx-1)].Id, prev, tc.rootId)
				m.label = "valid.merge-cites-between"
				deliver([]*rawCh{m}, "merge.cites-between")
			}
		}
		// cites the newer parent's record: fine if the author can (still) write there
		if au := writerAt(b.idx, -1); au != nil && r.Chance(60) {
			deliver([]*rawCh{tc.buildChange(au, w.recs[b.idx].Id, prev, tc.rootId)}, "merge.cites-newer")
			cs = collect()
		}
	}
}

// runCase: one receiver, one tree, a pool of really-signed changes, batches with mutants.
func runCase(h *harnessState, w *world, caseNo int) {
	defer timed("runCase")()
	r := h.r
	tc := &treeCase{h: h, r: r, w: w}
	n := len(w.recs)
	tc.recvK = n
	if r.Chance(35) {
		tc.recvK = 1 + r.Intn(n)
		if r.Chance(50) && len(w.marks) > 0 {
			// the next record to arrive is a permission event (grant / demotion / removal / re-add)
			if k := w.marks[r.Intn(len(w.marks))]; k >= 1 && k < n {
				tc.recvK = k
			}
		}
	}
	readdDirected := false
	if w.hasReadd && r.Chance(55) {
		// directed at F-acl-readd: the receiver first knows the log up to just before the re-add
		for i, es := range w.effs {
			for _, e := range es {
				if e.kind == 'r' && w.permAt(i-1, e.acc) == pNone && i > 2 && tc.recvK == n {
					known := false
					for j := 0; j < i; j++ {
						for _, e2 := range w.effs[j] {
							if e2.acc == e.acc && e2.kind != 't' {
								known = true
							}
						}
					}
					if known {
						tc.recvK = i
						readdDirected = true
					}
				}
			}
		}
	}
	tc.recvKeys = w.byName["o"].keys
	if r.Chance(20) {
		tc.recvKeys = w.byName["z"].keys
	}
	stopRecv := timed("receiver")
	recv, fs, err := w.receiver(tc.recvK, tc.recvKeys)
	tc.recvStore = fs
	stopRecv()
	if err != nil {
		r.Fatal("receiver ACL: " + err.Error())
	}
	tc.recv = recv
	switch x := r.Intn(100); {
	case x < 12:
		// snapshot changes / changes without previous ids: tree reduction is outside the model
		tc.exotic = true
		r.Count("mode.exotic")
	case x < 24 && tc.recvKeys == w.byName["o"].keys:
		// the key-filtering validator (validateKeys + FilterChanges): oracle only
		tc.keyFilter, tc.resync = true, true
		for k, v := range recv.AclState().Keys() {
			if v.ReadKey != nil {
				tc.keyIds = append(tc.keyIds, k)
			}
		}
		tc.keyIds = sortedCopy(tc.keyIds)
		r.Count("mode.keyfilter")
	}
	tc.ask("reset")
	if got := tc.ask(tc.aclLine()); got != "ok" {
		r.Fatal("model rejected acl line: " + got)
	}
	r.Count(fmt.Sprintf("recv.prefix.%s", map[bool]string{true: "full", false: "partial"}[tc.recvK == n]))

	// root
	var root *rawCh
	switch x := r.Intn(100); {
	case x < 15:
		root = tc.buildRoot(nil, "", true)
	case x < 75:
		root = tc.buildRoot(w.byName["o"], w.recs[r.Intn(min(2, tc.recvK))].Id, false)
	default:
		root = tc.buildRoot(tc.pickAuthor(), tc.pickRecord(0, true), false)
	}
	if r.Chance(6) { // a tampered root
		p := tc.parseRaw(root.id, root.body, root.id)
		if len(p.sig) > 0 {
			root = &rawCh{id: root.id, body: wrap(p.payload, flip(tc, p.sig)), label: "root.sig-flip/keepid"}
			if r.Chance(50) {
				root.id = realCid(root.body)
				root.label = "root.sig-flip/fixid"
			}
		}
	}
	if !tc.open(root) {
		r.Case(strings.Join(tc.ops, "\n"), false)
		return
	}

	if tc.exotic && r.Chance(40) {
		// directed at the rollback of the rebuild path: a writer stores a change whose snapshot id is a
		// snapshot that is NOT among its ancestors; later a batch that must go through
		// rebuildFromStorage is refused (author cannot write) — heads and iteration must not move
		o := w.byName["o"]
		cite := w.recs[0].Id
		if rp := tc.attached[tc.rootId]; rp != nil && !rp.derived && w.recIndex(rp.aclHead, tc.recvK) >= 0 {
			cite = rp.aclHead
		}
		c1 := tc.buildChange(o, cite, []string{tc.rootId}, tc.rootId)
		sn := tc.buildChange(o, cite, []string{c1.id}, tc.rootId, buildOpts{isSnapshot: true})
		c2 := tc.buildChange(o, cite, []string{tc.rootId}, sn.id)
		r.Count("directed.rebuild-rollback")
		if tc.add([]*rawCh{c1, sn, c2}, "rollback-setup") == "ok" {
			bad := tc.buildChange(w.byName["z"], cite, []string{sn.id, c2.id}, sn.id)
			// `other` is attachable in any case and is refused by validation, so the call fails even when
			// the reload inside rebuildFromStorage has already dropped c2 (and with it `bad`)
			other := tc.buildChange(w.byName["z"], cite, []string{tc.rootId}, tc.rootId)
			tc.add([]*rawCh{bad, other}, "rollback-refused")
		}
	}
	if tc.recvK < n && r.Chance(30) {
		tc.aclFault() // ACL storage fault right away, on the fresh tree
	}
	pool, _ := tc.genPool(tc.attached[tc.rootId])

	// delivery
	okAdds, badAdds := 0, 0
	var delivered []*poolCh
	var skipped []*poolCh
	deliver := func(batch []*rawCh, tag string) {
		if len(batch) == 0 || !r.TimeLeft() || tc.dead {
			return
		}
		st := tc.add(batch, tag)
		if st == "ok" {
			okAdds++
		} else {
			badAdds++
		}
	}
	for i := 0; i < len(pool); {
		sz := 1 + r.Intn(4)
		var chunk []*poolCh
		for ; sz > 0 && i < len(pool); i, sz = i+1, sz-1 {
			if r.Chance(8) {
				skipped = append(skipped, pool[i])
				continue
			}
			chunk = append(chunk, pool[i])
		}
		var batch []*rawCh
		for _, c := range chunk {
			batch = append(batch, c.raw)
		}
		switch x := r.Intn(100); {
		case x < 15:
			for a, b := 0, len(batch)-1; a < b; a, b = a+1, b-1 {
				batch[a], batch[b] = batch[b], batch[a]
			}
		case x < 30:
			r.Rand.Shuffle(len(batch), func(a, b int) { batch[a], batch[b] = batch[b], batch[a] })
		}
		tag := "plain"
		delivered = append(delivered, chunk...)
		if r.Chance(30) && len(batch) > 0 {
			// decoder-state direction: a structural mutant of the wrapper delivered IMMEDIATELY after the
			// (new, not yet attached) change it was derived from — as the next element of the same batch
			// or as the next call on the same tree instance
			var v *poolCh
			for _, c := range chunk {
				if c.raw == batch[len(batch)-1] {
					v = c
				}
			}
			if v != nil && v.p.decOK {
				ms := wrapperMutators
				if r.Chance(25) {
					ms = mutators
				}
				if mut := ms[r.Intn(len(ms))].make(tc, v.p, r.Chance(70)); mut != nil {
					r.Count("mutator." + mut.label)
					if r.Chance(50) {
						batch, tag = append(batch, mut), "mut.adjacent-same-batch"
					} else {
						deliver(batch, "plain")
						batch, tag = []*rawCh{mut}, "mut.adjacent-next-call"
						if r.Chance(30) {
							batch = append(batch, tc.buildChange(tc.pickAuthor(), tc.pickRecord(0, true), tc.tree.Heads(), tc.rootId))
						}
					}
				}
			}
		} else if r.Chance(60) && len(delivered) > 0 {
			// a mutant of a really-signed change: alone or inside the batch at front / middle / end
			v := delivered[r.Intn(len(delivered))]
			if v.p.decOK && !v.p.isRoot {
				m := mutators[r.Intn(len(mutators))]
				if r.Chance(30) {
					m = wrapperMutators[r.Intn(len(wrapperMutators))]
				}
				if mut := m.make(tc, v.p, r.Chance(50)); mut != nil {
					r.Count("mutator." + mut.label)
					switch x := r.Intn(100); {
					case x < 25:
						// alone, after the batch
						deliver(batch, "plain")
						batch, tag = []*rawCh{mut}, "mut.alone"
					case x < 50:
						batch, tag = append([]*rawCh{mut}, batch...), "mut.front"
					case x < 75 && len(batch) >= 2:
						k := 1 + r.Intn(len(batch)-1)
						nb := append([]*rawCh{}, batch[:k]...)
						nb = append(nb, mut)
						batch, tag = append(nb, batch[k:]...), "mut.middle"
					default:
						batch, tag = append(batch, mut), "mut.end"
					}
				}
			}
		} else if r.Chance(20) && len(delivered) > 0 {
			batch = append(batch, delivered[r.Intn(len(delivered))].raw)
			tag = "dup"
		}
		deliver(batch, tag)
		if r.Chance(15) && !tc.keyFilter && r.TimeLeft() {
			// the local path: AddContent by a random account (writers, readers, removed, outsiders)
			tc.content(tc.pickAuthor(), tc.exotic && r.Chance(30))
		}
		if tc.recvK < n && r.Chance(12) && r.TimeLeft() {
			tc.aclFault()
		}
		if r.Chance(10) {
			tc.reopen("mid")
		}
	}
	if len(skipped) > 0 {
		var batch []*rawCh
		for _, c := range skipped {
			batch = append(batch, c.raw)
		}
		deliver(batch, "late")
		// everything once more: orphans of the skipped ones can attach now
		batch = nil
		for _, c := range pool {
			batch = append(batch, c.raw)
		}
		deliver(batch, "redeliver-all")
	}
	if !tc.keyFilter && !tc.dead && r.Chance(50) && r.TimeLeft() {
		tc.directedMerge(deliver)
	}
	if tc.exotic && r.Chance(40) && r.TimeLeft() {
		// directed at the rebuild path: a change WITHOUT previous ids (attached vacuously, not reachable
		// from the root) by an account that may not write, next to a change that forces
		// rebuildFromStorage (its snapshot id is not in the tree); variants: the unreachable change has a
		// child in the batch, the forcing change is attachable or not
		x := tc.pickAuthor()
		if r.Chance(60) {
			x = w.byName["z"]
		}
		noPrev := tc.buildChange(x, tc.pickRecord(0, true), nil, tc.rootId)
		fake := realCid([]byte(fmt.Sprint("nosnap", tc.nextTs())))
		force := tc.buildChange(x, tc.pickRecord(0, true), []string{fake}, fake)
		batch := []*rawCh{noPrev, force}
		if r.Chance(50) {
			child := tc.buildChange(tc.pickAuthor(), tc.pickRecord(0, true), []string{noPrev.id}, tc.rootId)
			batch = append(batch, child)
		}
		if r.Chance(30) {
			batch[0], batch[1] = batch[1], batch[0]
		}
		r.Count("directed.noprev-with-rebuild")
		deliver(batch, "noprev-rebuild")
	}
	// full validation later, possibly after the receiver learnt the rest of the ACL log
	if r.Chance(60) || readdDirected {
		if tc.recvK < n && (r.Chance(70) || readdDirected) {
			tc.extendAcl(tc.recvK + 1 + r.Intn(n-tc.recvK))
			if !tc.dead && tc.reopen("after-acl-growth") && len(pool) > 0 && r.TimeLeft() {
				// one more batch after the growth: changes citing freshly known records
				hd := tc.tree.Heads()
				raw := tc.buildChange(tc.pickAuthor(), tc.pickRecord(0, true), hd, tc.rootId)
				deliver([]*rawCh{raw, pool[r.Intn(len(pool))].raw}, "after-acl-growth")
			}
		} else {
			tc.reopen("same-acl")
		}
	}
	r.Case(strings.Join(tc.ops, "\n"), okAdds > 0 && badAdds > 0)
	if okAdds > 0 && badAdds > 0 && caseNo%7 == 0 {
		r.Sample(map[string]any{"acl": w.cmds, "ops": tc.ops})
	}
}

var tmr = map[string]time.Duration{}

func timed(k string) func() {
	t := time.Now()
	return func() { tmr[k] += time.Since(t) }
}

// runValidateCase: a whole tree (root + changes + claimed heads) offered to ValidateRawTreeDefault.
func runValidateCase(h *harnessState, w *world) {
	defer timed("runValidateCase")()
	r := h.r
	tc := &treeCase{h: h, r: r, w: w}
	n := len(w.recs)
	tc.recvK = n
	if r.Chance(30) {
		tc.recvK = 1 + r.Intn(n)
	}
	tc.recvKeys = w.byName["o"].keys
	recv, fs, err := w.receiver(tc.recvK, tc.recvKeys)
	if err != nil {
		r.Fatal("receiver ACL: " + err.Error())
	}
	tc.recv, tc.recvStore = recv, fs
	tc.ask("reset")
	if got := tc.ask(tc.aclLine()); got != "ok" {
		r.Fatal("model rejected acl line: " + got)
	}
	var root *rawCh
	switch x := r.Intn(100); {
	case x < 20:
		root = tc.buildRoot(nil, "", true)
	case x < 80:
		root = tc.buildRoot(w.byName["o"], w.recs[r.Intn(min(2, tc.recvK))].Id, false)
	default:
		root = tc.buildRoot(tc.pickAuthor(), tc.pickRecord(0, true), false)
	}
	tc.rootId = root.id
	tc.attached = map[string]*parsed{}
	tc.builder = objecttree.NewChangeBuilder(crypto.NewKeyStorage(), root.proto())
	rootP := tc.parseRaw(root.id, root.body, root.id)
	rootP.label = root.label
	pool, goodHeads := tc.genPool(rootP)
	tampered := false
	if r.Chance(12) { // tampered root, after the pool was built over the genuine one
		if len(rootP.sig) > 0 {
			root = &rawCh{id: root.id, body: wrap(rootP.payload, flip(tc, rootP.sig)), label: "root.sig-flip/keepid"}
			tampered = true
		}
	}
	onlyGood := r.Chance(60)
	var batch []*rawCh
	var some *poolCh
	for _, c := range pool {
		if c.good || !onlyGood {
			batch = append(batch, c.raw)
		}
		if c.p.decOK {
			some = c
		}
	}
	tag := "good-only"
	if !onlyGood {
		tag = "mixed"
	}
	if tampered && r.Chance(50) {
		batch, goodHeads = nil, []string{tc.rootId} // a bare tampered root
	}
	if r.Chance(15) {
		r.Rand.Shuffle(len(batch), func(a, b int) { batch[a], batch[b] = batch[b], batch[a] })
	}
	if r.Chance(35) && some != nil {
		m := mutators[r.Intn(len(mutators))]
		tc.attached[tc.rootId] = rootP // mutators pick other parents from here
		if mut := m.make(tc, some.p, r.Chance(50)); mut != nil {
			r.Count("mutator." + mut.label)
			k := r.Intn(len(batch) + 1)
			nb := append([]*rawCh{}, batch[:k]...)
			nb = append(nb, mut)
			batch = append(nb, batch[k:]...)
			tag = "mutant"
		}
	}
	heads := append([]string(nil), goodHeads...)
	switch x := r.Intn(100); {
	case x < 10 && len(pool) > 0:
		heads = []string{pool[r.Intn(len(pool))].raw.id}
	case x < 15:
		heads = append(heads, tc.rootId)
	}
	tc.validate(root, batch, heads, tag)
	r.Case(strings.Join(tc.ops, "\n"), len(batch) >= 2)
}

func Run(r *corr.Run) {
	if os.Getenv("VERIF_AUTH_TIMING") != "" {
		defer func() { fmt.Fprintln(os.Stderr, "timing:", tmr) }()
	}
	r.SetRule("a case counts as non-trivial when, on one tree over one ACL history, at least one delivered batch was accepted (state changed) and at least one was rejected; distinctness = hash of the full op trace")
	h := newHarness(r)
	defer h.close()
	// corpus: every named ACL history once, then random ones
	var worlds []*world
	for k := 0; k < 8; k++ {
		func() { defer timed("world")(); worlds = append(worlds, buildHistory(r, k)) }()
	}
	perWorld := r.Pick(6, 40)
	caseNo := 0
	for round := 0; r.TimeLeft(); round++ {
		for _, w := range worlds {
			for i := 0; i < perWorld && r.TimeLeft(); i++ {
				if caseNo%4 == 3 {
					runValidateCase(h, w)
				} else {
					runCase(h, w, caseNo)
				}
				caseNo++
			}
		}
		// fresh histories with other random tails, fresh database
		h.openDB()
		worlds = worlds[:0]
		for k := 0; k < 8 && r.TimeLeft(); k++ {
			worlds = append(worlds, buildHistory(r, k))
		}
	}
}
