package auth

import (
	"crypto/ed25519"
	"crypto/sha256"
	"encoding/base32"
	"fmt"
	"sort"
	"strings"

	"github.com/anyproto/any-sync/commonspace/object/tree/treechangeproto"
	"github.com/anyproto/any-sync/util/cidutil"
	"github.com/anyproto/any-sync/util/crypto"
	"github.com/anyproto/any-sync/util/crypto/cryptoproto"
)

// interner maps real strings (ids, byte strings) to small integers for the line protocol.
type interner struct {
	m map[string]int
}

func newInterner() *interner { return &interner{m: map[string]int{}} }
func (in *interner) of(kind, s string) int {
	k := kind + "\x00" + s
	if v, ok := in.m[k]; ok {
		return v
	}
	v := len(in.m) + 1
	in.m[k] = v
	return v
}

// oracleCid recomputes the content id on its own: CIDv1, dag-cbor (0x71), sha2-256, base32 lower.
func oracleCid(b []byte) string {
	h := sha256.Sum256(b)
	buf := append([]byte{0x01, 0x71, 0x12, 0x20}, h[:]...)
	return "b" + strings.ToLower(base32.StdEncoding.WithPadding(base32.NoPadding).EncodeToString(buf))
}

type sigInfo struct {
	signer  int    // account index whose PRIVATE key produced it
	payload string // exact bytes that were signed
}

// parsed is the harness's own reading of one raw change.
type parsed struct {
	id      string
	body    []byte
	decOK   bool
	payload []byte
	sig     []byte
	isRoot  bool
	derived bool
	identOK bool
	pub     []byte // raw ed25519 key named by the payload
	acc     int    // account index (>= 1000: not an account of this world)
	aclHead string
	prev    []string
	snap    string
	isSnap  bool
	label   string // how the harness made it (evidence only)
}

// parseRaw mirrors only the *format*: outer RawTreeChange, then RootChange (iff the id is the
// tree's root id) or TreeChange, then the identity key.
func (tc *treeCase) parseRaw(id string, body []byte, rootId string) *parsed {
	p := &parsed{id: id, body: body, acc: -1}
	outer := &treechangeproto.RawTreeChange{}
	if body == nil {
		return p
	}
	if err := outer.UnmarshalVT(body); err != nil {
		return p
	}
	p.payload, p.sig = outer.Payload, outer.Signature
	var ident []byte
	if id == rootId {
		p.isRoot = true
		rc := &treechangeproto.RootChange{}
		if err := rc.UnmarshalVT(outer.Payload); err != nil {
			return p
		}
		p.derived = rc.IsDerived
		p.aclHead = rc.AclHeadId
		ident = rc.Identity
		p.snap = ""
		p.isSnap = true
		if p.derived {
			p.decOK = true
			return p
		}
	} else {
		ch := &treechangeproto.TreeChange{}
		if err := ch.UnmarshalVT(outer.Payload); err != nil {
			return p
		}
		p.aclHead, p.prev, p.snap, p.isSnap = ch.AclHeadId, ch.TreeHeadIds, ch.SnapshotBaseId, ch.IsSnapshot
		ident = ch.Identity
	}
	k := &cryptoproto.Key{}
	if err := k.UnmarshalVT(ident); err != nil {
		return p
	}
	if _, err := crypto.UnmarshalEd25519PublicKeyProto(ident); err != nil {
		return p
	}
	p.identOK = true
	p.pub = k.Data
	if a, ok := tc.w.byPub[string(k.Data)]; ok {
		p.acc = a.idx
	} else {
		p.acc = 1000 + tc.h.in.of("key", string(k.Data))
	}
	p.decOK = true
	return p
}

func wrap(payload, sig []byte) []byte {
	b, _ := (&treechangeproto.RawTreeChange{Payload: payload, Signature: sig}).MarshalVT()
	return b
}

// wrapSwapped encodes the same two fields in the opposite order (valid protobuf, other bytes).
func wrapSwapped(payload, sig []byte) []byte {
	var b []byte
	put := func(tag byte, v []byte) {
		b = append(b, tag)
		n := len(v)
		for n >= 0x80 {
			b = append(b, byte(n)|0x80)
			n >>= 7
		}
		b = append(b, byte(n))
		b = append(b, v...)
	}
	put(0x12, sig)
	put(0x0a, payload)
	return b
}

type pbField struct {
	tag byte // 0x0a = payload, 0x12 = signature (length-delimited), anything else is raw bytes appended as is
	v   []byte
}

// wrapFields hand-encodes a RawTreeChange from an arbitrary sequence of fields: absent, repeated,
// reordered, empty or unknown fields — the structure-level alterations of the wrapper.
func wrapFields(fs ...pbField) []byte {
	b := []byte{}
	for _, f := range fs {
		if f.tag != 0x0a && f.tag != 0x12 {
			b = append(b, f.v...)
			continue
		}
		b = append(b, f.tag)
		n := len(f.v)
		for n >= 0x80 {
			b = append(b, byte(n)|0x80)
			n >>= 7
		}
		b = append(b, byte(n))
		b = append(b, f.v...)
	}
	return b
}

func realCid(b []byte) string {
	s, _ := cidutil.NewCidFromBytes(b)
	return s
}

type rawCh struct {
	id    string
	body  []byte
	label string
}

func (rc *rawCh) proto() *treechangeproto.RawTreeChangeWithId {
	return &treechangeproto.RawTreeChangeWithId{Id: rc.id, RawChange: append([]byte(nil), rc.body...)}
}

// ---- symbolic rendering for the model ----

func (tc *treeCase) recNum(id string) int {
	if i := tc.w.recIndex(id, len(tc.w.recs)); i >= 0 {
		return i
	}
	return 1000 + tc.h.in.of("rec", id)
}

func (tc *treeCase) chNum(id string) int { return tc.h.in.of("ch", id) }

func (tc *treeCase) sigTerm(sig []byte) string {
	if len(sig) == 0 {
		return "N"
	}
	if si, ok := tc.h.sigs[string(sig)]; ok {
		return fmt.Sprintf("S.%d.%d", si.signer, tc.h.in.of("pl", si.payload))
	}
	return fmt.Sprintf("G.%d", tc.h.in.of("sig", string(sig)))
}

func joinInts(xs []int, sep string) string {
	if len(xs) == 0 {
		return "-"
	}
	s := make([]string, len(xs))
	for i, x := range xs {
		s[i] = fmt.Sprint(x)
	}
	return strings.Join(s, sep)
}

func b2i(b bool) int {
	if b {
		return 1
	}
	return 0
}

// wire renders a raw change as the model sees it: every value that came out of real crypto is
// data (cid of the bytes, which key signed which payload), every identifier is interned.
func (tc *treeCase) wire(p *parsed) string {
	cid := tc.chNum(realCid(p.body))
	f := []string{
		fmt.Sprintf("id=%d", tc.chNum(p.id)),
		fmt.Sprintf("cid=%d", cid),
		fmt.Sprintf("b=%d", tc.h.in.of("body", string(p.body))),
		fmt.Sprintf("dec=%d", b2i(p.decOK)),
	}
	if p.decOK {
		prev := make([]int, len(p.prev))
		for i, x := range p.prev {
			prev[i] = tc.chNum(x)
		}
		acc := p.acc
		if p.derived {
			acc = 0
		}
		f = append(f,
			fmt.Sprintf("p=%d", tc.h.in.of("pl", string(p.payload))),
			"sig="+tc.sigTerm(p.sig),
			fmt.Sprintf("der=%d", b2i(p.derived)),
			fmt.Sprintf("idt=%d", acc),
			fmt.Sprintf("acl=%d", tc.recNum(p.aclHead)),
			"prev="+joinInts(prev, "."),
			fmt.Sprintf("snap=%d", tc.chNum(p.snap)),
			fmt.Sprintf("iss=%d", b2i(p.isSnap)),
		)
	}
	return strings.Join(f, ",")
}

func sortedNums(tc *treeCase, ids []string) string {
	xs := make([]int, len(ids))
	for i, s := range ids {
		xs[i] = tc.chNum(s)
	}
	sort.Ints(xs)
	return joinInts(xs, ",")
}

func orderedNums(tc *treeCase, ids []string) string {
	xs := make([]int, len(ids))
	for i, s := range ids {
		xs[i] = tc.chNum(s)
	}
	return joinInts(xs, ",")
}

// oracleVerify checks an Ed25519 signature with the standard library only.
func oracleVerify(pub, msg, sig []byte) bool {
	if len(pub) != ed25519.PublicKeySize {
		return false
	}
	return ed25519.Verify(ed25519.PublicKey(pub), msg, sig)
}
