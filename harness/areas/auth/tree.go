package auth

import (
	"bytes"
	"context"
	"errors"
	"fmt"
	"os"
	"sort"
	"strings"
	"sync/atomic"

	anystore "github.com/anyproto/any-store"

	"github.com/anyproto/any-sync/commonspace/headsync/headstorage"
	"github.com/anyproto/any-sync/commonspace/object/accountdata"
	"github.com/anyproto/any-sync/commonspace/object/acl/list"
	"github.com/anyproto/any-sync/commonspace/object/tree/objecttree"
	"github.com/anyproto/any-sync/commonspace/object/tree/treechangeproto"
	"github.com/anyproto/any-sync/commonspace/object/tree/treestorage"
	"github.com/anyproto/any-sync/util/crypto"

	"verifharness/internal/corr"
)

// harnessState is shared by all cases of one run.
type harnessState struct {
	r    *corr.Run
	in   *interner
	sigs map[string]sigInfo
	ts   int64
	dir  string
	db   anystore.DB
	hs   headstorage.HeadStorage

	disagreements int
}

func newHarness(r *corr.Run) *harnessState {
	h := &harnessState{r: r, in: newInterner(), sigs: map[string]sigInfo{}, ts: 1_700_000_000}
	h.openDB()
	return h
}

// openDB gives the run a fresh any-store database (called again between rounds so that the
// changes collection does not grow without bound).
func (h *harnessState) openDB() {
	defer timed("openDB")()
	h.close()
	dir, err := os.MkdirTemp("", "verif-auth-*")
	if err != nil {
		h.r.Fatal("tempdir: " + err.Error())
	}
	h.dir = dir
	db, err := anystore.Open(context.Background(), dir+"/changes.db", &anystore.Config{SQLiteConnectionOptions: map[string]string{"synchronous": "off"}})
	if err != nil {
		os.RemoveAll(dir)
		h.r.Fatal("any-store open: " + err.Error())
	}
	h.db = db
	hs, err := headstorage.New(context.Background(), db)
	if err != nil {
		db.Close()
		os.RemoveAll(dir)
		h.r.Fatal("headstorage: " + err.Error())
	}
	h.hs = hs
}

func (h *harnessState) close() {
	if h.db != nil {
		h.db.Close()
		h.db = nil
	}
	if h.dir != "" {
		os.RemoveAll(h.dir)
		h.dir = ""
	}
}

// treeCase is one receiving tree over one receiver ACL.
type treeCase struct {
	h          *harnessState
	r          *corr.Run
	w          *world
	recvK      int
	recvKeys   *accountdata.AccountKeys
	recv       list.AclList
	rootId     string
	store      objecttree.Storage
	tree       objecttree.ObjectTree
	builder    objecttree.ChangeBuilder
	attached   map[string]*parsed // what the oracle knows to be attached (authentic versions)
	resync     bool               // outside the model (rebuild path, snapshot / reduce, empty previous ids, key filter): oracle only from here on
	keyFilter  bool               // tree built with BuildKeyFilterableObjectTree
	recvStore  *faultyAclStorage
	faults     int
	dead       bool // the receiver ACL is unusable, stop this case
	lastStatus string
	keyIds     []string // read key ids the receiver can decrypt
	exotic     bool     // generate snapshot changes and changes without previous ids
	ops        []string // model lines sent so far (replay)
}

// check records a model/implementation disagreement; after a few of them only counts, so that the
// (bounded) issue list keeps room for oracle violations, which carry the failing input.
func (tc *treeCase) check(stream, model, impl string) {
	if model == impl {
		return
	}
	if tc.h.disagreements >= 6 {
		tc.r.Count("disagreements.not-listed")
		return
	}
	tc.h.disagreements++
	tc.r.Check("C02", stream, append([]string{"# acl history: " + strings.Join(tc.w.cmds, " ; ")}, tc.ops...), model, impl)
}

func (tc *treeCase) violate(stream, desc string) {
	if tc.lastStatus != "" {
		desc += " {" + tc.lastStatus + "}"
	}
	tc.r.Violate("C02", "", stream, desc, append([]string{"# acl history: " + strings.Join(tc.w.cmds, " ; ")}, tc.ops...))
}

func (tc *treeCase) ask(line string) string {
	defer timed("model")()
	tc.ops = append(tc.ops, line)
	return tc.r.Ask(line)
}

// aclLine renders the receiver's record log: `acl <rec>:<eff>/<eff>…  …`
func (tc *treeCase) aclLine() string {
	var parts []string
	for i := 0; i < tc.recvK; i++ {
		var es []string
		for _, e := range tc.w.effs[i] {
			switch e.kind {
			case 't':
				es = append(es, fmt.Sprintf("t%d", e.acc))
			default:
				es = append(es, fmt.Sprintf("%c%d=%d", e.kind, e.acc, e.perm))
			}
		}
		s := "-"
		if len(es) > 0 {
			s = strings.Join(es, "/")
		}
		parts = append(parts, fmt.Sprintf("%d:%s", i, s))
	}
	return "acl " + strings.Join(parts, " ")
}

func (tc *treeCase) sign(a *acct, payload []byte) []byte {
	sig, err := a.keys.SignKey.Sign(payload)
	if err != nil {
		tc.r.Fatal("sign: " + err.Error())
	}
	tc.h.sigs[string(sig)] = sigInfo{signer: a.idx, payload: string(payload)}
	return sig
}

// noteSig registers the signature of a change made by the real builder.
func (tc *treeCase) noteSig(a *acct, body []byte) {
	outer := &treechangeproto.RawTreeChange{}
	if err := outer.UnmarshalVT(body); err == nil && len(outer.Signature) > 0 {
		tc.h.sigs[string(outer.Signature)] = sigInfo{signer: a.idx, payload: string(outer.Payload)}
	}
}

func (tc *treeCase) nextTs() int64 { tc.h.ts++; return tc.h.ts }

// buildRoot uses the REAL builder.
func (tc *treeCase) buildRoot(a *acct, aclHead string, derived bool) *rawCh {
	cb := objecttree.NewChangeBuilder(crypto.NewKeyStorage(), nil)
	if derived {
		_, raw, err := cb.BuildDerivedRoot(objecttree.InitialDerivedContent{SpaceId: "spaceId", ChangeType: "t", ChangePayload: []byte(fmt.Sprint(tc.nextTs()))})
		if err != nil {
			tc.r.Fatal("BuildDerivedRoot: " + err.Error())
		}
		return &rawCh{id: raw.Id, body: raw.RawChange, label: "root.derived"}
	}
	_, raw, err := cb.BuildRoot(objecttree.InitialContent{AclHeadId: aclHead, PrivKey: a.keys.SignKey, SpaceId: "spaceId",
		Seed: []byte(fmt.Sprint(tc.nextTs())), ChangeType: "t", Timestamp: tc.nextTs()})
	if err != nil {
		tc.r.Fatal("BuildRoot: " + err.Error())
	}
	tc.noteSig(a, raw.RawChange)
	return &rawCh{id: raw.Id, body: raw.RawChange, label: "root"}
}

// buildOpts: the less usual shapes of a change
type buildOpts struct {
	isSnapshot bool
	readKeyId  string // non-empty: encrypted change naming this read key
}

// buildChange uses the REAL builder, signed by the author's real key.
func (tc *treeCase) buildChange(a *acct, aclHead string, prev []string, snap string, opts ...buildOpts) *rawCh {
	var o buildOpts
	if len(opts) > 0 {
		o = opts[0]
	}
	bc := objecttree.BuilderContent{
		TreeHeadIds: append([]string(nil), prev...), AclHeadId: aclHead, SnapshotBaseId: snap, IsSnapshot: o.isSnapshot,
		Unencrypted: true, PrivKey: a.keys.SignKey, Content: []byte(fmt.Sprint("d", tc.nextTs())), Timestamp: tc.nextTs(), DataType: "t",
	}
	if o.readKeyId != "" {
		bc.Unencrypted, bc.ReadKeyId, bc.ReadKey = false, o.readKeyId, crypto.NewAES()
	}
	_, raw, err := tc.builder.Build(bc)
	if err != nil {
		tc.r.Fatal("Build: " + err.Error())
	}
	tc.noteSig(a, raw.RawChange)
	label := "valid"
	if o.isSnapshot {
		label = "valid.snapshot"
	}
	return &rawCh{id: raw.Id, body: raw.RawChange, label: label}
}

// ---- error enum ----

func classify(err error) string {
	if err == nil {
		return "ok"
	}
	s := err.Error()
	switch {
	case errors.Is(err, objecttree.ErrIncorrectCid):
		return "cid"
	case errors.Is(err, objecttree.ErrIncorrectSignature):
		return "sig"
	case errors.Is(err, list.ErrNoSuchRecord):
		return "norecord"
	case errors.Is(err, list.ErrNoSuchAccount):
		return "noaccount"
	case errors.Is(err, list.ErrInsufficientPermissions):
		return "noperm"
	case strings.Contains(s, "should be after each of the previous ones"):
		return "aclorder"
	case strings.Contains(s, "not all entries are there"):
		return "aclorder-unknown"
	case errors.Is(err, objecttree.ErrDerived):
		return "derived-empty"
	case errors.Is(err, objecttree.ErrEmptyChange):
		return "empty"
	case strings.Contains(s, "proto:") || strings.Contains(s, "unexpected EOF") || strings.Contains(s, "invalid ed25519") ||
		strings.Contains(s, "expect ed25519") || strings.Contains(s, "incorrect key type") || strings.Contains(s, "wiretype") ||
		strings.Contains(s, "illegal tag") || strings.Contains(s, "invalid length") || strings.Contains(s, "integer overflow"):
		return "decode"
	case errors.Is(err, objecttree.ErrHasInvalidChanges):
		return "invalid"
	}
	return "other:" + s
}

// ---- observation ----

type obs struct {
	heads  []string
	iter   []string
	stIds  []string
	stDump string
	stHead []string
}

func (tc *treeCase) observe() obs {
	defer timed("observe")()
	var o obs
	ctx := context.Background()
	o.heads = append([]string(nil), tc.tree.Heads()...)
	tc.tree.IterateRoot(nil, func(c *objecttree.Change) bool { o.iter = append(o.iter, c.Id); return true })
	var dump []string
	tc.store.GetAfterOrder(ctx, "", func(ctx context.Context, sc objecttree.StorageChange) (bool, error) {
		o.stIds = append(o.stIds, sc.Id)
		dump = append(dump, fmt.Sprintf("%s|%s|%x|%v|%s", sc.Id, sc.OrderId, sc.RawChange, sc.PrevIds, sc.SnapshotId))
		return true, nil
	})
	o.stDump = strings.Join(dump, "\n")
	sh, _ := tc.store.Heads(ctx)
	o.stHead = append([]string(nil), sh...)
	sort.Strings(o.stHead)
	return o
}

// diff names what differs between two observations (interned ids)
func (o obs) diff(tc *treeCase, p obs) string {
	var d []string
	if strings.Join(o.heads, ",") != strings.Join(p.heads, ",") {
		d = append(d, fmt.Sprintf("heads %s -> %s", orderedNums(tc, o.heads), orderedNums(tc, p.heads)))
	}
	if strings.Join(o.iter, ",") != strings.Join(p.iter, ",") {
		d = append(d, fmt.Sprintf("iteration %s -> %s", orderedNums(tc, o.iter), orderedNums(tc, p.iter)))
	}
	if o.stDump != p.stDump {
		d = append(d, fmt.Sprintf("storage %s -> %s", orderedNums(tc, o.stIds), orderedNums(tc, p.stIds)))
	}
	if strings.Join(o.stHead, ",") != strings.Join(p.stHead, ",") {
		d = append(d, fmt.Sprintf("stored heads %s -> %s", orderedNums(tc, o.stHead), orderedNums(tc, p.stHead)))
	}
	return strings.Join(d, "; ")
}

func (o obs) exact() string {
	return strings.Join(o.heads, ",") + "#" + strings.Join(o.iter, ",") + "#" + o.stDump + "#" + strings.Join(o.stHead, ",")
}

func (tc *treeCase) post(o obs) string {
	return fmt.Sprintf("h=%s a=%s s=%s sh=%s", sortedNums(tc, o.heads), sortedNums(tc, o.iter), sortedNums(tc, o.stIds), sortedNums(tc, o.stHead))
}

// ---- oracle ----

// authentic is C02's acceptance predicate computed by the harness on its own: content id,
// signature (std-lib Ed25519), cited record known locally, the oracle's permAt, ACL-head
// monotonicity against the parents. `env` maps ids to what is / will be attached.
func (tc *treeCase) authentic(p *parsed, env map[string]*parsed) (bool, string) {
	if oracleCid(p.body) != p.id {
		return false, "id is not the content hash of the bytes"
	}
	if !p.decOK {
		if len(p.payload) == 0 {
			return false, "its bytes carry no payload: no author is named and nothing is signed"
		}
		return false, "bytes do not decode"
	}
	if p.isRoot && p.derived {
		return true, ""
	}
	if !oracleVerify(p.pub, p.payload, p.sig) {
		return false, "signature does not verify under the named identity"
	}
	idx := tc.w.recIndex(p.aclHead, tc.recvK)
	if idx < 0 {
		return false, "cited ACL record does not exist locally (not a stored and applied record of the receiver's log)"
	}
	if p.acc >= 1000 || !oracleCanWrite(tc.w.permAt(idx, p.acc)) {
		return false, "identity had no write permission at the cited record"
	}
	if p.isRoot {
		return true, ""
	}
	for _, pid := range p.prev {
		par, ok := env[pid]
		if !ok {
			return false, "parent " + pid + " is not attached"
		}
		if par.isRoot && par.derived {
			continue
		}
		pidx := tc.w.recIndex(par.aclHead, tc.recvK)
		if pidx < 0 || pidx > idx {
			return false, "cited ACL record is older than a parent's"
		}
	}
	return true, ""
}

// checkNew applies the only-if direction to everything that became attached or stored.
func (tc *treeCase) checkNew(stream string, before, after obs, delivered []*parsed) {
	was := map[string]bool{}
	for _, id := range before.iter {
		was[id] = true
	}
	for _, id := range before.stIds {
		was[id] = true
	}
	env := map[string]*parsed{}
	for k, v := range tc.attached {
		env[k] = v
	}
	cand := map[string]*parsed{}
	for _, p := range delivered {
		if oracleCid(p.body) == p.id {
			if _, ok := cand[p.id]; !ok {
				cand[p.id] = p
			}
		}
	}
	newIds := map[string]bool{}
	for _, id := range append(append([]string{}, after.iter...), after.stIds...) {
		if !was[id] {
			newIds[id] = true
		}
	}
	ids := make([]string, 0, len(newIds))
	for id := range newIds {
		ids = append(ids, id)
		if c, ok := cand[id]; ok {
			env[id] = c
		}
	}
	sort.Strings(ids)
	for _, id := range ids {
		c, ok := cand[id]
		if !ok {
			what := "no delivered raw change carries that id"
			for _, p := range delivered {
				if p.id == id {
					what = fmt.Sprintf("its id is not THE content id of its bytes (%s; canonical id is %d)", p.label, tc.chNum(oracleCid(p.body)))
				}
			}
			tc.violate(stream, fmt.Sprintf("change %d became part of the tree although %s", tc.chNum(id), what))
			continue
		}
		if ok, why := tc.authentic(c, env); !ok {
			where := ""
			for _, x := range after.iter {
				if x == id {
					where += " [in IterateRoot]"
				}
			}
			for _, x := range after.stIds {
				if x == id {
					where += " [in storage]"
				}
			}
			tc.violate(stream, fmt.Sprintf("change %d (%s) was attached/persisted%s although %s", tc.chNum(id), c.label, where, why))
			continue
		}
		tc.attached[id] = c
		// persisted bytes must be the authentic bytes
		if sc, err := tc.store.Get(context.Background(), id); err == nil {
			if !bytes.Equal(sc.RawChange, c.body) {
				tc.violate(stream, fmt.Sprintf("stored bytes of change %d differ from the authentic bytes", tc.chNum(id)))
			}
		}
	}
	// the in-memory change must carry the authenticated fields
	tc.tree.IterateRoot(nil, func(c *objecttree.Change) bool {
		if !newIds[c.Id] {
			return true
		}
		p, ok := cand[c.Id]
		if !ok || !p.decOK {
			return true
		}
		if c.AclHeadId != p.aclHead || strings.Join(sortedCopy(c.PreviousIds), ",") != strings.Join(sortedCopy(p.prev), ",") ||
			(c.Identity != nil && !bytes.Equal(c.Identity.Storage(), p.pub)) || !bytes.Equal(c.Signature, p.sig) {
			tc.violate(stream, fmt.Sprintf("in-memory change %d does not carry the fields of its authentic bytes", tc.chNum(c.Id)))
		}
		return true
	})
}

func sortedCopy(x []string) []string {
	y := append([]string(nil), x...)
	sort.Strings(y)
	return y
}

// ---- operations ----

type addSeqSetter interface{ SetAddSeq(*atomic.Uint64) }

func (tc *treeCase) buildTree(st objecttree.Storage) (objecttree.ObjectTree, error) {
	if tc.keyFilter {
		return objecttree.BuildKeyFilterableObjectTree(st, tc.recv)
	}
	return objecttree.BuildObjectTree(st, tc.recv)
}

// open creates storage for the root and builds the real verifying tree (full validation).
func (tc *treeCase) open(root *rawCh) bool {
	ctx := context.Background()
	tc.rootId = root.id
	tc.attached = map[string]*parsed{}
	p := tc.parseRaw(root.id, root.body, root.id)
	p.label = root.label
	model := tc.ask("tree " + tc.wire(p))
	var impl string
	stopOpen := timed("open")
	defer stopOpen()
	st, err := objecttree.CreateStorage(ctx, root.proto(), tc.h.hs, tc.h.db)
	if err != nil {
		impl = "err:" + classify(err)
	} else {
		if s, ok := st.(addSeqSetter); ok {
			s.SetAddSeq(&atomic.Uint64{})
		}
		tc.store = st
		tr, err := tc.buildTree(st)
		if err != nil {
			impl = "err:" + classify(err)
		} else {
			tc.tree = tr
			impl = "ok"
		}
	}
	if !tc.resync {
		tc.check("auth.tree", model, impl)
	}
	tc.r.Count("tree." + impl)
	tc.r.Count("tree.root." + root.label)
	okA, why := tc.authentic(p, nil)
	if impl == "ok" {
		if !okA {
			tc.violate("auth.tree.oracle", "tree was built over root ("+root.label+") although "+why)
		}
		tc.attached[root.id] = p
		tc.builder = objecttree.NewChangeBuilder(crypto.NewKeyStorage(), root.proto())
		return true
	}
	if okA {
		tc.r.Count("oracle.valid-root-rejected." + impl)
	}
	return false
}

// add delivers one batch through the real AddRawChanges.
func (tc *treeCase) add(batch []*rawCh, tag string) string {
	ctx := context.Background()
	var ps []*parsed
	var wires []string
	var raws []*treechangeproto.RawTreeChangeWithId
	for _, rc := range batch {
		p := tc.parseRaw(rc.id, rc.body, tc.rootId)
		p.label = rc.label
		ps = append(ps, p)
		wires = append(wires, tc.wire(p))
		raws = append(raws, rc.proto())
	}
	for _, p := range ps {
		if p.decOK && !p.isRoot && p.isSnap && !tc.resync {
			// snapshot changes (tree reduction) are outside the model
			tc.resync = true
			tc.r.Count("unmodelled.snapshot")
		}
	}
	before := tc.observe()
	line := "add " + strings.Join(wires, " ")
	model := tc.ask(line)
	var res objecttree.AddResult
	var err error
	func() {
		defer func() {
			if rec := recover(); rec != nil {
				err = fmt.Errorf("panic: %v", rec)
			}
		}()
		tc.tree.Lock()
		defer tc.tree.Unlock()
		defer timed("AddRawChanges")()
		res, err = tc.tree.AddRawChanges(ctx, objecttree.RawChangesPayload{NewHeads: nil, RawChanges: raws})
	}()
	after := tc.observe()
	status := classify(err)
	var added []string
	for _, a := range res.Added {
		added = append(added, a.Id)
	}
	impl := fmt.Sprintf("%s add=%s %s br=n", status, orderedNums(tc, added), tc.post(after))
	if strings.HasSuffix(model, " br=r") {
		// the model says the batch takes the rebuildFromStorage branch: there the real code validates in
		// iteration order and collects the new changes from a Go map, so only ok / err and the SET of
		// added ids are compared
		st := status
		if st != "ok" {
			st = "err"
		}
		impl = fmt.Sprintf("%s add=%s %s br=r", st, sortedNums(tc, added), tc.post(after))
		tc.r.Count("rebuild-branch." + st)
		// which of two new changes attaches first decides whether a change naming the other one as its
		// snapshot is kept or dropped (Go map order): such batches are judged by the oracle only
		newIds := map[string]bool{}
		for _, p := range ps {
			if _, att := tc.attached[p.id]; !att {
				newIds[p.id] = true
			}
		}
		for _, p := range ps {
			if p.decOK && !p.isRoot && p.snap != tc.rootId && newIds[p.snap] && !tc.resync {
				tc.resync = true
				tc.r.Count("unmodelled.rebuild.order-dependent")
			}
		}
	}
	if !tc.resync {
		if strings.HasSuffix(model, " br=r") {
			tc.r.Count("rebuild-branch.compared")
		}
		tc.check("auth.add", model, impl)
	}
	tc.r.Count("add.outcome." + strings.SplitN(status, ":", 2)[0])
	tc.r.Count("add.ctx." + tag)
	if tc.keyFilter {
		tc.r.Count(fmt.Sprintf("add.keyfilter.%s.added=%d", strings.SplitN(status, ":", 2)[0], min(len(added), 2)))
	}
	if tc.exotic {
		tc.r.Count(fmt.Sprintf("add.exotic.%s.added=%d", strings.SplitN(status, ":", 2)[0], min(len(added), 2)))
	}
	// oracle 1: only authentic changes become attached / persisted
	tc.lastStatus = fmt.Sprintf("status=%s added=%s heads=%s", status, orderedNums(tc, added), sortedNums(tc, after.heads))
	tc.checkNew("auth.add.oracle", before, after, ps)
	// oracle 2: a rejected batch is a no-op on heads, iteration order, storage
	if err != nil && before.exact() != after.exact() {
		tc.violate("auth.add.noop", "a rejected batch ("+status+") changed "+before.diff(tc, after))
	}
	if err == nil && len(added) == 0 && before.exact() != after.exact() {
		// not a rejected batch in the API sense (no error), so not judged by C02; reported to the
		// integrator: a batch that adds nothing moved heads / iteration (reload drops a stored change)
		tc.r.Count("observation.empty-ok-batch-changed-state")
	}
	// oracle 3 (consistency of the reply): on success the reported additions are what became attached and stored
	if err == nil {
		was := map[string]bool{}
		for _, id := range before.stIds {
			was[id] = true
		}
		var newSt []string
		for _, id := range after.stIds {
			if !was[id] {
				newSt = append(newSt, id)
			}
		}
		if strings.Join(sortedCopy(newSt), ",") != strings.Join(sortedCopy(added), ",") {
			tc.violate("auth.add.result", "AddResult.Added differs from what was persisted")
		}
	}
	// evidence: authentic changes that did not make it (never a C02 violation: C02 is only-if)
	env := map[string]*parsed{}
	for k, v := range tc.attached {
		env[k] = v
	}
	allAuth := len(ps) > 0
	for _, p := range ps {
		if _, in := tc.attached[p.id]; in {
			continue
		}
		if ok, _ := tc.authentic(p, env); ok && (p.isRoot || p.snap == tc.rootId) {
			tc.r.Count("oracle.authentic-not-attached." + strings.SplitN(status, ":", 2)[0])
			env[p.id] = p
		} else {
			allAuth = false
		}
	}
	if allAuth && err != nil {
		// every delivered change satisfies the property's conditions, yet the batch was refused:
		// valid changes lost (only F-acl-readd is known to cause this)
		k := "other"
		if tc.w.hasReadd {
			k = "readd-history"
		}
		tc.r.Count("oracle.all-authentic-batch-rejected." + k + "." + status)
	}
	return status
}

// reopen rebuilds the tree from storage: full validation of everything stored.
func (tc *treeCase) reopen(tag string) bool {
	model := tc.ask("reopen")
	tr, err := tc.buildTree(tc.store)
	impl := "ok"
	if err != nil {
		impl = "err"
	}
	if !tc.resync {
		tc.check("auth.reopen", model, impl)
	}
	tc.r.Count("reopen." + tag + "." + impl)
	if err != nil {
		// every stored change was authentic when it was stored; count what full validation now loses
		cls := classify(err)
		tc.r.Count("oracle.reopen-lost-valid." + cls)
		if tc.w.hasReadd {
			tc.r.Count("finding.F-acl-readd.candidate")
		}
		return false
	}
	tc.tree = tr
	o := tc.observe()
	for _, id := range o.iter {
		if _, ok := tc.attached[id]; !ok {
			tc.violate("auth.reopen.oracle", fmt.Sprintf("change %d is in the reopened tree but was never authenticated", tc.chNum(id)))
		}
	}
	return true
}

// aclFault offers the receiver the NEXT record of the log while its record storage refuses the
// write, then delivers a change citing exactly that record (preferably by an account whose
// permission that record changes). The record was refused, is not stored and not applied: it does
// not exist locally, so the change must be refused too.
func (tc *treeCase) aclFault() {
	if tc.recvK >= len(tc.w.recs) || tc.recvStore == nil || tc.tree == nil {
		return
	}
	rec := tc.w.recs[tc.recvK]
	tc.recvStore.failAdd = true
	tc.recv.Lock()
	err := tc.recv.AddRawRecord(rec)
	tc.recv.Unlock()
	tc.recvStore.failAdd = false
	if err == nil {
		tc.r.Count("acl.fault.not-reported")
		return
	}
	if h, _ := tc.recvStore.Head(context.Background()); h != tc.w.recs[tc.recvK-1].Id {
		tc.r.Fatal("fault-injecting ACL storage moved its head")
	}
	if got := tc.ask(fmt.Sprintf("aclfault %d", tc.recvK)); got != "ok" {
		tc.r.Fatal("model rejected aclfault: " + got)
	}
	tc.r.Count("acl.fault")
	tc.faults++
	author := tc.pickAuthor()
	for _, e := range tc.w.effs[tc.recvK] {
		if a := tc.w.accts[e.acc]; a.keys != nil && tc.r.Chance(70) {
			author = a
		}
	}
	if tc.r.Chance(30) {
		author = tc.w.byName["o"]
	}
	raw := tc.buildChange(author, rec.Id, tc.tree.Heads(), tc.rootId)
	raw.label = "valid.cites-unstored-record"
	tc.add([]*rawCh{raw}, "after-acl-fault")
	if !tc.keyFilter && tc.r.Chance(40) {
		// the local path cites the list's head: it must still be the stored head
		tc.content(tc.w.byName["o"], false)
	}
}

// extendAcl gives the receiver the rest of the record log.
func (tc *treeCase) extendAcl(k int) {
	if k <= tc.recvK {
		return
	}
	tc.recv.Lock()
	err := tc.recv.AddRawRecords(tc.w.recs[tc.recvK:k])
	tc.recv.Unlock()
	if err != nil {
		if tc.faults == 0 {
			tc.r.Fatal("receiver AddRawRecords: " + err.Error())
		}
		// after an injected storage fault the list no longer takes the rest of the log: the receiver
		// is stuck (ACL atomicity is C03's business); this tree cannot be continued
		tc.r.Count("acl.extend-failed-after-fault")
		tc.dead = true
		return
	}
	tc.recvK = k
	if got := tc.ask(tc.aclLine()); got != "ok" {
		tc.r.Fatal("model rejected acl line: " + got)
	}
	tc.r.Count("acl.extended")
}

// ---- whole-tree validation (the path by which a tree received from a peer is admitted) ----

type storageCreator struct{ h *harnessState }

func (s storageCreator) CreateTreeStorage(ctx context.Context, payload treestorage.TreeStorageCreatePayload) (objecttree.Storage, error) {
	st, err := objecttree.CreateStorage(ctx, payload.RootRawChange, s.h.hs, s.h.db)
	if err != nil {
		return nil, err
	}
	if x, ok := st.(addSeqSetter); ok {
		x.SetAddSeq(&atomic.Uint64{})
	}
	return st, nil
}

func (s storageCreator) CreateStorageWithDeferredCreation(ctx context.Context, payload treestorage.TreeStorageCreatePayload) (objecttree.Storage, error) {
	st, err := objecttree.CreateStorageWithDeferredCreation(ctx, payload.RootRawChange, s.h.hs, s.h.db)
	if err != nil {
		return nil, err
	}
	if x, ok := st.(addSeqSetter); ok {
		x.SetAddSeq(&atomic.Uint64{})
	}
	return st, nil
}

// validate runs the REAL ValidateRawTreeDefault (empty-data verifying builder, full validation,
// heads comparison) on a root plus changes claimed to have the given heads.
func (tc *treeCase) validate(root *rawCh, batch []*rawCh, heads []string, tag string) {
	tc.rootId = root.id
	tc.attached = map[string]*parsed{}
	rp := tc.parseRaw(root.id, root.body, root.id)
	rp.label = root.label
	ps := []*parsed{rp}
	wires := []string{tc.wire(rp)}
	var raws []*treechangeproto.RawTreeChangeWithId
	for _, rc := range batch {
		p := tc.parseRaw(rc.id, rc.body, root.id)
		p.label = rc.label
		ps = append(ps, p)
		wires = append(wires, tc.wire(p))
		raws = append(raws, rc.proto())
	}
	hn := make([]int, len(heads))
	for i, x := range heads {
		hn[i] = tc.chNum(x)
	}
	model := tc.ask("validate heads=" + joinInts(hn, ".") + " " + strings.Join(wires, " "))
	var tr objecttree.ObjectTree
	var err error
	func() {
		defer func() {
			if rec := recover(); rec != nil {
				err = fmt.Errorf("panic: %v", rec)
			}
		}()
		tr, err = objecttree.ValidateRawTreeDefault(treestorage.TreeStorageCreatePayload{
			RootRawChange: root.proto(), Changes: raws, Heads: append([]string(nil), heads...),
		}, storageCreator{tc.h}, tc.recv)
	}()
	impl := "err:" + classify(err)
	var iter []string
	if err == nil {
		tr.IterateRoot(nil, func(c *objecttree.Change) bool { iter = append(iter, c.Id); return true })
		impl = "ok a=" + sortedNums(tc, iter)
	}
	foreign := false
	for _, p := range ps {
		if p.decOK && !p.isRoot && p.snap != root.id {
			foreign = true
		}
	}
	if foreign || model == "rebuild" {
		// a change naming a snapshot other than the root: the rebuild branch inside whole-tree
		// validation is judged by the oracle only
		tc.r.Count("unmodelled.rebuild.validate")
	} else {
		tc.check("auth.validate", model, impl)
	}
	tc.r.Count("validate." + tag + "." + strings.SplitN(impl, " ", 2)[0])
	if err != nil {
		return
	}
	cand := map[string]*parsed{}
	for _, p := range ps {
		if oracleCid(p.body) == p.id {
			if _, ok := cand[p.id]; !ok {
				cand[p.id] = p
			}
		}
	}
	env := map[string]*parsed{}
	for _, id := range iter {
		if c, ok := cand[id]; ok {
			env[id] = c
		}
	}
	for _, id := range iter {
		c, ok := cand[id]
		if !ok {
			tc.violate("auth.validate.oracle", fmt.Sprintf("change %d is in the validated tree but no supplied raw change has that id as the hash of its bytes", tc.chNum(id)))
			continue
		}
		if ok, why := tc.authentic(c, env); !ok {
			tc.violate("auth.validate.oracle", fmt.Sprintf("whole-tree validation admitted change %d (%s) although %s", tc.chNum(id), c.label, why))
		}
	}
}

// content adds a change through the LOCAL path (AddContent): the real tree builds, signs and
// validates it itself. The local path must also refuse an author who cannot write.
func (tc *treeCase) content(a *acct, snapshot bool) {
	ctx := context.Background()
	before := tc.observe()
	var res objecttree.AddResult
	var err error
	func() {
		defer func() {
			if rec := recover(); rec != nil {
				err = fmt.Errorf("panic: %v", rec)
			}
		}()
		tc.tree.Lock()
		defer tc.tree.Unlock()
		res, err = tc.tree.AddContent(ctx, objecttree.SignableChangeContent{
			Data: []byte(fmt.Sprint("local", tc.nextTs())), Key: a.keys.SignKey, IsSnapshot: snapshot,
			ShouldBeEncrypted: false, Timestamp: tc.nextTs(), DataType: "t"})
	}()
	after := tc.observe()
	status := classify(err)
	var ps []*parsed
	var added []string
	for _, sc := range res.Added {
		added = append(added, sc.Id)
		tc.noteSig(a, sc.RawChange)
		p := tc.parseRaw(sc.Id, sc.RawChange, tc.rootId)
		p.label = "local"
		ps = append(ps, p)
	}
	idn := 0
	if len(added) == 1 {
		idn = tc.chNum(added[0])
	}
	if snapshot && !tc.resync {
		tc.resync = true
		tc.r.Count("unmodelled.snapshot")
	}
	model := tc.ask(fmt.Sprintf("content id=%d acc=%d", idn, a.idx))
	impl := fmt.Sprintf("%s add=%s %s", status, orderedNums(tc, added), tc.post(after))
	if !tc.resync {
		tc.check("auth.content", model, impl)
	}
	tc.r.Count("content." + strings.SplitN(status, ":", 2)[0])
	tc.checkNew("auth.content.oracle", before, after, ps)
	if err != nil && before.exact() != after.exact() {
		tc.violate("auth.content.noop", "a refused local change ("+status+") changed heads / iteration / storage")
	}
	if err == nil {
		// the local author must be the key that was handed in, citing the receiver's current ACL head
		if len(ps) != 1 || !ps[0].decOK || ps[0].acc != a.idx || ps[0].aclHead != tc.w.recs[tc.recvK-1].Id {
			tc.violate("auth.content.oracle", "the locally added change does not name the signing account / the current ACL head")
		}
	}
}
