package acl

// Directed histories, run first in every check regardless of the seed: the known bypass routes and
// one record on each side of the owner-only / manager-only guards. They go through exactly the same
// machinery as the random walks (real list, model comparison, oracle).

type op struct {
	author int
	cs     []content
}

func one(author int, c content) op { return op{author, []content{c}} }

func add(ps ...pair) content { return content{K: "add", Pairs: ps} }

func full(accs ...int) *rkc { return &rkc{MdOK: true, HasMeta: true, HasOld: true, Accs: accs} }

// owner is account 0 in every script; record ids are the positions in the script (root = 0).
var scripts = map[string][]op{
	"accept-remove-request": {
		one(0, add(pair{1, pAdmin}, pair{2, pAdmin}, pair{5, pGuest})), // 1
		one(2, content{K: "rrm"}),                                      // 2
		one(1, content{K: "acc", Acc: 2, Rec: 2, Perm: pReader}),       // admin accepts a remove request
		one(0, content{K: "acc", Acc: 2, Rec: 2, Perm: pReader}),       // even the owner cannot "accept" it
		one(2, content{K: "can", Rec: 2}),
	},
	"accept-stale-join-request": {
		one(0, add(pair{1, pAdmin})),                                    // 1
		one(0, content{K: "inv", Typ: 0, Key: 0}),                       // 2
		one(3, content{K: "rjn", Acc: 3, Rec: 2, SigKey: 0, SigAcc: 3}), // 3
		one(0, add(pair{3, pAdmin})),                                    // 4: admitted by another route
		one(1, content{K: "acc", Acc: 3, Rec: 3, Perm: pReader}),        // stale accept by an admin
		one(0, content{K: "own", Acc: 3, Perm: pWriter}),                // 3 becomes the owner
		one(1, content{K: "acc", Acc: 3, Rec: 3, Perm: pReader}),        // would leave no owner
		one(1, content{K: "dec", Rec: 3}),                               // decline is still possible
	},
	"guest-rules": {
		one(0, add(pair{1, pAdmin}, pair{5, pGuest}, pair{4, pReader})), // 1
		one(0, content{K: "own", Acc: 5, Perm: pWriter}),                // ownership to a guest
		one(1, content{K: "pc", Acc: 5, Perm: pWriter}),
		one(0, content{K: "pc", Acc: 5, Perm: pReader}),
		one(1, content{K: "pc", Acc: 4, Perm: pGuest}), // reader -> guest is the one allowed way in
		one(5, content{K: "rrm"}),                      // a guest cannot ask to leave
		one(1, content{K: "rem", Accs: []int{5}, Rk: full(0, 1, 4)}),
	},
	"admin-role-owner-only": {
		one(0, add(pair{1, pAdmin}, pair{2, pAdmin}, pair{3, pWriter})), // 1
		one(1, content{K: "pc", Acc: 2, Perm: pWriter}),
		one(1, content{K: "pc", Acc: 3, Perm: pAdmin}),
		one(1, add(pair{6, pAdmin})),
		one(1, content{K: "inv", Typ: 1, Perm: pAdmin, Key: 0, HasRK: true}),
		one(1, content{K: "inv", Typ: 1, Perm: pWriter, Key: 0, HasRK: true}), // 2
		one(1, content{K: "ich", Rec: 2, Perm: pAdmin}),
		one(1, content{K: "rem", Accs: []int{2}, Rk: full(0, 1, 3)}),
		one(1, content{K: "rem", Accs: []int{1}, Rk: full(0, 2, 3)}),
		one(1, content{K: "own", Acc: 1, Perm: pWriter}),
		one(1, content{K: "opt", Opt: 1}),
		one(0, content{K: "ich", Rec: 2, Perm: pAdmin}), // 3: the owner may
		// an outsider joins through the owner-made Admin invite and acts as admin in the same record
		{6, []content{{K: "ijn", Acc: 6, Rec: 2, Perm: pNone, SigKey: 0, SigAcc: 6, HasRK: true}, add(pair{7, pWriter}), {K: "pc", Acc: 2, Perm: pWriter}}},
		{6, []content{{K: "ijn", Acc: 6, Rec: 2, Perm: pNone, SigKey: 0, SigAcc: 6, HasRK: true}, add(pair{7, pWriter})}}, // 4
	},
	"ordinary-member": {
		one(0, add(pair{1, pAdmin}, pair{3, pWriter}, pair{4, pReader})),      // 1
		one(0, content{K: "inv", Typ: 1, Perm: pReader, Key: 1, HasRK: true}), // 2
		one(3, add(pair{6, pReader})),
		one(3, content{K: "pc", Acc: 4, Perm: pWriter}),
		one(3, content{K: "pc", Acc: 3, Perm: pAdmin}),
		one(3, content{K: "rem", Accs: []int{4}, Rk: full(0, 1, 3)}),
		one(3, content{K: "inv", Typ: 0, Key: 2}),
		one(3, content{K: "irv", Rec: 2}),
		one(3, content{K: "ich", Rec: 2, Perm: pWriter}),
		one(3, content{K: "opt", Opt: 1}),
		one(3, content{K: "rkc", Rk: &rkc{MdOK: true, HasMeta: true, HasOld: true, Accs: []int{0, 1, 3, 4}, Invs: []int{1}}}),
		one(4, content{K: "rrm"}),         // 3
		one(3, content{K: "can", Rec: 3}), // somebody else's request
		one(3, content{K: "acc", Acc: 4, Rec: 3, Perm: pWriter}),
		one(6, content{K: "ijn", Acc: 6, Rec: 2, Perm: pWriter, SigKey: 1, SigAcc: 6, HasRK: true}), // more than the invite grants
		one(6, content{K: "ijn", Acc: 7, Rec: 2, Perm: pReader, SigKey: 1, SigAcc: 7, HasRK: true}), // for somebody else
		one(6, content{K: "ijn", Acc: 6, Rec: 2, Perm: pReader, SigKey: 2, SigAcc: 6, HasRK: true}), // wrong invite key
		one(6, content{K: "ijn", Acc: 6, Rec: 2, Perm: pReader, SigKey: 1, SigAcc: 6, HasRK: true}), // 4: fine
		one(4, content{K: "can", Rec: 3}), // 5: own request
	},
	"key-rotation": {
		one(0, add(pair{1, pAdmin}, pair{3, pWriter})),                                            // 1
		{1, []content{{K: "rkc", Rk: full(0, 1, 3)}, {K: "rkc", Rk: full(0, 1, 3)}}},              // two rotations in one record
		{1, []content{{K: "rkc", Rk: full(0, 1, 3)}, {K: "rem", Accs: []int{3}, Rk: full(0, 1)}}}, // rotation + removal
		{1, []content{{K: "rem", Accs: []int{3}, Rk: full(0, 1)}, add(pair{4, pReader})}},         // 2
		one(1, add(pair{3, pWriter})),                                                             // 3: re-admitted, must be able to unpack its keys
	},
}

func init() {
	// members with out-of-enum permission values (int32 on the wire: negative and large values exist)
	// are powerless: every manager-only operation they sign must be refused
	odd := []op{
		one(0, add(pair{1, pAdmin}, pair{3, pWriter}, pair{4, pReader})),      // 1
		one(1, add(pair{5, -1}, pair{6, 2147483647})),                         // 2: accepted, by an admin
		one(0, add(pair{7, -2147483648})),                                     // 3
		one(0, content{K: "inv", Typ: 1, Perm: pReader, Key: 1, HasRK: true}), // 4
	}
	for _, a := range []int{5, 6, 7} {
		odd = append(odd,
			one(a, content{K: "pc", Acc: 4, Perm: pWriter}),
			one(a, add(pair{2, pReader})),
			one(a, content{K: "rem", Accs: []int{4}, Rk: full(0, 1, 3, 5, 6, 7)}),
			one(a, content{K: "inv", Typ: 0, Key: 2}),
			one(a, content{K: "irv", Rec: 4}),
			one(a, content{K: "ich", Rec: 4, Perm: pWriter}),
			one(a, content{K: "rkc", Rk: &rkc{MdOK: true, HasMeta: true, HasOld: true, Accs: []int{0, 1, 3, 4, 5, 6, 7}, Invs: []int{1}}}),
			one(a, content{K: "opt", Opt: 1}),
			one(a, content{K: "own", Acc: a, Perm: pWriter}),
		)
	}
	odd = append(odd,
		one(3, content{K: "rrm"}), // a request of 3
		one(5, content{K: "acc", Acc: 3, Rec: 5, Perm: pWriter}),
		one(5, content{K: "dec", Rec: 5}),
		one(1, content{K: "pc", Acc: 5, Perm: pWriter}), // an admin may re-permission it
	)
	scripts["odd-permission-values"] = odd

	// invites of an unknown type carry any permission level and must never be joinable
	scripts["odd-invite-types"] = []op{
		one(0, add(pair{1, pAdmin})),                                          // 1
		one(1, content{K: "inv", Typ: 2, Perm: pAdmin, Key: 0, HasRK: true}),  // 2: admin, unknown type, Admin level: accepted
		one(1, content{K: "inv", Typ: -1, Perm: pOwner, Key: 1, HasRK: true}), // 3
		one(1, content{K: "inv", Typ: 7, Perm: pWriter, Key: 2}),              // 4
		one(1, content{K: "inv", Typ: 1, Perm: pAdmin, Key: 2, HasRK: true}),  // refused: AnyoneCanJoin at Admin level needs the owner
		one(6, content{K: "ijn", Acc: 6, Rec: 2, Perm: pNone, SigKey: 0, SigAcc: 6, HasRK: true}),
		one(6, content{K: "ijn", Acc: 6, Rec: 2, Perm: pAdmin, SigKey: 0, SigAcc: 6, HasRK: true}),
		one(6, content{K: "ijn", Acc: 6, Rec: 2, Perm: pReader, SigKey: 0, SigAcc: 6, HasRK: true}),
		one(7, content{K: "ijn", Acc: 7, Rec: 3, Perm: pNone, SigKey: 1, SigAcc: 7, HasRK: true}),
		one(7, content{K: "ijn", Acc: 7, Rec: 4, Perm: pWriter, SigKey: 2, SigAcc: 7, HasRK: true}),
		one(7, content{K: "rjn", Acc: 7, Rec: 2, SigKey: 0, SigAcc: 7}),
		one(1, content{K: "ich", Rec: 2, Perm: pWriter}),
		one(1, content{K: "irv", Rec: 3}),
	}
	scriptOrder = append(scriptOrder, "odd-permission-values", "odd-invite-types")
}

var scriptOrder = []string{"accept-remove-request", "accept-stale-join-request", "guest-rules", "admin-role-owner-only", "ordinary-member", "key-rotation"}

func (s *session) runScripts() {
	r := s.r
	for _, name := range scriptOrder {
		w, err := newWorld(s.c, 0, false)
		if err != nil {
			r.Fatal("newWorld: " + err.Error())
		}
		ref, refSt, err := newRef(w)
		if err != nil {
			r.Fatal("newRef: " + err.Error())
		}
		g := &gen{r: r, w: w}
		g.s = w.snapshot(ref)
		if s.useModel {
			s.q = append(s.q, asked{"", "acl.root", w.lines[0], "ok " + g.s.String()})
		}
		cx := &c04ctx{s: s, w: w, ref: ref, refSt: refSt, g: g, branches: map[string]bool{}}
		for _, o := range scripts[name] {
			if !cx.step(o.author, len(w.recs)-1, o.cs, "script."+name) {
				break
			}
		}
		s.flush()
		r.Case("script "+name, true)
		r.Count("script." + name)
	}
}
