package acl

import (
	"context"
	"fmt"

	anystore "github.com/anyproto/any-store"
	"github.com/anyproto/any-store/anyenc"
	"github.com/anyproto/any-store/query"
)

// A fault-injecting wrapper around the REAL any-store database, for the ACL write path
// (storage.AddAll: WriteTx → records Insert → head entry UpsertId → Commit). Every write-side call
// is a boundary; when armed, boundary number failAt returns an error instead of being executed
// (a failing Commit rolls the real transaction back). Reads are forwarded untouched.

type faults struct {
	count  int    // boundaries passed since arm()
	failAt int    // 0 = disarmed
	fired  string // name of the boundary that failed
}

func (f *faults) arm(k int) { f.count, f.failAt, f.fired = 0, k, "" }

func (f *faults) boundary(name string) error {
	f.count++
	if f.failAt != 0 && f.count == f.failAt {
		f.fired = name
		return fmt.Errorf("verif: injected storage fault at %s (write call #%d)", name, f.count)
	}
	return nil
}

type faultDB struct {
	anystore.DB
	f *faults
}

func (d *faultDB) WriteTx(ctx context.Context) (anystore.WriteTx, error) {
	if err := d.f.boundary("begin"); err != nil {
		return nil, err
	}
	tx, err := d.DB.WriteTx(ctx)
	if err != nil {
		return nil, err
	}
	return &faultTx{WriteTx: tx, f: d.f}, nil
}

func (d *faultDB) wrap(c anystore.Collection, err error) (anystore.Collection, error) {
	if err != nil {
		return nil, err
	}
	return &faultColl{Collection: c, f: d.f}, nil
}

func (d *faultDB) Collection(ctx context.Context, name string) (anystore.Collection, error) {
	return d.wrap(d.DB.Collection(ctx, name))
}
func (d *faultDB) OpenCollection(ctx context.Context, name string) (anystore.Collection, error) {
	return d.wrap(d.DB.OpenCollection(ctx, name))
}
func (d *faultDB) CreateCollection(ctx context.Context, name string) (anystore.Collection, error) {
	return d.wrap(d.DB.CreateCollection(ctx, name))
}

type faultTx struct {
	anystore.WriteTx
	f *faults
}

func (t *faultTx) Commit() error {
	if err := t.f.boundary("commit"); err != nil {
		_ = t.WriteTx.Rollback() // the commit did not happen
		return err
	}
	return t.WriteTx.Commit()
}

type faultColl struct {
	anystore.Collection
	f *faults
}

func (c *faultColl) Insert(ctx context.Context, docs ...*anyenc.Value) error {
	if err := c.f.boundary("insert:" + c.Name()); err != nil {
		return err
	}
	return c.Collection.Insert(ctx, docs...)
}
func (c *faultColl) UpdateOne(ctx context.Context, doc *anyenc.Value) error {
	if err := c.f.boundary("update:" + c.Name()); err != nil {
		return err
	}
	return c.Collection.UpdateOne(ctx, doc)
}
func (c *faultColl) UpsertOne(ctx context.Context, doc *anyenc.Value) error {
	if err := c.f.boundary("upsert:" + c.Name()); err != nil {
		return err
	}
	return c.Collection.UpsertOne(ctx, doc)
}
func (c *faultColl) UpdateId(ctx context.Context, id any, mod query.Modifier) (anystore.ModifyResult, error) {
	if err := c.f.boundary("updateid:" + c.Name()); err != nil {
		return anystore.ModifyResult{}, err
	}
	return c.Collection.UpdateId(ctx, id, mod)
}
func (c *faultColl) UpsertId(ctx context.Context, id any, mod query.Modifier) (anystore.ModifyResult, error) {
	if err := c.f.boundary("upsertid:" + c.Name()); err != nil {
		return anystore.ModifyResult{}, err
	}
	return c.Collection.UpsertId(ctx, id, mod)
}
func (c *faultColl) DeleteId(ctx context.Context, id any) error {
	if err := c.f.boundary("delete:" + c.Name()); err != nil {
		return err
	}
	return c.Collection.DeleteId(ctx, id)
}
