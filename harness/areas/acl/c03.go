package acl

import (
	"context"
	"errors"
	"fmt"
	"os"
	"path/filepath"
	"sort"
	"strings"

	anystore "github.com/anyproto/any-store"
	"github.com/anyproto/any-store/anyenc"

	"github.com/anyproto/any-sync/commonspace/headsync/headstorage"
	"github.com/anyproto/any-sync/commonspace/object/accountdata"
	"github.com/anyproto/any-sync/commonspace/object/acl/list"
	"github.com/anyproto/any-sync/commonspace/object/acl/recordverifier"
	"github.com/anyproto/any-sync/consensus/consensusproto"
)

// C03: several real AclLists (different identities, verifiers, storages, feeding modes) observe the
// same log. Oracle: a rejected record changes nothing (head, state, storage); every way of getting
// to a prefix of the log — one record at a time, in batches, rebuilt from storage, caught up from
// what another replica serves — yields the same head and the same canonical state; a record whose
// id / prev / bytes / signatures were tampered with is rejected by everybody.

// faultStorage wraps a Storage and fails AddAll on demand (F-acl-order).
type faultStorage struct {
	list.Storage
	fail bool
}

var errInjected = errors.New("injected storage failure")

func (f *faultStorage) AddAll(ctx context.Context, recs []list.StorageRecord) error {
	if f.fail {
		return errInjected
	}
	return f.Storage.AddAll(ctx, recs)
}

// dirtyStorage presents the same persisted log — Root, Head, Has, Get (the authoritative PrevId
// chain) are untouched — through a disturbed order-index scan: leftover / foreign documents in the
// records collection, a failing index, gaps, duplicates, a wrong order. build() must fall back to
// the head→root walk and reach the same head and state.
type dirtyStorage struct {
	list.Storage
	mode    string
	pos     int                // where the disturbance happens (index into the scan)
	foreign list.StorageRecord // the document that does not belong to the chain
}

var dirtyModes = []string{"leftover-bad-id", "leftover-garbage", "leftover-after-head", "foreign-valid-record", "index-error", "index-error-midway", "gap", "duplicate", "swapped", "truncated", "empty-scan"}

var errIndex = errors.New("injected: order index unavailable")

func (d *dirtyStorage) GetAfterOrder(ctx context.Context, order int, iter list.StorageIterator) error {
	var recs []list.StorageRecord
	if err := d.Storage.GetAfterOrder(ctx, order, func(ctx context.Context, r list.StorageRecord) (bool, error) {
		recs = append(recs, r)
		return true, nil
	}); err != nil {
		return err
	}
	pos := d.pos
	if pos > len(recs) {
		pos = len(recs)
	}
	ins := func(at int, r list.StorageRecord) {
		recs = append(recs[:at], append([]list.StorageRecord{r}, recs[at:]...)...)
	}
	switch d.mode {
	case "index-error":
		return errIndex
	case "leftover-bad-id", "leftover-garbage", "foreign-valid-record":
		ins(pos, d.foreign)
	case "leftover-after-head":
		recs = append(recs, d.foreign)
	case "gap":
		if len(recs) > 2 && pos > 0 && pos < len(recs)-1 {
			recs = append(recs[:pos], recs[pos+1:]...)
		}
	case "duplicate":
		if pos < len(recs) {
			ins(pos, recs[pos])
		}
	case "swapped":
		if pos+1 < len(recs) {
			recs[pos], recs[pos+1] = recs[pos+1], recs[pos]
		}
	case "truncated":
		recs = recs[:pos]
	case "empty-scan":
		recs = nil
	}
	for i, r := range recs {
		if d.mode == "index-error-midway" && i == pos {
			return errIndex
		}
		if cont, err := iter(ctx, r); !cont || err != nil {
			return err
		}
	}
	return nil
}

// dirty wraps a reopened storage of o in a randomly chosen disturbance.
func (x *c03) dirty(st list.Storage) *dirtyStorage {
	r := x.s.r
	d := &dirtyStorage{Storage: st, mode: dirtyModes[r.Intn(len(dirtyModes))], pos: r.Intn(len(x.w.recs) + 1)}
	src := x.w.recs[r.Intn(len(x.w.recs))]
	switch d.mode {
	case "leftover-bad-id", "leftover-after-head":
		// a document whose id is not the hash of its bytes
		d.foreign = list.StorageRecord{RawRecord: src.Payload, Id: src.Id + "leftover", Order: 1000 + d.pos, ChangeSize: len(src.Payload)}
	case "leftover-garbage":
		d.foreign = list.StorageRecord{RawRecord: []byte{0xff, 0x00, 0x13, 0x37}, Id: "bafyreigarbage", Order: 1000 + d.pos, ChangeSize: 4}
	case "foreign-valid-record":
		// a well-formed, signed record that is simply not part of this chain (another branch)
		b := x.w.build(r.Intn(nAccounts), r.Intn(len(x.w.recs)), []content{{K: "nop"}}, tamper{})
		d.foreign = list.StorageRecord{RawRecord: b.raw.Payload, Id: b.raw.Id, Order: 1000 + d.pos, ChangeSize: len(b.raw.Payload)}
	}
	return d
}

type observer struct {
	name     string
	keys     *accountdata.AccountKeys
	validate bool // full validation or network-acceptor verifier
	l        list.AclList
	st       list.Storage
	reopen   func() (list.Storage, error)                 // fresh Storage object over the same persisted data
	litter   func(id string, order int, raw []byte) error // any-store only: put a leftover document into the records collection
	batch    int                                          // >1: records are buffered and fed with AddRawRecords
	buf      []*consensusproto.RawRecordWithId
	fault    *faultStorage
	dbf      *faults // any-store behind a fault-injecting wrapper: each write call of AddRawRecord can fail
	writes   int     // write calls one AddRawRecord makes (learned from the last fault-free add)
	nextFail int
}

func (o *observer) verifier(c *cast) recordverifier.AcceptorVerifier {
	if o.validate {
		return recordverifier.NewValidateFull()
	}
	return recordverifier.New(c.network.GetPublic())
}

type c03 struct {
	s    *session
	w    *world
	ref  list.AclList
	obs  []*observer
	dirs []string
	dbs  []anystore.DB
}

func (x *c03) cleanup() {
	for _, db := range x.dbs {
		db.Close()
	}
	for _, d := range x.dirs {
		os.RemoveAll(d)
	}
}

func (x *c03) memObserver(name string, keys *accountdata.AccountKeys, validate bool, batch int, fault bool) (*observer, error) {
	st, err := list.NewInMemoryStorage(x.w.root.Id, []*consensusproto.RawRecordWithId{x.w.root})
	if err != nil {
		return nil, err
	}
	o := &observer{name: name, keys: keys, validate: validate, batch: batch}
	o.st = st
	o.reopen = func() (list.Storage, error) { return st.(copier).Copy(), nil }
	if fault {
		o.fault = &faultStorage{Storage: st}
		o.st = o.fault
	}
	o.l, err = list.BuildAclListWithIdentity(keys, o.st, o.verifier(x.w.c))
	return o, err
}

func (x *c03) dbObserver(name string, keys *accountdata.AccountKeys, validate bool, batch int) (*observer, error) {
	return x.dbObserverF(name, keys, validate, batch, false)
}

func (x *c03) dbObserverF(name string, keys *accountdata.AccountKeys, validate bool, batch int, faulty bool) (*observer, error) {
	ctx := context.Background()
	dir, err := os.MkdirTemp("", "verif-acl-*")
	if err != nil {
		return nil, err
	}
	x.dirs = append(x.dirs, dir)
	db, err := anystore.Open(ctx, filepath.Join(dir, "acl.db"), nil)
	if err != nil {
		return nil, err
	}
	x.dbs = append(x.dbs, db)
	var fl *faults
	if faulty {
		fl = &faults{}
		db = &faultDB{DB: db, f: fl}
	}
	hs, err := headstorage.New(ctx, db)
	if err != nil {
		return nil, err
	}
	st, err := list.CreateStorage(ctx, x.w.root, hs, db)
	if err != nil {
		return nil, err
	}
	o := &observer{name: name, keys: keys, validate: validate, batch: batch, st: st, dbf: fl}
	id := x.w.root.Id
	o.litter = func(docId string, order int, raw []byte) error {
		coll, err := db.Collection(ctx, id)
		if err != nil {
			return err
		}
		a := &anyenc.Arena{}
		v := a.NewObject()
		v.Set("o", a.NewNumberInt(order))
		v.Set("r", a.NewBinary(raw))
		v.Set("sz", a.NewNumberInt(len(raw)))
		v.Set("id", a.NewString(docId))
		v.Set("p", a.NewString(""))
		return coll.Insert(ctx, v)
	}
	o.reopen = func() (list.Storage, error) { return list.NewStorage(ctx, id, hs, db) }
	o.l, err = list.BuildAclListWithIdentity(keys, st, o.verifier(x.w.c))
	return o, err
}

// storageDigest: head and ordered ids as the storage reports them.
func storageDigest(w *world, st list.Storage) string {
	ctx := context.Background()
	h, err := st.Head(ctx)
	if err != nil {
		return "head-err:" + err.Error()
	}
	var ids []string
	err = st.GetAfterOrder(ctx, 1, func(ctx context.Context, r list.StorageRecord) (bool, error) {
		ids = append(ids, fmt.Sprintf("%d@%d", w.ridx(r.Id), r.Order))
		return true, nil
	})
	if err != nil {
		return "scan-err:" + err.Error()
	}
	return fmt.Sprintf("head=%d [%s]", w.ridx(h), strings.Join(ids, ","))
}

// keyPresence: for the observer's own identity, which read keys / metadata keys it holds, per
// key-change record (`+` read key, `m` metadata private key).
func keyPresence(w *world, l list.AclList) string {
	ks := l.AclState().Keys()
	ids := make([]int, 0, len(ks))
	byIdx := map[int]list.AclKeys{}
	for id, k := range ks {
		i := w.ridx(id)
		ids = append(ids, i)
		byIdx[i] = k
	}
	sort.Ints(ids)
	var b strings.Builder
	for _, i := range ids {
		k := byIdx[i]
		fmt.Fprintf(&b, "%d", i)
		if k.ReadKey != nil {
			b.WriteByte('+')
		}
		if k.MetadataPrivKey != nil {
			b.WriteByte('m')
		}
		b.WriteByte(' ')
	}
	return strings.TrimSpace(b.String())
}

func (x *c03) dump(o *observer) string {
	return x.w.snapshot(o.l).String() + " keys{" + keyPresence(x.w, o.l) + "} | " + storageDigest(x.w, o.st)
}

func (x *c03) violate(stream, desc string) {
	x.s.r.Count("c03.violation." + stream)
	x.s.r.Violate("C03", "", "acl."+stream, desc, append([]string{}, x.w.lines...))
}

// offerBad offers a record that must be rejected to one observer and checks nothing moved.
func (x *c03) offerBad(o *observer, b *built, what string, mustReject bool) {
	before := x.dump(o)
	err, pan := addSafely(o.l, b.raw)
	after := x.dump(o)
	x.s.r.Count("c03.tamper." + what + "." + errEnum(err))
	if pan != "" {
		x.violate("panic", fmt.Sprintf("%s: AddRawRecord panicked on a %s record: %s", o.name, what, pan))
		return
	}
	if err == nil && mustReject {
		x.violate("accepts-tampered", fmt.Sprintf("%s accepted a record with %s: %s", o.name, what, b.line()))
		return
	}
	if err != nil && before != after {
		x.violate("reject-noop", fmt.Sprintf("%s rejected a record with %s (%s) but changed: %s -> %s", o.name, what, errEnum(err), before, after))
	}
}

// flush feeds buffered records to a batching observer. Sometimes a record with a wrong id is slipped
// into the batch: AddRawRecords must stop there with an error, keep what came before it, and the
// rest of the batch is delivered afterwards.
func (x *c03) flush(o *observer) {
	if len(o.buf) == 0 {
		return
	}
	add := func(recs []*consensusproto.RawRecordWithId) (err error) {
		defer func() {
			if p := recover(); p != nil {
				err = fmt.Errorf("panic: %v", p)
			}
		}()
		return o.l.AddRawRecords(recs)
	}
	if x.s.r.Chance(40) {
		// a record that must be refused is slipped into the batch at position k:
		//   wrong-id      the id is not the hash of the bytes (refused before anything is applied)
		//   late-failure  well-formed, correctly signed and chained, several contents, the last of
		//                 which fails only after the earlier ones were applied (on the working copy)
		k := x.s.r.Intn(len(o.buf) + 1)
		if k == 0 && x.s.r.Chance(70) {
			k = 1 // mostly NOT the first record of the batch
		}
		wantHead := o.l.Head().Id
		if k > 0 {
			wantHead = o.buf[k-1].Id
		}
		var bad *consensusproto.RawRecordWithId
		what := "wrong-id"
		if x.s.r.Chance(65) {
			what = "late-failure"
			author := 0
			if ow := x.w.snapshot(x.ref).owners(); len(ow) > 0 {
				author = ow[0]
			}
			cs := []content{
				{K: "inv", Typ: 0, Key: x.s.r.Intn(nInvKeys)},
				{K: "opt", Opt: x.s.r.Intn(2)},
				{K: "add", Pairs: []pair{{x.s.r.Intn(nAccounts), pReader}, {BAD, pReader}}},
				{K: "pc", Acc: BAD, Perm: pWriter},
			}
			bad = x.w.build(author, x.w.ridx(wantHead), cs, tamper{}).raw
		} else {
			src := o.buf[x.s.r.Intn(len(o.buf))]
			bad = &consensusproto.RawRecordWithId{Payload: src.Payload, Id: src.Id + "x"}
		}
		batch := append(append(append([]*consensusproto.RawRecordWithId{}, o.buf[:k]...), bad), o.buf[k:]...)
		err := add(batch)
		x.s.r.Count("c03.batch-with-bad-record." + what)
		if err == nil {
			x.violate("batch-error", fmt.Sprintf("%s: AddRawRecords reported success for a batch whose record #%d is a %s record", o.name, k, what))
		}
		if got := o.l.Head().Id; got != wantHead {
			x.violate("batch-error", fmt.Sprintf("%s: after a batch that fails at record #%d (%s) the head is record %d, expected record %d", o.name, k, what, x.w.ridx(got), x.w.ridx(wantHead)))
		}
		// one at a time = in batches, and a rejected record changes nothing observable: the live state
		// must be the state a list rebuilt from the storage (= the accepted prefix, applied one record
		// at a time) is in, and the storage must end at the accepted prefix
		if h, err := o.st.Head(context.Background()); err != nil || h != wantHead {
			x.violate("batch-error", fmt.Sprintf("%s: after a batch that fails at record #%d (%s) the storage head is record %d, expected %d", o.name, k, what, x.w.ridx(h), x.w.ridx(wantHead)))
		}
		x.rebuild(o)
		o.buf = o.buf[k:]
	}
	if err := add(o.buf); err != nil {
		x.violate("accept-valid", fmt.Sprintf("%s (batch of %d) rejected records the validating list accepted: %v", o.name, len(o.buf), err))
	}
	o.buf = o.buf[:0]
}

// deliver gives an accepted record to every observer (immediately or buffered).
func (x *c03) deliver(b *built) {
	for _, o := range x.obs {
		if o.batch > 1 {
			o.buf = append(o.buf, b.raw)
			if len(o.buf) >= o.batch {
				x.flush(o)
			}
			continue
		}
		if o.fault != nil && x.s.r.Chance(25) {
			// storage write fails: the record must count as rejected (nothing changes) and a retry must work
			o.fault.fail = true
			before := x.dump(o)
			err, _ := addSafely(o.l, b.raw)
			o.fault.fail = false
			after := x.dump(o)
			x.s.r.Count("c03.storage-fault")
			if err == nil {
				x.violate("storage-fault", o.name+": AddRawRecord reported success although the storage write failed")
			} else if before != after {
				x.s.r.Count("c03.violation.storage-fault")
				x.s.r.Violate("C03", "F-acl-order", "acl.storage-fault", fmt.Sprintf("%s: AddRawRecord failed in storage.AddAll (%v) but the list changed: %s -> %s", o.name, err, before, after), append([]string{}, x.w.lines...))
				// the live list is now ahead of its storage; rebuild it so that the walk can go on
				if l2, e2 := list.BuildAclListWithIdentity(o.keys, o.st, o.verifier(x.w.c)); e2 == nil {
					o.l = l2
				}
			}
		}
		if o.dbf != nil && o.writes > 0 && x.s.r.Chance(60) {
			x.dbFault(o, b)
		}
		if o.dbf != nil {
			o.dbf.arm(0)
		}
		err, pan := addSafely(o.l, b.raw)
		if err != nil || pan != "" {
			x.violate("accept-valid", fmt.Sprintf("%s rejected a record the validating list accepted: %s%s on %s", o.name, errEnum(err), pan, b.line()))
		}
		if o.dbf != nil && err == nil {
			o.writes = o.dbf.count
		}
	}
}

// dbFault: the k-th write call that AddRawRecord makes on the real any-store (begin, insert of the
// record, upsert of the head entry, commit — k cycles through all of them) fails. The record then
// counts as rejected: AddRawRecord must report an error and live head, live state, stored head and
// stored records must be exactly what they were; deliver() then adds the same record again without
// a fault, which must succeed.
func (x *c03) dbFault(o *observer, b *built) {
	o.nextFail = o.nextFail%o.writes + 1
	before := x.dump(o)
	o.dbf.arm(o.nextFail)
	err, pan := addSafely(o.l, b.raw)
	fired := o.dbf.fired
	o.dbf.arm(0)
	after := x.dump(o)
	x.s.r.Count("c03.db-fault." + strings.SplitN(fired, ":", 2)[0])
	switch {
	case fired == "":
		return // fewer write calls than expected: nothing was injected
	case pan != "":
		x.violate("db-fault", fmt.Sprintf("%s: AddRawRecord panicked when its write call #%d (%s) failed: %s", o.name, o.nextFail, fired, pan))
	case err == nil:
		x.violate("db-fault", fmt.Sprintf("%s: AddRawRecord reported success although its write call #%d (%s) failed; list and storage now: %s", o.name, o.nextFail, fired, after))
	case before != after:
		x.violate("db-fault", fmt.Sprintf("%s: AddRawRecord failed (%v) at write call #%d (%s) but something changed: %s -> %s", o.name, err, o.nextFail, fired, before, after))
	}
	if err == nil || before != after {
		// keep the walk going on a consistent replica
		if st, e := o.reopen(); e == nil {
			if l2, e2 := list.BuildAclListWithIdentity(o.keys, st, o.verifier(x.w.c)); e2 == nil {
				o.l, o.st = l2, st
			}
		}
	}
}

// compare: all observers that are up to date agree with the reference on head + state, and their
// storage holds exactly the accepted chain.
func (x *c03) compare(where string) {
	want := x.w.snapshot(x.ref).String()
	var ids []string
	for i := range x.w.recs {
		ids = append(ids, fmt.Sprintf("%d@%d", i, i+1))
	}
	wantSt := fmt.Sprintf("head=%d [%s]", len(x.w.recs)-1, strings.Join(ids, ","))
	for _, o := range x.obs {
		if len(o.buf) > 0 {
			continue
		}
		if got := x.w.snapshot(o.l).String(); got != want {
			x.violate("observers-agree", fmt.Sprintf("%s: %s differs from the reference list: %s vs %s", where, o.name, got, want))
		}
		if got := storageDigest(x.w, o.st); got != wantSt {
			x.violate("storage-chain", fmt.Sprintf("%s: storage of %s is %s, accepted chain is %s", where, o.name, got, wantSt))
		}
	}
	// same identity ⇒ same keys held, whatever the decode mode (full on validating lists, keep-only-ours
	// on lists with the network-acceptor verifier) and the feeding mode
	byId := map[*accountdata.AccountKeys]*observer{}
	for _, o := range x.obs {
		if len(o.buf) > 0 {
			continue
		}
		first, ok := byId[o.keys]
		if !ok {
			byId[o.keys] = o
			continue
		}
		if a, b := keyPresence(x.w, first.l), keyPresence(x.w, o.l); a != b {
			x.violate("keys-agree", fmt.Sprintf("%s: %s (validate=%v) holds keys {%s} but %s (validate=%v), same identity, holds {%s}", where, first.name, first.validate, a, o.name, o.validate, b))
		}
	}
	x.s.r.Count("c03.compare")
}

// rebuild: a second list built from the persisted data of o must equal o.
func (x *c03) rebuild(o *observer) {
	st, err := o.reopen()
	if err != nil {
		x.violate("rebuild", o.name+": cannot reopen storage: "+err.Error())
		return
	}
	how := "clean"
	if x.s.r.Chance(60) {
		d := x.dirty(st)
		st, how = d, d.mode
	}
	x.s.r.Count("c03.rebuild-storage." + how)
	x.rebuildFrom(o, st, how)
}

func (x *c03) rebuildFrom(o *observer, st list.Storage, how string) {
	l2, err := list.BuildAclListWithIdentity(o.keys, st, o.verifier(x.w.c))
	if err != nil {
		x.violate("rebuild", fmt.Sprintf("%s: cannot rebuild from storage (order-index scan: %s; head and PrevId chain intact) after %d records: %v", o.name, how, len(x.w.recs), err))
		return
	}
	if l2.Head().Id != o.l.Head().Id {
		x.violate("rebuild", fmt.Sprintf("%s: rebuilt (scan: %s) head is record %d, live head is record %d", o.name, how, x.w.ridx(l2.Head().Id), x.w.ridx(o.l.Head().Id)))
	}
	if a, b := x.w.snapshot(l2).String(), x.w.snapshot(o.l).String(); a != b {
		x.violate("rebuild", fmt.Sprintf("%s: rebuilt from storage %s, live %s", o.name, a, b))
	}
	if a, b := keyPresence(x.w, l2), keyPresence(x.w, o.l); a != b {
		x.violate("rebuild-keys", fmt.Sprintf("%s: rebuilt from storage it holds keys {%s}, live {%s}", o.name, a, b))
	}
	x.s.r.Count("c03.rebuild")
}

// catchUp: a replica that stopped at prefix k asks a serving replica for RecordsAfter(its head) and
// must end in the server's state.
func (x *c03) catchUp(server *observer, keys *accountdata.AccountKeys, validate bool, k int) {
	ctx := context.Background()
	st, err := list.NewInMemoryStorage(x.w.root.Id, x.w.recs[:k+1])
	if err != nil {
		x.s.r.Fatal("catchUp storage: " + err.Error())
	}
	o := &observer{keys: keys, validate: validate}
	l2, err := list.BuildAclListWithIdentity(keys, st, o.verifier(x.w.c))
	if err != nil {
		x.violate("catch-up", fmt.Sprintf("cannot build a replica from the first %d records: %v", k+1, err))
		return
	}
	recs, err := server.l.RecordsAfter(ctx, l2.Head().Id)
	if err != nil {
		x.violate("catch-up", fmt.Sprintf("%s.RecordsAfter(record %d): %v", server.name, k, err))
		return
	}
	if err := l2.AddRawRecords(recs); err != nil {
		x.violate("catch-up", fmt.Sprintf("replica at %d could not add the %d records served by %s: %v", k, len(recs), server.name, err))
		return
	}
	if a, b := x.w.snapshot(l2).String(), x.w.snapshot(server.l).String(); a != b {
		x.violate("catch-up", fmt.Sprintf("replica caught up from record %d via %s: %s, server %s", k, server.name, a, b))
	}
	// and the served bytes are the accepted bytes
	for _, r := range recs {
		i := x.w.ridx(r.Id)
		if i < 0 || string(x.w.recs[i].Payload) != string(r.Payload) {
			x.violate("served-bytes", fmt.Sprintf("%s serves record %s with bytes that differ from the accepted ones", server.name, r.Id))
			break
		}
	}
	x.s.r.Count("c03.catchup")
}

func (s *session) walkC03(steps int, useDB bool) {
	r := s.r
	owner := r.Intn(nAccounts)
	w, err := newWorld(s.c, owner, r.Chance(30))
	if err != nil {
		r.Fatal("newWorld: " + err.Error())
	}
	ref, _, err := newRef(w)
	if err != nil {
		r.Fatal("newRef: " + err.Error())
	}
	x := &c03{s: s, w: w, ref: ref}
	defer x.cleanup()
	member := (owner + 1 + r.Intn(nAccounts-1)) % nAccounts
	mk := func(o *observer, err error) {
		if err != nil {
			r.Fatal("observer: " + err.Error())
		}
		x.obs = append(x.obs, o)
	}
	mk(x.memObserver("owner-client", s.c.acc[owner], false, 1, true))
	mk(x.memObserver(fmt.Sprintf("account%d-client-batched", member), s.c.acc[member], false, 2+r.Intn(4), false))
	mk(x.memObserver("node-novalidate", s.c.node, false, 1, false))
	mk(x.memObserver(fmt.Sprintf("account%d-validating", (member+1)%nAccounts), s.c.acc[(member+1)%nAccounts], true, 1, false))
	mk(x.memObserver(fmt.Sprintf("account%d-validating-fulldecode", member), s.c.acc[member], true, 1, false))
	mk(x.memObserver("owner-validating-fulldecode", s.c.acc[owner], true, 1, false))
	w.noncanon = func() int {
		if r.Chance(35) {
			return 1 + r.Intn(5)
		}
		return 0
	}
	if useDB {
		mk(x.dbObserver(fmt.Sprintf("account%d-client-anystore", member), s.c.acc[member], false, 1))
		mk(x.dbObserver("node-validating-anystore", s.c.node, true, 1+r.Intn(3)))
	}
	s.c03walks++
	if useDB || s.c03walks == 1 || r.Chance(12) { // the very first C03 walk has it, then a share

		mk(x.dbObserverF("node-client-anystore-faulty", s.c.node, false, 1, true))
	}
	g := &gen{r: r, w: w}
	g.s = w.snapshot(ref)
	if s.useModel {
		s.q = append(s.q, asked{"", "acl.root", w.lines[0], "ok " + g.s.String()})
	}
	defer s.flush()
	for i := 0; i < steps && r.TimeLeft() && r.Issues() < 20; i++ {
		pValid := 70
		author, cs, label := g.next(pValid)
		// tampered variants of the same record, offered first: nobody may move
		if r.Chance(30) {
			kind := r.Intn(7)
			var t tamper
			prev := len(w.recs) - 1
			what := ""
			switch kind {
			case 0:
				t.BadSig, what = true, "a bad author signature"
			case 1:
				t.BadId, what = true, "an id that is not the hash of its bytes"
			case 2:
				t.FlipByte, what = true, "a byte changed after signing"
			case 3:
				prev, what = len(w.recs)+2, "a prev-id that is not a record"
			case 4:
				if len(w.recs) < 2 {
					continue
				}
				prev, what = r.Intn(len(w.recs)-1), "a prev-id that is not the head"
			case 5:
				t.NoAcceptor, what = true, "no acceptor signature"
			case 6:
				t.BadAcceptor, what = true, "an acceptor signature by a key that is not the network key"
			}
			valAuthor, valCs, ok := author, cs, true
			if kind >= 3 {
				// chain / acceptor defects are tested on an otherwise valid record
				k := kinds[r.Intn(len(kinds))]
				a, c, okv := g.valid(k)
				valAuthor, valCs, ok = a, []content{c}, okv
			}
			if ok {
				b := w.build(valAuthor, prev, valCs, t)
				for _, o := range append([]*observer{{name: "reference", l: ref, st: nopStorage{}, validate: true}}, x.obs...) {
					if len(o.buf) > 0 {
						continue
					}
					if kind >= 5 && o.validate {
						continue // a fully validating list does not look at the acceptor: the record is simply valid
					}
					x.offerBad(o, b, strings.ReplaceAll(what, " ", "-"), true)
				}
			}
		}
		b := w.build(author, len(w.recs)-1, cs, tamper{})
		pre := g.s
		err, pan := addSafely(ref, b.raw)
		if pan != "" {
			x.violate("panic", "AddRawRecord panicked: "+pan)
			return
		}
		e := errEnum(err)
		post := w.snapshot(ref)
		impl := "err " + e
		if err == nil {
			w.accepted(b)
			post = w.snapshot(ref)
			impl = "ok " + post.String()
		} else if pre.String() != post.String() {
			x.violate("reject-noop", "reference list rejected a record ("+e+") but changed: "+pre.String()+" -> "+post.String())
		}
		s.ask("", "acl.apply", w, b.line(), impl)
		r.Count("c03.kind." + strings.SplitN(label, ".", 2)[0])
		r.Count("c03.result." + e)
		g.s = post
		if err != nil {
			continue
		}
		x.deliver(b)
		// duplicates are refused without effect
		if r.Chance(10) {
			o := x.obs[r.Intn(len(x.obs))]
			if len(o.buf) == 0 {
				before := x.dump(o)
				err, _ := addSafely(o.l, b.raw)
				if !errors.Is(err, list.ErrRecordAlreadyExists) || before != x.dump(o) {
					x.violate("duplicate", fmt.Sprintf("%s: re-adding the head gave %v / changed the list", o.name, err))
				}
				r.Count("c03.duplicate")
			}
		}
		if r.Chance(35) {
			x.compare(fmt.Sprintf("after record %d", len(w.recs)-1))
		}
		if r.Chance(15) {
			o := x.obs[r.Intn(len(x.obs))]
			if len(o.buf) == 0 {
				x.rebuild(o)
			}
		}
		if r.Chance(12) && len(w.recs) > 2 {
			srv := x.obs[r.Intn(len(x.obs))]
			if len(srv.buf) == 0 {
				keys := []*accountdata.AccountKeys{s.c.node, s.c.acc[member], s.c.acc[owner], s.c.acc[r.Intn(nAccounts)]}[r.Intn(4)]
				k := r.Intn(len(w.recs) - 1)
				x.catchUp(srv, keys, r.Chance(40), k)
			}
		}
	}
	for _, o := range x.obs {
		x.flush(o)
	}
	x.compare("end of history")
	for _, o := range x.obs {
		x.rebuild(o)
	}
	if len(w.recs) > 2 {
		x.catchUp(x.obs[r.Intn(len(x.obs))], s.c.node, false, 0)
	}
	// last, because it damages the persisted collection for good: a leftover document in the real
	// any-store records collection (id not the hash of its bytes, order beyond the head / unparseable
	// bytes); head entry and chain are intact, so a restart must still come up in the same state
	for _, o := range x.obs {
		if o.litter == nil {
			continue
		}
		src := w.recs[r.Intn(len(w.recs))]
		raw, what := src.Payload, "leftover-bad-id"
		if r.Chance(40) {
			raw, what = []byte{0xff, 0x00, 0x13, 0x37}, "leftover-garbage"
		}
		if err := o.litter(src.Id+"leftover", len(w.recs)+5+r.Intn(3), raw); err != nil {
			r.Fatal("cannot insert a leftover document: " + err.Error())
		}
		st, err := o.reopen()
		if err != nil {
			x.violate("rebuild", o.name+": cannot reopen storage: "+err.Error())
			continue
		}
		r.Count("c03.rebuild-storage.anystore-" + what)
		x.rebuildFrom(o, st, "real any-store collection with a "+what+" document")
	}
	r.Case("c03\n"+strings.Join(w.lines, "\n"), len(w.recs) > 5)
}

// nopStorage lets the reference list be dumped like an observer (its storage is checked through refSt elsewhere).
type nopStorage struct{ list.Storage }

func (nopStorage) Head(ctx context.Context) (string, error) { return "", nil }
func (nopStorage) GetAfterOrder(ctx context.Context, order int, iter list.StorageIterator) error {
	return nil
}
