package acl

import "fmt"

// The C04 oracle states the privilege rules of the property directly on what the REAL AclState
// reports before and after an accepted record. It does not use the Lean model.

type violation struct {
	rule string // short rule name
	sig  string // finding signature ("" = none)
	desc string
}

func manager(p int) bool { return p == pOwner || p == pAdmin }

func rank(p int) int {
	switch p {
	case pReader:
		return 1
	case pWriter:
		return 2
	case pAdmin:
		return 3
	}
	if p < 0 || p > pGuest {
		// out-of-enum values carry exactly the rights of a reader (non-None, no write, no manage)
		return 1
	}
	return 0
}

// permLE: "at most the invite's permissions" (Reader < Writer < Admin; anything else only if equal)
func permLE(p, q int) bool {
	if p == q {
		return true
	}
	return rank(p) > 0 && rank(q) > 0 && rank(p) <= rank(q)
}

func accEq(a, b accSt) bool { return a.Perm == b.Perm && a.Status == b.Status }

// oracleC04 checks one accepted record. pre/post are dumps of the real state, author the signer,
// cs the contents the harness put in the record.
func oracleC04(pre, post snap, author int, cs []content) []violation {
	var out []violation
	add := func(rule, sig, f string, a ...any) { out = append(out, violation{rule, sig, fmt.Sprintf(f, a...)}) }
	ap := pre.perm(author)

	// signatures of the three repaired defects (classification by input shape; informative only)
	sigFor := func(x int) string {
		for _, c := range cs {
			if c.K == "acc" && c.Acc == x {
				rq, ok := pre.Req[c.Rec]
				if ok && rq.Typ != 1 {
					return "F-acl-accept-remove"
				}
				if ok && pre.perm(x) != pNone {
					return "F-acl-accept-stale-join"
				}
			}
			if c.K == "own" && c.Acc == x && pre.perm(x) == pGuest {
				return "F-acl-owner-guest"
			}
		}
		return ""
	}

	// 1. exactly one owner before and after
	if n := len(pre.owners()); n != 1 {
		add("one-owner-pre", "", "%d owners before the record", n)
	}
	if n := len(post.owners()); n != 1 {
		sig := ""
		for _, o := range pre.owners() {
			if s := sigFor(o); s != "" {
				sig = s
			}
		}
		add("one-owner", sig, "%d owners after the record (owners before: %v)", n, pre.owners())
	}

	accs := map[int]bool{}
	for k := range pre.Acc {
		accs[k] = true
	}
	for k := range post.Acc {
		accs[k] = true
	}
	// an outsider may make itself a member through a live AnyoneCanJoin invite
	selfJoin := func(x int) (ok bool, why string) {
		if x != author {
			return false, "not the author"
		}
		for _, c := range cs {
			if c.K != "ijn" {
				continue
			}
			inv, live := pre.Inv[c.Rec]
			if !live || inv.Typ != 1 {
				continue
			}
			if permLE(post.perm(x), inv.Perm) {
				return true, ""
			}
			why = fmt.Sprintf("joined with permission %d through invite %d that grants %d", post.perm(x), c.Rec, inv.Perm)
		}
		if why == "" {
			why = "no live AnyoneCanJoin invite referenced"
		}
		return false, why
	}

	for _, x := range sortedKeys(accs) {
		a, inPre := pre.Acc[x]
		b, inPost := post.Acc[x]
		joined := false
		// 7. outsiders gain access only through a live invite with <= its permissions, or by a manager's record
		if a.Perm == pNone && b.Perm != pNone {
			if ok, why := selfJoin(x); ok {
				joined = true
			} else if !manager(ap) {
				add("outsider-needs-invite", sigFor(x), "account %d gained permission %d by a record of non-manager %d (%s)", x, b.Perm, author, why)
			}
		}
		// 2. Admin granted / revoked only by the owner (by any route)
		if (a.Perm == pAdmin) != (b.Perm == pAdmin) && ap != pOwner && !joined {
			add("admin-owner-only", sigFor(x), "account %d: permission %d -> %d (Admin role changed) by %d whose permission is %d", x, a.Perm, b.Perm, author, ap)
		}
		// 5. guests are never re-permissioned (only removed)
		if a.Perm == pGuest && b.Perm != pGuest && b.Perm != pNone {
			add("guest-repermissioned", sigFor(x), "guest %d re-permissioned to %d by %d", x, b.Perm, author)
		}
		// 6. the owner is never demoted or removed by others
		if a.Perm == pOwner && x != author && b.Perm != pOwner {
			add("owner-touched", sigFor(x), "owner %d demoted to %d by %d", x, b.Perm, author)
		}
		// 4. only managers add / remove / approve / decline / re-permission OTHER accounts
		if x != author && (inPre != inPost || !accEq(a, b)) && !manager(ap) {
			add("membership-needs-manager", sigFor(x), "account %d changed (%d/%d -> %d/%d) by non-manager %d", x, a.Perm, a.Status, b.Perm, b.Status, author)
		}
		// 8. an ordinary member only affects its own membership request: its permission never changes
		if x == author && !manager(ap) && a.Perm != pNone && a.Perm != b.Perm {
			add("member-only-self", "", "non-manager %d changed its own permission %d -> %d", x, a.Perm, b.Perm)
		}
	}
	// 3. ownership transfer and options only by the owner
	if fmt.Sprint(pre.owners()) != fmt.Sprint(post.owners()) && ap != pOwner {
		sig := ""
		for _, o := range append(pre.owners(), post.owners()...) {
			if s := sigFor(o); s != "" {
				sig = s
			}
		}
		add("ownership-owner-only", sig, "owner set %v -> %v by %d whose permission is %d", pre.owners(), post.owners(), author, ap)
	}
	if pre.Opt != post.Opt && ap != pOwner {
		add("options-owner-only", "", "options %s -> %s by %d whose permission is %d", pre.Opt, post.Opt, author, ap)
	}
	// invites are managed by managers only; Admin-granting invites by the owner only
	invs := map[int]bool{}
	for k := range pre.Inv {
		invs[k] = true
	}
	for k := range post.Inv {
		invs[k] = true
	}
	for _, i := range sortedKeys(invs) {
		a, inPre := pre.Inv[i]
		b, inPost := post.Inv[i]
		if inPre == inPost && a == b {
			continue
		}
		if !manager(ap) {
			add("invite-needs-manager", "", "invite %d changed by non-manager %d", i, author)
		}
		if inPost && b.Typ == 1 && b.Perm == pAdmin && !(inPre && a.Typ == 1 && a.Perm == pAdmin) && ap != pOwner {
			add("admin-invite-owner-only", "", "invite %d grants Admin after a record of %d whose permission is %d", i, author, ap)
		}
	}
	// requests of other accounts are not touched by non-managers
	if !manager(ap) {
		reqs := map[int]bool{}
		for k := range pre.Req {
			reqs[k] = true
		}
		for k := range post.Req {
			reqs[k] = true
		}
		for _, q := range sortedKeys(reqs) {
			a, inPre := pre.Req[q]
			b, inPost := post.Req[q]
			if (inPre != inPost || a != b) && ((inPre && a.Acc != author) || (inPost && b.Acc != author)) {
				add("request-needs-manager", "", "request %d of another account changed by non-manager %d", q, author)
			}
		}
	}
	return out
}
