package acl

import (
	"bytes"
	"encoding/hex"
	"fmt"
	"strings"
	"time"

	"github.com/anyproto/any-sync/commonspace/object/acl/aclrecordproto"
	"github.com/anyproto/any-sync/commonspace/object/acl/list"
	"github.com/anyproto/any-sync/util/crypto"

	"verifharness/internal/corr"
)

// keep.go — the keep-only-ours partial decode (keepidentity.go) at the byte level.
//
// Oracle (direct, no model): on structure-aware mutated AclData bytes
//   * the strict fast path never panics and never hangs;
//   * whenever it does not bail out, the authoritative full decode + filter succeeds too and yields
//     the same message (compared by deterministic re-marshalling, unknown fields included);
//   * unmarshalAclDataKeepIdentity (fast, else full) always equals the full decode + filter.
// Correspondence: the Lean byte-level model (`Acl/KeepBytes.lean`) is asked for the same bytes
// (`keep <isOurs-hex> <bytes-hex>`): verdict (bail / ok) and the decoded structure must agree with
// the real fast path, and the model of the full decode with the real full decode.

// --- a tiny wire-level tree with a deliberately permissive encoder -------------------------------

type wfield struct {
	num  uint64
	typ  int      // 0 varint, 1 fixed64, 2 bytes, 3 start group, 4 end group, 5 fixed32
	val  uint64   // varint / fixed value
	raw  []byte   // payload of a bytes field (used when sub == nil)
	sub  []wfield // nested message (rendered into the payload)
	pad  int      // extra continuation bytes on the tag varint (non-minimal encoding)
	lpad int      // extra continuation bytes on the length varint
	lie  int      // added to the announced length (truncation / overrun)
}

func putVarint(b []byte, v uint64, pad int) []byte {
	for v >= 0x80 {
		b = append(b, byte(v)|0x80)
		v >>= 7
	}
	if pad == 0 {
		return append(b, byte(v))
	}
	b = append(b, byte(v)|0x80)
	for i := 1; i < pad; i++ {
		b = append(b, 0x80)
	}
	return append(b, 0x00)
}

func encode(fs []wfield) []byte {
	var b []byte
	for _, f := range fs {
		b = putVarint(b, f.num<<3|uint64(f.typ), f.pad)
		switch f.typ {
		case 0:
			b = putVarint(b, f.val, 0)
		case 1:
			for i := 0; i < 8; i++ {
				b = append(b, byte(f.val>>(8*i)))
			}
		case 5:
			for i := 0; i < 4; i++ {
				b = append(b, byte(f.val>>(8*i)))
			}
		case 2:
			p := f.raw
			if f.sub != nil {
				p = encode(f.sub)
			}
			n := int64(len(p)) + int64(f.lie)
			if n < 0 {
				n = 0
			}
			b = putVarint(b, uint64(n), f.lpad)
			b = append(b, p...)
		}
	}
	return b
}

type keepGen struct {
	r    *corr.Run
	c    *cast
	ours int // the observer's account
}

func (g *keepGen) ident(a int) []byte {
	if g.r.Chance(25) {
		return nonCanonicalKey(g.c.accRaw[a], 1+g.r.Intn(5), g.c.accPub[a])
	}
	return g.c.accPub[a]
}

func (g *keepGen) blob() []byte {
	b := make([]byte, g.r.Intn(6))
	for i := range b {
		b[i] = byte(g.r.Intn(256))
	}
	return b
}

func (g *keepGen) erk(idOurs bool) []wfield {
	a := g.r.Intn(nAccounts)
	if idOurs {
		a = g.ours
	}
	return []wfield{{num: 1, typ: 2, raw: g.ident(a)}, {num: 2, typ: 2, raw: g.blob()}}
}

func (g *keepGen) rkcMsg() []wfield {
	var fs []wfield
	for n := g.r.Intn(5); n > 0; n-- {
		fs = append(fs, wfield{num: 1, typ: 2, sub: g.erk(g.r.Chance(30))})
	}
	fs = append(fs, wfield{num: 2, typ: 2, raw: g.blob()}, wfield{num: 3, typ: 2, raw: g.blob()}, wfield{num: 4, typ: 2, raw: g.blob()})
	for n := g.r.Intn(3); n > 0; n-- {
		fs = append(fs, wfield{num: 5, typ: 2, sub: g.erk(false)})
	}
	return fs
}

func (g *keepGen) content() wfield {
	var cv []wfield
	switch g.r.Intn(10) {
	case 0, 1, 2, 3:
		cv = []wfield{{num: 7, typ: 2, sub: g.rkcMsg()}}
	case 4, 5, 6:
		rm := []wfield{}
		for n := g.r.Intn(3); n > 0; n-- {
			rm = append(rm, wfield{num: 1, typ: 2, raw: g.ident(g.r.Intn(nAccounts))})
		}
		rm = append(rm, wfield{num: 2, typ: 2, sub: g.rkcMsg()})
		cv = []wfield{{num: 6, typ: 2, sub: rm}}
	case 7:
		// some other variant (the fast path defers): inviteRevoke{inviteRecordId}
		cv = []wfield{{num: 2, typ: 2, sub: []wfield{{num: 1, typ: 2, raw: []byte("rec")}}}}
	case 8:
		cv = []wfield{{num: 16, typ: 2, sub: []wfield{{num: 1, typ: 2, sub: []wfield{{num: 1, typ: 0, val: 1}}}}}}
	default:
		cv = nil // empty content value
	}
	return wfield{num: 1, typ: 2, sub: cv}
}

// all returns pointers to every field of the tree (for mutation).
func all(fs *[]wfield, out *[]*[]wfield) {
	*out = append(*out, fs)
	for i := range *fs {
		if (*fs)[i].sub != nil {
			all(&(*fs)[i].sub, out)
		}
	}
}

func (g *keepGen) mutate(top *[]wfield) string {
	var lists []*[]wfield
	all(top, &lists)
	l := lists[g.r.Intn(len(lists))]
	pick := func() *wfield {
		if len(*l) == 0 {
			*l = append(*l, wfield{num: 1, typ: 2, raw: g.blob()})
		}
		return &(*l)[g.r.Intn(len(*l))]
	}
	switch g.r.Intn(16) {
	case 0:
		f := *pick()
		*l = append(*l, f)
		return "dup-field"
	case 1:
		g.r.Rand.Shuffle(len(*l), func(i, j int) { (*l)[i], (*l)[j] = (*l)[j], (*l)[i] })
		return "reorder"
	case 2:
		*l = append(*l, wfield{num: uint64(8 + g.r.Intn(40)), typ: []int{0, 1, 2, 5}[g.r.Intn(4)], val: uint64(g.r.Intn(1000)), raw: g.blob()})
		return "unknown-field"
	case 3:
		pick().pad = 1 + g.r.Intn(3)
		return "nonminimal-tag"
	case 4:
		pick().lpad = 1 + g.r.Intn(3)
		return "nonminimal-len"
	case 5:
		pick().lie = []int{-1, 1, 2, 100, -3}[g.r.Intn(5)]
		return "wrong-len"
	case 6:
		f := pick()
		f.typ = []int{0, 1, 5, 3, 4}[g.r.Intn(5)]
		return "wrong-wiretype"
	case 7:
		f := pick()
		f.num = []uint64{0, 1 << 29, 1<<32 + 1, 1<<40 + 7, 1<<61 - 1}[g.r.Intn(5)]
		return "odd-field-number"
	case 8:
		f := pick()
		f.pad = 9 + g.r.Intn(3) // varint of 10+ bytes
		return "overlong-tag"
	case 9:
		f := pick()
		f.lpad = 9 + g.r.Intn(3)
		return "overlong-len"
	case 10:
		if len(*l) > 0 {
			i := g.r.Intn(len(*l))
			*l = append((*l)[:i], (*l)[i+1:]...)
		}
		return "drop-field"
	case 11:
		*l = append(*l, wfield{num: uint64(1 + g.r.Intn(7)), typ: 3}, wfield{num: uint64(1 + g.r.Intn(7)), typ: 4})
		return "group"
	case 12:
		f := pick()
		if f.sub != nil {
			f.raw, f.sub = encode(f.sub), nil
			if len(f.raw) > 0 {
				f.raw[g.r.Intn(len(f.raw))] ^= byte(1 << g.r.Intn(8))
			}
		}
		return "bitflip-sub"
	case 13:
		f := pick()
		f.lie = 1 << 40
		return "huge-len"
	case 14:
		f := pick()
		f.num = uint64(1 + g.r.Intn(7))
		return "renumber"
	default:
		return "none"
	}
}

func marshalOrErr(d *aclrecordproto.AclData, err error) string {
	if err != nil {
		return "err"
	}
	b, e := d.MarshalVT()
	if e != nil {
		return "marshal-err:" + e.Error()
	}
	return "ok " + hex.EncodeToString(b)
}

type keepOut struct {
	fast, full, both string
	panicked         string
}

func runKeep(data []byte, isOurs func([]byte) bool) (o keepOut, hung bool) {
	done := make(chan keepOut, 1)
	go func() {
		var r keepOut
		defer func() {
			if p := recover(); p != nil {
				r.panicked = fmt.Sprint(p)
			}
			done <- r
		}()
		r.fast = marshalOrErr(list.VerifKeepIdentityFast(append([]byte{}, data...), isOurs))
		r.full = marshalOrErr(list.VerifFullDecodeFilter(append([]byte{}, data...), isOurs))
		r.both = marshalOrErr(list.VerifUnmarshalKeepIdentity(append([]byte{}, data...), isOurs))
	}()
	select {
	case r := <-done:
		return r, false
	case <-time.After(5 * time.Second):
		return keepOut{}, true
	}
}

// renderData renders a decoded AclData the way the Lean model prints it (only read-key contents
// can come out of the fast path).
func renderData(d *aclrecordproto.AclData) string {
	hx := func(b []byte) string {
		if len(b) == 0 {
			return "-"
		}
		return hex.EncodeToString(b)
	}
	erks := func(l []*aclrecordproto.AclEncryptedReadKey) string {
		if len(l) == 0 {
			return "-"
		}
		s := make([]string, len(l))
		for i, e := range l {
			s[i] = hx(e.Identity) + "/" + hx(e.EncryptedReadKey)
		}
		return strings.Join(s, ",")
	}
	rkc := func(k *aclrecordproto.AclReadKeyChange) string {
		if k == nil {
			return "nil"
		}
		return fmt.Sprintf("ak=%s;md=%s;em=%s;old=%s;ik=%s", erks(k.AccountKeys), hx(k.MetadataPubKey), hx(k.EncryptedMetadataPrivKey), hx(k.EncryptedOldReadKey), erks(k.InviteKeys))
	}
	var parts []string
	for _, c := range d.AclContent {
		switch {
		case c.GetReadKeyChange() != nil:
			parts = append(parts, "rkc("+rkc(c.GetReadKeyChange())+")")
		case c.GetAccountRemove() != nil:
			ids := make([]string, len(c.GetAccountRemove().Identities))
			for i, b := range c.GetAccountRemove().Identities {
				ids[i] = hx(b)
			}
			idl := "-"
			if len(ids) > 0 {
				idl = strings.Join(ids, ",")
			}
			parts = append(parts, "rem("+idl+"|"+rkc(c.GetAccountRemove().ReadKeyChange)+")")
		default:
			parts = append(parts, "other")
		}
	}
	if len(parts) == 0 {
		return "empty"
	}
	return strings.Join(parts, " ")
}

func (s *session) keepOracle(cases int) {
	r := s.r
	g := &keepGen{r: r, c: s.c, ours: r.Intn(nAccounts)}
	ourPub := s.c.acc[g.ours].SignKey.GetPublic()
	semantic := func(b []byte) bool {
		k, err := crypto.UnmarshalEd25519PublicKeyProto(b)
		return err == nil && ourPub.Equals(k)
	}
	for n := 0; n < cases && r.TimeLeft() && r.Issues() < 20; n++ {
		var top []wfield
		for k := 1 + r.Intn(3); k > 0; k-- {
			top = append(top, g.content())
		}
		label := "canonical"
		if r.Chance(75) {
			label = g.mutate(&top)
			if r.Chance(25) {
				label += "+" + g.mutate(&top)
			}
		}
		data := encode(top)
		if r.Chance(5) && len(data) > 0 {
			data = data[:r.Intn(len(data))]
			label += "+truncated"
		}
		// the model only knows raw byte equality as isOurs; the real decoders are judged with both
		rawOurs := s.c.accPub[g.ours]
		preds := []struct {
			name string
			f    func([]byte) bool
		}{{"semantic", semantic}, {"raw", func(b []byte) bool { return bytes.Equal(b, rawOurs) }}}
		op := []string{fmt.Sprintf("keepbytes ours=%x data=%x (%s)", rawOurs, data, label)}
		crashed := false
		for _, p := range preds {
			out, hung := runKeep(data, p.f)
			switch {
			case hung:
				r.Violate("C03", "", "acl.keep-hang", "the partial decode did not return within 5 s ("+p.name+" isOurs)", op)
				return
			case out.panicked != "":
				r.Count("keep.violation.panic")
				r.Violate("C03", "", "acl.keep-panic", "the partial decode panicked: "+out.panicked, op)
				crashed = true
				continue
			}
			fastOK := strings.HasPrefix(out.fast, "ok")
			if fastOK && out.fast != out.full {
				r.Count("keep.violation.fast-vs-full")
				r.Violate("C03", "", "acl.keep-fast-vs-full", fmt.Sprintf("fast path (%s isOurs) returned %s but the full decode + filter %s", p.name, out.fast, out.full), op)
			}
			if out.both != out.full {
				r.Count("keep.violation.combined-vs-full")
				r.Violate("C03", "", "acl.keep-combined-vs-full", fmt.Sprintf("unmarshalAclDataKeepIdentity (%s isOurs) returned %s but the full decode + filter %s", p.name, out.both, out.full), op)
			}
			r.Count("keep." + p.name + ".fast-" + map[bool]string{true: "ok", false: "bail"}[fastOK])
			r.Count("keep." + p.name + ".full-" + strings.SplitN(out.full, " ", 2)[0])
		}
		r.Count("keep.mut." + strings.SplitN(label, "+", 2)[0])
		// model: fast path on raw-equality isOurs
		if s.useModel && len(data) < 1500 && !crashed {
			d, err := list.VerifKeepIdentityFast(append([]byte{}, data...), preds[1].f)
			impl := "bail"
			if err == nil {
				impl = "ok " + renderData(d)
			}
			dx := hex.EncodeToString(data)
			if dx == "" {
				dx = "-"
			}
			line := fmt.Sprintf("keep %x %s", rawOurs, dx)
			m := r.Ask(line)
			r.Check("C03", "acl.keep-model", []string{line}, m, impl)
			// the model of the generated decoders + filter against the real ones. The fourteen
			// variants without read keys are opaque to the model ("other", assumed to decode): when
			// the model's answer involves one of them, the real decoder may legitimately fail inside.
			fline := fmt.Sprintf("keepfull %x %s", rawOurs, dx)
			fm := r.Ask(fline)
			if !strings.Contains(fm, "other") {
				fd, ferr := list.VerifFullDecodeFilter(append([]byte{}, data...), preds[1].f)
				fimpl := "err"
				if ferr == nil {
					fimpl = "ok " + renderData(fd)
				}
				r.Check("C03", "acl.keepfull-model", []string{fline}, fm, fimpl)
				r.Count("keep.fullmodel.compared")
			} else {
				r.Count("keep.fullmodel.opaque")
			}
		}
		r.Case(fmt.Sprintf("keep %x", data), len(top) > 0)
	}
}
