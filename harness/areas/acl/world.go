// Package acl drives the real any-sync ACL list (commonspace/object/acl/list) against the Lean
// model AnySync.Acl (properties C04 and C03).
//
// The harness signs arbitrary AclData itself (it never goes through the client record builder and
// its preflight check), for any author, content kind, target, permission, invite id and request id,
// single- and multi-content, and feeds the raw records to real AclLists.
package acl

import (
	"errors"
	"fmt"
	"sort"
	"strconv"
	"strings"

	"github.com/anyproto/any-sync/commonspace/object/accountdata"
	"github.com/anyproto/any-sync/commonspace/object/acl/aclrecordproto"
	"github.com/anyproto/any-sync/commonspace/object/acl/list"
	"github.com/anyproto/any-sync/commonspace/object/acl/recordverifier"
	"github.com/anyproto/any-sync/consensus/consensusproto"
	"github.com/anyproto/any-sync/util/cidutil"
	"github.com/anyproto/any-sync/util/crypto"
)

// BAD is the interned id of "garbage": an identity / key that does not parse, a signature that does
// not verify, a record id that was never accepted.
const BAD = 99

const (
	pNone   = 0
	pOwner  = 1
	pAdmin  = 2
	pWriter = 3
	pReader = 4
	pGuest  = 5
)

const nAccounts = 8 // owner, admins, writer, reader, guest, outsider, removed member: roles emerge by the walk
const nInvKeys = 3

// cast: real key pairs, created once per run (from crypto/rand: keys never influence control flow;
// everything that does is derived from r.Rand).
type cast struct {
	acc     []*accountdata.AccountKeys
	accPub  [][]byte // marshalled identities
	accRaw  [][]byte
	accIdx  map[string]int // pubkey storage string -> account index
	inv     []crypto.PrivKey
	invPub  [][]byte
	invIdx  map[string]int
	node    *accountdata.AccountKeys // observer without membership
	network crypto.PrivKey           // consensus ("acceptor") key
}

func newCast() (*cast, error) {
	c := &cast{accIdx: map[string]int{}, invIdx: map[string]int{}}
	for i := 0; i < nAccounts; i++ {
		k, err := accountdata.NewRandom()
		if err != nil {
			return nil, err
		}
		pb, err := k.SignKey.GetPublic().Marshall()
		if err != nil {
			return nil, err
		}
		raw, _ := k.SignKey.GetPublic().Raw()
		c.acc = append(c.acc, k)
		c.accPub = append(c.accPub, pb)
		c.accRaw = append(c.accRaw, raw)
		c.accIdx[string(k.SignKey.GetPublic().Storage())] = i
	}
	for i := 0; i < nInvKeys; i++ {
		priv, pub, err := crypto.GenerateRandomEd25519KeyPair()
		if err != nil {
			return nil, err
		}
		pb, _ := pub.Marshall()
		c.inv = append(c.inv, priv)
		c.invPub = append(c.invPub, pb)
		c.invIdx[string(pub.Storage())] = i
	}
	var err error
	if c.node, err = accountdata.NewRandom(); err != nil {
		return nil, err
	}
	c.network, _, err = crypto.GenerateRandomEd25519KeyPair()
	return c, err
}

var garbageKey = []byte{0xff, 0x01, 0x02}

func (c *cast) pub(i int) []byte {
	if i < 0 || i >= len(c.accPub) {
		return garbageKey
	}
	return c.accPub[i]
}

func (c *cast) ipub(i int) []byte {
	if i < 0 || i >= len(c.invPub) {
		return garbageKey
	}
	return c.invPub[i]
}

// ---------------------------------------------------------------------------------------------
// record descriptions

type pair struct{ Acc, Perm int }

type rkc struct {
	MdOK, HasMeta, HasOld bool
	Accs                  []int
	Invs                  []int
}

type content struct {
	K      string // pc pcs own add inv ich irv ijn rjn acc dec can rem rrm rkc opt nop
	Acc    int
	Perm   int
	Rec    int
	Pairs  []pair
	Accs   []int
	Typ    int
	Key    int
	SigKey int
	SigAcc int
	Big    bool
	HasRK  bool
	Rk     *rkc
	Opt    int
}

// ev maps an enum wire value (permission, invite type: int32 on the wire, so negative values exist)
// to the natural number the model sees. In-range and positive out-of-range values are themselves;
// negative ones are mapped injectively above 10^6. The model treats every out-of-enum value alike
// (as the unmodified switch statements of models.go / validator.go do).
func ev(v int) int {
	if v < 0 {
		return 1000000 - v
	}
	return v
}

func b01(b bool) string {
	if b {
		return "1"
	}
	return "0"
}

func ints(l []int) string {
	if len(l) == 0 {
		return "-"
	}
	s := make([]string, len(l))
	for i, v := range l {
		s[i] = strconv.Itoa(v)
	}
	return strings.Join(s, ",")
}

func pairs(l []pair) string {
	if len(l) == 0 {
		return "-"
	}
	s := make([]string, len(l))
	for i, v := range l {
		s[i] = fmt.Sprintf("%d.%d", v.Acc, ev(v.Perm))
	}
	return strings.Join(s, ",")
}

func (k *rkc) wire() string {
	return fmt.Sprintf("%s:%s:%s:%s:%s", b01(k.MdOK), b01(k.HasMeta), b01(k.HasOld), ints(k.Accs), ints(k.Invs))
}

func (c content) wire() string {
	switch c.K {
	case "pc":
		return fmt.Sprintf("pc:%d:%d", c.Acc, ev(c.Perm))
	case "pcs":
		return "pcs:" + pairs(c.Pairs)
	case "own":
		return fmt.Sprintf("own:%d:%d", c.Acc, ev(c.Perm))
	case "add":
		return "add:" + pairs(c.Pairs)
	case "inv":
		return fmt.Sprintf("inv:%d:%d:%d:%s", ev(c.Typ), ev(c.Perm), c.Key, b01(c.HasRK))
	case "ich":
		return fmt.Sprintf("ich:%d:%d", c.Rec, ev(c.Perm))
	case "irv":
		return fmt.Sprintf("irv:%d", c.Rec)
	case "ijn":
		return fmt.Sprintf("ijn:%d:%d:%d:%d:%d:%s:%s", c.Acc, c.Rec, ev(c.Perm), c.SigKey, c.SigAcc, b01(c.Big), b01(c.HasRK))
	case "rjn":
		return fmt.Sprintf("rjn:%d:%d:%d:%d:%s", c.Acc, c.Rec, c.SigKey, c.SigAcc, b01(c.Big))
	case "acc":
		return fmt.Sprintf("acc:%d:%d:%d", c.Acc, c.Rec, ev(c.Perm))
	case "dec":
		return fmt.Sprintf("dec:%d", c.Rec)
	case "can":
		return fmt.Sprintf("can:%d", c.Rec)
	case "rem":
		return "rem:" + ints(c.Accs) + ":" + c.Rk.wire()
	case "rrm":
		return "rrm"
	case "rkc":
		return "rkc:" + c.Rk.wire()
	case "opt":
		return fmt.Sprintf("opt:%d", c.Opt)
	case "nop":
		return "nop"
	}
	panic("acl: unknown content kind " + c.K)
}

func wireContents(cs []content) string {
	if len(cs) == 0 {
		return "-"
	}
	s := make([]string, len(cs))
	for i, c := range cs {
		s[i] = c.wire()
	}
	return strings.Join(s, " ")
}

// ---------------------------------------------------------------------------------------------
// world: one ACL history

type keyState struct {
	read crypto.SymKey
}

type world struct {
	c      *cast
	owner  int
	root   *consensusproto.RawRecordWithId
	recs   []*consensusproto.RawRecordWithId // accepted chain, recs[0] = root
	recIdx map[string]int
	cur    crypto.SymKey // current read key (harness knows every key: it creates them)
	lines  []string      // line-protocol history (root + every record offered)
	ts     int64
	// noncanon, when set, decides per accountKeys entry whether the identity is written in an
	// equivalent but byte-different protobuf encoding (returns 0 = canonical, 1.. = variant)
	noncanon func() int
}

func (w *world) recId(i int) string {
	if i >= 0 && i < len(w.recs) {
		return w.recs[i].Id
	}
	return fmt.Sprintf("bafyreidangling%d", i)
}

func (w *world) head() string { return w.recs[len(w.recs)-1].Id }

// newWorld builds a fresh root signed by account `owner` (real BuildRoot).
func newWorld(c *cast, owner int, withOptions bool) (*world, error) {
	w := &world{c: c, owner: owner, recIdx: map[string]int{}, ts: 1}
	b := list.NewAclRecordBuilder("", crypto.NewKeyStorage(), c.acc[owner], recordverifier.NewValidateFull())
	master, _, err := crypto.GenerateRandomEd25519KeyPair()
	if err != nil {
		return nil, err
	}
	md, _, err := crypto.GenerateRandomEd25519KeyPair()
	if err != nil {
		return nil, err
	}
	w.cur = crypto.NewAES()
	rc := list.RootContent{
		PrivKey:   c.acc[owner].SignKey,
		SpaceId:   "space",
		MasterKey: master,
		Change:    list.ReadKeyChangePayload{MetadataKey: md, ReadKey: w.cur},
		Metadata:  []byte("metadata"),
	}
	if withOptions {
		rc.Options = &aclrecordproto.AclSpaceOptions{DeleteRestricted: true}
	}
	root, err := b.BuildRoot(rc)
	if err != nil {
		return nil, err
	}
	w.root = root
	w.recs = []*consensusproto.RawRecordWithId{root}
	w.recIdx[root.Id] = 0
	w.lines = []string{fmt.Sprintf("root %d %s", owner, b01(withOptions))}
	return w, nil
}

// built is a signed record ready to be offered to lists, plus what accepting it means for the
// harness's own bookkeeping.
type built struct {
	raw    *consensusproto.RawRecordWithId
	newCur crypto.SymKey
	author int
	prev   int
	cs     []content
}

func encFor(pub crypto.PubKey, key crypto.SymKey) []byte {
	p, err := key.Marshall()
	if err != nil {
		return []byte("x")
	}
	e, err := pub.Encrypt(p)
	if err != nil {
		return []byte("x")
	}
	return e
}

func (w *world) encAcc(i int, key crypto.SymKey) []byte {
	if i < 0 || i >= len(w.c.acc) {
		return []byte("x")
	}
	return encFor(w.c.acc[i].SignKey.GetPublic(), key)
}

func (w *world) encInv(i int, key crypto.SymKey) []byte {
	if i < 0 || i >= len(w.c.inv) {
		return []byte("x")
	}
	return encFor(w.c.inv[i].GetPublic(), key)
}

func (w *world) inviteSig(sigKey, sigAcc int) []byte {
	if sigKey < 0 || sigKey >= len(w.c.inv) || sigAcc < 0 || sigAcc >= len(w.c.acc) {
		return make([]byte, 64)
	}
	s, err := w.c.inv[sigKey].Sign(w.c.accRaw[sigAcc])
	if err != nil {
		return make([]byte, 64)
	}
	return s
}

func meta(big bool) []byte {
	if big {
		return make([]byte, list.MaxMetadataLen+1)
	}
	return []byte("m")
}

func (w *world) rkcProto(k *rkc, cur crypto.SymKey) (*aclrecordproto.AclReadKeyChange, crypto.SymKey) {
	nk := crypto.NewAES()
	md, mdPub, _ := crypto.GenerateRandomEd25519KeyPair()
	res := &aclrecordproto.AclReadKeyChange{}
	if k.MdOK {
		res.MetadataPubKey, _ = mdPub.Marshall()
	} else {
		res.MetadataPubKey = garbageKey
	}
	if k.HasMeta {
		mdp, _ := md.Marshall()
		res.EncryptedMetadataPrivKey, _ = nk.Encrypt(mdp)
	}
	if k.HasOld {
		cp, _ := cur.Marshall()
		res.EncryptedOldReadKey, _ = nk.Encrypt(cp)
	}
	for _, a := range k.Accs {
		id := w.c.pub(a)
		if w.noncanon != nil && a >= 0 && a < len(w.c.accRaw) {
			id = nonCanonicalKey(w.c.accRaw[a], w.noncanon(), id)
		}
		res.AccountKeys = append(res.AccountKeys, &aclrecordproto.AclEncryptedReadKey{Identity: id, EncryptedReadKey: w.encAcc(a, nk)})
	}
	for _, i := range k.Invs {
		res.InviteKeys = append(res.InviteKeys, &aclrecordproto.AclEncryptedReadKey{Identity: w.c.ipub(i), EncryptedReadKey: w.encInv(i, nk)})
	}
	return res, nk
}

// nonCanonicalKey renders cryptoproto.Key{Type: Ed25519Public (= 0), Data: raw} in a byte-different
// but equivalent wire encoding (every protobuf decoder, incl. PubKeyFromProto, reads the same key):
//
//	1: the default-valued Type field written explicitly (08 00) before Data
//	2: Data first, then the explicit default Type
//	3: the length of Data as a non-minimal varint (a0 00 instead of 20)
//	4: explicit Type with a non-minimal varint value (08 80 00)
//	5: Data written twice (last one wins), first copy garbage
func nonCanonicalKey(raw []byte, variant int, canonical []byte) []byte {
	data := func(lenBytes ...byte) []byte { return append(append([]byte{0x12}, lenBytes...), raw...) }
	if len(raw) != 32 {
		return canonical
	}
	switch variant {
	case 1:
		return append([]byte{0x08, 0x00}, data(0x20)...)
	case 2:
		return append(data(0x20), 0x08, 0x00)
	case 3:
		return data(0xa0, 0x00)
	case 4:
		return append([]byte{0x08, 0x80, 0x00}, data(0x20)...)
	case 5:
		junk := append([]byte{0x12, 0x20}, make([]byte, 32)...)
		return append(junk, data(0x20)...)
	}
	return canonical
}

func up(p int) aclrecordproto.AclUserPermissions { return aclrecordproto.AclUserPermissions(p) }

// proto renders one content description as the real protobuf value. cur is the read key current at
// this position of the record; the returned key is the one current after it.
func (w *world) proto(c content, author int, cur crypto.SymKey) (*aclrecordproto.AclContentValue, crypto.SymKey) {
	v := &aclrecordproto.AclContentValue{}
	switch c.K {
	case "pc":
		v.Value = &aclrecordproto.AclContentValue_PermissionChange{PermissionChange: &aclrecordproto.AclAccountPermissionChange{Identity: w.c.pub(c.Acc), Permissions: up(c.Perm)}}
	case "pcs":
		m := &aclrecordproto.AclAccountPermissionChanges{}
		for _, p := range c.Pairs {
			m.Changes = append(m.Changes, &aclrecordproto.AclAccountPermissionChange{Identity: w.c.pub(p.Acc), Permissions: up(p.Perm)})
		}
		v.Value = &aclrecordproto.AclContentValue_PermissionChanges{PermissionChanges: m}
	case "own":
		v.Value = &aclrecordproto.AclContentValue_OwnershipChange{OwnershipChange: &aclrecordproto.AclOwnershipChange{NewOwnerIdentity: w.c.pub(c.Acc), OldOwnerPermissions: up(c.Perm)}}
	case "add":
		m := &aclrecordproto.AclAccountsAdd{}
		for _, p := range c.Pairs {
			m.Additions = append(m.Additions, &aclrecordproto.AclAccountAdd{Identity: w.c.pub(p.Acc), Permissions: up(p.Perm), Metadata: []byte("m"), EncryptedReadKey: w.encAcc(p.Acc, cur)})
		}
		v.Value = &aclrecordproto.AclContentValue_AccountsAdd{AccountsAdd: m}
	case "inv":
		m := &aclrecordproto.AclAccountInvite{InviteKey: w.c.ipub(c.Key), InviteType: aclrecordproto.AclInviteType(c.Typ), Permissions: up(c.Perm)}
		if c.HasRK {
			m.EncryptedReadKey = w.encInv(c.Key, cur)
		}
		v.Value = &aclrecordproto.AclContentValue_Invite{Invite: m}
	case "ich":
		v.Value = &aclrecordproto.AclContentValue_InviteChange{InviteChange: &aclrecordproto.AclAccountInviteChange{InviteRecordId: w.recId(c.Rec), Permissions: up(c.Perm)}}
	case "irv":
		v.Value = &aclrecordproto.AclContentValue_InviteRevoke{InviteRevoke: &aclrecordproto.AclAccountInviteRevoke{InviteRecordId: w.recId(c.Rec)}}
	case "ijn":
		m := &aclrecordproto.AclAccountInviteJoin{Identity: w.c.pub(c.Acc), InviteRecordId: w.recId(c.Rec), InviteIdentitySignature: w.inviteSig(c.SigKey, c.SigAcc), Metadata: meta(c.Big), Permissions: up(c.Perm)}
		if c.HasRK {
			m.EncryptedReadKey = w.encAcc(c.Acc, cur)
		}
		v.Value = &aclrecordproto.AclContentValue_InviteJoin{InviteJoin: m}
	case "rjn":
		v.Value = &aclrecordproto.AclContentValue_RequestJoin{RequestJoin: &aclrecordproto.AclAccountRequestJoin{InviteIdentity: w.c.pub(c.Acc), InviteRecordId: w.recId(c.Rec), InviteIdentitySignature: w.inviteSig(c.SigKey, c.SigAcc), Metadata: meta(c.Big)}}
	case "acc":
		v.Value = &aclrecordproto.AclContentValue_RequestAccept{RequestAccept: &aclrecordproto.AclAccountRequestAccept{Identity: w.c.pub(c.Acc), RequestRecordId: w.recId(c.Rec), EncryptedReadKey: w.encAcc(c.Acc, cur), Permissions: up(c.Perm)}}
	case "dec":
		v.Value = &aclrecordproto.AclContentValue_RequestDecline{RequestDecline: &aclrecordproto.AclAccountRequestDecline{RequestRecordId: w.recId(c.Rec)}}
	case "can":
		v.Value = &aclrecordproto.AclContentValue_RequestCancel{RequestCancel: &aclrecordproto.AclAccountRequestCancel{RecordId: w.recId(c.Rec)}}
	case "rem":
		m := &aclrecordproto.AclAccountRemove{}
		for _, a := range c.Accs {
			m.Identities = append(m.Identities, w.c.pub(a))
		}
		m.ReadKeyChange, cur = w.rkcProto(c.Rk, cur)
		v.Value = &aclrecordproto.AclContentValue_AccountRemove{AccountRemove: m}
	case "rrm":
		v.Value = &aclrecordproto.AclContentValue_AccountRequestRemove{AccountRequestRemove: &aclrecordproto.AclAccountRequestRemove{}}
	case "rkc":
		var m *aclrecordproto.AclReadKeyChange
		m, cur = w.rkcProto(c.Rk, cur)
		v.Value = &aclrecordproto.AclContentValue_ReadKeyChange{ReadKeyChange: m}
	case "opt":
		v.Value = &aclrecordproto.AclContentValue_SpaceOptionsChange{SpaceOptionsChange: &aclrecordproto.AclSpaceOptionsChange{Options: &aclrecordproto.AclSpaceOptions{DeleteRestricted: c.Opt == 1}}}
	case "nop":
		// a content value with no variant set
	default:
		panic("acl: unknown content kind " + c.K)
	}
	return v, cur
}

// tamper describes a deliberate defect of the envelope (C03); zero value = well-formed.
type tamper struct {
	BadSig      bool // author signature does not verify
	BadId       bool // id is not the hash of the bytes
	FlipByte    bool // one payload byte changed after signing (id recomputed)
	NoAcceptor  bool // acceptor identity/signature missing
	BadAcceptor bool // acceptor signature by a key that is not the network key
}

// build signs a record by `author` on top of record `prev` (interned index; may be dangling).
func (w *world) build(author, prev int, cs []content, t tamper) *built {
	data := &aclrecordproto.AclData{}
	cur := w.cur
	for _, c := range cs {
		var v *aclrecordproto.AclContentValue
		v, cur = w.proto(c, author, cur)
		data.AclContent = append(data.AclContent, v)
	}
	db, err := data.MarshalVT()
	if err != nil {
		panic(err)
	}
	w.ts++
	rec := &consensusproto.Record{PrevId: w.recId(prev), Identity: w.c.pub(author), Data: db, Timestamp: w.ts}
	payload, err := rec.MarshalVT()
	if err != nil {
		panic(err)
	}
	var sig []byte
	if author >= 0 && author < len(w.c.acc) {
		sig, _ = w.c.acc[author].SignKey.Sign(payload)
	} else {
		sig = make([]byte, 64)
	}
	if t.BadSig {
		sig = append([]byte{}, sig...)
		sig[7] ^= 0x40
	}
	if t.FlipByte {
		payload = append([]byte{}, payload...)
		payload[len(payload)/2] ^= 0x01
	}
	raw := &consensusproto.RawRecord{Payload: payload, Signature: sig, AcceptorTimestamp: w.ts}
	switch {
	case t.NoAcceptor:
	case t.BadAcceptor:
		raw.AcceptorIdentity, _ = w.c.node.SignKey.GetPublic().Marshall()
		raw.AcceptorSignature, _ = w.c.node.SignKey.Sign(payload)
	default:
		raw.AcceptorIdentity, _ = w.c.network.GetPublic().Marshall()
		raw.AcceptorSignature, _ = w.c.network.Sign(payload)
	}
	rb, err := raw.MarshalVT()
	if err != nil {
		panic(err)
	}
	id, err := cidutil.NewCidFromBytes(rb)
	if err != nil {
		panic(err)
	}
	if t.BadId {
		other, _ := cidutil.NewCidFromBytes(append([]byte("x"), rb...))
		id = other
	}
	return &built{raw: &consensusproto.RawRecordWithId{Payload: rb, Id: id}, newCur: cur, author: author, prev: prev, cs: cs}
}

// accepted updates the harness bookkeeping after the reference (validating) list took the record.
func (w *world) accepted(b *built) {
	w.recs = append(w.recs, b.raw)
	w.recIdx[b.raw.Id] = len(w.recs) - 1
	w.cur = b.newCur
}

func (b *built) line() string {
	return fmt.Sprintf("rec %d %d %s", b.author, b.prev, wireContents(b.cs))
}

// ---------------------------------------------------------------------------------------------
// canonical state dump of a real AclState

type accSt struct {
	Perm, Status, KeyRec int
	Hist                 string
}
type invSt struct{ Typ, Perm, Key int }
type reqSt struct{ Acc, Typ int }

type snap struct {
	Head int
	Acc  map[int]accSt
	Inv  map[int]invSt
	Req  map[int]reqSt // request record id -> (requester, type 0=remove 1=join); -1 = not reachable from pending
	Pend map[int]int   // account -> request record id
	Keys []int
	Cur  int
	Opt  string
}

func (w *world) ridx(id string) int {
	if i, ok := w.recIdx[id]; ok {
		return i
	}
	if id == "" {
		return -1
	}
	return -2
}

func (w *world) aidx(k crypto.PubKey) int {
	if k == nil {
		return -1
	}
	if i, ok := w.c.accIdx[string(k.Storage())]; ok {
		return i
	}
	return -2
}

func (w *world) snapshot(l list.AclList) snap {
	st := l.AclState()
	s := snap{Acc: map[int]accSt{}, Inv: map[int]invSt{}, Req: map[int]reqSt{}, Pend: map[int]int{}}
	s.Head = w.ridx(l.Head().Id)
	if w.ridx(st.LastRecordId()) != s.Head {
		s.Head = -100 - w.ridx(st.LastRecordId()) // head and state disagree: make it visible
	}
	for _, a := range st.CurrentAccounts() {
		var h []string
		for _, pc := range a.PermissionChanges {
			h = append(h, fmt.Sprintf("%d.%d", w.ridx(pc.RecordId), ev(int(pc.Permission))))
		}
		s.Acc[w.aidx(a.PubKey)] = accSt{Perm: int(a.Permissions), Status: int(a.Status), KeyRec: w.ridx(a.KeyRecordId), Hist: strings.Join(h, ";")}
	}
	for _, i := range st.Invites() {
		k := -2
		if i.Key != nil {
			if x, ok := w.c.invIdx[string(i.Key.Storage())]; ok {
				k = x
			}
		}
		s.Inv[w.ridx(i.Id)] = invSt{Typ: int(i.Type), Perm: int(i.Permissions), Key: k}
	}
	for _, id := range st.RequestIds() {
		s.Req[w.ridx(id)] = reqSt{Acc: -1, Typ: -1}
	}
	jr, _ := st.JoinRecords(false)
	for _, r := range append(jr, st.RemoveRecords()...) {
		s.Req[w.ridx(r.RecordId)] = reqSt{Acc: w.aidx(r.RequestIdentity), Typ: int(r.Type)}
	}
	for i, k := range w.c.acc {
		r, err := st.Record(k.SignKey.GetPublic())
		if err == nil {
			s.Pend[i] = w.ridx(r.RecordId)
		}
	}
	for id := range st.Keys() {
		s.Keys = append(s.Keys, w.ridx(id))
	}
	sort.Ints(s.Keys)
	s.Cur = w.ridx(st.CurrentReadKeyId())
	s.Opt = "-"
	if o := st.CurrentOptions(); o != nil {
		s.Opt = b01(o.DeleteRestricted)
	}
	return s
}

// snapshotNV: reduced observation for the non-validating stream — only lookups by key, because
// zero-valued map entries (created when a non-validating list applies a record consensus would have
// refused) carry no PubKey / Id to print.
func (w *world) snapshotNV(l list.AclList) string {
	st := l.AclState()
	perms := make([]int, nAccounts)
	pend := make([]string, nAccounts)
	for i, k := range w.c.acc {
		perms[i] = ev(int(st.Permissions(k.SignKey.GetPublic())))
		pend[i] = "-"
		if r, err := st.Record(k.SignKey.GetPublic()); err == nil {
			pend[i] = strconv.Itoa(w.ridx(r.RecordId))
			if r.RecordId == "" { // pending entry whose request record is gone: the id is still in the map
				pend[i] = "?"
			}
		}
	}
	var keys []int
	for id := range st.Keys() {
		keys = append(keys, w.ridx(id))
	}
	sort.Ints(keys)
	opt := "-"
	if o := st.CurrentOptions(); o != nil {
		opt = b01(o.DeleteRestricted)
	}
	return fmt.Sprintf("h=%d perms=%s pend=%s ninv=%d nreq=%d K[%s] cur=%d O=%s", w.ridx(l.Head().Id), ints(perms), strings.Join(pend, ","),
		len(st.Invites()), len(st.RequestIds()), ints(keys), w.ridx(st.CurrentReadKeyId()), opt)
}

func sortedKeys[V any](m map[int]V) []int {
	k := make([]int, 0, len(m))
	for x := range m {
		k = append(k, x)
	}
	sort.Ints(k)
	return k
}

func (s snap) String() string {
	var b strings.Builder
	fmt.Fprintf(&b, "h=%d A[", s.Head)
	for i, k := range sortedKeys(s.Acc) {
		if i > 0 {
			b.WriteByte(',')
		}
		a := s.Acc[k]
		h := a.Hist
		if h == "" {
			h = "-"
		}
		fmt.Fprintf(&b, "%d:%d:%d:%d:%s", k, ev(a.Perm), a.Status, a.KeyRec, h)
	}
	b.WriteString("] I[")
	for i, k := range sortedKeys(s.Inv) {
		if i > 0 {
			b.WriteByte(',')
		}
		v := s.Inv[k]
		fmt.Fprintf(&b, "%d:%d:%d:%d", k, ev(v.Typ), ev(v.Perm), v.Key)
	}
	b.WriteString("] R[")
	for i, k := range sortedKeys(s.Req) {
		if i > 0 {
			b.WriteByte(',')
		}
		v := s.Req[k]
		fmt.Fprintf(&b, "%d:%d:%d", k, v.Acc, v.Typ)
	}
	b.WriteString("] P[")
	for i, k := range sortedKeys(s.Pend) {
		if i > 0 {
			b.WriteByte(',')
		}
		fmt.Fprintf(&b, "%d:%d", k, s.Pend[k])
	}
	fmt.Fprintf(&b, "] K[%s] cur=%d O=%s", ints(s.Keys), s.Cur, s.Opt)
	return b.String()
}

func (s snap) perm(a int) int { return s.Acc[a].Perm }

func (s snap) owners() []int {
	var o []int
	for _, k := range sortedKeys(s.Acc) {
		if s.Acc[k].Perm == pOwner {
			o = append(o, k)
		}
	}
	return o
}

// ---------------------------------------------------------------------------------------------
// error enum

var errTable = []struct {
	e error
	s string
}{
	{list.ErrNoSuchAccount, "nosuchaccount"},
	{list.ErrPendingRequest, "pending"},
	{list.ErrUnexpectedContentType, "unexpected"},
	{list.ErrIncorrectIdentity, "badident"},
	{list.ErrNoMetadataKey, "nomdkey"},
	{list.ErrNoSuchRequest, "nosuchreq"},
	{list.ErrNoSuchInvite, "nosuchinv"},
	{list.ErrInsufficientPermissions, "perm"},
	{list.ErrIsOwner, "isowner"},
	{list.ErrIncorrectNumberOfAccounts, "numacc"},
	{list.ErrDuplicateAccounts, "dup"},
	{list.ErrIncorrectReadKey, "readkey"},
	{list.ErrInvalidSignature, "sig"},
	{list.ErrIncorrectRecordSequence, "seq"},
	{list.ErrMetadataTooLarge, "meta"},
	{list.ErrFailedToDecrypt, "decrypt"},
	{list.ErrIncorrectCID, "cid"},
	{list.ErrRecordAlreadyExists, "exists"},
	{list.ErrNoSuchRecord, "nosuchrec"},
	{list.ErrNoReadKey, "noreadkey"},
	{list.ErrEmptyAclRecordData, "emptydata"},
	{list.ErrAddRecordOneToOne, "onetoone"},
	{list.ErrReadKeyChangeNotAlone, "rkcalone"},
}

// errEnum maps an error of the real code to the small enum shared with the model. Errors of the
// key parser (garbage identity bytes) are `badkey`; acceptor verification failures `acceptor`.
func errEnum(err error) string {
	if err == nil {
		return "ok"
	}
	for _, t := range errTable {
		if errors.Is(err, t.e) {
			return t.s
		}
	}
	msg := err.Error()
	switch {
	case strings.Contains(msg, "acceptor"):
		return "acceptor"
	case errors.Is(err, crypto.ErrIncorrectKeyType), strings.Contains(msg, "proto:"), strings.Contains(msg, "unexpected EOF"),
		strings.Contains(msg, "invalid key"), strings.Contains(msg, "key length"), strings.Contains(msg, "wrong wireType"), strings.Contains(msg, "illegal"):
		return "badkey"
	}
	return "other:" + msg
}
