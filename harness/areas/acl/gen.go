package acl

import (
	"sort"

	"verifharness/internal/corr"
)

// Generators. Every record is derived from a *template that is valid in the current state* (so the
// accepting side of every guard is reached) and then, with some probability, mutated in exactly
// one or two fields (author, target, permission, referenced record id, signature, read-key
// coverage …) — which lands on the rejecting side of one specific guard of validator.go. A small
// share of records is fully random.

type gen struct {
	r *corr.Run
	w *world
	s snap // current state of the reference list
}

var kinds = []string{"pc", "pcs", "own", "add", "inv", "ich", "irv", "ijn", "rjn", "acc", "dec", "can", "rem", "rrm", "rkc", "opt", "nop"}
var kindWeight = map[string]int{"pc": 8, "pcs": 4, "own": 4, "add": 10, "inv": 8, "ich": 5, "irv": 3, "ijn": 7, "rjn": 8, "acc": 10, "dec": 4, "can": 4, "rem": 7, "rrm": 7, "rkc": 3, "opt": 3, "nop": 1}

func (g *gen) pick(l []int) (int, bool) {
	if len(l) == 0 {
		return 0, false
	}
	return l[g.r.Intn(len(l))], true
}

func (g *gen) accounts(pred func(i int, a accSt, known bool) bool) []int {
	var out []int
	for i := 0; i < nAccounts; i++ {
		a, ok := g.s.Acc[i]
		if pred(i, a, ok) {
			out = append(out, i)
		}
	}
	return out
}

func (g *gen) managers() []int {
	return g.accounts(func(i int, a accSt, _ bool) bool { return manager(a.Perm) })
}
func (g *gen) owner() int {
	o := g.s.owners()
	if len(o) == 0 {
		return 0
	}
	return o[0]
}
func (g *gen) nonMembers() []int {
	return g.accounts(func(i int, a accSt, _ bool) bool { return a.Perm == pNone })
}
func (g *gen) invites(typ int) []int {
	var out []int
	for _, k := range sortedKeys(g.s.Inv) {
		if typ < 0 || g.s.Inv[k].Typ == typ {
			out = append(out, k)
		}
	}
	return out
}
func (g *gen) oddInvites() []int {
	var out []int
	for _, k := range sortedKeys(g.s.Inv) {
		if t := g.s.Inv[k].Typ; t != 0 && t != 1 {
			out = append(out, k)
		}
	}
	return out
}

func (g *gen) requests(typ int) []int {
	var out []int
	for _, k := range sortedKeys(g.s.Req) {
		if typ < 0 || g.s.Req[k].Typ == typ {
			out = append(out, k)
		}
	}
	return out
}

func (g *gen) anyAcc() int {
	if g.r.Chance(4) {
		return BAD
	}
	return g.r.Intn(nAccounts)
}

// oddValues: out-of-enum wire values of an int32 protobuf enum (permissions, invite types)
var oddPerms = []int{6, 7, 8, -1, -5, 100, 2147483647, -2147483648}
var oddTypes = []int{2, 3, 7, -1, 2147483647}

func (g *gen) anyPerm() int {
	if g.r.Chance(8) {
		return oddPerms[g.r.Intn(len(oddPerms))]
	}
	return g.r.Intn(6)
}

// oddAccounts: members whose permission is outside the enum (powerless members by the unmodified
// predicates of models.go)
func (g *gen) oddAccounts() []int {
	return g.accounts(func(i int, a accSt, known bool) bool { return known && (a.Perm < 0 || a.Perm > pGuest) })
}

// anyRec: a record reference of any kind — live invite, live request, some other accepted record,
// the root, or an id that was never accepted.
func (g *gen) anyRec() int {
	switch g.r.Intn(5) {
	case 0:
		if x, ok := g.pick(g.invites(-1)); ok {
			return x
		}
	case 1:
		if x, ok := g.pick(g.requests(-1)); ok {
			return x
		}
	case 2:
		return g.r.Intn(len(g.w.recs))
	case 3:
		return len(g.w.recs) + 3 + g.r.Intn(3)
	}
	// never len(recs): that is the id the record under construction will get, and a record cannot
	// contain its own hash
	return g.r.Intn(len(g.w.recs))
}

// coverage computes the read-key coverage the validator demands after removing `removed`.
func (g *gen) coverage(removed []int) *rkc {
	k := &rkc{MdOK: true, HasMeta: true, HasOld: true}
	rm := map[int]bool{}
	for _, x := range removed {
		rm[x] = true
	}
	for _, a := range sortedKeys(g.s.Acc) {
		if g.s.Acc[a].Perm != pNone && !rm[a] {
			k.Accs = append(k.Accs, a)
		}
	}
	for _, i := range sortedKeys(g.s.Inv) {
		if g.s.Inv[i].Typ == 1 {
			k.Invs = append(k.Invs, g.s.Inv[i].Key)
		}
	}
	g.r.Rand.Shuffle(len(k.Accs), func(i, j int) { k.Accs[i], k.Accs[j] = k.Accs[j], k.Accs[i] })
	return k
}

// valid returns (author, content) that the validator accepts in the current state, if the state
// allows one of this kind.
func (g *gen) valid(kind string) (int, content, bool) {
	own := g.owner()
	mgr, okM := g.pick(g.managers())
	if !okM {
		mgr = own
	}
	mperm := func() int { // a permission `mgr` may hand out
		l := []int{pWriter, pReader}
		if mgr == own {
			l = append(l, pAdmin)
		}
		return l[g.r.Intn(len(l))]
	}
	switch kind {
	case "pc", "pcs":
		t, ok := g.pick(g.accounts(func(i int, a accSt, known bool) bool {
			return known && i != mgr && a.Perm != pOwner && a.Perm != pGuest && (a.Perm != pAdmin || mgr == own)
		}))
		if !ok {
			return 0, content{}, false
		}
		p := mperm()
		if g.s.perm(t) == pReader && g.r.Chance(20) {
			p = pGuest
		}
		if kind == "pc" {
			return mgr, content{K: "pc", Acc: t, Perm: p}, true
		}
		ps := []pair{{t, p}}
		if t2, ok := g.pick(g.accounts(func(i int, a accSt, known bool) bool {
			return known && i != mgr && i != t && a.Perm != pOwner && a.Perm != pGuest && a.Perm != pAdmin
		})); ok {
			ps = append(ps, pair{t2, pWriter + g.r.Intn(2)})
		}
		return mgr, content{K: "pcs", Pairs: ps}, true
	case "own":
		t, ok := g.pick(g.accounts(func(i int, a accSt, known bool) bool {
			return known && a.Perm != pNone && a.Perm != pOwner && a.Status == 2
		}))
		if !ok {
			return 0, content{}, false
		}
		return own, content{K: "own", Acc: t, Perm: []int{pAdmin, pWriter, pReader}[g.r.Intn(3)]}, true
	case "add":
		nm := g.nonMembers()
		if len(nm) == 0 {
			return 0, content{}, false
		}
		g.r.Rand.Shuffle(len(nm), func(i, j int) { nm[i], nm[j] = nm[j], nm[i] })
		n := 1 + g.r.Intn(min(3, len(nm)))
		var ps []pair
		for _, t := range nm[:n] {
			p := mperm()
			if g.r.Chance(15) {
				p = pGuest
			} else if g.r.Chance(12) {
				p = oddPerms[g.r.Intn(len(oddPerms))] // accepted: a member without any right
			}
			ps = append(ps, pair{t, p})
		}
		return mgr, content{K: "add", Pairs: ps}, true
	case "inv":
		c := content{K: "inv", Typ: g.r.Intn(2), Key: g.r.Intn(nInvKeys)}
		if c.Typ == 1 {
			c.Perm, c.HasRK = mperm(), true
		}
		if g.r.Chance(20) {
			// an unknown invite type: every permission level is accepted from every manager
			c.Typ = oddTypes[g.r.Intn(len(oddTypes))]
			c.Perm = []int{pAdmin, pAdmin, pOwner, pWriter, pReader, pGuest, pNone, 7}[g.r.Intn(8)]
			c.HasRK = g.r.Chance(50)
		}
		return mgr, c, true
	case "ich":
		i, ok := g.pick(g.invites(1))
		if !ok {
			return 0, content{}, false
		}
		for k := 0; k < 4; k++ {
			if p := mperm(); p != g.s.Inv[i].Perm {
				return mgr, content{K: "ich", Rec: i, Perm: p}, true
			}
		}
		return 0, content{}, false
	case "irv":
		i, ok := g.pick(g.invites(-1))
		if !ok {
			return 0, content{}, false
		}
		return mgr, content{K: "irv", Rec: i}, true
	case "ijn":
		i, ok := g.pick(g.invites(1))
		if odd := g.oddInvites(); len(odd) > 0 && (g.r.Chance(30) || !ok) {
			// an invite of an unknown type must not be joinable (generated as a "valid" template so that
			// it is tried often; the expected verdict is a rejection)
			i, ok = odd[g.r.Intn(len(odd))], true
		}
		a, ok2 := g.pick(g.nonMembers())
		if !ok || !ok2 {
			return 0, content{}, false
		}
		ip := g.s.Inv[i].Perm
		p := []int{pNone, pReader, ip}[g.r.Intn(3)]
		return a, content{K: "ijn", Acc: a, Rec: i, Perm: p, SigKey: g.s.Inv[i].Key, SigAcc: a, HasRK: true}, true
	case "rjn":
		i, ok := g.pick(g.invites(0))
		a, ok2 := g.pick(g.accounts(func(i int, a accSt, _ bool) bool {
			_, pend := g.s.Pend[i]
			return a.Perm == pNone && !pend
		}))
		if !ok || !ok2 {
			return 0, content{}, false
		}
		return a, content{K: "rjn", Acc: a, Rec: i, SigKey: g.s.Inv[i].Key, SigAcc: a}, true
	case "acc":
		q, ok := g.pick(g.requests(1))
		if !ok {
			return 0, content{}, false
		}
		return mgr, content{K: "acc", Acc: g.s.Req[q].Acc, Rec: q, Perm: mperm()}, true
	case "dec":
		q, ok := g.pick(g.requests(1))
		if !ok {
			return 0, content{}, false
		}
		return mgr, content{K: "dec", Rec: q}, true
	case "can":
		q, ok := g.pick(g.requests(-1))
		if !ok || g.s.Req[q].Acc < 0 {
			return 0, content{}, false
		}
		return g.s.Req[q].Acc, content{K: "can", Rec: q}, true
	case "rem":
		cand := g.accounts(func(i int, a accSt, known bool) bool {
			return known && i != mgr && a.Perm != pNone && a.Perm != pOwner && (a.Perm != pAdmin || mgr == own)
		})
		if len(cand) == 0 {
			return 0, content{}, false
		}
		g.r.Rand.Shuffle(len(cand), func(i, j int) { cand[i], cand[j] = cand[j], cand[i] })
		n := 1
		if len(cand) > 1 && g.r.Chance(25) {
			n = 2
		}
		rm := append([]int{}, cand[:n]...)
		return mgr, content{K: "rem", Accs: rm, Rk: g.coverage(rm)}, true
	case "rrm":
		a, ok := g.pick(g.accounts(func(i int, a accSt, known bool) bool {
			_, pend := g.s.Pend[i]
			return known && a.Perm != pNone && a.Perm != pOwner && a.Perm != pGuest && !pend
		}))
		if !ok {
			return 0, content{}, false
		}
		return a, content{K: "rrm"}, true
	case "rkc":
		return mgr, content{K: "rkc", Rk: g.coverage(nil)}, true
	case "opt":
		return own, content{K: "opt", Opt: g.r.Intn(2)}, true
	case "nop":
		return g.r.Intn(nAccounts), content{K: "nop"}, true
	}
	return 0, content{}, false
}

// mutate changes one field of a (valid) template; returns the name of the mutation.
func (g *gen) mutate(author int, c content) (int, content, string) {
	mutRk := func(k *rkc) (*rkc, string) {
		n := *k
		n.Accs = append([]int{}, k.Accs...)
		n.Invs = append([]int{}, k.Invs...)
		switch g.r.Intn(9) {
		case 0:
			n.MdOK = false
			return &n, "rk-mdkey"
		case 1:
			n.HasMeta = false
			return &n, "rk-nometa"
		case 2:
			n.HasOld = false
			return &n, "rk-noold"
		case 3:
			if len(n.Accs) > 0 {
				n.Accs = n.Accs[1:]
				return &n, "rk-drop-acc"
			}
		case 4:
			n.Accs = append(n.Accs, g.anyAcc())
			return &n, "rk-extra-acc"
		case 5:
			if len(n.Accs) > 0 {
				n.Accs[0] = g.anyAcc()
				return &n, "rk-swap-acc"
			}
		case 6:
			if len(n.Invs) > 0 {
				n.Invs = n.Invs[1:]
				return &n, "rk-drop-inv"
			}
		case 7:
			n.Invs = append(n.Invs, g.r.Intn(nInvKeys))
			return &n, "rk-extra-inv"
		case 8:
			if len(n.Invs) > 0 {
				n.Invs[0] = []int{BAD, g.r.Intn(nInvKeys)}[g.r.Intn(2)]
				return &n, "rk-swap-inv"
			}
		}
		n.Accs = append(n.Accs, g.anyAcc())
		return &n, "rk-extra-acc"
	}
	// generic mutations available for every kind
	switch g.r.Intn(10) {
	case 0, 1, 2:
		a := g.r.Intn(nAccounts)
		return a, c, "author"
	case 3:
		if odd := g.oddAccounts(); len(odd) > 0 {
			// a member whose permission value is outside the enum signs (a manager-only operation, mostly)
			return odd[g.r.Intn(len(odd))], c, "author-odd-perm"
		}
	}
	switch c.K {
	case "pc", "own", "acc":
		switch g.r.Intn(3) {
		case 0:
			c.Acc = g.anyAcc()
			return author, c, "target"
		case 1:
			c.Perm = g.anyPerm()
			return author, c, "perm"
		default:
			if c.K == "acc" {
				c.Rec = g.anyRec()
				return author, c, "rec"
			}
			c.Acc = author
			return author, c, "target-self"
		}
	case "pcs", "add":
		ps := append([]pair{}, c.Pairs...)
		i := g.r.Intn(len(ps))
		switch g.r.Intn(4) {
		case 0:
			ps[i].Acc = g.anyAcc()
			c.Pairs = ps
			return author, c, "target"
		case 1:
			ps[i].Perm = g.anyPerm()
			c.Pairs = ps
			return author, c, "perm"
		case 2:
			ps = append(ps, ps[i])
			c.Pairs = ps
			return author, c, "dup"
		default:
			ps = append(ps, pair{g.anyAcc(), g.anyPerm()})
			c.Pairs = ps
			return author, c, "extra"
		}
	case "inv":
		switch g.r.Intn(4) {
		case 0:
			c.Perm = g.anyPerm()
			return author, c, "perm"
		case 1:
			c.Typ = append([]int{0, 1}, oddTypes...)[g.r.Intn(2+len(oddTypes))]
			return author, c, "type"
		case 2:
			c.Key = BAD
			return author, c, "key"
		default:
			c.HasRK = !c.HasRK
			return author, c, "readkey"
		}
	case "ich":
		if g.r.Chance(50) {
			c.Perm = g.anyPerm()
			return author, c, "perm"
		}
		c.Rec = g.anyRec()
		return author, c, "rec"
	case "irv", "dec", "can":
		c.Rec = g.anyRec()
		return author, c, "rec"
	case "ijn", "rjn":
		switch g.r.Intn(7) {
		case 0:
			c.Acc = g.anyAcc()
			return author, c, "target"
		case 1:
			c.Rec = g.anyRec()
			return author, c, "rec"
		case 2:
			c.SigKey = []int{BAD, g.r.Intn(nInvKeys)}[g.r.Intn(2)]
			return author, c, "sigkey"
		case 3:
			c.SigAcc = g.r.Intn(nAccounts)
			return author, c, "sigacc"
		case 4:
			c.Big = true
			return author, c, "bigmeta"
		case 5:
			if c.K == "ijn" {
				c.HasRK = false
				return author, c, "readkey"
			}
			c.Rec = g.anyRec()
			return author, c, "rec"
		default:
			if c.K == "ijn" {
				c.Perm = g.anyPerm()
				return author, c, "perm"
			}
			c.SigAcc = g.r.Intn(nAccounts)
			return author, c, "sigacc"
		}
	case "rem":
		switch g.r.Intn(4) {
		case 0:
			c.Accs = append(append([]int{}, c.Accs...), g.anyAcc())
			return author, c, "extra-target"
		case 1:
			c.Accs = append(append([]int{}, c.Accs...), c.Accs[0])
			return author, c, "dup-target"
		case 2:
			t := g.anyAcc()
			c.Accs = []int{t}
			c.Rk = g.coverage(c.Accs)
			return author, c, "target"
		default:
			var m string
			c.Rk, m = mutRk(c.Rk)
			return author, c, m
		}
	case "rkc":
		var m string
		c.Rk, m = mutRk(c.Rk)
		return author, c, m
	case "opt":
		c.Opt = 1 - c.Opt
		return g.r.Intn(nAccounts), c, "author"
	}
	return g.r.Intn(nAccounts), c, "author"
}

// random: a content with every field drawn blindly.
func (g *gen) random() (int, content) {
	k := kinds[g.r.Intn(len(kinds))]
	c := content{K: k, Acc: g.anyAcc(), Perm: g.anyPerm(), Rec: g.anyRec(), Typ: g.r.Intn(3), Key: g.r.Intn(nInvKeys), SigKey: g.r.Intn(nInvKeys), SigAcc: g.r.Intn(nAccounts), HasRK: g.r.Chance(70), Opt: g.r.Intn(2)}
	for n := g.r.Intn(3); n >= 0; n-- {
		c.Pairs = append(c.Pairs, pair{g.anyAcc(), g.anyPerm()})
		c.Accs = append(c.Accs, g.anyAcc())
	}
	c.Rk = g.coverage(nil)
	return g.r.Intn(nAccounts), c
}

func (g *gen) pickKind() string {
	tot := 0
	for _, k := range kinds {
		tot += kindWeight[k]
	}
	x := g.r.Intn(tot)
	for _, k := range kinds {
		x -= kindWeight[k]
		if x < 0 {
			return k
		}
	}
	return "nop"
}

// next produces one record description: author, contents, and a label for the evidence counters.
// pValid is the probability (percent) of leaving a valid template unmutated.
func (g *gen) next(pValid int) (int, []content, string) {
	one := func() (int, content, string) {
		for try := 0; try < 6; try++ {
			k := g.pickKind()
			a, c, ok := g.valid(k)
			if !ok {
				continue
			}
			x := g.r.Intn(100)
			switch {
			case x < pValid:
				return a, c, k + ".valid"
			case x < 96:
				a2, c2, m := g.mutate(a, c)
				if g.r.Chance(15) {
					a2, c2, _ = g.mutate(a2, c2)
					m += "+"
				}
				return a2, c2, k + ".mut." + m
			default:
				a, c := g.random()
				return a, c, c.K + ".random"
			}
		}
		a, c := g.random()
		return a, c, c.K + ".random"
	}
	a, c, label := one()
	cs := []content{c}
	if g.r.Chance(18) { // multi-content record: further contents by the same author
		for n := 1 + g.r.Intn(2); n > 0; n-- {
			var c2 content
			var ok bool
			for try := 0; try < 5 && !ok; try++ {
				var a2 int
				var l2 string
				a2, c2, l2 = one()
				ok = a2 == a || c2.K == "nop"
				_ = l2
			}
			if !ok {
				_, c2 = g.random()
			}
			cs = append(cs, c2)
		}
		label = "batch." + label
	}
	return a, cs, label
}

func sortedCopy(l []int) []int {
	c := append([]int{}, l...)
	sort.Ints(c)
	return c
}
