package acl

import (
	"fmt"
	"os"
	"strings"

	"github.com/anyproto/any-sync/commonspace/object/acl/list"
	"github.com/anyproto/any-sync/commonspace/object/acl/recordverifier"
	"github.com/anyproto/any-sync/consensus/consensusproto"

	"verifharness/internal/corr"
)

func init() {
	corr.RegisterArea("acl", Run)
}

// ref is the reference observer: a fully validating list (the consensus-node configuration) whose
// own identity is not a member, over in-memory storage.
func newRef(w *world) (list.AclList, list.Storage, error) {
	st, err := list.NewInMemoryStorage(w.root.Id, []*consensusproto.RawRecordWithId{w.root})
	if err != nil {
		return nil, nil, err
	}
	l, err := list.BuildAclListWithIdentity(w.c.node, st, recordverifier.NewValidateFull())
	return l, st, err
}

type copier interface{ Copy() list.Storage }

// clone gives a world whose bookkeeping can diverge from w (same cast, same history so far).
func (w *world) clone() *world {
	c := *w
	c.recs = append([]*consensusproto.RawRecordWithId{}, w.recs...)
	c.recIdx = make(map[string]int, len(w.recIdx))
	for k, v := range w.recIdx {
		c.recIdx[k] = v
	}
	c.lines = append([]string{}, w.lines...)
	return &c
}

// splitOracle judges an accepted multi-content record content by content. The intermediate states
// come from the real code: for every k the prefix [c1..ck] is signed as a record of its own by the
// same author and applied to a fresh real validating list rebuilt from a copy of the storage as it
// was before the record. Every prefix must be accepted, step k is judged by oracleC04 on (state
// after k-1 contents, state after k contents) with the author's permission at that point, and the
// last prefix (= the record itself, re-signed) must reproduce the post-state exactly.
func (s *session) splitOracle(w, wBefore *world, stBefore list.Storage, author int, cs []content, pre, post snap) {
	r := s.r
	cur := pre
	for k := 1; k <= len(cs); k++ {
		scratch, err := list.BuildAclListWithIdentity(w.c.node, stBefore.(copier).Copy(), recordverifier.NewValidateFull())
		if err != nil {
			r.Violate("C03", "", "acl.rebuild", "cannot rebuild a list from a copy of the storage: "+err.Error(), append([]string{}, w.lines...))
			return
		}
		w2 := wBefore.clone()
		b := w2.build(author, len(w2.recs)-1, cs[:k], tamper{})
		err, pan := addSafely(scratch, b.raw)
		if err != nil || pan != "" {
			r.Count("c04.violation.batch-prefix")
			r.Violate("C04", "", "acl.rules.batch-prefix", fmt.Sprintf("multi-content record accepted, but the record made of its first %d contents is rejected (%s%s)", k, errEnum(err), pan), append([]string{}, w.lines...))
			return
		}
		w2.accepted(b)
		nxt := w2.snapshot(scratch)
		for _, v := range oracleC04(cur, nxt, author, cs[k-1:k]) {
			r.Count("c04.violation." + v.rule)
			r.Violate("C04", v.sig, "acl.rules."+v.rule, fmt.Sprintf("(content #%d of a multi-content record) ", k-1)+v.desc+" | pre: "+cur.String()+" | post: "+nxt.String(), append([]string{}, w.lines...))
		}
		cur = nxt
	}
	if cur.String() != post.String() {
		r.Count("c03.violation.resign-state")
		r.Violate("C03", "", "acl.determinism", "the same contents by the same author on the same state reached a different state: "+post.String()+" vs "+cur.String(), append([]string{}, w.lines...))
	}
	r.Count("c04.split-judged")
}

func addSafely(l list.AclList, raw *consensusproto.RawRecordWithId) (err error, panicked string) {
	defer func() {
		if p := recover(); p != nil {
			panicked = fmt.Sprint(p)
		}
	}()
	return l.AddRawRecord(raw), ""
}

type asked struct{ prop, stream, line, impl string }

type session struct {
	c03walks int
	q        []asked
	r        *corr.Run
	c        *cast
	useModel bool
	prop     string // property the check was started for ("" = all)
}

func (s *session) wants(p string) bool { return s.prop == "" || s.prop == p }

// ask queues a line for the model (if attached) together with what the implementation answered;
// flush sends the whole history in one round trip (`walk a | b | …`) and compares answer by answer.
func (s *session) ask(prop, stream string, w *world, line, impl string) {
	w.lines = append(w.lines, line)
	if s.useModel {
		s.q = append(s.q, asked{prop, stream, line, impl})
	}
}

func (s *session) flush() {
	if len(s.q) == 0 {
		return
	}
	ls := make([]string, len(s.q))
	for i, a := range s.q {
		ls[i] = a.line
	}
	ans := strings.Split(s.r.Ask("walk "+strings.Join(ls, " | ")), " | ")
	for i, a := range s.q {
		m := "missing-answer"
		if i < len(ans) {
			m = ans[i]
		}
		if m != a.impl {
			s.r.Check(a.prop, a.stream, append([]string{}, ls[:i+1]...), m, a.impl)
			break // later answers depend on the diverged model state
		}
	}
	s.q = s.q[:0]
}

// c04ctx: one history on the reference list; step offers one record and runs oracle + model.
type c04ctx struct {
	s        *session
	w        *world
	ref      list.AclList
	refSt    list.Storage
	g        *gen
	branches map[string]bool
	changed  bool
	nv       bool // non-validating list (network-acceptor verifier): model op `recn`, no privilege oracle
}

func (cx *c04ctx) step(author, prev int, cs []content, label string) bool {
	s, w, ref, refSt, g, r := cx.s, cx.w, cx.ref, cx.refSt, cx.g, cx.s.r
	branches := cx.branches
	changed := false
	pre := g.s
	b := w.build(author, prev, cs, tamper{})
	var stBefore list.Storage
	var wBefore *world
	if len(cs) > 1 {
		stBefore = refSt.(copier).Copy()
		wBefore = w.clone()
	}
	err, pan := addSafely(ref, b.raw)
	if pan != "" && !cx.nv {
		r.Violate("C04", "", "acl.panic", "AddRawRecord panicked: "+pan, append(append([]string{}, w.lines...), b.line()))
		return false
	}
	if pan != "" {
		// a non-validating list fed with a record consensus would never have accepted (nil request
		// identity); the model says `panic` for exactly these. C11 territory, counted, not judged here.
		err = fmt.Errorf("panic: %s", pan)
		r.Count("nv.panic")
	}
	post := w.snapshot(ref)
	e := errEnum(err)
	if pan != "" {
		e = "panic"
	}
	if strings.HasPrefix(e, "other:") {
		r.Fatal("unmapped error from AddRawRecord: " + e + " on " + b.line())
	}
	impl := "err " + e
	if err == nil {
		w.accepted(b)
		post = w.snapshot(ref) // the new record is now interned
		impl = "ok " + post.String()
		if cx.nv {
			impl = "ok " + w.snapshotNV(ref)
		}
	}
	line, stream := b.line(), "acl.apply"
	if cx.nv {
		line, stream = "recn"+strings.TrimPrefix(line, "rec"), "acl.apply-novalidate"
	}
	s.ask("", stream, w, line, impl)
	if os.Getenv("ACL_TRACE") != "" && strings.HasPrefix(label, "script.") {
		fmt.Fprintf(os.Stderr, "%-28s %-60s %s\n", label, b.line(), strings.SplitN(impl, " A[", 2)[0])
	}
	pfx := "c04."
	if cx.nv {
		pfx = "nv."
	}
	r.Count(pfx + "kind." + label)
	r.Count(pfx + "result." + e)
	for _, c := range cs {
		r.Count(pfx + "content." + c.K + "." + map[bool]string{true: "accepted", false: "rejected"}[err == nil])
	}
	if len(cs) > 1 {
		r.Count(pfx + "multi." + map[bool]string{true: "accepted", false: "rejected"}[err == nil])
	}
	branches[e] = true
	if err == nil {
		if pre.String() != post.String() {
			changed = true
		}
		if cx.nv {
			// no privilege rules without validation
		} else if len(cs) > 1 {
			s.splitOracle(w, wBefore, stBefore, author, cs, pre, post)
		} else {
			for _, v := range oracleC04(pre, post, author, cs) {
				r.Count("c04.violation." + v.rule)
				r.Violate("C04", v.sig, "acl.rules."+v.rule, v.desc+" | pre: "+pre.String()+" | post: "+post.String(), append([]string{}, w.lines...))
			}
		}
		if n := len(post.owners()); n != 1 && !cx.nv {
			r.Violate("C04", "", "acl.rules.one-owner", fmt.Sprintf("%d owners after an accepted record: %s", n, post.String()), append([]string{}, w.lines...))
		}
	} else if pre.String() != post.String() && !cx.nv {
		// C03: a rejected record changes nothing
		r.Violate("C03", "", "acl.reject-noop", "rejected record ("+e+") changed the state: "+pre.String()+" -> "+post.String(), append([]string{}, w.lines...))
	}
	g.s = post
	if changed {
		cx.changed = true
	}
	return true
}

// walkNV: one history on a NON-validating list (recordverifier.New(network key), node identity,
// partial decode): every generated record, valid or not, is offered; verdict, error and state are
// compared with the model's `v = false` mode (`recn`). This ties the mode the theorems
// novalidate_agrees / shrink_invariant talk about to the real code.
func (s *session) walkNV(steps int) {
	r := s.r
	w, err := newWorld(s.c, r.Intn(nAccounts), r.Chance(30))
	if err != nil {
		r.Fatal("newWorld: " + err.Error())
	}
	st, err := list.NewInMemoryStorage(w.root.Id, []*consensusproto.RawRecordWithId{w.root})
	if err != nil {
		r.Fatal("storage: " + err.Error())
	}
	l, err := list.BuildAclListWithIdentity(s.c.node, st, recordverifier.New(s.c.network.GetPublic()))
	if err != nil {
		r.Fatal("list: " + err.Error())
	}
	g := &gen{r: r, w: w}
	g.s = w.snapshot(l)
	w.lines[0] = "rootn" + strings.TrimPrefix(w.lines[0], "root")
	if s.useModel {
		s.q = append(s.q, asked{"", "acl.root", w.lines[0], "ok " + w.snapshotNV(l)})
	}
	defer s.flush()
	cx := &c04ctx{s: s, w: w, ref: l, refSt: st, g: g, branches: map[string]bool{}, nv: true}
	for i := 0; i < steps && r.TimeLeft(); i++ {
		author, cs, label := g.next(50)
		if author < 0 {
			author = BAD
		}
		for k := range cs {
			sanitize(&cs[k], len(w.recs))
			if _, live := g.s.Inv[cs[k].Rec]; cs[k].K == "ich" && !live {
				// without validation this stores a zero-valued invite (nil key); a later read key change
				// then dereferences it or not depending on Go map iteration order — not reproducible
				cs[k] = content{K: "nop"}
			}
		}
		if !cx.step(author, len(w.recs)-1, cs, label) {
			return
		}
	}
	r.Case("nv\n"+strings.Join(w.lines, "\n"), len(w.recs) > 4)
}

// sanitize replaces the negative placeholders that the dump of a non-validating list can contain
// (zero-valued entries without id / key) by proper "dangling" / "garbage" references.
func sanitize(c *content, n int) {
	fixAcc := func(a int) int {
		if a < 0 {
			return BAD
		}
		return a
	}
	if c.Rec < 0 {
		c.Rec = n + 4
	}
	c.Acc, c.Key, c.SigKey, c.SigAcc = fixAcc(c.Acc), fixAcc(c.Key), fixAcc(c.SigKey), fixAcc(c.SigAcc)
	for i := range c.Pairs {
		c.Pairs[i].Acc = fixAcc(c.Pairs[i].Acc)
	}
	for i := range c.Accs {
		c.Accs[i] = fixAcc(c.Accs[i])
	}
	if c.Rk != nil {
		for i := range c.Rk.Accs {
			c.Rk.Accs[i] = fixAcc(c.Rk.Accs[i])
		}
		for i := range c.Rk.Invs {
			c.Rk.Invs[i] = fixAcc(c.Rk.Invs[i])
		}
	}
}

// walkC04: one history on the reference list; every record goes through oracle and model.
func (s *session) walkC04(steps int) {
	r := s.r
	owner := r.Intn(nAccounts)
	w, err := newWorld(s.c, owner, r.Chance(30))
	if err != nil {
		r.Fatal("newWorld: " + err.Error())
	}
	ref, refSt, err := newRef(w)
	if err != nil {
		r.Fatal("newRef: " + err.Error())
	}
	g := &gen{r: r, w: w}
	g.s = w.snapshot(ref)
	if s.useModel {
		s.q = append(s.q, asked{"", "acl.root", w.lines[0], "ok " + g.s.String()})
	}
	defer s.flush()
	cx := &c04ctx{s: s, w: w, ref: ref, refSt: refSt, g: g, branches: map[string]bool{}}
	for i := 0; i < steps && r.TimeLeft(); i++ {
		pValid := 45
		if i < 10 {
			pValid = 80 // first build up an interesting state
		}
		author, cs, label := g.next(pValid)
		prev := len(w.recs) - 1
		if r.Chance(3) { // chain guard: a record that does not extend the head
			prev = r.Intn(len(w.recs) + 2)
			if prev == len(w.recs) {
				prev += 2
			}
		}
		if !cx.step(author, prev, cs, label) {
			return
		}
	}
	branches, changed := cx.branches, cx.changed
	trace := strings.Join(w.lines, "\n")
	r.Case(trace, len(branches) >= 2 && changed)
	if len(w.lines) > 12 {
		r.Sample(map[string]any{"history": w.lines[:12], "final": g.s.String()})
	}
}

func Run(r *corr.Run) {
	r.SetRule("C04: random walks (40 records each) from a fresh real root over 8 real key pairs and 3 invite keys; every record = a template valid in the current state, left valid or mutated in one/two fields (author, target, permission, record reference, signature, read-key coverage), or fully random; 18% multi-content; each record applied to a real fully validating AclList, compared with the Lean model (accept/reject + error enum + canonical state) and judged by the direct privilege oracle on (pre, author, post). A walk is non-trivial when it reached >= 2 distinct outcomes and changed the state; distinct = distinct histories")
	c, err := newCast()
	if err != nil {
		r.Fatal("cast: " + err.Error())
	}
	s := &session{r: r, c: c, useModel: len(r.ModelCmd) > 0 && os.Getenv("ACL_NOMODEL") == "", prop: os.Getenv("VERIF_PROPERTY")}
	s.runScripts()
	if s.wants("C03") {
		s.keepOracle(r.Pick(4000, 150000))
	}
	walks := r.Pick(3000, 60000)
	for i := 0; i < walks && r.TimeLeft(); i++ {
		if i%7 == 6 && os.Getenv("ACL_NV") != "" {
			// exploration only (not part of the verdict): without validation the real code can reach
			// states in which its behaviour depends on Go map iteration order (see notes), so a
			// model comparison there is not reproducible
			s.walkNV(30)
		} else if i%4 == 3 && s.wants("C03") {
			s.walkC03(30, i%8 == 7)
		} else if s.wants("C04") || i%4 == 0 {
			s.walkC04(40)
		} else {
			s.walkC03(30, i%8 == 5)
		}
		if r.Issues() >= 20 {
			break
		}
	}
}
