package ocache

import (
	"strings"
	"time"

	"verifharness/internal/corr"
)

func init() { corr.RegisterArea("ocache", Run) }

type area struct {
	r        *corr.Run
	reported map[string]bool
	schedN   int
	disN     int // disagreements recorded (capped so that they never crowd out oracle violations)
	violN    int
}

// stop: enough evidence collected (the run goes on after disagreements to find a violating input)
func (a *area) stop() bool { return a.violN >= 8 || a.r.Issues() >= 16 }

// classify maps a violation of a known shape to the signature of the finding it reproduces.
func classify(v violation) string {
	switch {
	case v.prop == "no_panic" && strings.Contains(v.msg, "tryremove") && strings.Contains(v.msg, "nil pointer"):
		return "F-ocache-tryremove-load"
	case v.prop == "none_open_after_Close" && strings.HasPrefix(v.msg, "Add of"):
		return "F-ocache-add-after-close"
	}
	return ""
}

func (a *area) report(scn []opSpec, res *runResult) {
	r := a.r
	sched := make([]string, len(res.acts))
	for i, ac := range res.acts {
		sched[i] = ac.String()
	}
	ops := []string{"scenario " + scnString(scn), "schedule " + strings.Join(sched, " ")}
	ops = append(ops, res.lines...)
	if len(res.disagree) > 0 {
		key := "dis|" + res.disagree[0] + "|" + scnString(scn)
		if !a.reported[key] && a.disN < 4 {
			a.reported[key] = true
			a.disN++
			r.Disagree("C16", res.disagree[0], "model and real cache differ at `"+res.disagree[3]+"`", ops, res.disagree[1], res.disagree[2])
		}
	}
	for _, v := range res.viol {
		sig := classify(v)
		key := v.prop + "|" + sig + "|" + scnString(scn)
		if a.reported[key] {
			r.Count("violations.more")
			continue
		}
		a.reported[key] = true
		a.violN++
		full := append(append([]string{}, ops...), "-- harness log --")
		full = append(full, res.log...)
		r.Violate("C16", sig, "ocache.oracle."+v.prop, v.msg, full)
	}
}

func (a *area) one(scn []opSpec, ch chooser, allVerdicts bool, kind string) *runResult {
	res := runSchedule(a.r, scn, ch, allVerdicts)
	a.schedN++
	r := a.r
	sched := make([]string, len(res.acts))
	for i, ac := range res.acts {
		sched[i] = ac.String()
	}
	trace := scnString(scn) + " | " + strings.Join(sched, " ")
	r.Case(trace, len(res.acts) >= 4)
	r.Count("schedules." + kind)
	r.CountN("steps", len(res.acts))
	for p := range res.parks {
		r.Count("reached." + p)
	}
	if len(res.acts) >= 12 && len(scn) >= 3 {
		r.Sample(map[string]any{"scenario": scnString(scn), "schedule": strings.Join(sched, " "), "final": res.final, "log": res.log})
	}
	if len(res.viol) > 0 || len(res.disagree) > 0 {
		a.report(scn, res)
	}
	return res
}

// dfs explores the schedules of scn depth-first by re-execution. With prune, branching happens
// only at states (model digest) not seen before in this scenario.
func (a *area) dfs(scn []opSpec, maxRuns int, prune bool, kind string) (runs int, complete bool) {
	stack := [][]int{{}}
	visited := map[string]bool{}
	for len(stack) > 0 {
		if runs >= maxRuns || !a.r.TimeLeft() || a.stop() {
			return runs, false
		}
		prefix := stack[len(stack)-1]
		stack = stack[:len(stack)-1]
		res := a.one(scn, func(d int, en []action) int {
			if d < len(prefix) {
				return prefix[d]
			}
			return 0
		}, false, kind)
		runs++
		for i := len(prefix); i < len(res.acts); i++ {
			if prune {
				d := res.digests[i]
				if d == "" || visited[d] {
					break
				}
				visited[d] = true
			}
			for alt := len(res.enabled[i]) - 1; alt >= 1; alt-- {
				p := append(append(make([]int, 0, i+1), res.idx[:i]...), alt)
				stack = append(stack, p)
			}
		}
	}
	return runs, true
}

func catalog(nIds int) []opSpec {
	var out []opSpec
	for k := opKind(0); k < nOpKinds; k++ {
		if k.hasId() {
			for id := 0; id < nIds; id++ {
				out = append(out, opSpec{kind: k, id: id})
			}
		} else {
			out = append(out, opSpec{kind: k})
		}
	}
	return out
}

var setups = map[string][]opSpec{
	"none":    nil,
	"get0":    {{kind: opGet, id: 0, auto: true}},
	"get01":   {{kind: opGet, id: 0, auto: true}, {kind: opGet, id: 1, auto: true}},
	"add0":    {{kind: opAdd, id: 0, auto: true}},
	"closed":  {{kind: opClose, auto: true}},
	"get0-rm": {{kind: opGet, id: 0, auto: true}, {kind: opRemove, id: 0, auto: true}},
}

// build: setup ops run one after the other, then the concurrent ops all start.
func build(setup []opSpec, conc []opSpec) []opSpec {
	var scn []opSpec
	for i, o := range setup {
		if i > 0 {
			o.after = []int{i - 1}
		}
		scn = append(scn, o)
	}
	for _, o := range conc {
		o.after = nil
		if len(setup) > 0 {
			o.after = []int{len(setup) - 1}
		}
		scn = append(scn, o)
	}
	return scn
}

// multisets of size k over n items (indices non-decreasing)
func multisets(n, k int, f func([]int)) {
	cur := make([]int, k)
	var rec func(pos, from int)
	rec = func(pos, from int) {
		if pos == k {
			f(append([]int{}, cur...))
			return
		}
		for i := from; i < n; i++ {
			cur[pos] = i
			rec(pos+1, i)
		}
	}
	rec(0, 0)
}

type family struct {
	name   string
	nIds   int
	k      int
	setups []string
	prune  bool
	cap    int // max runs per scenario
}

func (a *area) scenarios(f family) [][]opSpec {
	cat := catalog(f.nIds)
	var out [][]opSpec
	for _, s := range f.setups {
		multisets(len(cat), f.k, func(ix []int) {
			conc := make([]opSpec, len(ix))
			usesId1 := false
			for i, j := range ix {
				conc[i] = cat[j]
				if cat[j].kind.hasId() && cat[j].id == 1 {
					usesId1 = true
				}
			}
			if f.nIds == 2 && !usesId1 {
				return // covered by the 1-id family
			}
			out = append(out, build(setups[s], conc))
		})
	}
	return out
}

func (a *area) runFamily(f family, share time.Duration) {
	r := a.r
	scns := a.scenarios(f)
	r.Rand.Shuffle(len(scns), func(i, j int) { scns[i], scns[j] = scns[j], scns[i] })
	end := time.Now().Add(share)
	done, complete := 0, 0
	for _, scn := range scns {
		if time.Now().After(end) || !r.TimeLeft() || a.stop() {
			break
		}
		_, c := a.dfs(scn, f.cap, f.prune, f.name)
		done++
		if c {
			complete++
		}
	}
	r.CountN("family."+f.name+".scenarios", len(scns))
	r.CountN("family."+f.name+".scenarios_explored", done)
	r.CountN("family."+f.name+".scenarios_exhausted", complete)
	r.Note("family %s: %d scenarios, %d explored, %d with every schedule executed (prune=%v)", f.name, len(scns), done, complete, f.prune)
}

// randomScenario: n threads on 1..2 ids; some threads start only after another one returned.
func (a *area) randomScenario(n int) []opSpec {
	r := a.r
	nIds := 1 + r.Intn(2)
	cat := catalog(nIds)
	// weights: lookups and removals dominate, close is rare
	w := map[opKind]int{opGet: 6, opPick: 2, opAdd: 2, opRemove: 4, opRemoveSame: 2, opTryRemove: 4, opGC: 3, opClose: 1, opDoLocked: 1, opForEach: 1}
	var pool []opSpec
	for _, o := range cat {
		for i := 0; i < w[o.kind]; i++ {
			pool = append(pool, o)
		}
	}
	scn := make([]opSpec, n)
	for i := range scn {
		scn[i] = pool[r.Intn(len(pool))]
		if i > 0 && r.Chance(35) {
			scn[i].after = []int{r.Intn(i)}
		}
	}
	return scn
}

// cancelFamily: guard-directed scenarios for callers whose context expires while they WAIT inside the
// cache (waitLoad / waitClose / setClosing behind another closer). One cancellable Get/Remove/
// RemoveSame plus two ordinary operations on the same id, of which typically one holds the entry in
// `closing` (TryRemove/GC parked in TryClose, Remove/Close parked in Close) and one is parked on the
// close channel. Schedules are sampled with a chooser that keeps closers parked in the harness for
// a while (thread chosen first, harness verdicts down-weighted) so that waiters pile up behind them;
// the label `t:cancel` is offered whenever the cancellable op is blocked. Not sent to the model.
func (a *area) cancelFamily(share time.Duration) {
	r := a.r
	end := time.Now().Add(share)
	cancellable := []opSpec{{kind: opRemove, id: 0, ctx: true}, {kind: opGet, id: 0, ctx: true}, {kind: opRemoveSame, id: 0, ctx: true}}
	others := []opSpec{{kind: opGet, id: 0}, {kind: opRemove, id: 0}, {kind: opRemoveSame, id: 0}, {kind: opTryRemove, id: 0}, {kind: opGC}, {kind: opClose}}
	var scns [][]opSpec
	for _, setup := range []string{"get0", "none"} {
		for _, c := range cancellable {
			multisets(len(others), 2, func(ix []int) {
				scns = append(scns, build(setups[setup], []opSpec{others[ix[0]], others[ix[1]], c}))
			})
		}
	}
	r.CountN("family.cancel.scenarios", len(scns))
	chooser := func(d int, en []action) int {
		// weight per action: internal step 4, ctx cancel 4, load verdict 2, Close/TryClose verdict 1 (split over its verdicts)
		w := make([]int, len(en))
		tot := 0
		for i, ac := range en {
			switch ac.verdict {
			case "":
				w[i] = 12
			case "cancel":
				w[i] = 12
			case "ok", "err":
				w[i] = 3
			case "ret":
				w[i] = 3
			default:
				w[i] = 1
			}
			tot += w[i]
		}
		k := r.Intn(tot)
		for i := range w {
			if k < w[i] {
				return i
			}
			k -= w[i]
		}
		return 0
	}
	rounds := 0
	for time.Now().Before(end) && r.TimeLeft() && !a.stop() {
		for _, scn := range scns {
			if !time.Now().Before(end) || a.stop() {
				break
			}
			n := 40
			if scn[0].kind != opGet || !scn[0].auto { // no setup: fewer interesting waits
				n = 10
			}
			for k := 0; k < n; k++ {
				a.one(scn, chooser, true, "cancel")
			}
		}
		rounds++
	}
	r.CountN("family.cancel.rounds", rounds)
}

func Run(r *corr.Run) {
	a := &area{r: r, reported: map[string]bool{}}
	r.SetRule("a case = one schedule (order of critical sections and of LoadFunc/Close/TryClose completions, with their verdicts) of one scenario (setup + 2..4 concurrent cache operations on 1..2 ids), executed on the real cache under the harness scheduler and on the Lean LTS; non-trivial = at least 4 scheduled steps; distinct = distinct (scenario, schedule)")
	total := time.Until(r.Deadline)
	one := []string{"none", "get0", "closed"}
	fams := []struct {
		f     family
		share float64
	}{
		// every schedule, no pruning, no dependence on the model
		{family{"2ops-1id-all", 1, 2, one, false, 200000}, 0.30},
		// model-digest pruned: every reachable (model) state is expanded once
		{family{"2ops-2ids", 2, 2, []string{"none", "get0", "get01"}, true, 20000}, 0.15},
		{family{"3ops-1id", 1, 3, []string{"none", "get0", "add0", "get0-rm"}, true, 50000}, 0.25},
		{family{"3ops-2ids", 2, 3, []string{"get0", "get01"}, true, 50000}, 0.08},
		{family{"4ops-1id", 1, 4, []string{"none", "get0"}, true, 100000}, 0.07},
	}
	a.cancelFamily(time.Duration(float64(total) * 0.15))
	for _, f := range fams {
		if !useModel {
			f.f.prune = false
		}
		a.runFamily(f.f, time.Duration(float64(total)*f.share))
	}
	// random schedules of larger scenarios (4..10 threads), every TryClose verdict kind
	for r.TimeLeft() && !a.stop() {
		n := 4 + r.Intn(7)
		scn := a.randomScenario(n)
		for k := 0; k < 20 && r.TimeLeft(); k++ {
			a.one(scn, func(d int, en []action) int { return r.Intn(len(en)) }, true, "random")
		}
	}
}
