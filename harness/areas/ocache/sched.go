// Package ocache drives the REAL app/ocache cache under a harness-controlled schedule (C16).
//
// Every cache operation runs in its own goroutine. A goroutine only ever runs between two
// "parks": the verifYield/verifWait hooks of the cache (build tag verif; the boundaries between
// its critical sections) and the harness-owned LoadFunc / Object.Close / Object.TryClose. The
// scheduler releases exactly one parked goroutine at a time and waits until it parks again or
// returns, so a schedule is a list of (thread, environment verdict) labels and is executed
// deterministically; no sleeps, no quiescence guessing: a goroutine parked in front of a channel
// wait is enabled iff that channel is closed, which the scheduler tests directly.
package ocache

import (
	"context"
	"errors"
	"fmt"
	"sort"
	"strings"
	"time"

	real "github.com/anyproto/any-sync/app/ocache"
)

type opKind int

const (
	opGet opKind = iota
	opPick
	opAdd
	opRemove
	opRemoveSame
	opTryRemove
	opGC
	opClose
	opDoLocked
	opForEach
	nOpKinds
)

var opNames = [...]string{"get", "pick", "add", "remove", "removesame", "tryremove", "gc", "close", "dolocked", "foreach"}

func (k opKind) String() string { return opNames[k] }
func (k opKind) hasId() bool    { return k != opGC && k != opClose && k != opForEach }

// opSpec is one thread of a scenario.
type opSpec struct {
	kind  opKind
	id    int
	after []int // indices of threads that must have returned before this one is started
	auto  bool  // setup op: environment verdicts are fixed (load ok, close returns, TryClose true)
	ctx   bool  // Get/Remove/RemoveSame called with a context the scheduler may cancel while the op waits
}

func (o opSpec) String() string {
	s := o.kind.String()
	if o.kind.hasId() {
		s += fmt.Sprint(o.id)
	}
	if o.ctx {
		s += "~"
	}
	if o.auto {
		s += "!"
	}
	if len(o.after) > 0 {
		s += "@" + strings.Trim(strings.Join(strings.Fields(fmt.Sprint(o.after)), ","), "[]")
	}
	return s
}

type parkKind int

const (
	pkNone parkKind = iota
	pkYield
	pkWait
	pkLoad
	pkClose
	pkTry
	pkDone
)

type park struct {
	kind   parkKind
	point  string
	id     int
	ch     <-chan struct{}
	inst   int
	result string
}

func (p park) String() string {
	switch p.kind {
	case pkYield:
		return fmt.Sprintf("y:%s:%s", p.point, idStr(p.id))
	case pkWait:
		return fmt.Sprintf("w:%s:%s", p.point, idStr(p.id))
	case pkLoad:
		return fmt.Sprintf("L:%d:i%d", p.id, p.inst)
	case pkClose:
		return fmt.Sprintf("C:i%d", p.inst)
	case pkTry:
		return fmt.Sprintf("T:i%d", p.inst)
	case pkDone:
		return "D:" + p.result
	}
	return "?"
}

func idStr(id int) string {
	if id < 0 {
		return "-"
	}
	return fmt.Sprint(id)
}

type instance struct {
	n        int
	id       int
	owned    bool // handed to the cache: created by LoadFunc, or accepted by Add
	loaded   bool // LoadFunc returned it / Add accepted it
	failed   bool // its load returned an error
	closing  bool // a Close/TryClose call is in progress
	closed   bool // Close returned, or TryClose answered true
	closedAt int
	x        *exec
}

var errLoad = errors.New("verif: load failed")
var errTry = errors.New("verif: tryclose failed")

func (o *instance) Close() error {
	x := o.x
	if msg := x.closeStart(o, "Close"); msg != "" {
		x.violate("no_double_close", msg)
	}
	x.parkHere(park{kind: pkClose, inst: o.n, id: o.id})
	return nil
}

func (o *instance) TryClose(time.Duration) (bool, error) {
	x := o.x
	if msg := x.closeStart(o, "TryClose"); msg != "" {
		x.violate("no_double_close", msg)
	}
	switch x.parkHere(park{kind: pkTry, inst: o.n, id: o.id}) {
	case "true":
		return true, nil
	case "tryerr":
		return true, errTry
	case "tryerrf":
		return false, errTry
	}
	return false, nil
}

type thread struct {
	idx        int
	mt         int // thread number on the model side (spawn order)
	op         opSpec
	addInst    *instance // opAdd: the object to add
	same       *instance // opRemoveSame: the target
	cancel     func()    // cancels the op's context (ops with ctx)
	cancelled  bool
	spawned    bool
	resume     chan string
	park       park
	stepped    bool
	startClock int
}

type violation struct{ prop, msg string }

// exec is one execution of one scenario on a fresh real cache.
type exec struct {
	cache   real.OCache
	scn     []opSpec
	threads []*thread
	cur     *thread
	evCh    chan park
	insts   []*instance
	loading map[int]int // id -> number of loads in flight
	clock   int
	viol    []violation
	log     []string // harness-side event log (load/close entry/exit, results)
	closeOK bool     // cache.Close() has returned nil
	nSpawned int
	stuck   bool
}

func ids(i int) string { return fmt.Sprintf("id%d", i) }
func idOf(s string) int {
	var i int
	if _, err := fmt.Sscanf(s, "id%d", &i); err != nil {
		return -1
	}
	return i
}

func newExec(scn []opSpec) *exec {
	x := &exec{scn: scn, evCh: make(chan park), loading: map[int]int{}}
	// negative TTL: every active entry is eligible for GC regardless of wall-clock time;
	// gc period 0: no background ticker goroutine.
	x.cache = real.New(x.loadFunc, real.WithTTL(-time.Hour), real.WithGCPeriod(0))
	for i, o := range scn {
		t := &thread{idx: i, op: o, resume: make(chan string)}
		x.threads = append(x.threads, t)
	}
	return x
}

func (x *exec) violate(prop, msg string) {
	x.viol = append(x.viol, violation{prop, msg})
}

func (x *exec) logf(f string, a ...any) { x.log = append(x.log, fmt.Sprintf(f, a...)) }

// parkHere is called on the running cache goroutine: report where it is and wait for the release.
func (x *exec) parkHere(p park) string {
	t := x.cur
	x.evCh <- p
	return <-t.resume
}

func (x *exec) hook(point, id string, ch <-chan struct{}) {
	p := park{kind: pkYield, point: point, id: idOf(id), ch: ch}
	if ch != nil {
		p.kind = pkWait
	}
	x.parkHere(p)
}

func (x *exec) newInst(id int) *instance {
	o := &instance{n: len(x.insts), id: id, x: x, closedAt: -1}
	x.insts = append(x.insts, o)
	return o
}

// liveConflict: is there a load in flight or an unclosed owned instance for id?
func (x *exec) liveConflict(id int, except *instance) string {
	if x.loading[id] > 0 {
		return fmt.Sprintf("a load for id %d is in flight", id)
	}
	for _, o := range x.insts {
		if o != except && o.id == id && o.owned && !o.failed && !o.closed {
			return fmt.Sprintf("instance i%d of id %d is still open (closing=%v)", o.n, id, o.closing)
		}
	}
	return ""
}

func (x *exec) loadFunc(ctx context.Context, sid string) (real.Object, error) {
	id := idOf(sid)
	if msg := x.liveConflict(id, nil); msg != "" {
		x.violate("one_live_instance", fmt.Sprintf("load of id %d starts while %s", id, msg))
	}
	o := x.newInst(id)
	o.owned = true
	x.loading[id]++
	x.logf("t%d load-start id%d i%d", x.cur.idx, id, o.n)
	v := x.parkHere(park{kind: pkLoad, id: id, inst: o.n})
	x.loading[id]--
	if v == "ok" {
		o.loaded = true
		x.logf("load-ok i%d", o.n)
		return o, nil
	}
	o.failed = true
	x.logf("load-err i%d", o.n)
	return nil, errLoad
}

func (x *exec) closeStart(o *instance, what string) string {
	x.logf("t%d %s-start i%d", x.cur.idx, what, o.n)
	// identity-checked ("conditional") removal: RemoveSame(id, v) may only ever close v. (A nil
	// target is excluded: RemoveSame(id, nil) matches a placeholder whose value is still nil.)
	if t := x.cur; t.op.kind == opRemoveSame && t.same != nil && o != t.same {
		x.violate("conditional_removal_identity", fmt.Sprintf("t%d %s was given i%d but calls %s on i%d", t.idx, t.op, t.same.n, what, o.n))
	}
	switch {
	case o.closed:
		return fmt.Sprintf("%s called on i%d which is already closed", what, o.n)
	case o.closing:
		return fmt.Sprintf("%s called on i%d while another Close/TryClose of it is in progress", what, o.n)
	case !o.loaded:
		return fmt.Sprintf("%s called on i%d which never finished loading", what, o.n)
	}
	o.closing = true
	return ""
}

func errName(err error) string {
	switch {
	case err == nil:
		return "nil"
	case errors.Is(err, real.ErrClosed):
		return "closed"
	case errors.Is(err, real.ErrExists):
		return "exists"
	case errors.Is(err, real.ErrNotExists):
		return "notexists"
	case errors.Is(err, errLoad):
		return "load"
	case errors.Is(err, errTry):
		return "tryerr"
	case errors.Is(err, context.Canceled):
		return "ctxcanceled"
	}
	return "other(" + err.Error() + ")"
}

func b01(b bool) string {
	if b {
		return "1"
	}
	return "0"
}

// handedOut checks one value given to a caller by a lookup of thread t.
func (x *exec) handedOut(t *thread, v real.Object, wantId int) string {
	o, ok := v.(*instance)
	if !ok || o == nil {
		x.violate("handed_out_are_loaded", fmt.Sprintf("t%d %s: nil/foreign value returned without error", t.idx, t.op))
		return "nil"
	}
	if !o.loaded || !o.owned {
		x.violate("handed_out_are_loaded", fmt.Sprintf("t%d %s returned i%d which had not finished loading", t.idx, t.op, o.n))
	}
	if wantId >= 0 && o.id != wantId {
		x.violate("handed_out_are_loaded", fmt.Sprintf("t%d %s returned i%d which belongs to id %d", t.idx, t.op, o.n, o.id))
	}
	if o.closed && o.closedAt < t.startClock {
		x.violate("removed_not_returned_later", fmt.Sprintf("t%d %s started at %d and returned i%d whose removal completed at %d", t.idx, t.op, t.startClock, o.n, o.closedAt))
	}
	return fmt.Sprintf("i%d", o.n)
}

// main is the body of a thread's goroutine.
func (x *exec) main(t *thread) {
	res := ""
	defer func() {
		if p := recover(); p != nil {
			res = "panic"
			x.violate("no_panic", fmt.Sprintf("t%d %s panicked: %v", t.idx, t.op, p))
		}
		x.logf("t%d %s -> %s", t.idx, t.op, res)
		x.evCh <- park{kind: pkDone, result: res}
	}()
	ctx := context.Background()
	if t.op.ctx {
		var cancel context.CancelFunc
		ctx, cancel = context.WithCancel(ctx)
		t.cancel = cancel
		defer cancel()
	}
	c := x.cache
	sid := ids(t.op.id)
	switch t.op.kind {
	case opGet, opPick:
		var v real.Object
		var err error
		if t.op.kind == opGet {
			v, err = c.Get(ctx, sid)
		} else {
			v, err = c.Pick(ctx, sid)
		}
		if err != nil {
			res = "err:" + errName(err)
			if v != nil {
				res += ":nonnil"
			}
		} else {
			res = "ok:" + x.handedOut(t, v, t.op.id)
		}
	case opAdd:
		o := t.addInst
		err := c.Add(sid, o)
		if err == nil {
			if msg := x.liveConflict(o.id, o); msg != "" {
				x.violate("one_live_instance", fmt.Sprintf("Add of i%d accepted while %s", o.n, msg))
			}
			o.n = len(x.insts) // numbered when the cache accepts it
			x.insts = append(x.insts, o)
			o.owned, o.loaded = true, true
			if x.closeOK {
				x.violate("none_open_after_Close", fmt.Sprintf("Add of i%d accepted after cache Close returned", o.n))
			}
		}
		res = errName(err)
	case opRemove:
		ok, err := c.Remove(ctx, sid)
		res = b01(ok) + ":" + errName(err)
	case opRemoveSame:
		var v real.Object
		if t.same != nil {
			v = t.same
		}
		ok, err := c.RemoveSame(ctx, sid, v)
		res = b01(ok) + ":" + errName(err)
	case opTryRemove:
		ok, err := c.TryRemove(sid)
		res = b01(ok) + ":" + errName(err)
	case opGC:
		c.GC()
		res = "-"
	case opClose:
		err := c.Close()
		res = errName(err)
		if err == nil {
			x.closeOK = true
			x.checkAllClosed("when cache Close returned")
		}
	case opDoLocked:
		called := false
		err := c.DoLockedIfNotExists(sid, func() error { called = true; return nil })
		res = errName(err) + ":" + b01(called)
	case opForEach:
		var got []string
		c.ForEach(func(v real.Object) bool {
			got = append(got, x.handedOut(t, v, -1))
			return true
		})
		sort.Slice(got, func(i, j int) bool { return len(got[i]) < len(got[j]) || (len(got[i]) == len(got[j]) && got[i] < got[j]) })
		res = "objs:" + strings.Join(got, ",")
		if len(got) == 0 {
			res = "objs:-"
		}
	}
}

func (x *exec) checkAllClosed(when string) {
	for id, n := range x.loading {
		if n > 0 {
			x.violate("none_open_after_Close", fmt.Sprintf("a load of id %d is in flight %s", id, when))
		}
	}
	for _, o := range x.insts {
		if o.owned && !o.failed && o.loaded && !o.closed {
			x.violate("none_open_after_Close", fmt.Sprintf("i%d (id %d) is open %s", o.n, o.id, when))
		}
	}
}

// action is one schedulable label: thread + environment verdict ("" for an internal step).
type action struct {
	t       int
	verdict string
}

func (a action) String() string {
	if a.verdict == "" {
		return fmt.Sprint(a.t)
	}
	return fmt.Sprintf("%d:%s", a.t, a.verdict)
}

func chClosed(ch <-chan struct{}) bool {
	select {
	case <-ch:
		return true
	default:
		return false
	}
}

// spawnReady starts (up to its first park) every thread whose dependencies have returned.
// Returns the newly spawned threads.
func (x *exec) spawnReady() []*thread {
	var out []*thread
	for _, t := range x.threads {
		if t.spawned {
			continue
		}
		ready := true
		for _, d := range t.op.after {
			if x.threads[d].park.kind != pkDone {
				ready = false
			}
		}
		if !ready {
			continue
		}
		t.spawned = true
		t.mt = x.nSpawned
		x.nSpawned++
		switch t.op.kind {
		case opAdd:
			t.addInst = &instance{n: -1, id: t.op.id, x: x, closedAt: -1}
		case opRemoveSame:
			// target: the newest instance of this id the cache has accepted so far
			for _, o := range x.insts {
				if o.id == t.op.id && o.owned && o.loaded {
					t.same = o
				}
			}
		}
		x.cur = t
		go x.main(t)
		x.await(t)
		out = append(out, t)
	}
	return out
}

func (x *exec) await(t *thread) {
	select {
	case p := <-x.evCh:
		t.park = p
	case <-time.After(20 * time.Second):
		x.stuck = true
		t.park = park{kind: pkDone, result: "stuck"}
		x.violate("no_deadlock", fmt.Sprintf("t%d %s neither parked nor returned within 20s after being released", t.idx, t.op))
	}
}

func (x *exec) enabledOf(t *thread, exhaustive bool) []action {
	if !t.spawned {
		return nil
	}
	switch t.park.kind {
	case pkYield:
		return []action{{t.idx, ""}}
	case pkWait:
		if chClosed(t.park.ch) {
			return []action{{t.idx, ""}}
		}
		// blocked behind a load / another closer: the caller's context may expire now. The
		// cancellation and the thread's reaction to it are one label (the awaited channel is open,
		// so the select can only take ctx.Done: deterministic).
		if t.op.ctx && !t.cancelled && t.cancel != nil {
			return []action{{t.idx, "cancel"}}
		}
	case pkLoad:
		if t.op.auto {
			return []action{{t.idx, "ok"}}
		}
		return []action{{t.idx, "ok"}, {t.idx, "err"}}
	case pkClose:
		return []action{{t.idx, "ret"}}
	case pkTry:
		if t.op.auto {
			return []action{{t.idx, "true"}}
		}
		if exhaustive {
			return []action{{t.idx, "true"}, {t.idx, "false"}, {t.idx, "tryerr"}}
		}
		return []action{{t.idx, "true"}, {t.idx, "false"}, {t.idx, "tryerr"}, {t.idx, "tryerrf"}}
	}
	return nil
}

func (x *exec) enabled(allVerdicts bool) []action {
	var out []action
	for _, t := range x.threads {
		out = append(out, x.enabledOf(t, !allVerdicts)...)
	}
	return out
}

func (x *exec) enabledThreads() string {
	var m []int
	for _, t := range x.threads {
		if len(x.enabledOf(t, true)) > 0 {
			m = append(m, t.mt)
		}
	}
	if len(m) == 0 {
		return "-"
	}
	sort.Ints(m)
	s := make([]string, len(m))
	for i, v := range m {
		s[i] = fmt.Sprint(v)
	}
	return strings.Join(s, ",")
}

func (x *exec) allDone() bool {
	for _, t := range x.threads {
		if t.park.kind != pkDone {
			return false
		}
	}
	return true
}

// do executes one action on the real cache and returns the thread's new park.
func (x *exec) do(a action) park {
	t := x.threads[a.t]
	x.clock++
	if !t.stepped {
		t.stepped = true
		t.startClock = x.clock
	}
	switch t.park.kind {
	case pkClose:
		o := x.insts[t.park.inst]
		o.closing, o.closed, o.closedAt = false, true, x.clock
		x.logf("Close-ret i%d", o.n)
	case pkTry:
		o := x.insts[t.park.inst]
		o.closing = false
		if a.verdict == "true" || a.verdict == "tryerr" {
			o.closed, o.closedAt = true, x.clock
		}
		x.logf("TryClose-%s i%d", a.verdict, o.n)
	}
	if a.verdict == "cancel" {
		t.cancelled = true
		t.cancel()
		x.logf("t%d ctx-cancelled at %s", t.idx, t.park)
	}
	x.cur = t
	t.resume <- a.verdict
	x.await(t)
	return t.park
}

// snapshot renders the real cache's final contents canonically.
func (x *exec) snapshot() string {
	closed, es := real.VerifSnapshot(x.cache)
	var parts []string
	for _, e := range es {
		v := "-"
		if o, ok := e.Value.(*instance); ok && o != nil {
			v = fmt.Sprintf("i%d", o.n)
		}
		parts = append(parts, fmt.Sprintf("%d:%s:%s:%s", idOf(e.Id), [...]string{"loading", "active", "closing", "closed"}[e.State], b01(e.LoadDone), v))
	}
	if len(parts) == 0 {
		parts = []string{"-"}
	}
	return "closed=" + b01(closed) + " " + strings.Join(parts, " ")
}
