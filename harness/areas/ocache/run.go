package ocache

import (
	"fmt"
	"strings"

	real "github.com/anyproto/any-sync/app/ocache"

	"verifharness/internal/corr"
)

// useModel: send every executed step to the Lean LTS and compare.
var useModel = true

type runResult struct {
	acts     []action
	idx      []int      // index of acts[i] inside enabled[i]
	enabled  [][]action // enabled actions before step i
	digests  []string   // model digest of the state before step i (and after the last one)
	viol     []violation
	lines    []string // protocol lines sent to the model (replay material)
	log      []string
	disagree []string // stream, model, impl
	deadlock bool
	final    string
	parks    map[string]bool
}

type chooser func(depth int, en []action) int

func scnString(scn []opSpec) string {
	p := make([]string, len(scn))
	for i, o := range scn {
		p[i] = o.String()
	}
	return strings.Join(p, " ")
}

func splitAnswer(ans string) (obs, digest string) {
	if i := strings.LastIndex(ans, " #"); i >= 0 {
		return ans[:i], ans[i+2:]
	}
	return ans, ""
}

// runSchedule executes one schedule of scn on a fresh real cache (and on the model).
func runSchedule(r *corr.Run, scn []opSpec, choose chooser, allVerdicts bool) *runResult {
	// caller-context cancellation is not part of the Lean LTS: such scenarios run on the real
	// cache with the direct oracle only
	model := useModel
	for _, o := range scn {
		if o.ctx {
			model = false
		}
	}
	x := newExec(scn)
	real.VerifHook = x.hook
	defer func() { real.VerifHook = nil }()
	res := &runResult{parks: map[string]bool{}}
	// The real cache is executed first; the lines and the implementation's observations are
	// queued and sent to the model as ONE batch line per schedule (one pipe round trip).
	type pending struct{ stream, line, impl string }
	var queue []pending
	ask := func(stream, line, impl string) {
		res.lines = append(res.lines, line)
		queue = append(queue, pending{stream, line, impl})
	}
	flush := func() {
		if !model {
			return
		}
		ls := make([]string, len(queue))
		for i, q := range queue {
			ls[i] = q.line
		}
		answers := strings.Split(r.Ask("batch "+strings.Join(ls, ";")), ";")
		for i, q := range queue {
			ans := "missing-answer"
			if i < len(answers) {
				ans = answers[i]
			}
			obs, digest := splitAnswer(ans)
			if q.stream == "ocache.spawn" {
				if j := strings.Index(obs, " en="); j >= 0 {
					obs = obs[:j] // other threads of this batch are not announced to the model yet
				}
			}
			if q.stream == "digest" {
				res.digests = append(res.digests, digest)
				continue
			}
			if q.impl != "" && obs != q.impl && len(res.disagree) == 0 {
				res.disagree = []string{q.stream, obs, q.impl, q.line}
			}
		}
	}
	ask("ocache.new", "new", "")
	spawn := func() {
		for _, t := range x.spawnReady() {
			id, inst := "-", "-"
			if t.op.kind.hasId() {
				id = fmt.Sprint(t.op.id)
			}
			if t.same != nil {
				inst = fmt.Sprint(t.same.n)
			}
			line := fmt.Sprintf("spawn %d %s %s %s", t.mt, t.op.kind, id, inst)
			ask("ocache.spawn", line, t.park.String())
			res.parks[parkClass(t.park)] = true
		}
	}
	spawn()
	for depth := 0; ; depth++ {
		en := x.enabled(allVerdicts)
		ask("digest", "digest", "")
		if len(en) == 0 {
			if !x.allDone() {
				res.deadlock = true
				var where []string
				for _, t := range x.threads {
					if t.park.kind != pkDone {
						where = append(where, fmt.Sprintf("t%d %s at %s", t.idx, t.op, t.park))
					}
				}
				x.violate("no_deadlock", "every harness blocking point is released and no thread can move: "+strings.Join(where, "; "))
			}
			break
		}
		if depth > 400 {
			x.violate("no_deadlock", "schedule longer than 400 steps (livelock?)")
			break
		}
		k := choose(depth, en)
		if k < 0 || k >= len(en) {
			k = 0
		}
		a := en[k]
		res.acts, res.idx, res.enabled = append(res.acts, a), append(res.idx, k), append(res.enabled, en)
		p := x.do(a)
		if x.stuck {
			break
		}
		hint := "-"
		if (p.kind == pkYield || p.kind == pkWait) && p.id >= 0 {
			hint = fmt.Sprint(p.id)
		}
		var line string
		if a.verdict == "" {
			line = fmt.Sprintf("step %d %s", x.threads[a.t].mt, hint)
		} else {
			line = fmt.Sprintf("env %d %s %s", x.threads[a.t].mt, a.verdict, hint)
		}
		// `inv=ok`: the model evaluates the Lean invariant (OCache/Check.lean) on the state it reached
		ask("ocache.step", line, p.String()+" en="+x.enabledThreads()+" inv=ok")
		res.parks[parkClass(p)] = true
		if p.kind == pkDone {
			spawn()
		}
	}
	if !x.stuck && !res.deadlock {
		res.final = x.snapshot()
		ask("ocache.final", "final", res.final)
		if x.closeOK {
			x.checkAllClosed("at the end of a schedule in which cache Close returned nil")
		}
	}
	flush()
	res.viol = dedupViol(x.viol)
	res.log = x.log
	return res
}

func dedupViol(v []violation) []violation {
	seen := map[string]bool{}
	var out []violation
	for _, e := range v {
		k := e.prop + "|" + e.msg
		if !seen[k] {
			seen[k] = true
			out = append(out, e)
		}
	}
	return out
}

func parkClass(p park) string {
	switch p.kind {
	case pkYield, pkWait:
		return p.point
	case pkLoad:
		return "LoadFunc"
	case pkClose:
		return "Object.Close"
	case pkTry:
		return "Object.TryClose"
	case pkDone:
		r := p.result
		if i := strings.Index(r, ":i"); i >= 0 {
			r = r[:i] + ":inst"
		}
		if strings.HasPrefix(r, "objs:") {
			r = "objs"
		}
		return "ret=" + r
	}
	return "?"
}
