// Package space drives the real space-payload constructors and validators
// (commonspace/spacepayloads, and the create / push / pull paths of commonspace.spaceService)
// against the Lean model and the direct oracle of C13.
package space

import (
	"bytes"
	"context"
	"crypto/ed25519"
	"encoding/hex"
	"errors"
	"fmt"
	"iter"
	"reflect"
	"sort"
	"strconv"
	"strings"

	"storj.io/drpc"

	"github.com/anyproto/any-sync/app"
	"github.com/anyproto/any-sync/commonspace"
	"github.com/anyproto/any-sync/commonspace/object/acl/aclrecordproto"
	"github.com/anyproto/any-sync/commonspace/object/tree/objecttree"
	"github.com/anyproto/any-sync/commonspace/object/tree/treechangeproto"
	"github.com/anyproto/any-sync/commonspace/spacepayloads"
	"github.com/anyproto/any-sync/commonspace/spacestorage"
	"github.com/anyproto/any-sync/commonspace/spacesyncproto"
	"github.com/anyproto/any-sync/consensus/consensusproto"
	"github.com/anyproto/any-sync/net/peer"
	"github.com/anyproto/any-sync/util/cidutil"
	"github.com/anyproto/any-sync/util/crypto"

	"verifharness/internal/corr"
)

const prop = "C13"

// ---- payload as six independent parts ---------------------------------------------------------

type payload struct {
	hnil   bool
	hid    string
	raw    []byte
	aid    string
	acl    []byte
	aclNil bool
	sid    string
	set    []byte
	setNil bool
}

func (p payload) real() spacestorage.SpaceStorageCreatePayload {
	out := spacestorage.SpaceStorageCreatePayload{
		AclWithId:           &consensusproto.RawRecordWithId{Id: p.aid, Payload: p.acl},
		SpaceSettingsWithId: &treechangeproto.RawTreeChangeWithId{Id: p.sid, RawChange: p.set},
	}
	if p.aclNil {
		out.AclWithId.Payload = nil
	}
	if p.setNil {
		out.SpaceSettingsWithId.RawChange = nil
	}
	if !p.hnil {
		out.SpaceHeaderWithId = &spacesyncproto.RawSpaceHeaderWithId{Id: p.hid, RawHeader: p.raw}
	}
	return out
}

func fromReal(sp spacestorage.SpaceStorageCreatePayload) payload {
	return payload{hid: sp.SpaceHeaderWithId.Id, raw: sp.SpaceHeaderWithId.RawHeader,
		aid: sp.AclWithId.Id, acl: sp.AclWithId.Payload, sid: sp.SpaceSettingsWithId.Id, set: sp.SpaceSettingsWithId.RawChange}
}

func (p payload) same(q payload) bool {
	return p.hnil == q.hnil && p.hid == q.hid && bytes.Equal(p.raw, q.raw) && p.aid == q.aid && bytes.Equal(p.acl, q.acl) &&
		p.sid == q.sid && bytes.Equal(p.set, q.set) && p.aclNil == q.aclNil && p.setNil == q.setNil
}

func cp(b []byte) []byte { return append([]byte{}, b...) }

func sortedPairs[V any](m map[string]V) iter.Seq2[string, V] {
	return func(yield func(string, V) bool) {
		for _, k := range sortedKeys(m) {
			if !yield(k, m[k]) {
				return
			}
		}
	}
}

func sortedKeys[V any](m map[string]V) []string {
	out := make([]string, 0, len(m))
	for k := range m {
		out = append(out, k)
	}
	sort.Strings(out)
	return out
}

// ---- keys and constructors ------------------------------------------------------------------

func newKey(r *corr.Run) crypto.PrivKey {
	seed := make([]byte, ed25519.SeedSize)
	for i := range seed {
		seed[i] = byte(r.Intn(256))
	}
	return crypto.NewEd25519PrivKey(ed25519.NewKeyFromSeed(seed))
}

func randBytes(r *corr.Run, n int) []byte {
	b := make([]byte, n)
	for i := range b {
		b[i] = byte(r.Intn(256))
	}
	return b
}

type space struct {
	kind   string // create0 create1 derive0 derive1 o2o o2oany
	v1     bool
	p      payload
	sign   crypto.PrivKey // signer of header, ACL root and settings root
	master crypto.PrivKey
}

var kinds = []string{"create0", "create1", "derive0", "derive1", "o2o", "o2oany"}

func build(r *corr.Run, kind string) (*space, error) {
	sign, master := newKey(r), newKey(r)
	var sp spacestorage.SpaceStorageCreatePayload
	var err error
	fpv := spacesyncproto.SpaceFileProtoVersion(r.Intn(3))
	spType := []string{"anytype.space", "any.space", "t", ""}[r.Intn(4)]
	switch kind {
	case "create0", "create1":
		cpl := spacepayloads.SpaceCreatePayload{
			SigningKey: sign, MasterKey: master, SpaceType: spType, ReplicationKey: r.Rand.Uint64() >> uint(r.Intn(64)),
			SpacePayload: randBytes(r, r.Intn(20)), ReadKey: crypto.NewAES(), MetadataKey: newKey(r), Metadata: randBytes(r, 1+r.Intn(30)),
			FileProtoVersion: fpv,
		}
		if r.Chance(30) {
			cpl.Options = &aclrecordproto.AclSpaceOptions{DeleteRestricted: r.Chance(50)}
		}
		if kind == "create0" {
			sp, err = spacepayloads.StoragePayloadForSpaceCreate(cpl)
		} else {
			sp, err = spacepayloads.StoragePayloadForSpaceCreateV1(cpl)
		}
	case "derive0", "derive1":
		dpl := spacepayloads.SpaceDerivePayload{SigningKey: sign, MasterKey: master, SpaceType: spType, SpacePayload: randBytes(r, r.Intn(20)), FileProtoVersion: fpv}
		if kind == "derive0" {
			sp, err = spacepayloads.StoragePayloadForSpaceDerive(dpl)
		} else {
			sp, err = spacepayloads.StoragePayloadForSpaceDeriveV1(dpl)
		}
	case "o2o", "o2oany":
		other := newKey(r)
		ty := spacepayloads.SpaceTypeOneToOne
		if kind == "o2oany" {
			ty = spacepayloads.SpaceTypeOneToOneAny
		}
		sp, err = spacepayloads.StoragePayloadForOneToOneSpaceWithType(sign, other.GetPublic(), ty)
		if err == nil {
			// the header/roots are signed by the shared key
			sign, err = crypto.GenerateSharedKey(sign, other.GetPublic(), crypto.AnysyncOneToOneSpacePath)
			master = sign
		}
	}
	if err != nil {
		return nil, err
	}
	return &space{kind: kind, v1: kind != "create0" && kind != "derive0", p: fromReal(sp), sign: sign, master: master}, nil
}

// ---- running the real validators -------------------------------------------------------------

func classify(err error) string {
	switch {
	case err == nil:
		return "ok"
	case errors.Is(err, spacestorage.ErrIncorrectSpaceHeader):
		return "err:hdr"
	case errors.Is(err, objecttree.ErrIncorrectCid):
		return "err:cid"
	case errors.Is(err, spacepayloads.ErrIncorrectIdentity):
		return "err:ident"
	case errors.Is(err, spacepayloads.ErrIncorrectOneToOnePayload):
		return "err:o2o"
	default:
		return "err:malformed" // protobuf / key unmarshal errors
	}
}

func realFull(p payload) (res string) {
	defer func() {
		if x := recover(); x != nil {
			res = fmt.Sprintf("panic:%v", x)
		}
	}()
	return classify(spacepayloads.ValidateSpaceStorageCreatePayload(p.real()))
}

func realHeader(p payload, identity crypto.PubKey, acl, set []byte) (res string) {
	defer func() {
		if x := recover(); x != nil {
			res = fmt.Sprintf("panic:%v", x)
		}
	}()
	need, err := spacepayloads.ValidateSpaceHeader(p.real().SpaceHeaderWithId, identity, acl, set)
	if err != nil {
		return classify(err)
	}
	if need {
		return "ok:1"
	}
	return "ok:0"
}

// the three real paths of commonspace.spaceService (verif seams): accepted ⇔ the storage provider
// was asked to create the storage
type fakeProvider struct{ created int }

func (f *fakeProvider) Init(*app.App) error { return nil }
func (f *fakeProvider) Name() string         { return spacestorage.CName }
func (f *fakeProvider) WaitSpaceStorage(context.Context, string) (spacestorage.SpaceStorage, error) {
	return nil, spacestorage.ErrSpaceStorageMissing
}
func (f *fakeProvider) SpaceExists(string) bool { return false }
func (f *fakeProvider) CreateSpaceStorage(context.Context, spacestorage.SpaceStorageCreatePayload) (spacestorage.SpaceStorage, error) {
	f.created++
	return nil, nil
}

type fakeConn struct{ resp *spacesyncproto.SpacePullResponse }

func (c *fakeConn) Close() error            { return nil }
func (c *fakeConn) Closed() <-chan struct{} { return nil }
func (c *fakeConn) Invoke(_ context.Context, rpc string, enc drpc.Encoding, in, out drpc.Message) error {
	if !strings.HasSuffix(rpc, "/SpacePull") {
		return fmt.Errorf("unexpected rpc %s", rpc)
	}
	if _, err := enc.Marshal(in); err != nil {
		return err
	}
	buf, err := enc.Marshal(c.resp)
	if err != nil {
		return err
	}
	return enc.Unmarshal(buf, out)
}
func (c *fakeConn) NewStream(context.Context, string, drpc.Encoding) (drpc.Stream, error) {
	return nil, errors.New("no streams")
}

type fakePeer struct {
	peer.Peer
	conn *fakeConn
}

func (p *fakePeer) Id() string { return "verif-peer" }
func (p *fakePeer) DoDrpc(ctx context.Context, do func(conn drpc.Conn) error) error {
	return do(p.conn)
}

func acceptedBy(path string, p payload) (acc bool, note string) {
	defer func() {
		if x := recover(); x != nil {
			acc, note = false, fmt.Sprintf("panic:%v", x)
		}
	}()
	ctx := context.Background()
	fp := &fakeProvider{}
	var err error
	switch path {
	case "create":
		_, err = commonspace.VerifCreateSpaceStorage(ctx, fp, p.real())
	case "push":
		rp := p.real()
		_, err = commonspace.VerifAddSpaceStorage(ctx, fp, commonspace.SpaceDescription{
			SpaceHeader: rp.SpaceHeaderWithId, AclId: rp.AclWithId.Id, AclPayload: rp.AclWithId.Payload,
			SpaceSettingsId: rp.SpaceSettingsWithId.Id, SpaceSettingsPayload: rp.SpaceSettingsWithId.RawChange})
	case "pull":
		rp := p.real()
		resp := &spacesyncproto.SpacePullResponse{Payload: &spacesyncproto.SpacePayload{
			SpaceHeader: rp.SpaceHeaderWithId, AclPayload: rp.AclWithId.Payload, AclPayloadId: rp.AclWithId.Id,
			SpaceSettingsPayload: rp.SpaceSettingsWithId.RawChange, SpaceSettingsPayloadId: rp.SpaceSettingsWithId.Id}}
		_, err = commonspace.VerifSpacePullWithPeer(ctx, fp, &fakePeer{conn: &fakeConn{resp: resp}}, p.hid)
	}
	if (err == nil) != (fp.created == 1) {
		return fp.created > 0, fmt.Sprintf("err=%v but CreateSpaceStorage called %d times", err, fp.created)
	}
	return err == nil, ""
}

// ---- abstraction: what the real primitives return on the byte strings of a payload --------------

type interner struct {
	m map[string]int
}

func (in *interner) b(x []byte) int {
	if len(x) == 0 {
		return 0
	}
	if v, ok := in.m[string(x)]; ok {
		return v
	}
	v := len(in.m) + 1
	in.m[string(x)] = v
	return v
}

func hx(s string) string {
	if s == "" {
		return "-"
	}
	return hex.EncodeToString([]byte(s))
}

type abst struct {
	in   *interner
	seen map[string]bool
	out  []string
}

func (a *abst) add(e string) {
	if !a.seen[e] {
		a.seen[e] = true
		a.out = append(a.out, e)
	}
}

func (a *abst) hash(b []byte) {
	c, err := cidutil.NewCidFromBytes(b)
	if err == nil {
		a.add(fmt.Sprintf("h:%d=%s", a.in.b(b), hx(c)))
	}
}

// key: returns raw public key bytes if b decodes as a public key
func (a *abst) key(b []byte) []byte {
	pk, err := crypto.UnmarshalEd25519PublicKeyProto(b)
	if err != nil {
		return nil
	}
	raw, err := pk.Raw()
	if err != nil {
		return nil
	}
	a.add(fmt.Sprintf("k:%d=%d", a.in.b(b), a.in.b(raw)))
	return raw
}

func (a *abst) verify(rawKey, msg, sig []byte) {
	if len(rawKey) == ed25519.PublicKeySize && ed25519.Verify(ed25519.PublicKey(rawKey), msg, sig) {
		a.add(fmt.Sprintf("v:%d,%d,%d", a.in.b(rawKey), a.in.b(msg), a.in.b(sig)))
	}
}

func (a *abst) header(raw []byte) {
	a.hash(raw)
	var rh spacesyncproto.RawSpaceHeader
	if rh.UnmarshalVT(raw) != nil {
		return
	}
	a.add(fmt.Sprintf("r:%d=%d,%d", a.in.b(raw), a.in.b(rh.SpaceHeader), a.in.b(rh.Signature)))
	var h spacesyncproto.SpaceHeader
	if h.UnmarshalVT(rh.SpaceHeader) != nil {
		return
	}
	a.add(fmt.Sprintf("hd:%d=%d,%d,%d,%d,%d,%s,%d", a.in.b(rh.SpaceHeader), a.in.b(h.Identity), h.ReplicationKey, int32(h.Version),
		a.in.b(h.AclPayload), a.in.b(h.SettingPayload), hx(h.SpaceType), a.in.b(h.SpaceHeaderPayload)))
	var o aclrecordproto.AclOneToOneInfo
	if o.UnmarshalVT(h.SpaceHeaderPayload) == nil {
		a.add(fmt.Sprintf("o:%d", a.in.b(h.SpaceHeaderPayload)))
	}
	if k := a.key(h.Identity); k != nil {
		a.verify(k, rh.SpaceHeader, rh.Signature)
	}
}

func (a *abst) aclRoot(b []byte) {
	a.hash(b)
	var rr consensusproto.RawRecord
	if rr.UnmarshalVT(b) != nil {
		return
	}
	a.add(fmt.Sprintf("r:%d=%d,%d", a.in.b(b), a.in.b(rr.Payload), a.in.b(rr.Signature)))
	var root aclrecordproto.AclRoot
	if root.UnmarshalVT(rr.Payload) != nil {
		return
	}
	a.add(fmt.Sprintf("ar:%d=%d,%d,%d,%s", a.in.b(rr.Payload), a.in.b(root.Identity), a.in.b(root.MasterKey), a.in.b(root.IdentitySignature), hx(root.SpaceId)))
	k := a.key(root.Identity)
	if k != nil {
		a.verify(k, rr.Payload, rr.Signature)
	}
	if mk := a.key(root.MasterKey); mk != nil && k != nil {
		a.verify(mk, k, root.IdentitySignature)
	}
}

func (a *abst) settings(b []byte) {
	a.hash(b)
	var rt treechangeproto.RawTreeChange
	if rt.UnmarshalVT(b) != nil {
		return
	}
	a.add(fmt.Sprintf("r:%d=%d,%d", a.in.b(b), a.in.b(rt.Payload), a.in.b(rt.Signature)))
	var root treechangeproto.RootChange
	if root.UnmarshalVT(rt.Payload) != nil {
		return
	}
	a.add(fmt.Sprintf("st:%d=%d,%s,%s", a.in.b(rt.Payload), a.in.b(root.Identity), hx(root.SpaceId), hx(root.AclHeadId)))
	if k := a.key(root.Identity); k != nil {
		a.verify(k, rt.Payload, rt.Signature)
	}
}

func b01(x bool) string {
	if x {
		return "1"
	}
	return "0"
}

// describe renders the model op for validating p in the given mode
func describe(p payload, mode string, in *interner) string {
	a := &abst{in: in, seen: map[string]bool{}}
	a.header(p.raw)
	// a byte string may be looked at through more than one decoder (spliced parts): describe the
	// ACL and settings byte strings with every decoder the validator applies to them
	a.aclRoot(p.acl)
	a.settings(p.set)
	pl := fmt.Sprintf("p=%s,%s,%d,%s,%d,%s,%s,%d,%s", b01(p.hnil), hx(p.hid), in.b(p.raw), hx(p.aid), in.b(p.acl), b01(p.aclNil), hx(p.sid), in.b(p.set), b01(p.setNil))
	return "val " + mode + " " + pl + " " + strings.Join(a.out, " ")
}

// ---- one validated case ---------------------------------------------------------------------

type ctxt struct {
	r        *corr.Run
	in       *interner
	disagree int
}

// check records a model/implementation disagreement, but keeps room under the harness-wide issue cap
// for oracle violations (a replayable failing input is worth more than the 9th disagreement)
func (c *ctxt) check(stream string, ops []string, model, impl string) {
	if model == impl {
		return
	}
	c.disagree++
	if c.disagree > 8 {
		c.r.Count("disagreements.not-recorded")
		return
	}
	c.r.Check(prop, stream, ops, model, impl)
}

// try validates p through the real full validator, compares with the model, and applies the oracle.
// expect: "reject" | "accept" | "any". origs: payloads p may legitimately be byte-identical to.
func (c *ctxt) try(kind string, p payload, expect string, origs ...payload) string {
	r := c.r
	for _, o := range origs {
		if p.same(o) {
			r.Count("skip.identical." + strings.SplitN(kind, ":", 2)[0])
			return "same"
		}
	}
	impl := realFull(p)
	op := describe(p, "full", c.in)
	model := r.Ask(op)
	c.check("space.validate", []string{kind, op}, model, impl)
	r.Case(kind+"|"+op, true)
	short := strings.SplitN(kind, " ", 2)[0]
	r.Count("mut." + short + "=" + impl)
	r.Count("class." + impl)
	if expect != "accept" && r.Chance(6) {
		c.paths(kind, p, impl == "ok")
	}
	switch {
	case strings.HasPrefix(impl, "panic"):
		r.Violate(prop, "", "space.validate.panic", kind+": validator panicked: "+impl, []string{kind, op})
	case expect == "reject" && impl == "ok":
		r.Violate(prop, "", "space.mutation.oracle", kind+": a modified payload was accepted", []string{kind, op})
	case expect == "accept" && impl != "ok":
		r.Violate(prop, "", "space.constructor.oracle", kind+": a constructor output was rejected ("+impl+")", []string{kind, op})
	}
	return impl
}

// paths: the three real spaceService paths must agree with the validator verdict
func (c *ctxt) paths(kind string, p payload, want bool) {
	for _, path := range []string{"create", "push", "pull"} {
		if path == "pull" && p.hnil {
			continue // a nil header cannot come out of a pull response the client asked by id
		}
		acc, note := acceptedBy(path, p)
		c.r.Count(fmt.Sprintf("path.%s.accepted=%v", path, acc))
		if note != "" {
			c.r.Violate(prop, "", "space.path."+path, kind+": "+note, []string{kind})
		}
		if acc != want {
			if acc {
				c.r.Violate(prop, "", "space.path."+path+".oracle", fmt.Sprintf("%s: the %s path stored a payload that ValidateSpaceStorageCreatePayload rejects / that is a modified payload", kind, path), []string{kind, describe(p, "full", c.in)})
			} else {
				c.r.Violate(prop, "", "space.path."+path+".oracle", fmt.Sprintf("%s: the %s path refused a valid payload", kind, path), []string{kind})
			}
		}
	}
}

// ---- mutators ---------------------------------------------------------------------------------

type vtmsg interface {
	MarshalVT() ([]byte, error)
	UnmarshalVT([]byte) error
}

type edit struct {
	name string
	data []byte
}

// fieldEdits: every exported field of the message decoded from `enc`, edited in a type-directed way
// and re-encoded. fresh must return a new empty message of the same type.
func fieldEdits(r *corr.Run, enc []byte, fresh func() vtmsg) []edit {
	var out []edit
	probe := fresh()
	if probe.UnmarshalVT(enc) != nil {
		return nil
	}
	t := reflect.TypeOf(probe).Elem()
	for i := 0; i < t.NumField(); i++ {
		f := t.Field(i)
		if !f.IsExported() {
			continue
		}
		variants := 1
		switch f.Type.Kind() {
		case reflect.Slice, reflect.String:
			variants = 4
		case reflect.Int64, reflect.Uint64, reflect.Int32:
			variants = 2
		}
		for v := 0; v < variants; v++ {
			m := fresh()
			m.UnmarshalVT(enc)
			fv := reflect.ValueOf(m).Elem().Field(i)
			name := f.Name
			switch {
			case f.Type.Kind() == reflect.Slice && f.Type.Elem().Kind() == reflect.Uint8:
				b := cp(fv.Bytes())
				switch v {
				case 0:
					if len(b) == 0 {
						b = []byte{1}
					} else {
						b[r.Intn(len(b))] ^= byte(1 << uint(r.Intn(8)))
					}
					name += ".flip"
				case 1:
					b = append(b, 0)
					name += ".append"
				case 2:
					if len(b) == 0 {
						continue
					}
					b = b[:len(b)-1]
					name += ".truncate"
				case 3:
					if len(b) == 0 {
						continue
					}
					b = nil
					name += ".clear"
				}
				fv.SetBytes(b)
			case f.Type.Kind() == reflect.String:
				s := fv.String()
				switch v {
				case 0:
					s += "x"
					name += ".append"
				case 1:
					if s == "" {
						continue
					}
					s = ""
					name += ".clear"
				case 2:
					if s == "" {
						continue
					}
					bs := []byte(s)
					k := r.Intn(len(bs))
					if bs[k] == 'a' {
						bs[k] = 'b'
					} else {
						bs[k] = 'a'
					}
					s = string(bs)
					name += ".char"
				case 3:
					if !strings.Contains(s, ".") {
						continue
					}
					s = s[:strings.Index(s, ".")]
					name += ".dropsuffix"
				}
				fv.SetString(s)
			case f.Type.Kind() == reflect.Int64 || f.Type.Kind() == reflect.Int32:
				if v == 0 {
					fv.SetInt(fv.Int() + 1)
					name += ".inc"
				} else {
					if fv.Int() == 0 {
						continue
					}
					fv.SetInt(0)
					name += ".zero"
				}
			case f.Type.Kind() == reflect.Uint64:
				if v == 0 {
					fv.SetUint(fv.Uint() + 1)
					name += ".inc"
				} else {
					if fv.Uint() == 0 {
						continue
					}
					fv.SetUint(0)
					name += ".zero"
				}
			case f.Type.Kind() == reflect.Bool:
				fv.SetBool(!fv.Bool())
				name += ".toggle"
			case f.Type.Kind() == reflect.Ptr:
				if fv.IsNil() {
					fv.Set(reflect.New(f.Type.Elem()))
					// an empty sub-message encodes as a present, empty field
					name += ".alloc"
				} else {
					fv.Set(reflect.Zero(f.Type))
					name += ".nil"
				}
			default:
				continue
			}
			b, err := m.MarshalVT()
			if err != nil || bytes.Equal(b, enc) {
				continue
			}
			out = append(out, edit{name, b})
		}
	}
	return out
}

func cidOf(b []byte) string {
	c, _ := cidutil.NewCidFromBytes(b)
	return c
}

func suffixOf(id string) string {
	if i := strings.Index(id, "."); i >= 0 {
		return id[i:]
	}
	return ""
}

func sign(k crypto.PrivKey, m []byte) []byte {
	s, _ := k.Sign(m)
	return s
}

type wrapped struct {
	inner, sig []byte
}

func unwrapHeader(raw []byte) (w wrapped) {
	var rh spacesyncproto.RawSpaceHeader
	rh.UnmarshalVT(raw)
	return wrapped{rh.SpaceHeader, rh.Signature}
}
func wrapHeader(w wrapped) []byte {
	b, _ := (&spacesyncproto.RawSpaceHeader{SpaceHeader: w.inner, Signature: w.sig}).MarshalVT()
	return b
}
func unwrapAcl(b []byte) (w wrapped) {
	var rr consensusproto.RawRecord
	rr.UnmarshalVT(b)
	return wrapped{rr.Payload, rr.Signature}
}
func wrapAcl(w wrapped) []byte {
	b, _ := (&consensusproto.RawRecord{Payload: w.inner, Signature: w.sig}).MarshalVT()
	return b
}
func unwrapSet(b []byte) (w wrapped) {
	var rt treechangeproto.RawTreeChange
	rt.UnmarshalVT(b)
	return wrapped{rt.Payload, rt.Signature}
}
func wrapSet(w wrapped) []byte {
	b, _ := (&treechangeproto.RawTreeChange{Payload: w.inner, Signature: w.sig}).MarshalVT()
	return b
}

func headerOf(raw []byte) *spacesyncproto.SpaceHeader {
	var h spacesyncproto.SpaceHeader
	h.UnmarshalVT(unwrapHeader(raw).inner)
	return &h
}

// idFor: the id an honest NewSpaceId would give to this raw header
func idFor(raw []byte) string {
	return cidOf(raw) + "." + strconv.FormatUint(headerOf(raw).ReplicationKey, 36)
}

// sample positions of a byte string: all in thorough tier, a sample in quick
func positions(r *corr.Run, n, quick int) []int {
	if !r.Quick() || n <= quick {
		out := make([]int, n)
		for i := range out {
			out[i] = i
		}
		return out
	}
	out := []int{0, n - 1}
	for len(out) < quick {
		out = append(out, r.Intn(n))
	}
	return out
}

func (c *ctxt) byteFlips(s *space) {
	r := c.r
	tag := s.kind + " flip:"
	flipB := func(part string, get func(*payload) *[]byte) {
		n := len(*get(&s.p))
		for _, i := range positions(r, n, 10) {
			q := s.p
			b := cp(*get(&q))
			b[i] ^= byte(1 << uint(r.Intn(8)))
			*get(&q) = b
			c.try(fmt.Sprintf("%s%s[%d]", tag, part, i), q, "reject")
		}
		// length changes
		q := s.p
		*get(&q) = append(cp(*get(&q)), 0)
		c.try(tag+part+".append", q, "reject")
		q = s.p
		*get(&q) = cp(*get(&q))[:n-1]
		c.try(tag+part+".truncate", q, "reject")
	}
	flipB("raw", func(p *payload) *[]byte { return &p.raw })
	flipB("acl", func(p *payload) *[]byte { return &p.acl })
	flipB("set", func(p *payload) *[]byte { return &p.set })
	flipS := func(part string, get func(*payload) *string) {
		n := len(*get(&s.p))
		for _, i := range positions(r, n, 8) {
			q := s.p
			b := []byte(*get(&q))
			old := b[i]
			switch r.Intn(4) {
			case 0:
				b[i] ^= byte(1 << uint(r.Intn(8)))
			case 1:
				b[i] = '.'
			case 2:
				b[i] = "abcdefghijklmnopqrstuvwxyz234567"[r.Intn(32)]
			default:
				b[i] = "0123456789"[r.Intn(10)]
			}
			if b[i] == old {
				b[i] ^= 1
			}
			*get(&q) = string(b)
			c.try(fmt.Sprintf("%s%s[%d]", tag, part, i), q, "reject")
		}
	}
	flipS("hid", func(p *payload) *string { return &p.hid })
	flipS("aid", func(p *payload) *string { return &p.aid })
	flipS("sid", func(p *payload) *string { return &p.sid })
}

func (c *ctxt) idMutations(s *space) {
	tag := s.kind + " id:"
	id := s.p.hid
	dot := strings.Index(id, ".")
	cidPart, suf := id[:dot], id[dot+1:]
	n, _ := strconv.ParseUint(suf, 36, 64)
	alts := map[string]string{
		"nosuffix":      cidPart,
		"emptysuffix":   cidPart + ".",
		"suffix+1":      cidPart + "." + strconv.FormatUint(n+1, 36),
		"suffix-upper":  cidPart + "." + strings.ToUpper(suf),
		"suffix-lead0":  cidPart + ".0" + suf,
		"suffix-plus":   cidPart + ".+" + suf,
		"suffix-dec":    cidPart + "." + strconv.FormatUint(n, 10),
		"suffix-twice":  id + "." + suf,
		"suffix-dotted": cidPart + ".." + suf,
		"leading-dot":   "." + id,
		"cid-upper":     strings.ToUpper(cidPart) + "." + suf,
		"cid-space":     cidPart + " ." + suf,
		"only-suffix":   "." + suf,
		"empty":         "",
		"acl-id":        s.p.aid + "." + suf,
		"settings-id":   s.p.sid + "." + suf,
	}
	for _, name := range sortedKeys(alts) {
		alt := (alts)[name]
		if alt == id {
			continue
		}
		q := s.p
		q.hid = alt
		c.try(tag+name, q, "reject")
	}
	for _, name := range sortedKeys(map[string]string{"empty": "", "header-cid": cidPart, "space-id": id, "other-root": s.p.sid, "upper": strings.ToUpper(s.p.aid)}) {
		alt := (map[string]string{"empty": "", "header-cid": cidPart, "space-id": id, "other-root": s.p.sid, "upper": strings.ToUpper(s.p.aid)})[name]
		q := s.p
		q.aid = alt
		c.try(tag+"acl-"+name, q, "reject")
	}
	for _, name := range sortedKeys(map[string]string{"empty": "", "header-cid": cidPart, "space-id": id, "other-root": s.p.aid, "upper": strings.ToUpper(s.p.sid)}) {
		alt := (map[string]string{"empty": "", "header-cid": cidPart, "space-id": id, "other-root": s.p.aid, "upper": strings.ToUpper(s.p.sid)})[name]
		q := s.p
		q.sid = alt
		c.try(tag+"set-"+name, q, "reject")
	}
	// dropped parts
	q := s.p
	q.hnil = true
	c.try(tag+"header-nil", q, "reject")
	q = s.p
	q.raw = nil
	c.try(tag+"raw-nil", q, "reject")
	q = s.p
	q.aclNil, q.acl = true, nil
	c.try(tag+"acl-nil", q, "reject")
	q = s.p
	q.setNil, q.set = true, nil
	c.try(tag+"set-nil", q, "reject")
	// dropped part with a consistent id for the empty byte string
	q = s.p
	q.aclNil, q.acl, q.aid = true, nil, cidOf(nil)
	c.try(tag+"acl-nil-consistent", q, "reject")
	q = s.p
	q.setNil, q.set, q.sid = true, nil, cidOf(nil)
	c.try(tag+"set-nil-consistent", q, "reject")
}

// fieldMutations: every field of every protobuf layer edited and re-encoded; variants:
//
//	raw    — nothing else touched
//	reid   — content ids recomputed up the chain (an attacker without keys can do that)
//	resign — additionally re-signed with the original signer's key (the owner re-issuing the part)
func (c *ctxt) fieldMutations(s *space) {
	r := c.r
	tag := s.kind + " field:"
	// --- header chain
	hw := unwrapHeader(s.p.raw)
	for _, e := range fieldEdits(r, s.p.raw, func() vtmsg { return &spacesyncproto.RawSpaceHeader{} }) {
		q := s.p
		q.raw = e.data
		c.try(tag+"RawSpaceHeader."+e.name+" raw", q, "reject")
		q.hid = idFor(e.data)
		c.try(tag+"RawSpaceHeader."+e.name+" reid", q, "reject")
	}
	for _, e := range fieldEdits(r, hw.inner, func() vtmsg { return &spacesyncproto.SpaceHeader{} }) {
		q := s.p
		q.raw = wrapHeader(wrapped{e.data, hw.sig})
		c.try(tag+"SpaceHeader."+e.name+" raw", q, "reject")
		q.hid = idFor(q.raw)
		c.try(tag+"SpaceHeader."+e.name+" reid", q, "reject")
		q.raw = wrapHeader(wrapped{e.data, sign(s.sign, e.data)})
		q.hid = idFor(q.raw)
		// the owner signing a different header makes a different space: v0 roots still name the old id;
		// v1 is a (legitimately) valid new space unless the edit touches what the header must embed
		expect := "any"
		field := strings.SplitN(e.name, ".", 2)[0]
		if !s.v1 || field == "AclPayload" || field == "SettingPayload" || field == "Version" || field == "Identity" {
			expect = "reject"
		}
		c.try(tag+"SpaceHeader."+e.name+" resign", q, expect)
	}
	// --- ACL chain
	aw := unwrapAcl(s.p.acl)
	for _, e := range fieldEdits(r, s.p.acl, func() vtmsg { return &consensusproto.RawRecord{} }) {
		q := s.p
		q.acl = e.data
		c.try(tag+"RawRecord."+e.name+" raw", q, "reject")
		q.aid = cidOf(e.data)
		c.try(tag+"RawRecord."+e.name+" reid", q, "reject")
	}
	for _, e := range fieldEdits(r, aw.inner, func() vtmsg { return &aclrecordproto.AclRoot{} }) {
		q := s.p
		q.acl = wrapAcl(wrapped{e.data, aw.sig})
		c.try(tag+"AclRoot."+e.name+" raw", q, "reject")
		q.aid = cidOf(q.acl)
		c.try(tag+"AclRoot."+e.name+" reid", q, "reject")
		q.acl = wrapAcl(wrapped{e.data, sign(s.sign, e.data)})
		q.aid = cidOf(q.acl)
		c.try(tag+"AclRoot."+e.name+" resign", q, "reject") // v1: header embeds the old bytes; v0: settings name the old ACL id
	}
	// --- settings chain
	sw := unwrapSet(s.p.set)
	for _, e := range fieldEdits(r, s.p.set, func() vtmsg { return &treechangeproto.RawTreeChange{} }) {
		q := s.p
		q.set = e.data
		c.try(tag+"RawTreeChange."+e.name+" raw", q, "reject")
		q.sid = cidOf(e.data)
		c.try(tag+"RawTreeChange."+e.name+" reid", q, "reject")
	}
	for _, e := range fieldEdits(r, sw.inner, func() vtmsg { return &treechangeproto.RootChange{} }) {
		q := s.p
		q.set = wrapSet(wrapped{e.data, sw.sig})
		c.try(tag+"RootChange."+e.name+" raw", q, "reject")
		q.sid = cidOf(q.set)
		c.try(tag+"RootChange."+e.name+" reid", q, "reject")
		q.set = wrapSet(wrapped{e.data, sign(s.sign, e.data)})
		q.sid = cidOf(q.set)
		// v1: header embeds the old bytes. v0 (documented limitation): nothing but the embedded space id
		// and ACL head ties a settings root to the header, so a re-issued root is accepted unless the
		// edit touches those two fields or the identity
		expect := "reject"
		field := strings.SplitN(e.name, ".", 2)[0]
		if !s.v1 && field != "SpaceId" && field != "AclHeadId" && field != "Identity" {
			expect = "any"
		}
		if got := c.try(tag+"RootChange."+e.name+" resign", q, expect); expect == "any" && got == "ok" {
			r.Count("v0-limitation.reissued-settings-root-accepted")
		}
	}
}

// signatureSwaps: signatures moved between layers and between spaces (ids recomputed)
func (c *ctxt) signatureSwaps(s, o *space) {
	tag := s.kind + " sig:"
	hw, aw, sw := unwrapHeader(s.p.raw), unwrapAcl(s.p.acl), unwrapSet(s.p.set)
	ohw, oaw, osw := unwrapHeader(o.p.raw), unwrapAcl(o.p.acl), unwrapSet(o.p.set)
	for name, sg := range sortedPairs(map[string][]byte{"acl": aw.sig, "settings": sw.sig, "other-header": ohw.sig, "zero": make([]byte, 64), "empty": nil,
		"by-master": sign(s.master, hw.inner), "by-stranger": sign(o.sign, hw.inner)}) {
		if bytes.Equal(sg, hw.sig) {
			continue
		}
		q := s.p
		q.raw = wrapHeader(wrapped{hw.inner, sg})
		q.hid = idFor(q.raw)
		c.try(tag+"header<-"+name, q, "reject")
	}
	for name, sg := range sortedPairs(map[string][]byte{"header": hw.sig, "settings": sw.sig, "other-acl": oaw.sig, "zero": make([]byte, 64), "empty": nil,
		"by-master": sign(s.master, aw.inner), "by-stranger": sign(o.sign, aw.inner)}) {
		if bytes.Equal(sg, aw.sig) {
			continue
		}
		q := s.p
		q.acl = wrapAcl(wrapped{aw.inner, sg})
		q.aid = cidOf(q.acl)
		c.try(tag+"acl<-"+name, q, "reject")
	}
	for name, sg := range sortedPairs(map[string][]byte{"header": hw.sig, "acl": aw.sig, "other-settings": osw.sig, "zero": make([]byte, 64), "empty": nil,
		"by-master": sign(s.master, sw.inner), "by-stranger": sign(o.sign, sw.inner)}) {
		if bytes.Equal(sg, sw.sig) {
			continue
		}
		q := s.p
		q.set = wrapSet(wrapped{sw.inner, sg})
		q.sid = cidOf(q.set)
		c.try(tag+"settings<-"+name, q, "reject")
	}
	// the master-key signature over the identity, replaced inside the ACL root and the root re-signed
	var root, oroot aclrecordproto.AclRoot
	root.UnmarshalVT(aw.inner)
	oroot.UnmarshalVT(oaw.inner)
	rawIdent, _ := s.sign.GetPublic().Raw()
	for _, name := range sortedKeys(map[string][]byte{"other-space": oroot.IdentitySignature, "record-sig": aw.sig, "by-identity": sign(s.sign, rawIdent), "by-stranger": sign(o.master, rawIdent), "empty": nil}) {
		sg := (map[string][]byte{"other-space": oroot.IdentitySignature, "record-sig": aw.sig, "by-identity": sign(s.sign, rawIdent), "by-stranger": sign(o.master, rawIdent), "empty": nil})[name]
		if bytes.Equal(sg, root.IdentitySignature) {
			continue
		}
		var root2 aclrecordproto.AclRoot
		root2.UnmarshalVT(aw.inner)
		root2.IdentitySignature = sg
		b, _ := (&root2).MarshalVT()
		q := s.p
		q.acl = wrapAcl(wrapped{b, sign(s.sign, b)})
		q.aid = cidOf(q.acl)
		c.try(tag+"identitySignature<-"+name, q, "reject")
	}
}

// crossSplices: every non-trivial combination of the six parts of two valid spaces
func (c *ctxt) crossSplices(s, o *space) {
	tag := s.kind + "x" + o.kind + " splice:"
	for mask := 1; mask < 63; mask++ {
		q := s.p
		name := ""
		if mask&1 != 0 {
			q.hid = o.p.hid
			name += "H"
		}
		if mask&2 != 0 {
			q.raw = o.p.raw
			name += "h"
		}
		if mask&4 != 0 {
			q.aid = o.p.aid
			name += "A"
		}
		if mask&8 != 0 {
			q.acl = o.p.acl
			name += "a"
		}
		if mask&16 != 0 {
			q.sid = o.p.sid
			name += "S"
		}
		if mask&32 != 0 {
			q.set = o.p.set
			name += "s"
		}
		c.try(tag+name, q, "reject", s.p, o.p)
	}
	// inner splices: header bytes of one space under the signature of the other, etc. (ids recomputed)
	hw, ohw := unwrapHeader(s.p.raw), unwrapHeader(o.p.raw)
	q := s.p
	q.raw = wrapHeader(wrapped{hw.inner, ohw.sig})
	q.hid = idFor(q.raw)
	c.try(tag+"header-bytes+other-signature", q, "reject", s.p, o.p)
	q = s.p
	q.hid = cidOf(s.p.raw) + suffixOf(o.p.hid)
	c.try(tag+"cid+other-suffix", q, "reject", s.p, o.p)
	q = s.p
	q.hid = cidOf(o.p.raw) + suffixOf(s.p.hid)
	c.try(tag+"other-cid+suffix", q, "reject", s.p, o.p)
}

// intraSwaps: byte strings of one space moved to another slot of the same space (with and without
// their ids): a root offered where the other root / the header is expected
func (c *ctxt) intraSwaps(s *space) {
	tag := s.kind + " intra:"
	type slot struct {
		name string
		id   *string
		data *[]byte
	}
	for i := 0; i < 3; i++ {
		for j := 0; j < 3; j++ {
			if i == j {
				continue
			}
			for _, withId := range []bool{true, false} {
				q := s.p
				slots := []slot{{"raw", &q.hid, &q.raw}, {"acl", &q.aid, &q.acl}, {"set", &q.sid, &q.set}}
				src := []slot{{"raw", &s.p.hid, &s.p.raw}, {"acl", &s.p.aid, &s.p.acl}, {"set", &s.p.sid, &s.p.set}}[j]
				*slots[i].data = *src.data
				name := slots[i].name + "<-" + src.name
				if withId {
					switch {
					case i == 0: // header slot: give it a well-formed space id for the new bytes
						*slots[i].id = cidOf(*src.data) + suffixOf(s.p.hid)
					case j == 0:
						*slots[i].id = cidOf(*src.data)
					default:
						*slots[i].id = *src.id
					}
					name += "+id"
				}
				c.try(tag+name, q, "reject")
			}
		}
	}
}

// reissue: the whole chain rebuilt CONSISTENTLY by the owner's key around one deliberately wrong
// ingredient, so that exactly one check of the validator can object (every other binding — content
// ids, embedded roots, ACL head, space ids — is recomputed and holds)
type reissueOpts struct {
	editAcl    func(root *aclrecordproto.AclRoot)
	aclSigner  crypto.PrivKey
	editSet    func(root *treechangeproto.RootChange)
	setSigner  crypto.PrivKey
	editHeader func(h *spacesyncproto.SpaceHeader)
	hdrSigner  crypto.PrivKey
}

func reissue(s *space, o reissueOpts) payload {
	pick := func(k crypto.PrivKey) crypto.PrivKey {
		if k == nil {
			return s.sign
		}
		return k
	}
	q := s.p
	var root aclrecordproto.AclRoot
	root.UnmarshalVT(unwrapAcl(s.p.acl).inner)
	if o.editAcl != nil {
		o.editAcl(&root)
	}
	ab, _ := root.MarshalVT()
	q.acl = wrapAcl(wrapped{ab, sign(pick(o.aclSigner), ab)})
	q.aid = cidOf(q.acl)
	var sroot treechangeproto.RootChange
	sroot.UnmarshalVT(unwrapSet(s.p.set).inner)
	sroot.AclHeadId = q.aid
	if o.editSet != nil {
		o.editSet(&sroot)
	}
	sb, _ := sroot.MarshalVT()
	q.set = wrapSet(wrapped{sb, sign(pick(o.setSigner), sb)})
	q.sid = cidOf(q.set)
	if s.v1 || o.editHeader != nil || o.hdrSigner != nil {
		h := headerOf(s.p.raw)
		if s.v1 {
			h.AclPayload, h.SettingPayload = q.acl, q.set
		}
		if o.editHeader != nil {
			o.editHeader(h)
		}
		hb, _ := h.MarshalVT()
		q.raw = wrapHeader(wrapped{hb, sign(pick(o.hdrSigner), hb)})
		q.hid = idFor(q.raw)
		if !s.v1 {
			// v0 roots embed the space id: rebuild them for the new id
			root.SpaceId = q.hid
			ab, _ = root.MarshalVT()
			q.acl = wrapAcl(wrapped{ab, sign(pick(o.aclSigner), ab)})
			q.aid = cidOf(q.acl)
			sroot.SpaceId, sroot.AclHeadId = q.hid, q.aid
			sb, _ = sroot.MarshalVT()
			q.set = wrapSet(wrapped{sb, sign(pick(o.setSigner), sb)})
			q.sid = cidOf(q.set)
		}
	}
	return q
}

func (c *ctxt) reissued(s, o *space) {
	tag := s.kind + " reissue:"
	rawIdent, _ := s.sign.GetPublic().Raw()
	strangerMaster, _ := o.master.GetPublic().Marshall()
	strangerIdent, _ := o.sign.GetPublic().Marshall()
	// sanity of the machinery: a consistent re-issue with nothing wrong is a valid payload
	ok := reissue(s, reissueOpts{editAcl: func(r *aclrecordproto.AclRoot) { r.Timestamp += 7 }, editHeader: func(h *spacesyncproto.SpaceHeader) { h.Timestamp += 7 }})
	if got := c.try(tag+"consistent", ok, "any"); got != "ok" {
		c.r.Violate(prop, "", "space.reissue.selfcheck", "harness: a consistently re-issued payload was rejected ("+got+")", []string{tag})
	}
	bad := map[string]reissueOpts{
		"identitySignature-by-stranger-master": {editAcl: func(r *aclrecordproto.AclRoot) { r.IdentitySignature = sign(o.master, rawIdent) }},
		"identitySignature-by-identity":        {editAcl: func(r *aclrecordproto.AclRoot) { r.IdentitySignature = sign(s.sign, rawIdent) }},
		"identitySignature-empty":              {editAcl: func(r *aclrecordproto.AclRoot) { r.IdentitySignature = nil }},
		"identitySignature-over-marshalled":    {editAcl: func(r *aclrecordproto.AclRoot) { r.IdentitySignature = sign(s.master, r.Identity) }},
		"masterKey-of-stranger":                {editAcl: func(r *aclrecordproto.AclRoot) { r.MasterKey = strangerMaster }},
		"masterKey-garbage":                    {editAcl: func(r *aclrecordproto.AclRoot) { r.MasterKey = []byte{1, 2, 3} }},
		"acl-signed-by-stranger":               {aclSigner: o.sign},
		"acl-signed-by-master":                 {aclSigner: s.master},
		"acl-identity-of-stranger":             {editAcl: func(r *aclrecordproto.AclRoot) { r.Identity = strangerIdent }},
		"settings-signed-by-stranger":          {setSigner: o.sign},
		"settings-signed-by-master":            {setSigner: s.master},
		"settings-identity-of-stranger":        {editSet: func(r *treechangeproto.RootChange) { r.Identity = strangerIdent }},
		"settings-identity-garbage":            {editSet: func(r *treechangeproto.RootChange) { r.Identity = []byte{9} }},
		"settings-stale-acl-head":              {editSet: func(r *treechangeproto.RootChange) { r.AclHeadId = s.p.aid + "x" }},
		"header-signed-by-stranger":            {hdrSigner: o.sign},
		"header-signed-by-master":              {hdrSigner: s.master},
		"header-identity-of-stranger":          {editHeader: func(h *spacesyncproto.SpaceHeader) { h.Identity = strangerIdent }},
		"header-identity-garbage":              {editHeader: func(h *spacesyncproto.SpaceHeader) { h.Identity = []byte{7, 7} }},
	}
	if s.master.Equals(s.sign) { // one-to-one: identity and master key coincide
		delete(bad, "identitySignature-by-identity")
		delete(bad, "acl-signed-by-master")
		delete(bad, "settings-signed-by-master")
		delete(bad, "header-signed-by-master")
	}
	if !s.v1 {
		bad["acl-names-other-space"] = reissueOpts{editAcl: func(r *aclrecordproto.AclRoot) { r.SpaceId = o.p.hid }}
		bad["settings-names-other-space"] = reissueOpts{editSet: func(r *treechangeproto.RootChange) { r.SpaceId = o.p.hid }}
		bad["acl-names-no-space"] = reissueOpts{editAcl: func(r *aclrecordproto.AclRoot) { r.SpaceId = "" }}
	}
	for _, name := range sortedKeys(bad) {
		opt := (bad)[name]
		c.try(tag+name, reissue(s, opt), "reject")
	}
}

// forgedRoots: roots issued by a stranger's key that NAME this space. v1: must be rejected (the header
// embeds its roots). v0: accepted — the documented limitation (the header commits to its roots only
// through the space id they embed); counted, not a violation.
func (c *ctxt) forgedRoots(s, o *space) {
	r := c.r
	tag := s.kind + " forged:"
	mkAcl := func(spaceId string) ([]byte, string) {
		rawId, _ := o.sign.GetPublic().Raw()
		ident, _ := o.sign.GetPublic().Marshall()
		mk, _ := o.master.GetPublic().Marshall()
		root := &aclrecordproto.AclRoot{Identity: ident, MasterKey: mk, SpaceId: spaceId, IdentitySignature: sign(o.master, rawId)}
		b, _ := root.MarshalVT()
		acl := wrapAcl(wrapped{b, sign(o.sign, b)})
		return acl, cidOf(acl)
	}
	mkSet := func(spaceId, aclHead string) ([]byte, string) {
		ident, _ := o.sign.GetPublic().Marshall()
		root := &treechangeproto.RootChange{AclHeadId: aclHead, SpaceId: spaceId, ChangeType: spacepayloads.SpaceReserved, Identity: ident, Seed: randBytes(r, 8)}
		b, _ := root.MarshalVT()
		set := wrapSet(wrapped{b, sign(o.sign, b)})
		return set, cidOf(set)
	}
	spaceIdInRoots := s.p.hid
	if s.v1 {
		spaceIdInRoots = ""
	}
	expect := "reject"
	if !s.v1 {
		expect = "any"
	}
	// settings root only
	q := s.p
	q.set, q.sid = mkSet(spaceIdInRoots, s.p.aid)
	if c.try(tag+"settings-root-by-stranger", q, expect) == "ok" {
		r.Count("v0-limitation.forged-settings-root-accepted")
	}
	// ACL root only: always rejected (v0: the settings root names the old ACL id)
	q = s.p
	q.acl, q.aid = mkAcl(spaceIdInRoots)
	c.try(tag+"acl-root-by-stranger", q, "reject")
	// both
	q = s.p
	q.acl, q.aid = mkAcl(spaceIdInRoots)
	q.set, q.sid = mkSet(spaceIdInRoots, q.aid)
	if c.try(tag+"both-roots-by-stranger", q, expect) == "ok" {
		r.Count("v0-limitation.forged-both-roots-accepted")
	}
	// roots naming ANOTHER space id / a stale ACL head: rejected in every version
	q = s.p
	q.acl, q.aid = mkAcl(o.p.hid)
	q.set, q.sid = mkSet(o.p.hid, q.aid)
	c.try(tag+"both-roots-naming-other-space", q, "reject")
	if !s.v1 {
		q = s.p
		q.set, q.sid = mkSet(s.p.hid, o.p.aid)
		c.try(tag+"settings-root-other-acl-head", q, "reject")
		q = s.p
		q.set, q.sid = mkSet(o.p.hid, s.p.aid)
		c.try(tag+"settings-root-other-space", q, "reject")
		q = s.p
		q.set, q.sid = mkSet("", s.p.aid)
		c.try(tag+"settings-root-no-space", q, "reject")
	}
}

// headerOnly: ValidateSpaceHeader with and without an expected identity and supplied roots
func (c *ctxt) headerOnly(s, o *space) {
	r := c.r
	one := func(kind string, p payload, ident crypto.PubKey, acl, set []byte, want string) {
		impl := realHeader(p, ident, acl, set)
		k, a, st := "-", "-", "-"
		if ident != nil {
			raw, _ := ident.Raw()
			k = fmt.Sprint(c.in.b(raw))
		}
		if acl != nil {
			a = fmt.Sprint(c.in.b(acl))
		}
		if set != nil {
			st = fmt.Sprint(c.in.b(set))
		}
		op := describe(p, fmt.Sprintf("hdr:%s:%s:%s", k, a, st), c.in)
		c.check("space.validateHeader", []string{kind, op}, r.Ask(op), impl)
		r.Case(kind+"|"+op, true)
		r.Count("hdr." + strings.SplitN(kind, " ", 2)[1] + "=" + impl)
		if want != "" && !strings.HasPrefix(impl, want) {
			r.Violate(prop, "", "space.header.oracle", fmt.Sprintf("%s: ValidateSpaceHeader gave %s, property requires %s", kind, impl, want), []string{kind, op})
		}
	}
	tag := s.kind + " "
	one(tag+"hdr:plain", s.p, nil, nil, nil, "ok")
	o2o := s.kind == "o2o" || s.kind == "o2oany"
	one(tag+"hdr:own-identity", s.p, s.sign.GetPublic(), nil, nil, "ok")
	if o2o {
		one(tag+"hdr:o2o-foreign-identity", s.p, o.sign.GetPublic(), nil, nil, "ok") // identity is not compared for 1-1 types
	} else {
		one(tag+"hdr:foreign-identity", s.p, o.sign.GetPublic(), nil, nil, "err:ident")
	}
	one(tag+"hdr:with-roots", s.p, nil, s.p.acl, s.p.set, "ok")
	want := "err"
	if !s.v1 {
		want = "ok" // a v0 header does not embed its roots; they are bound by the ids checked in the full validator
	}
	one(tag+"hdr:foreign-acl", s.p, nil, o.p.acl, s.p.set, want)
	one(tag+"hdr:foreign-settings", s.p, nil, s.p.acl, o.p.set, want)
	one(tag+"hdr:empty-acl", s.p, nil, []byte{}, nil, want)
	// a mutated header through the header-only entry
	q := s.p
	q.raw = cp(q.raw)
	q.raw[r.Intn(len(q.raw))] ^= 0x10
	one(tag+"hdr:flipped-raw", q, nil, nil, nil, "err")
	q = s.p
	q.hid = cidOf(s.p.raw) + suffixOf(o.p.hid)
	if q.hid != s.p.hid {
		one(tag+"hdr:other-suffix", q, nil, nil, nil, "err")
	}
}
