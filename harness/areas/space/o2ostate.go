package space

import (
	"fmt"
	"sort"
	"strconv"
	"strings"

	"github.com/anyproto/any-sync/commonspace/object/accountdata"
	"github.com/anyproto/any-sync/commonspace/object/acl/aclrecordproto"
	"github.com/anyproto/any-sync/commonspace/object/acl/list"
	"github.com/anyproto/any-sync/commonspace/object/acl/recordverifier"
	"github.com/anyproto/any-sync/consensus/consensusproto"
	"github.com/anyproto/any-sync/util/crypto"
)

// o2oState: correspondence for setOneToOneAcl (onetoone.go). The account `acc` builds the real ACL
// state from the (consistently signed) root of q; the Lean model `Space.setOneToOne` runs on the
// decoded one-to-one info with the real primitives as tables (which byte strings unmarshal to which
// keys, what each key marshals to, which joint key GenerateSharedKey(acc, bob) yields). Compared:
// error class, whether keys were stored and WHICH joint key they come from (the real read key is
// matched against the read key of every candidate joint key), and the account table with permissions.
func (c *ctxt) o2oState(tag string, acc ident, q payload, info *aclrecordproto.AclOneToOneInfo) {
	r := c.r
	if acc.priv == nil {
		return
	}
	bsym, ksym := map[string]int{}, map[string]int{}
	nb := func(b []byte) int {
		if v, ok := bsym[string(b)]; ok {
			return v
		}
		bsym[string(b)] = len(bsym) + 1
		return len(bsym)
	}
	nk := func(pk crypto.PubKey) int {
		s := string(pk.Storage())
		if v, ok := ksym[s]; ok {
			return v
		}
		ksym[s] = len(ksym) + 1
		return len(ksym)
	}
	var entries []string
	seenM := map[int]bool{}
	addM := func(pk crypto.PubKey) {
		k := nk(pk)
		if seenM[k] {
			return
		}
		seenM[k] = true
		if mb, err := pk.Marshall(); err == nil {
			entries = append(entries, fmt.Sprintf("m:%d=%d", k, nb(mb)))
		}
	}
	myKey := nk(acc.pub)
	addM(acc.pub)
	readKeyOf := map[string]int{} // raw read key -> joint key symbol
	metaOf := map[int]string{}    // joint key symbol -> raw metadata key derived with the same partner
	seenK := map[int]bool{}
	decode := func(b []byte, isWriter bool) {
		if seenK[nb(b)] && !isWriter {
			return
		}
		pk, err := crypto.UnmarshalEd25519PublicKeyProto(b)
		if err != nil {
			return
		}
		if !seenK[nb(b)] {
			seenK[nb(b)] = true
			entries = append(entries, fmt.Sprintf("k:%d=%d", nb(b), nk(pk)))
			addM(pk)
		}
		if !isWriter {
			return
		}
		shared, err := crypto.GenerateSharedKey(acc.priv, pk, crypto.AnysyncOneToOneSpacePath)
		if err != nil {
			return
		}
		j := nk(shared.GetPublic())
		e := fmt.Sprintf("s:%d=%d", nk(pk), j)
		for _, x := range entries {
			if x == e {
				return
			}
		}
		entries = append(entries, e)
		addM(shared.GetPublic())
		if raw, err := shared.Raw(); err == nil {
			if rk, err := crypto.DeriveSymmetricKey(raw, crypto.AnysyncReadOneToOneSpacePath); err == nil {
				if rr, err := rk.Raw(); err == nil {
					readKeyOf[string(rr)] = j
				}
			}
		}
		if msk, err := crypto.GenerateSharedKey(acc.priv, pk, crypto.AnysyncMetadataOneToOnePath); err == nil {
			if mr, err := msk.Raw(); err == nil {
				metaOf[j] = string(mr)
			}
		}
	}
	var ws []string
	for _, w := range info.Writers {
		decode(w, true)
		ws = append(ws, strconv.Itoa(nb(w)))
	}
	owner := "-"
	if len(info.Owner) > 0 {
		decode(info.Owner, false)
		owner = strconv.Itoa(nb(info.Owner))
	}
	wl := "-"
	if len(ws) > 0 {
		wl = strings.Join(ws, ",")
	}
	op := fmt.Sprintf("o2ost %d %s %s %s", myKey, owner, wl, strings.Join(entries, " "))
	impl := func() (out string) {
		defer func() {
			if x := recover(); x != nil {
				out = fmt.Sprintf("panic:%v", x)
			}
		}()
		root := &consensusproto.RawRecordWithId{Id: q.aid, Payload: q.acl}
		st, err := list.NewInMemoryStorage(root.Id, []*consensusproto.RawRecordWithId{root})
		if err != nil {
			return "err:storage:" + err.Error()
		}
		acl, err := list.BuildAclListWithIdentity(&accountdata.AccountKeys{SignKey: acc.priv, PeerKey: acc.priv, PeerId: "verif"}, st, recordverifier.NewValidateFull())
		if err != nil {
			m := err.Error()
			switch {
			case strings.Contains(m, "exactly two Writers"):
				return "err:count"
			case strings.Contains(m, "Owner is empty"):
				return "err:owner-empty"
			case strings.Contains(m, "Owner pubkey != derived pubkey"):
				return "err:owner-mismatch"
			case strings.Contains(m, "GenerateSharedKey"), strings.Contains(m, "metadataSharedKey"):
				return "err:shared"
			}
			// a key that does not unmarshal surfaces as the decoder's own error text: classify it as
			// err:key only if some listed byte string really fails to unmarshal
			for _, b := range append(append([][]byte{}, info.Writers...), info.Owner) {
				if _, uerr := crypto.UnmarshalEd25519PublicKeyProto(b); uerr != nil {
					return "err:key"
				}
			}
			return "err:other:" + m
		}
		s := acl.AclState()
		keys := "-"
		if k, ok := s.Keys()[q.aid]; ok && k.ReadKey != nil {
			keys = "?"
			if rr, err := k.ReadKey.Raw(); err == nil {
				if j, ok := readKeyOf[string(rr)]; ok {
					keys = strconv.Itoa(j)
					// the metadata key must be the one derived with the same partner (metadata path),
					// and the stored public half must belong to it
					okMeta := false
					if k.MetadataPrivKey != nil && k.MetadataPubKey != nil {
						if mr, err := k.MetadataPrivKey.Raw(); err == nil && string(mr) == metaOf[j] && k.MetadataPubKey.Equals(k.MetadataPrivKey.GetPublic()) {
							okMeta = true
						}
					}
					if !okMeta {
						keys += "!meta"
					}
				}
				// direct oracle: the read key must not be derivable from what the root publishes (owner
				// and writer keys, marshalled or raw) — otherwise every holder of the root derives it
				pubSeeds := append(append([][]byte{}, info.Writers...), info.Owner)
				for _, b := range append([][]byte{}, pubSeeds...) {
					if pk, err := crypto.UnmarshalEd25519PublicKeyProto(b); err == nil {
						pubSeeds = append(pubSeeds, pk.Storage())
					}
				}
				for _, seed := range pubSeeds {
					if len(seed) == 0 {
						continue
					}
					if ck, err := crypto.DeriveSymmetricKey(seed, crypto.AnysyncReadOneToOneSpacePath); err == nil {
						if cr, err := ck.Raw(); err == nil && string(cr) == string(rr) {
							r.Violate(prop, "", "space.o2o.keys.public.oracle",
								fmt.Sprintf("%s built by %s: the stored 1-1 read key equals DeriveSymmetricKey(<public bytes published in the root>, read path): any holder of the root derives it without a private key", tag, acc.label),
								[]string{tag + " built by " + acc.label, op})
						}
					}
				}
			}
		}
		me := "0"
		if keys != "-" {
			me = "1"
		}
		type kp struct {
			k int
			p string
		}
		var accs []kp
		for _, a := range s.CurrentAccounts() {
			p := "?" + strconv.Itoa(int(a.Permissions))
			switch a.Permissions {
			case list.AclPermissionsOwner:
				p = "O"
			case list.AclPermissionsWriter:
				p = "W"
			}
			accs = append(accs, kp{nk(a.PubKey), p})
		}
		sort.Slice(accs, func(i, j int) bool { return accs[i].k < accs[j].k })
		var parts []string
		for _, a := range accs {
			parts = append(parts, fmt.Sprintf("%d:%s", a.k, a.p))
		}
		return fmt.Sprintf("ok me=%s keys=%s acc=%s", me, keys, strings.Join(parts, ","))
	}()
	m := r.Ask(op)
	r.Check(prop, "space.o2o.state", []string{tag + " built by " + acc.label, op}, m, impl)
	r.Case("o2ost "+tag+" "+acc.label, true)
	cls := impl
	if i := strings.Index(cls, " "); i > 0 {
		cls = cls[:i]
	}
	r.Count("o2ost." + cls)
}
