package space

import (
	"bytes"
	"fmt"

	"github.com/anyproto/any-sync/commonspace/object/accountdata"
	"github.com/anyproto/any-sync/commonspace/object/acl/list"
	"github.com/anyproto/any-sync/commonspace/object/acl/recordverifier"
	"github.com/anyproto/any-sync/commonspace/spacepayloads"
	"github.com/anyproto/any-sync/consensus/consensusproto"
	"github.com/anyproto/any-sync/util/crypto"

	"verifharness/internal/corr"
)

// o2oKeys: what one party can read out of the 1-1 ACL root with its own account key
func o2oKeys(acc crypto.PrivKey, p payload) (readKey, metaKey []byte, err error) {
	defer func() {
		if x := recover(); x != nil {
			err = fmt.Errorf("panic: %v", x)
		}
	}()
	root := &consensusproto.RawRecordWithId{Id: p.aid, Payload: p.acl}
	st, err := list.NewInMemoryStorage(root.Id, []*consensusproto.RawRecordWithId{root})
	if err != nil {
		return nil, nil, err
	}
	acl, err := list.BuildAclListWithIdentity(&accountdata.AccountKeys{SignKey: acc, PeerKey: acc, PeerId: "verif"}, st, recordverifier.NewValidateFull())
	if err != nil {
		return nil, nil, err
	}
	rk, err := acl.AclState().CurrentReadKey()
	if err != nil {
		return nil, nil, err
	}
	readKey, err = rk.Raw()
	if err != nil {
		return nil, nil, err
	}
	keys := acl.AclState().Keys()[p.aid]
	if keys.MetadataPrivKey == nil {
		return readKey, nil, fmt.Errorf("no metadata key")
	}
	metaKey, err = keys.MetadataPrivKey.Raw()
	return
}

func o2oPayload(a crypto.PrivKey, b crypto.PubKey, ty string) (payload, error) {
	sp, err := spacepayloads.StoragePayloadForOneToOneSpaceWithType(a, b, ty)
	if err != nil {
		return payload{}, err
	}
	return fromReal(sp), nil
}

// term bookkeeping for the symbolic one-to-one model: real output ↔ model term must be a bijection
type bij struct {
	toTerm map[string]string
	toReal map[string]string
}

func (b *bij) check(real, term string) bool {
	if t, ok := b.toTerm[real]; ok && t != term {
		return false
	}
	if x, ok := b.toReal[term]; ok && x != real {
		return false
	}
	b.toTerm[real], b.toReal[term] = term, real
	return true
}

func (c *ctxt) oneToOne(bj *bij, keyNo map[string]int) {
	r := c.r
	a, b, x := newKey(r), newKey(r), newKey(r)
	no := func(k crypto.PrivKey) int {
		raw, _ := k.GetPublic().Raw()
		if v, ok := keyNo[string(raw)]; ok {
			return v
		}
		keyNo[string(raw)] = len(keyNo) + 1
		return len(keyNo)
	}
	viol := func(stream, desc string) {
		r.Violate(prop, "", stream, desc, []string{fmt.Sprintf("o2o a=%d b=%d x=%d", no(a), no(b), no(x))})
	}
	for ti, ty := range []string{spacepayloads.SpaceTypeOneToOne, spacepayloads.SpaceTypeOneToOneAny} {
		pa, err1 := o2oPayload(a, b.GetPublic(), ty)
		pb, err2 := o2oPayload(b, a.GetPublic(), ty)
		if err1 != nil || err2 != nil {
			viol("space.o2o.construct", fmt.Sprintf("constructor failed: %v / %v", err1, err2))
			return
		}
		if !pa.same(pb) {
			viol("space.o2o.symmetric.oracle", fmt.Sprintf("type %s: the two parties derive different payloads: ids %s / %s, acl %s / %s, settings %s / %s", ty, pa.hid, pb.hid, pa.aid, pb.aid, pa.sid, pb.sid))
		}
		// deterministic: a second derivation by the same party gives the same bytes
		if pa2, _ := o2oPayload(a, b.GetPublic(), ty); !pa.same(pa2) {
			viol("space.o2o.deterministic.oracle", "two derivations by the same party differ")
		}
		c.try("o2o ctor-a", pa, "accept")
		c.try("o2o ctor-b", pb, "accept")
		// keys
		rka, mka, ea := o2oKeys(a, pa)
		rkb, mkb, eb := o2oKeys(b, pa)
		if ea != nil || eb != nil {
			viol("space.o2o.keys.oracle", fmt.Sprintf("a party cannot derive the space keys: %v / %v", ea, eb))
		} else if !bytes.Equal(rka, rkb) || !bytes.Equal(mka, mkb) || len(rka) == 0 || len(mka) == 0 {
			viol("space.o2o.keys.oracle", "the two parties derive different read / metadata keys")
		}
		if rkx, _, ex := o2oKeys(x, pa); ex == nil && len(rkx) > 0 {
			viol("space.o2o.keys.oracle", "a third account obtained a read key for the 1-1 space")
		}
		r.Count("o2o.symmetric")
		// other pairs derive something else (ids, roots and — when they can derive any — keys)
		for _, name := range sortedKeys(map[string][2]crypto.PrivKey{"a-x": {a, x}, "x-b": {x, b}, "a-a": {a, a}}) {
			alt := (map[string][2]crypto.PrivKey{"a-x": {a, x}, "x-b": {x, b}, "a-a": {a, a}})[name]
			po, err := o2oPayload(alt[0], alt[1].GetPublic(), ty)
			if err != nil {
				r.Count("o2o.other-pair.error")
				continue
			}
			if po.hid == pa.hid || po.aid == pa.aid || po.sid == pa.sid || bytes.Equal(po.raw, pa.raw) {
				viol("space.o2o.injective.oracle", fmt.Sprintf("pair %s derives the same id / root as pair a-b (type %s)", name, ty))
			}
			if rko, _, e := o2oKeys(alt[0], po); e == nil && bytes.Equal(rko, rka) {
				viol("space.o2o.injective.oracle", fmt.Sprintf("pair %s derives the same read key as pair a-b", name))
			}
			r.Count("o2o.other-pair.differs")
			// correspondence: symbolic terms
			op := fmt.Sprintf("o2o %d %d %d", no(alt[0]), no(alt[1]), ti)
			m := r.Ask(op)
			if !bj.check(po.hid+"|"+po.aid+"|"+po.sid, m) {
				r.Disagree(prop, "space.o2o.terms", "real outputs and symbolic terms are not in bijection", []string{op}, m, po.hid)
			}
		}
		for _, pr := range [][2]crypto.PrivKey{{a, b}, {b, a}} {
			op := fmt.Sprintf("o2o %d %d %d", no(pr[0]), no(pr[1]), ti)
			m := r.Ask(op)
			if !bj.check(pa.hid+"|"+pa.aid+"|"+pa.sid, m) {
				r.Disagree(prop, "space.o2o.terms", "real outputs and symbolic terms are not in bijection", []string{op}, m, pa.hid)
			}
			r.Case(op, true)
		}
	}
	// the type is part of the derived id (the roots are not type-specific)
	p1, _ := o2oPayload(a, b.GetPublic(), spacepayloads.SpaceTypeOneToOne)
	p2, _ := o2oPayload(a, b.GetPublic(), spacepayloads.SpaceTypeOneToOneAny)
	if p1.hid == p2.hid {
		viol("space.o2o.type.oracle", "the two 1-1 types derive the same space id")
	}
	if _, err := o2oPayload(a, b.GetPublic(), "anytype.space"); err == nil {
		viol("space.o2o.type.oracle", "a non 1-1 type was accepted by the 1-1 constructor")
	}
}

func Run(r *corr.Run) {
	r.SetRule("every real constructor (create v0/v1, derive v0/v1, one-to-one of both types) with random keys; each output validated through ValidateSpaceStorageCreatePayload, ValidateSpaceHeader and the real create / push / pull paths of spaceService; mutators: single-byte flips of each of the six parts (sampled in quick, all positions in thorough), id/suffix rewrites, dropped parts, every protobuf field of every layer edited and re-encoded (raw / ids recomputed / re-signed), signature swaps, all 62 cross-combinations of the six parts of two valid spaces (same and different kinds), roots forged by a stranger; one-to-one: (a,B) vs (b,A) byte equality, keys, other pairs, other type. Every case is non-trivial (a full validation); distinct = distinct (kind, abstracted payload) lines")
	c := &ctxt{r: r, in: &interner{m: map[string]int{}}}
	bj := &bij{toTerm: map[string]string{}, toReal: map[string]string{}}
	keyNo := map[string]int{}
	round := 0
	for r.TimeLeft() && round < r.Pick(40, 4000) {
		round++
		// fresh symbol table per round keeps the lines short
		c.in = &interner{m: map[string]int{}}
		var spaces []*space
		for _, k := range kinds {
			s, err := build(r, k)
			if err != nil {
				r.Violate(prop, "", "space.constructor.oracle", k+": constructor failed: "+err.Error(), []string{k})
				continue
			}
			spaces = append(spaces, s)
			r.Count("ctor." + k)
		}
		for i, s := range spaces {
			if !r.TimeLeft() {
				break
			}
			got := c.try(s.kind+" ctor", s.p, "accept")
			c.paths(s.kind+" ctor", s.p, got == "ok")
			same, err := build(r, s.kind)
			if err != nil {
				continue
			}
			other := spaces[(i+1+r.Intn(len(spaces)-1))%len(spaces)]
			c.headerOnly(s, other)
			c.byteFlips(s)
			c.idMutations(s)
			c.fieldMutations(s)
			c.intraSwaps(s)
			c.reissued(s, other)
			c.signatureSwaps(s, same)
			c.crossSplices(s, same)
			c.crossSplices(s, other)
			c.forgedRoots(s, other)
			r.Sample(map[string]string{"kind": s.kind, "spaceId": s.p.hid, "aclId": s.p.aid, "settingsId": s.p.sid})
		}
		// derived spaces of one owner: same keys, different type ⇒ different header, identical roots (v1)
		if len(spaces) == len(kinds) && r.TimeLeft() {
			d1 := spaces[3]
			dpl := spacepayloads.SpaceDerivePayload{SigningKey: d1.sign, MasterKey: d1.master, SpaceType: "verif.other", SpacePayload: []byte{1}}
			if sp, err := spacepayloads.StoragePayloadForSpaceDeriveV1(dpl); err == nil {
				d2 := &space{kind: "derive1", v1: true, p: fromReal(sp), sign: d1.sign, master: d1.master}
				c.try("derive1 ctor-same-owner", d2.p, "accept")
				c.crossSplices(d1, d2)
			}
			d0 := spaces[2]
			dpl = spacepayloads.SpaceDerivePayload{SigningKey: d0.sign, MasterKey: d0.master, SpaceType: "verif.other", SpacePayload: []byte{1}}
			if sp, err := spacepayloads.StoragePayloadForSpaceDerive(dpl); err == nil {
				d2 := &space{kind: "derive0", p: fromReal(sp), sign: d0.sign, master: d0.master}
				c.try("derive0 ctor-same-owner", d2.p, "accept")
				c.crossSplices(d0, d2)
			}
		}
		for k := 0; k < 3 && r.TimeLeft(); k++ {
			c.oneToOne(bj, keyNo)
		}
	}
	r.Count("rounds")
}
