package space

import (
	"bytes"
	"encoding/hex"
	"fmt"
	"strings"

	"filippo.io/edwards25519"

	"github.com/anyproto/any-sync/commonspace/object/accountdata"
	"github.com/anyproto/any-sync/commonspace/object/acl/aclrecordproto"
	"github.com/anyproto/any-sync/commonspace/object/acl/list"
	"github.com/anyproto/any-sync/commonspace/object/acl/recordverifier"
	"github.com/anyproto/any-sync/commonspace/spacepayloads"
	"github.com/anyproto/any-sync/commonspace/spacesyncproto"
	"github.com/anyproto/any-sync/consensus/consensusproto"
	"github.com/anyproto/any-sync/util/crypto"

	"verifharness/internal/corr"
)

// o2oKeys: what one party can read out of the 1-1 ACL root with its own account key
func o2oKeys(acc crypto.PrivKey, p payload) (readKey, metaKey []byte, err error) {
	defer func() {
		if x := recover(); x != nil {
			err = fmt.Errorf("panic: %v", x)
		}
	}()
	root := &consensusproto.RawRecordWithId{Id: p.aid, Payload: p.acl}
	st, err := list.NewInMemoryStorage(root.Id, []*consensusproto.RawRecordWithId{root})
	if err != nil {
		return nil, nil, err
	}
	acl, err := list.BuildAclListWithIdentity(&accountdata.AccountKeys{SignKey: acc, PeerKey: acc, PeerId: "verif"}, st, recordverifier.NewValidateFull())
	if err != nil {
		return nil, nil, err
	}
	rk, err := acl.AclState().CurrentReadKey()
	if err != nil {
		return nil, nil, err
	}
	readKey, err = rk.Raw()
	if err != nil {
		return nil, nil, err
	}
	keys := acl.AclState().Keys()[p.aid]
	if keys.MetadataPrivKey == nil {
		return readKey, nil, fmt.Errorf("no metadata key")
	}
	metaKey, err = keys.MetadataPrivKey.Raw()
	return
}

func o2oPayload(a crypto.PrivKey, b crypto.PubKey, ty string) (payload, error) {
	sp, err := spacepayloads.StoragePayloadForOneToOneSpaceWithType(a, b, ty)
	if err != nil {
		return payload{}, err
	}
	return fromReal(sp), nil
}

// term bookkeeping for the symbolic one-to-one model: real output ↔ model term must be a bijection
type bij struct {
	toTerm map[string]string
	toReal map[string]string
}

func (b *bij) check(real, term string) bool {
	if t, ok := b.toTerm[real]; ok && t != term {
		return false
	}
	if x, ok := b.toReal[term]; ok && x != real {
		return false
	}
	b.toTerm[real], b.toReal[term] = term, real
	return true
}

// ---- one-to-one: identities, related identities, derivations -----------------------------------

type ident struct {
	label string
	priv  crypto.PrivKey // nil for public-only identities
	pub   crypto.PubKey
	raw   []byte
}

func identOf(label string, k crypto.PrivKey) ident {
	raw, _ := k.GetPublic().Raw()
	return ident{label, k, k.GetPublic(), raw}
}

// pubIdent: a public-only identity from raw bytes, if they decode as an Ed25519 point that also
// converts to X25519
func pubIdent(label string, raw []byte) (ident, bool) {
	if _, err := new(edwards25519.Point).SetBytes(raw); err != nil {
		return ident{}, false
	}
	pk, err := crypto.NewSigningEd25519PubKeyFromBytes(raw)
	if err != nil {
		return ident{}, false
	}
	if _, err := crypto.Ed25519PublicKeyToCurve25519(raw); err != nil {
		return ident{}, false
	}
	return ident{label, nil, pk, raw}, true
}

// an Edwards point of order 8
var torsion8, _ = hex.DecodeString("c7176a703d4dd84fba3c0b760d10670f2a2053fa2c39ccc64ec7fd7792ac037a")

// related: identities algebraically or textually close to `of`:
//   neg     the Edwards negation (same bytes, sign bit of byte 31 flipped): SAME X25519 public key
//   tors    the point shifted by a point of order 8: same X25519 shared secret with any clamped scalar
//   prefix  another valid point sharing the first 31 bytes; suffix: sharing the last 31 bytes
func related(r *corr.Run, of ident) []ident {
	var out []ident
	neg := cp(of.raw)
	neg[31] ^= 0x80
	if id, ok := pubIdent(of.label+".neg", neg); ok {
		out = append(out, id)
	}
	if p, err := new(edwards25519.Point).SetBytes(of.raw); err == nil {
		if t, err := new(edwards25519.Point).SetBytes(torsion8); err == nil {
			if id, ok := pubIdent(of.label+".tors", new(edwards25519.Point).Add(p, t).Bytes()); ok {
				out = append(out, id)
			}
		}
	}
	for k := 1; k < 64; k++ {
		pre := cp(of.raw)
		pre[31] ^= byte(k)
		if id, ok := pubIdent(of.label+".prefix", pre); ok {
			out = append(out, id)
			break
		}
	}
	for k := 1; k < 64; k++ {
		suf := cp(of.raw)
		suf[0] ^= byte(k)
		if id, ok := pubIdent(of.label+".suffix", suf); ok {
			out = append(out, id)
			break
		}
	}
	return out
}

type deriv struct {
	who, with ident
	ti        int
	pairKey   string // the unordered pair of identities
	p         payload
	owner     []byte // the joint identity stated in the header
	rk, mk    []byte // read key / metadata key as `who` derives them from the ACL root
	keyErr    error
}

func pairKeyOf(x, y []byte) string {
	if bytes.Compare(x, y) <= 0 {
		return string(x) + "|" + string(y)
	}
	return string(y) + "|" + string(x)
}

func (c *ctxt) oneToOne(bj *bij, keyNo map[string]int) {
	r := c.r
	a, b, x := identOf("a", newKey(r)), identOf("b", newKey(r)), identOf("x", newKey(r))
	no := func(raw []byte) int {
		if v, ok := keyNo["id:"+string(raw)]; ok {
			return v
		}
		keyNo["id:"+string(raw)] = len(keyNo) + 1
		return len(keyNo)
	}
	montNo := func(raw []byte) int {
		m, _ := crypto.Ed25519PublicKeyToCurve25519(raw)
		if v, ok := keyNo["mont:"+string(m)]; ok {
			return v
		}
		keyNo["mont:"+string(m)] = len(keyNo) + 1
		return len(keyNo)
	}
	desc := func(d *deriv) string {
		return fmt.Sprintf("o2o %s(%d) with %s(%d) type=%d", d.who.label, no(d.who.raw), d.with.label, no(d.with.raw), d.ti)
	}
	// who derives with whom: the two honest directions, unrelated third parties, the degenerate self
	// pair, and RELATED identities of both partners (public-only, so they appear as the partner)
	pairs := [][2]ident{{a, b}, {b, a}, {a, x}, {x, b}, {a, a}}
	for _, rb := range related(r, b) {
		pairs = append(pairs, [2]ident{a, rb})
		if strings.HasSuffix(rb.label, ".neg") {
			pairs = append(pairs, [2]ident{x, rb})
		}
		r.Count("o2o.related." + strings.TrimPrefix(rb.label, "b."))
	}
	for _, ra := range related(r, a) {
		if strings.HasSuffix(ra.label, ".neg") || strings.HasSuffix(ra.label, ".tors") {
			pairs = append(pairs, [2]ident{b, ra}, [2]ident{a, ra})
		}
	}
	var ds []*deriv
	for ti, ty := range []string{spacepayloads.SpaceTypeOneToOne, spacepayloads.SpaceTypeOneToOneAny} {
		for _, pr := range pairs {
			d := &deriv{who: pr[0], with: pr[1], ti: ti, pairKey: pairKeyOf(pr[0].raw, pr[1].raw)}
			p, err := o2oPayload(pr[0].priv, pr[1].pub, ty)
			if err != nil {
				if pr[1].priv != nil {
					r.Violate(prop, "", "space.o2o.construct", desc(d)+": constructor failed: "+err.Error(), []string{desc(d)})
				} else {
					r.Count("o2o.related.constructor-error")
				}
				continue
			}
			d.p = p
			d.owner = headerOf(p.raw).Identity
			d.rk, d.mk, d.keyErr = o2oKeys(pr[0].priv, p)
			ds = append(ds, d)
			c.try("o2o ctor "+pr[0].label+"-"+pr[1].label, p, "accept")
			if d.keyErr != nil || len(d.rk) == 0 || len(d.mk) == 0 {
				r.Violate(prop, "", "space.o2o.keys.oracle", fmt.Sprintf("%s: the deriving party cannot read the space keys from its own root: %v", desc(d), d.keyErr), []string{desc(d)})
			}
			// deterministic
			if p2, err := o2oPayload(pr[0].priv, pr[1].pub, ty); err != nil || !p.same(p2) {
				r.Violate(prop, "", "space.o2o.deterministic.oracle", desc(d)+": two derivations by the same party differ", []string{desc(d)})
			}
			// correspondence: the symbolic term of this derivation
			op := fmt.Sprintf("o2o %d %d %d %d %d", no(pr[0].raw), no(pr[1].raw), ti, montNo(pr[0].raw), montNo(pr[1].raw))
			m := r.Ask(op)
			if !bj.check(p.hid+"|"+p.aid+"|"+p.sid, m) {
				r.Disagree(prop, "space.o2o.terms", "real outputs and symbolic terms are not in bijection", []string{desc(d), op}, m, p.hid)
			}
			r.Case(op, true)
		}
	}
	// the property, stated on every two derivations: same unordered identity pair (and type) ⇒ identical
	// id, header, roots and keys; a different pair ⇒ all of them differ; a different type ⇒ different id
	for i, d := range ds {
		for _, e := range ds[i+1:] {
			ops := []string{desc(d), desc(e)}
			switch {
			case d.pairKey == e.pairKey && d.ti == e.ti:
				if !d.p.same(e.p) {
					r.Violate(prop, "", "space.o2o.symmetric.oracle", fmt.Sprintf("%s / %s: the two parties derive different payloads: ids %s / %s, acl %s / %s, settings %s / %s", desc(d), desc(e), d.p.hid, e.p.hid, d.p.aid, e.p.aid, d.p.sid, e.p.sid), ops)
				}
				if !bytes.Equal(d.rk, e.rk) || !bytes.Equal(d.mk, e.mk) {
					r.Violate(prop, "", "space.o2o.keys.oracle", fmt.Sprintf("%s / %s: the two parties derive different read / metadata keys", desc(d), desc(e)), ops)
				}
				r.Count("o2o.same-pair.identical")
			case d.pairKey == e.pairKey:
				if d.p.hid == e.p.hid {
					r.Violate(prop, "", "space.o2o.type.oracle", desc(d)+" / "+desc(e)+": the two 1-1 types derive the same space id", ops)
				}
			default:
				var same []string
				if d.ti == e.ti && d.p.hid == e.p.hid {
					same = append(same, "space id")
				}
				if d.ti == e.ti && bytes.Equal(d.p.raw, e.p.raw) {
					same = append(same, "header")
				}
				if d.p.aid == e.p.aid {
					same = append(same, "ACL root")
				}
				if d.p.sid == e.p.sid {
					same = append(same, "settings root")
				}
				if bytes.Equal(d.owner, e.owner) {
					same = append(same, "joint owner key")
				}
				if len(d.rk) > 0 && bytes.Equal(d.rk, e.rk) {
					same = append(same, "read key")
				}
				if len(d.mk) > 0 && bytes.Equal(d.mk, e.mk) {
					same = append(same, "metadata key")
				}
				if len(same) > 0 {
					r.Violate(prop, "", "space.o2o.injective.oracle", fmt.Sprintf("%s and %s are different identity pairs but derive the same %s", desc(d), desc(e), strings.Join(same, ", ")), ops)
				}
				r.Count("o2o.other-pair.differs")
			}
		}
	}
	c.o2oWriterMutations(a, b, x)
	// a third account reads no key out of the a-b root
	if len(ds) > 0 {
		if rkx, _, ex := o2oKeys(x.priv, ds[0].p); ex == nil && len(rkx) > 0 {
			r.Violate(prop, "", "space.o2o.keys.oracle", "a third account obtained a read key for the 1-1 space", []string{desc(ds[0])})
		}
	}
	if _, err := o2oPayload(a.priv, b.pub, "anytype.space"); err == nil {
		r.Violate(prop, "", "space.o2o.type.oracle", "a non 1-1 type was accepted by the 1-1 constructor", []string{"o2o"})
	}
}

// o2oWriterMutations: one party (holding the genuine A–B shared key) re-issues the whole 1-1 space
// consistently — ACL root, settings root, header, ids, all signed by the genuine joint key — but with
// a writer list that is not exactly the genuine pair (third identity added, a party dropped,
// duplicated or replaced, list emptied) or with another owner. "No other key pair derives them": no
// account listed in such a root may end up with a usable 1-1 state (keys) from it; building the ACL
// state must fail for every listed account that holds a private key.
func (c *ctxt) o2oWriterMutations(a, b, x ident) {
	r := c.r
	for ti, ty := range []string{spacepayloads.SpaceTypeOneToOne, spacepayloads.SpaceTypeOneToOneAny} {
		p, err := o2oPayload(a.priv, b.pub, ty)
		if err != nil {
			return
		}
		shared, err := crypto.GenerateSharedKey(a.priv, b.pub, crypto.AnysyncOneToOneSpacePath)
		if err != nil {
			return
		}
		kind := []string{"o2o", "o2oany"}[ti]
		s := &space{kind: kind, v1: true, p: p, sign: shared, master: shared}
		A, _ := a.pub.Marshall()
		B, _ := b.pub.Marshall()
		X, _ := x.pub.Marshall()
		lo, hi := A, B
		if bytes.Compare(lo, hi) > 0 {
			lo, hi = hi, lo
		}
		owner, _ := shared.GetPublic().Marshall()
		type variant struct {
			name    string
			writers [][]byte
			owner   []byte
			listed  []ident // accounts named in the list (or genuine parties) that must not get a usable state
		}
		vs := []variant{
			{"three-appended", [][]byte{lo, hi, X}, owner, []ident{a, b, x}},
			{"three-prepended", [][]byte{X, lo, hi}, owner, []ident{a, b, x}},
			{"three-middle", [][]byte{lo, X, hi}, owner, []ident{a, b, x}},
			{"three-duplicate", [][]byte{lo, hi, hi}, owner, []ident{a, b}},
			{"four", [][]byte{lo, hi, X, X}, owner, []ident{a, b, x}},
			{"one", [][]byte{A}, owner, []ident{a}},
			{"none", nil, owner, []ident{a, b}},
			{"duplicate-a", [][]byte{A, A}, owner, []ident{a}},
			{"duplicate-b", [][]byte{B, B}, owner, []ident{b}},
			{"b-replaced", [][]byte{A, X}, owner, []ident{a, x}},
			{"a-replaced", [][]byte{X, B}, owner, []ident{b, x}},
			{"owner-of-stranger", [][]byte{lo, hi}, X, []ident{a, b}},
			{"owner-empty", [][]byte{lo, hi}, nil, []ident{a, b}},
			{"writer-garbage", [][]byte{A, {1, 2, 3}}, owner, []ident{a}},
			{"owner-garbage", [][]byte{lo, hi}, []byte{9, 9}, []ident{a, b}},
		}
		for _, v := range vs {
			info := &aclrecordproto.AclOneToOneInfo{Owner: v.owner, Writers: v.writers}
			infoBytes, _ := info.MarshalVT()
			q := reissue(s, reissueOpts{
				editAcl:    func(root *aclrecordproto.AclRoot) { root.OneToOneInfo = info },
				editHeader: func(h *spacesyncproto.SpaceHeader) { h.SpaceHeaderPayload = infoBytes },
			})
			tag := fmt.Sprintf("%s writers:%s", kind, v.name)
			// the payload validator does not look into the writer list (a node stores the space); what
			// must not happen is a usable one-to-one ACL state
			got := c.try(tag, q, "any")
			r.Count("o2o.writers." + v.name + ".validator=" + got)
			for _, acc := range v.listed {
				rk, _, kerr := o2oKeys(acc.priv, q)
				if kerr == nil && len(rk) > 0 {
					r.Violate(prop, "", "space.o2o.writers.oracle",
						fmt.Sprintf("%s: a 1-1 ACL root signed by the genuine joint key whose writer list is not exactly the genuine pair (%d writers) was accepted by account %s, which derived a read key from it", tag, len(v.writers), acc.label),
						[]string{tag, describe(q, "full", c.in)})
				}
				r.Count(fmt.Sprintf("o2o.writers.%s.acl-state-rejected=%v", v.name, kerr != nil))
			}
			// correspondence with the Lean model of setOneToOneAcl: both parties and the outsider
			for _, acc := range []ident{a, b, x} {
				c.o2oState(tag, acc, q, info)
			}
		}
		// random writer lists / owners beyond the fixed variants: 0..4 entries drawn from {A, B, X,
		// undecodable bytes}, owner drawn from {A–B joint key, A–X joint key, X, nil, undecodable};
		// only the correspondence with the Lean model of setOneToOneAcl is checked on these
		ownerAX := owner
		if sax, err := crypto.GenerateSharedKey(a.priv, x.pub, crypto.AnysyncOneToOneSpacePath); err == nil {
			ownerAX, _ = sax.GetPublic().Marshall()
		}
		pool := [][]byte{A, B, X, {1, 2, 3}}
		owners := [][]byte{owner, ownerAX, X, nil, {9, 9}}
		for n := 0; n < r.Pick(4, 40); n++ {
			k := r.Intn(5)
			if r.Chance(60) {
				k = 2
			}
			var ws [][]byte
			for i := 0; i < k; i++ {
				ws = append(ws, pool[r.Intn(len(pool))])
			}
			info := &aclrecordproto.AclOneToOneInfo{Owner: owners[r.Intn(len(owners))], Writers: ws}
			infoBytes, _ := info.MarshalVT()
			q := reissue(s, reissueOpts{
				editAcl:    func(root *aclrecordproto.AclRoot) { root.OneToOneInfo = info },
				editHeader: func(h *spacesyncproto.SpaceHeader) { h.SpaceHeaderPayload = infoBytes },
			})
			for _, acc := range []ident{a, b, x} {
				c.o2oState(fmt.Sprintf("%s writers:random(%d)", kind, k), acc, q, info)
			}
		}
		// sanity: the unmodified re-issue is usable by both parties
		ok := reissue(s, reissueOpts{})
		for _, acc := range []ident{a, b, x} {
			c.o2oState(kind+" writers:genuine", acc, ok, &aclrecordproto.AclOneToOneInfo{Owner: owner, Writers: [][]byte{lo, hi}})
		}
		for _, acc := range []ident{a, b} {
			if rk, _, kerr := o2oKeys(acc.priv, ok); kerr != nil || len(rk) == 0 {
				r.Violate(prop, "", "space.reissue.selfcheck", fmt.Sprintf("harness: a consistently re-issued genuine 1-1 root is not usable by %s: %v", acc.label, kerr), []string{kind})
			}
		}
	}
}

func Run(r *corr.Run) {
	r.SetRule("every real constructor (create v0/v1, derive v0/v1, one-to-one of both types) with random keys; each output validated through ValidateSpaceStorageCreatePayload, ValidateSpaceHeader and the real create / push / pull paths of spaceService; mutators: single-byte flips of each of the six parts (sampled in quick, all positions in thorough), id/suffix rewrites, dropped parts, every protobuf field of every layer edited and re-encoded (raw / ids recomputed / re-signed), signature swaps, all 62 cross-combinations of the six parts of two valid spaces (same and different kinds), roots forged by a stranger; one-to-one: (a,B) vs (b,A) byte equality, keys, other pairs, other type. Every case is non-trivial (a full validation); distinct = distinct (kind, abstracted payload) lines")
	c := &ctxt{r: r, in: &interner{m: map[string]int{}}}
	bj := &bij{toTerm: map[string]string{}, toReal: map[string]string{}}
	keyNo := map[string]int{}
	round := 0
	for r.TimeLeft() && round < r.Pick(40, 4000) {
		round++
		// fresh symbol table per round keeps the lines short
		c.in = &interner{m: map[string]int{}}
		var spaces []*space
		for _, k := range kinds {
			s, err := build(r, k)
			if err != nil {
				r.Violate(prop, "", "space.constructor.oracle", k+": constructor failed: "+err.Error(), []string{k})
				continue
			}
			spaces = append(spaces, s)
			r.Count("ctor." + k)
		}
		for i, s := range spaces {
			if !r.TimeLeft() {
				break
			}
			got := c.try(s.kind+" ctor", s.p, "accept")
			c.paths(s.kind+" ctor", s.p, got == "ok")
			same, err := build(r, s.kind)
			if err != nil {
				continue
			}
			other := spaces[(i+1+r.Intn(len(spaces)-1))%len(spaces)]
			c.headerOnly(s, other)
			c.byteFlips(s)
			c.idMutations(s)
			c.fieldMutations(s)
			c.intraSwaps(s)
			c.reissued(s, other)
			c.signatureSwaps(s, same)
			c.crossSplices(s, same)
			c.crossSplices(s, other)
			c.forgedRoots(s, other)
			r.Sample(map[string]string{"kind": s.kind, "spaceId": s.p.hid, "aclId": s.p.aid, "settingsId": s.p.sid})
		}
		// derived spaces of one owner: same keys, different type ⇒ different header, identical roots (v1)
		if len(spaces) == len(kinds) && r.TimeLeft() {
			d1 := spaces[3]
			dpl := spacepayloads.SpaceDerivePayload{SigningKey: d1.sign, MasterKey: d1.master, SpaceType: "verif.other", SpacePayload: []byte{1}}
			if sp, err := spacepayloads.StoragePayloadForSpaceDeriveV1(dpl); err == nil {
				d2 := &space{kind: "derive1", v1: true, p: fromReal(sp), sign: d1.sign, master: d1.master}
				c.try("derive1 ctor-same-owner", d2.p, "accept")
				c.crossSplices(d1, d2)
			}
			d0 := spaces[2]
			dpl = spacepayloads.SpaceDerivePayload{SigningKey: d0.sign, MasterKey: d0.master, SpaceType: "verif.other", SpacePayload: []byte{1}}
			if sp, err := spacepayloads.StoragePayloadForSpaceDerive(dpl); err == nil {
				d2 := &space{kind: "derive0", p: fromReal(sp), sign: d0.sign, master: d0.master}
				c.try("derive0 ctor-same-owner", d2.p, "accept")
				c.crossSplices(d0, d2)
			}
		}
		for k := 0; k < 2 && r.TimeLeft(); k++ {
			c.oneToOne(bj, keyNo)
		}
	}
	r.Count("rounds")
}
